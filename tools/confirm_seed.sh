#!/bin/bash
# tools/confirm_seed.sh <Cxx> <a|b>: confirm a seeded change in a scratch worktree, then store it under /verif/seeded/
p="$1"; v="$2"
src=/tmp/seed/$p-out
wt=/tmp/confirm-$p-$v
git -C /repo worktree add -q --detach $wt HEAD || exit 2
cd $wt
res_apply=$(git apply $src/patch_$v.diff 2>&1 && echo applied)
tests=$(PYTHONPATH=$wt /venv/bin/python -m pytest -q -p no:cacheprovider 2>&1 | tail -1)
(cd $src && PYTHONPATH=$wt timeout 120 /venv/bin/python demo_$v.py >/dev/null 2>&1); with=$?
git checkout -q -- .
(cd $src && PYTHONPATH=$wt timeout 120 /venv/bin/python demo_$v.py >/dev/null 2>&1); without=$?
cd /; git -C /repo worktree remove --force $wt
echo "$p-$v: apply=[$res_apply] tests=[$tests] demo_with_patch_exit=$with demo_without_exit=$without"
if [ "$res_apply" = "applied" ] && echo "$tests" | grep -q "178 passed" && [ $with -ne 0 ] && [ $without -eq 0 ]; then
  d=/verif/seeded/$p-$v; mkdir -p $d
  cp $src/patch_$v.diff $d/patch.diff; cp $src/demo_$v.py $d/demo.py
  echo CONFIRMED > $d/.confirmed
fi

#!/bin/bash
# tools/run_all.sh "<seeds>" <check ids...> : run checks for several seeds in parallel, print one line each
seeds="$1"; shift
cd /verif
for s in $seeds; do for c in "$@"; do echo "$s $c"; done; done | xargs -P 8 -L 1 bash -c 'r=$(VERIF_SEED=$0 ./check $1 2>&1 | grep -E "VIOLATION|OK property|INFRA|Traceback|Error" | head -2 | tr "\n" " "); echo "[seed $0 $1] $r"'

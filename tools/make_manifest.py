"""Writes /verif/MANIFEST.json from one table (run after changing a check's status)."""
import json
from pathlib import Path

V = Path(__file__).resolve().parent.parent
CORE_NOTE = ("Trusted: Lean 4.33 kernel (axioms propext, Classical.choice, Quot.sound only; audited with #print axioms on every run); "
             "the hand-written model lean/LabreaModel/{Value,Dotted,Resolve,Expr,Eval}.lean is tied to /repo by differential "
             "correspondence on generated programs (harness/gen.py, impl_runner.py, Driver.lean), so the tie is as good as the "
             "generators; confectioner, CPython, json.dumps are modelled not verified; floats, RecursionError, generators-as-values, "
             "object identity of results are outside the model. Known findings (known_findings.json) are printed, not raised.")

P = {
 "C01": ("Lean 4 proof over the interpreter model (ev) + differential correspondence (eval/keys/cache facets) + cached-vs-uncached oracle",
         "dataset_cache_transparent: for every dataset `@dataset def d(p=Option(key)): return body(p=p)` (any key / body / fuel) and every history of dictionaries holding an integer under the key, each evaluation of its cached node returns the uncached outcome (no hypothesis left); cache_transparent_of_fingerprint_sound: for every history on one long-lived store a MemoryCache-cached node returns its uncached outcome, provided equal fingerprints imply equal outcomes (the one hypothesis the known findings violate), plus the cache discipline (LabreaProps/C01.lean) for every program, dictionary and history; the model is tied to the code by correspondence on random histories, and every evaluation is paired with its labrea.cache.disabled() twin on the real code (plus model-guided single-key perturbations). Full transparency is false on the current tree for the catch positions of coalesce/switch (F18/F19), brace re-substitution (F22) and parameter references in option values (F26): those are listed known findings; the proved statement excludes them explicitly."),
 "C02": ("Lean 4 proof (trace/cache invariants of ev) + correspondence (trace/cache facets) + body/effect execution counters",
         "Model-level invariants on cache events for all histories; implementation side counts body and effect executions per dataset across exact repeats, repeats with never-mentioned keys, and top-level permutations. Directed families: effects across derived datasets; the documented minimal backend (get/set only, inherited exists) and MemoryCache holding None and every falsy value in a diamond; interfaces (members with constant / function / evaluatable defaults, implementations given as functions) with body-execution counts on repeats."),
 "C03": ("Lean 4 proof (keys present, fingerprint is a function of sorted reported keys/values) + correspondence + restrict-and-re-evaluate oracle under several PYTHONHASHSEEDs",
         "keys_present_only / fingerprint_defined are proved for the whole interpreter (every expression, options, state: each reported key is present in the caller's dictionary, also below pre-set/default-option wrappers and Map assignments; AllOptions excepted), with fingerprint_agree / fingerprint_injective on the model's keys()/fingerprint for all programs; implementation oracle restricts options to keys() with an independent restrict, re-evaluates, perturbs inside/outside the reported keys and checks the fingerprint bytes against the independent expectation, in processes with different hash seeds. Sufficiency is false for effects reading options (F9), catch positions (F18/F19) and brace re-substitution (F22): listed known findings. The read log of the model is tied to the library's dotted lookups (facet reads). application_keys_cover_function: what the expression in the FUNCTION slot of an application reports is part of the application's keys. Directed families: Maps whose iterated key is a prefix / section of the key read, cached namespaces, function-slot expressions, dataset classes."),
 "C04": ("Lean 4 proof (Option resolution case analysis, set/get on dotted paths) + correspondence + independent dotted-lookup oracle",
         "Theorems about optionOp / walk / setPath / mix for all keys, values and dictionaries; implementation compared with an independent lookup over the key x value x default x domain universe and with fully-qualified Options for namespaces; scalar-prefix keys (F10) and index segments in Option.set (F17) are listed known findings. The layer-0 tie runs here: the model's getDotted / setPath / pyStr / pyEq against confectioner's get_dotted_key / set_dotted_key and Python's str / == on a systematic key x dictionary universe (key segments of every integer-literal shape: negative indices, sign, underscores, white space)."),
 "C05": ("Lean 4 proof (per-combinator semantic equations of the interpreter model) + exhaustive small trees and random trees against the model as eager reference",
         "The model's evaluate IS the eager reference semantics; theorems state each combinator's equation for all sub-expressions; the implementation must return the model's value (or fail iff the model fails) on exhaustive 3-leaf trees per combinator and random DAGs. Directed families: equal-hash value sequences, lifted falsy keywords, constants that are only shallowly immutable at every wrapping position with consumers editing them in place, ONE expression object bound to several parameters, dataset classes, interfaces."),
 "C06": ("Lean 4 proof (construction has no access to user code; trace equations) + ordered execution-trace correspondence",
         "Construction purity is structural in the model; evaluation order/selection is decided by comparing the ordered log of every user callable on the real code with the model's trace for random graphs (correspondence = oracle here). Directed families: namespaces with dataset defaults, construction steps (with_options / register / add_effect) reporting the user code they ran, dispatch Options whose domain is a dataset, dataset classes that redefine inherited members, interfaces."),
 "C07": ("Lean 4 proof over register/overload/set_dispatch/implementation histories (InterfaceSM) + correspondence + fresh-evaluation oracle",
         "Invariant-based theorems over all histories of a state machine of Overloaded/Dataset/Interface; tied to the code by generated public-API programs. set_dispatch on a warm cache (F24) is a listed known finding. Directed families: every built-in Exception subclass (RecursionError and MemoryError included, raised and genuinely produced) at every position where a dispatch value is computed; dispatch values whose text coincides (1 / '1', True / 'True', None / 'None') on one cache. Every dataset of the programs is built through one of 60 public factory spellings / keyword combinations (chosen by its number), with is_abstract / default / cache checked as declared."),
 "C08": ("Lean 4 proof (overlay equations, mix lookup algebra) + correspondence + independent-overlay oracle + input snapshots",
         "Theorems: WithOptions/WithDefaultOptions/dataset options evaluate the inner expression under mix; mix lookup lemmas for nested sections. Non-mutation of inputs cannot be a theorem about an immutable model: it is decided by deep snapshots around every operation (correspondence level for that clause). Directed families: derived-dataset chains, bodies and AllOptions consumers editing what they receive, a kept WithOptions object used with one dictionary object edited in place (compared with a fresh dictionary of equal contents), datasets reading a section and a key inside it. The layer-0 tie of the model's mix against confectioner.mix runs here."),
 "C09": ("Lean 4 proof (template scanner/resolve properties, read log) + correspondence + independent substitution oracle recording reads",
         "Theorems about findKeys/resolveR (reads are logged, keys cover reads for templates built from plain keys); implementation compared with an independent substitution over the template atom alphabet; re-substitution of brace-containing text (F22) and option values referring to template parameters (F26) are listed known findings. Directed families: the whole identifier alphabet for {:name:} parameters and parameter look-alikes; wrappers used with one dictionary object edited in place. The layer-0 tie of findKeys / resolveR against confectioner's find_template_keys / resolve runs here; integer-literal key segments (negative list indices) in templates, templated values and Option keys."),
 "C10": ("Lean 4 proof (validate success excludes missing-option failure for Option/Template fragment) + correspondence + validate/keys/evaluate agreement oracle cold and warm",
         "Agreement is checked on the real code for random graphs with total callables (and a stream with raising bodies for the weaker clause); theorems cover the model fragment stated in LabreaProps/C10.lean; F9/F20/F21/F22/F26 are listed known findings."),
 "C11": ("Lean 4 proof (explain/keys inclusion on the fragment) + correspondence + explain/keys/validate relations on every sub-dictionary chain",
         "Implementation oracle checks the four relations of the property on increasing sub-dictionaries; theorems on the model fragment in LabreaProps/C11.lean. Raw TypeError through scalar prefixes (F10) and Map.explain's static fallback (F27) are listed known findings with kernel-checked witnesses."),
 "C12": ("Lean 4 proof (every evaluate failure is an EvaluationError whose source is the evaluated node: wrapEvaluate) + correspondence on full cause chains + failure-history oracle",
         "error_source is proved for every program/dictionary/state; cause chains are compared frame by frame with the model under scripted faults; failed evaluations are followed by cache-off twins and by a no-store check on the failing object's cache. Directed families: every built-in Exception subclass x every position where the library calls user code (body, callback, effect, predicate, step, applied function, dispatch body, bind continuation, coalesce member, argument), in every run; unmatched switches over mutually unorderable keys; user-defined Evaluatable subclasses (operations from the class body, a plain mixin, a user-defined base)."),
 "C13": ("Lean 4 proof (linked-list pipeline algebra; generated helper table = hand-written spec by decide) + correspondence + symbolic-operand oracle",
         "Structural-induction theorems for + / transform / iter / keys; functions.py is translated on every run into a Lean table re-checked against the documented operand order. Directed family: steps whose bodies edit their constant parameters in place (ten public spellings, containers to depth 4, a step used several times), with the written default compared at every body entry. Every helper of labrea.functions is also run on 41 kinds of container operands (Counter, defaultdict, ChainMap, mappingproxy, UserDict, deque, one-shot iterators, protocol-only classes, ...) against its documented Python equivalent computed independently."),
 "C14": ("Lean 4 proof (block-tree induction over the runtime state machine, refinement to a per-thread stack) + correspondence on well-nested histories",
         "block_restores / served_by_top / derive_pure proved for all histories of the RuntimeSM model of runtime.py; tied by random histories on the real module in fresh threads."),
 "C15": ("Lean 4 proof (induction over interleavings of atomic steps) + deterministic scheduler driving real threads at op/line/opcode granularity",
         "Non-interference, register_all_present, cache_own_value proved for all interleavings of the atomic-step model; the atomicity assumption is explored by a controlled scheduler up to a preemption bound (bounded part: partial). Scenario families also cover user-built nodes shared by threads (WithOptions, switch, case, coalesce, template, Map, pipelines, ...) with yield points inside their modules, and the library's own context managers / derived-runtime helpers (logging.disabled, cache.disabled, handle forms, inherit) inside each thread's own handler blocks."),
 "C16": ("Lean 4 proof (cache untouched when caching is disabled, no log record when logging is disabled: Hoare-style invariants over ev) + correspondence on eval/trace/cache/log facets + switch cross-product oracle",
         "cache_off_no_io and logging_off_silent proved for every program, dictionary, state and fuel (whole interpreter); effects_off_none / effects_preserve_value per Computation; value preservation under every switch setting checked on the real code over the switch cross product within histories. option_reference_resolves / cache_switch_follows_reference (and the second spelling, effects, logging): a switch given as a reference to another option is on exactly when the referenced value is truthy. Directed family: every switch in every spelling (literals and references)."),
 "C17": ("Lean 4 proof (scripted-backend model) + correspondence with a scripted Cache subclass + exhaustive fault scripts on the first N backend calls",
         "faulty_backend_transparent / faulty_backend_total: for every history and EVERY fault script (the script is part of the state) a node cached in the faulty backend terminates with its uncached outcome, provided equal fingerprints imply equal outcomes; unconditional for a real dataset family (dataset_faulty_backend_transparent). The model's scripted cache mirrors a contract-following faulty backend; every evaluation under every fault script must equal its cache-off twin (exhaustive for N=4/6 on a dataset chain and on a coalesce member, random beyond; fault kinds: miss, lie-exists, fail-get, forget, and a backend that answers without fingerprinting). Backends driven: scripted Cache subclass (every second one raising a CacheGetFailure subclass on behalf of an inner tier; every third one a fault-injecting front over a real MemoryCache), a get/set-only backend, one dictionary object edited in place between calls."),
 "C18": ("Lean 4 proof (hook_total over subclass chains, decide over the generated class table; request events in ev) + reflection + recording pass-through handlers + substitution oracle",
         "Class-creation hooks proved for all chains and instantiated for every class of the package (table regenerated from source); request logs of real evaluations compared with the model's; substitution compared with the model's Env.subst. A directed family of 106 user-defined node-class shapes (operations from the class body, plain mixins before / after the labrea base, user-defined parents, overrides, subclasses of built-in nodes) is recorded and substituted alone, in datasets and inside the combinators."),
 "C19": ("Lean 4 proof (restrict fold over sorted keys; equality iff restricted options equal) + correspondence + independent restrict oracle + input snapshots",
         "repr_options_lookup / eq_iff_restricted proved for any key set and nesting; tied by generated dataset classes. Histories over families of related dataset classes (base, derived adding / redefining members, two levels, siblings) with fresh, reused and edited dictionaries, each step compared with the same step on a freshly built family."),
 "C20": ("Lean 4 proof (encode/decode round trip of an object-graph state algebra) + in-process and fresh-interpreter pickle round trips on all protocols",
         "state_roundtrip proved for the abstraction of pickle (partial: CPython pickle itself is modelled); behaviour compared before/after on generated explicit-form graphs; decorator-form datasets (F12) are a listed known finding. A directed family pickles every public wrapper / combinator class alone and stored inside a dataset (coverage table per labrea class in the evidence); Option.namespace objects and Map(...).values were found unpicklable and repaired in /repo (0fa780d, cf8d95e); interface members built from generated local functions (F28) are a listed known finding."),
}

REFS = {"C01": "6/C01", "C02": "6/C02", "C03": "6/C03", "C04": "6/C04", "C05": "6/C05", "C06": "6/C06", "C07": "6/C07", "C08": "6/C08",
        "C09": "6/C09", "C10": "6/C10", "C11": "6/C11", "C12": "6/C12", "C13": "6/C13", "C14": "6/C14", "C15": "6/C15", "C16": "6/C16",
        "C17": "6/C17", "C18": "6/C18", "C19": "6/C19", "C20": "6/C20"}

checks = []
for pid in sorted(P):
    tech, text = P[pid]
    checks.append({
        "property_id": pid,
        "quick_cmd": f"./check {pid} --tier quick",
        "thorough_cmd": f"./check {pid} --tier thorough",
        "evidence_file": f"/verif/evidence/{pid}.json",
        "replay_cmd_template": f"./check {pid} --replay {{path}}",
        "engine": "lean4+correspondence",
        "level_claimed": {"category": "proof", "text": text, "design_ref": "DESIGN.md §" + REFS[pid]},
        "level_note": CORE_NOTE,
        "technique": tech,
    })

m = {
 "version": 1,
 "setup_cmd": "cd lean && lake build",
 "hooks": {
  "guard": "LABREA_VERIF",
  "enable": "no source hooks: the harness observes labrea through its public API (recording handlers, a scripted Cache subclass, a logging.Handler, a logging dict inside MemoryCache) from outside /repo",
  "baseline_off_cmd": "cd /repo && /venv/bin/python -m pytest -ra -q -p no:cacheprovider --timeout=900 --continue-on-collection-errors",
  "source_commits": [],
  "add_only": True,
 },
 "engines": [
  {"name": "lean4+correspondence", "path": "/verif/lean + /verif/harness",
   "serves_properties": sorted(P),
   "kind_free_text": "hand-written executable Lean 4 model with machine-checked theorems; differential correspondence check against the real code; property oracles on the implementation as failing-input search"}],
 "checks": checks,
 "notes": "See DESIGN.md. Known findings: known_findings.json. Seeded changes used to test the checks: seeded/.",
 "not_applicable": [],
}
(V / "MANIFEST.json").write_text(json.dumps(m, indent=1))
print("checks:", len(checks))

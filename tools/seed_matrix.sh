#!/bin/bash
# tools/seed_matrix.sh <seed-id> <check ids...>: run checks against a scratch copy of /repo with the seeded change applied
# (/repo itself is not touched; VERIF_REPO points the checks at the copy)
sid="$1"; shift
cd /verif
scratch=/tmp/seedrepo-$sid-$$
rm -rf $scratch; mkdir -p $scratch
git -C /repo archive HEAD | tar -x -C $scratch
(cd $scratch && git init -q . && git apply /verif/seeded/$sid/patch.diff) || { echo "$sid: patch does not apply"; rm -rf $scratch; exit 2; }
line="$sid:"
for c in "$@"; do
  out=$(VERIF_REPO=$scratch timeout 1200 ./check "$c" 2>&1)
  if echo "$out" | grep -q "VIOLATION"; then
     if echo "$out" | grep "VIOLATION" | head -1 | grep -q "no-failing-input-found"; then r="caught(no-input)"; else r="CAUGHT"; fi
  elif echo "$out" | grep -q "OK property"; then r="missed"; else r="error"; fi
  line="$line $c=$r"
done
rm -rf $scratch /verif/out/scratch-$(basename $scratch)
echo "$line"

#!/bin/bash
# tools/seed_matrix.sh <seed-id> <check ids...>: apply seeded/<seed-id>/patch.diff to /repo, run the checks, undo
sid="$1"; shift
cd /verif
git -C /repo apply /verif/seeded/$sid/patch.diff || { echo "$sid: patch does not apply"; exit 2; }
line="$sid:"
for c in "$@"; do
  out=$(timeout 900 ./check "$c" 2>&1)
  if echo "$out" | grep -q "VIOLATION"; then
     if echo "$out" | grep "VIOLATION" | head -1 | grep -q "no-failing-input-found"; then r="caught(no-input)"; else r="CAUGHT"; fi
  elif echo "$out" | grep -q "OK property"; then r="missed"; else r="error"; fi
  line="$line $c=$r"
done
git -C /repo checkout -- .
echo "$line"

#!/bin/bash
# tools/try_seed.sh <patch-file> <check ids...> : apply a seeded change to /repo, run checks, undo.
patch="$1"; shift
cd /verif
git -C /repo apply "$patch" || { echo "patch does not apply"; exit 2; }
for c in "$@"; do
  out=$(./check "$c" 2>&1 | grep -E "VIOLATION|OK property|INFRA|KNOWN" | head -3)
  echo "[$c] $out"
done
git -C /repo checkout -- .

import json,sys
j=json.load(open(sys.argv[1]))
print("KIND",j['kind'],"|",j['what'])
p=j.get('program')
if p:
    nodes={n['id']:n for n in p['nodes']}
    print("nodes:",len(p['nodes']),"ops:",len(p['ops']))
    if len(p['nodes'])<=int(sys.argv[2]) if len(sys.argv)>2 else 40:
        for n in p['nodes']: print("  ",json.dumps(n))
        for d in p.get('dss',[]): print("  DS",json.dumps(d))
        for d in p.get('ovs',[]): print("  OV",json.dumps(d))
        for d in p.get('binds',[]): print("  BIND",json.dumps(d))
        print("  FNS",json.dumps(p.get('fns')))
print("DETAIL",json.dumps(j.get('detail'))[:1500])
if 'diff' in j: print("DIFF",json.dumps(j['diff'])[:1500])

#!/bin/bash
# tools/confirm_seed2.sh <Cxx> <a|b>: round 2 — confirm /tmp/seed2/<Cxx>-out/patch_<a|b>.diff in a scratch worktree,
# then store it under /verif/seeded/<Cxx>-<c|d>/
p="$1"; v="$2"
case $v in a) nv=c;; b) nv=d;; esac
src=/tmp/seed2/$p-out
wt=/tmp/confirm2-$p-$v
git -C /repo worktree add -q --detach $wt HEAD || exit 2
cd $wt
res_apply=$(git apply $src/patch_$v.diff 2>&1 && echo applied)
tests=$(PYTHONPATH=$wt /venv/bin/python -m pytest -q -p no:cacheprovider 2>&1 | tail -1)
(cd $src && PYTHONPATH=$wt timeout 120 /venv/bin/python demo_$v.py >/dev/null 2>&1); with=$?
git checkout -q -- .
(cd $src && PYTHONPATH=$wt timeout 120 /venv/bin/python demo_$v.py >/dev/null 2>&1); without=$?
cd /; git -C /repo worktree remove --force $wt
echo "$p-$v -> $p-$nv: apply=[$res_apply] tests=[$tests] demo_with_patch_exit=$with demo_without_exit=$without"
if [ "$res_apply" = "applied" ] && echo "$tests" | grep -q "178 passed" && [ $with -ne 0 ] && [ $without -eq 0 ]; then
  d=/verif/seeded/$p-$nv; mkdir -p $d
  cp $src/patch_$v.diff $d/patch.diff; cp $src/demo_$v.py $d/demo.py; cp $src/README.md $d/README.md
  cat > $d/meta.json <<M
{
 "id": "$p-$nv",
 "property": "$p",
 "variant": "$nv",
 "round": 2,
 "source": "written by an independent sub-agent that saw only the property text and a scratch worktree of /repo (round 2: told which sites round 1 used)",
 "needs_to_manifest": "see README.md (section for patch ${v^^})",
 "confirmed": {
  "how": "tools/confirm_seed2.sh: scratch git worktree of /repo HEAD; git apply patch.diff; pytest (178 passed); demo.py exits non-zero with the patch and 0 without; worktree removed",
  "tests_with_patch": "178 passed",
  "demo_with_patch_exit": $with,
  "demo_without_patch_exit": $without
 },
 "detected_by": []
}
M
fi

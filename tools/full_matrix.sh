#!/bin/bash
# run every seeded change against its own property's check (and a few related ones); sequential
cd /verif
out=/verif/out/seed_matrix.txt
: > $out
declare -A extra=( [C01-b]="C03" [C03-b]="C01" [C14-b]="C16 C18" [C18-a]="C14 C16" [C20-b]="C03" [C02-b]="C07" [C05-b]="C07" [C07-a]="C05" [C10-a]="C05 C06" [C06-a]="C05 C10" [C12-a]="C01 C02" [C16-b]="C08" [C09-a]="C01 C03" [C11-a]="C09" )
for d in seeded/*/; do
  sid=$(basename $d); pid=${sid%-*}
  tools/seed_matrix.sh $sid $pid ${extra[$sid]} >> $out 2>&1
done
git checkout lean/LabreaModel/Generated 2>/dev/null
echo DONE >> $out

#!/bin/bash
# run every seeded change against its own property's check (and a few related ones) on scratch copies of /repo;
# checks that regenerate lean/LabreaModel/Generated (C13, C18) run one at a time, the rest 8 at a time
cd /verif
out=/verif/out/seed_matrix.txt
: > $out
declare -A extra=( [C01-b]="C03" [C03-b]="C01" [C14-b]="C16" [C18-a]="C14 C16" [C20-b]="C03" [C02-b]="C07" [C05-b]="C07" [C07-a]="C05" [C10-a]="C05 C06" [C06-a]="C05 C10" [C12-a]="C01 C02" [C16-b]="C08" [C09-a]="C01 C03" [C11-a]="C09"
  [C10-c]="C19" [C16-d]="C15 C14" [C15-c]="C14" [C01-c]="C03" [C01-d]="C03" [C08-c]="C01" [C12-c]="C01 C05" [C06-d]="C04" [C03-d]="C05" [C09-d]="C01 C03" [C16-c]="C02 C08" [C17-c]="C05" [C12-d]="C05" [C03-i]="C19" [C09-i]="C04" [C09-j]="C04" [C02-l]="C07" [C07-l]="C03" [C09-l]="C08" [C07-k]="C12" [C16-k]="C01" [C01-k]="C17" [C07-n]="C04" [C19-n]="C03" [C02-n]="C16" [C16-n]="C05" [C12-n]="C05" [C07-o]="C09" [C15-o]="C17" [C04-o]="C13" [C05-o]="C01" )
par=""; seq=""
for d in seeded/*/; do
  sid=$(basename $d); pid=${sid%-*}
  [ -f $d/patch.diff ] || continue
  if [ $pid = C13 ] || [ $pid = C18 ]; then seq="$seq $sid"; else par="$par $sid"; fi
done
for sid in $par; do echo "$sid ${sid%-*} ${extra[$sid]}" | sed 's/ *$//'; done | xargs -P 8 -L 1 tools/seed_matrix.sh >> $out 2>&1
for sid in $seq; do tools/seed_matrix.sh $sid ${sid%-*} ${extra[$sid]} >> $out 2>&1; done
git checkout lean/LabreaModel/Generated 2>/dev/null
echo DONE >> $out

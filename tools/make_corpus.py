"""Writes /verif/corpus/*.json: hand-written tricky programs (regressions of the repaired defects, the
situations the property texts name, witnesses of the known findings).  Run once after editing; the
files are committed and replayed first by every check run.

    /venv/bin/python tools/make_corpus.py
"""
import json
import sys
from pathlib import Path

sys.path.insert(0, str(Path(__file__).resolve().parent.parent / "harness"))
from pdl import Prog, sort_json  # noqa: E402

OUT = Path(__file__).resolve().parent.parent / "corpus"
OUT.mkdir(exist_ok=True)
for f in OUT.glob("*.json"):
    f.unlink()


def twin_history(P: Prog, root: int, dicts):
    """C01/C12/C17 style: each evaluation followed by its cache-off twin"""
    pairs = []
    for o in dicts:
        P.evaluate(root, o)
        P.evaluate(root, o, cache_off=True)
        pairs.append((len(P.ops) - 2, len(P.ops) - 1))
    return pairs


def ke_history(P: Prog, root: int, dicts):
    ke = []
    for o in dicts:
        P.raw_op(op="reset")
        P.op("keys", root, o)
        P.op("evaluate", root, o)
        ke.append((len(P.ops) - 2, len(P.ops) - 1))
    return ke


def save(name: str, P: Prog, meta):
    (OUT / f"{name}.json").write_text(json.dumps({"program": P.to_json(), "meta": meta}, indent=None))


def graphs():
    """name -> (builder returning (P, root), dictionaries, known finding id or None)"""
    g = {}

    def preset_section():
        P = Prog()
        d2 = P.dataset([("s", P.option("S"))], options={"S": {"X": 1}})
        outer = P.dataset([("x", d2)])
        return P, outer
    g["preset_section_sibling"] = (preset_section, [{"S": {"Y": 1}}, {"S": {"Y": 2}}, {"S": {"Y": 1}}, {}], None)

    def preset_deep_section():
        P = Prog()
        w = P.with_options(P.option("MODEL.PARAMS"), {"MODEL": {"PARAMS": {"depth": 3}}})
        return P, P.cached(w)
    g["preset_section_depth2"] = (preset_deep_section, [{"MODEL": {"PARAMS": {"rate": 1}}}, {"MODEL": {"PARAMS": {"rate": 2}}},
                                                        {"MODEL": {"PARAMS": {"depth": 9}}}, {}], None)

    def default_section():
        P = Prog()
        w = P.with_options(P.collection("list", [P.option("DB.HOST"), P.option("DB.PORT"), P.option("DB.T", dflt=P.value(30))]),
                           {"DB": {"HOST": "localhost", "PORT": 5432, "T": 5}}, force=False)
        return P, P.cached(w)
    g["default_section_partial"] = (default_section, [{"DB": {"HOST": "prod"}}, {"DB": {"HOST": "prod", "PORT": 1}}, {}, {"DB": {}}], None)

    def list_template():
        P = Prog()
        return P, P.cached(P.option("L"))
    g["template_in_list"] = (list_template, [{"L": ["{X}"], "X": 1}, {"L": ["{X}"], "X": 2}, {"L": [{"p": "{X}/{Y}"}], "X": 1, "Y": 1},
                                             {"L": [{"p": "{X}/{Y}"}], "X": 1, "Y": 2}, {"L": [["{X}"]], "X": 3}, {"L": [["{X}"]], "X": 4}], None)

    def chain():
        P = Prog()
        d = P.dataset([("p", P.option("OUTPUT.PATH"))])
        return P, d
    base = {"OUTPUT": {"PATH": "{OUTPUT.DIR}/report.csv", "DIR": "{ROOT}/out"}}
    g["template_chain_2hop"] = (chain, [dict(base, ROOT="/data/v1"), dict(base, ROOT="/data/v2"), dict(base, ROOT="/data/v1"), base], None)

    def domain_option():
        P = Prog()
        return P, P.cached(P.option("A", dom=P.option("ALLOWED")))
    g["domain_option"] = (domain_option, [{"A": 1, "ALLOWED": [1, 2]}, {"A": 1, "ALLOWED": [2]}, {"A": 1}, {"A": 1, "ALLOWED": [1]}], None)

    def dangling_default():
        P = Prog()
        return P, P.cached(P.option("A", dflt=P.value(1)))
    g["present_dangling_template"] = (dangling_default, [{"A": "{Q}"}, {"A": "{Q}", "Q": 5}, {}, {"A": "{Q}"}], None)

    def case_condition():
        P = Prog()
        cond = P.partial(P.fnvalue("lt"), args=[P.option("T")])
        c = P.case(P.option("A"), [(cond, P.value("small"))], P.value("big"))
        return P, P.cached(c)
    g["case_condition_option"] = (case_condition, [{"A": 5, "T": 3}, {"A": 5, "T": 7}, {"A": 5, "T": 3}], None)

    def prefix_keys():
        P = Prog()
        d = P.dataset([("a", P.option("SAMPLE.SEED")), ("b", P.option("SAMPLE.SEED_OFFSET", dflt=P.value(0))), ("c", P.option("A")),
                       ("d", P.option("AB", dflt=P.value(None)))])
        return P, d
    g["prefix_named_keys"] = (prefix_keys, [{"SAMPLE": {"SEED": 100, "SEED_OFFSET": 1}, "A": 1, "AB": 2},
                                            {"SAMPLE": {"SEED": 100, "SEED_OFFSET": 2}, "A": 1, "AB": 2},
                                            {"SAMPLE": {"SEED": 100}, "A": 1, "AB": 3}, {"SAMPLE": {"SEED": 100}, "A": 1}], None)

    def section_and_child():
        P = Prog()
        d = P.dataset([("s", P.option("IO")), ("f", P.option("IO.FORMAT"))])
        return P, d
    g["section_and_member"] = (section_and_child, [{"IO": {"FORMAT": "csv", "N": 1}}, {"IO": {"FORMAT": "csv", "N": 2}}, {"IO": {"FORMAT": "x", "N": 1}}], None)

    def falsy_dispatch():
        P = Prog()
        s = P.switch(P.option("K", bare=True), [(0, P.value("zero")), (None, P.value("none")), ("", P.value("empty")), (True, P.value("true"))],
                     P.value("dflt"))
        return P, P.cached(s)
    g["falsy_dispatch_values"] = (falsy_dispatch, [{"K": 0}, {"K": False}, {"K": None}, {"K": ""}, {"K": 1}, {"K": True}, {}, {"K": "q"}], None)

    def with_callback():
        P = Prog()
        d = P.dataset([("a", P.option("A"))], callback=P.fnvalue("pair", 10))
        return P, d
    g["callback_dataset"] = (with_callback, [{"A": 2}, {"A": 3}, {"A": 2}], None)

    # ---- witnesses of the known findings
    def f18():
        P = Prog()
        first = P.switch(P.option("D", bare=True), [(1, P.option("Q"))], P.apply(P.option("B"), P.fnvalue("neg")))
        c = P.coalesce([first, P.option("B")])
        return P, P.cached(c)
    g["known_F18"] = (f18, [{"B": 5}, {"D": 1, "B": 5}], "F18")

    def f19():
        P = Prog()
        P.const_fn("mayfail", "k", **{"raise": {"cls": "ValueError", "on": [1]}})
        disp = P.apply(P.option("M", dflt=P.value("x")), P.fnvalue("mayfail"))
        s = P.switch(disp, [("k", P.value(1))], P.value(2))
        return P, P.cached(s)
    g["known_F19"] = (f19, [{"M": 1}, {}, {"M": 1}], "F19")
    return g


def main():
    G = graphs()
    for name, (mk, dicts, known) in G.items():
        dicts = [sort_json(d) for d in dicts]
        for pid in ("C01", "C12", "C17"):
            if pid == "C17" and known:
                continue
            P, root = mk()
            if pid == "C17":
                for c in list(P.caches):
                    P.caches[c] = "scripted" if P.caches[c] == "memory" else P.caches[c]
                P.raw_op(op="script", cache=1, faults=["behave", "miss", "lieExists", "failGet", "forget", "failGet"])
                pairs = twin_history(P, root, dicts + dicts)
                save(f"{pid}_{name}", P, {"faulty": pairs})
                continue
            pairs = twin_history(P, root, dicts + dicts[:2])
            meta = {"pairs": pairs} if pid == "C01" else {"fail": pairs, "root": root, "root_cid": None}
            if known:
                meta["expect_known"] = known
                if pid != "C01":
                    continue
            save(f"{pid}_{name}", P, meta)
        # C03 / C10 / C11 on the same graphs
        P, root = mk()
        ke = ke_history(P, root, dicts)
        meta = {"ke": ke, "root": root}
        if known:
            meta["expect_known"] = known
        save(f"C03_{name}", P, meta)
    # known finding F9: an effect that reads an option
    P = Prog()
    eff = P.partial(P.fnvalue("pair"), args=[P.option("OUT")])
    d = P.dataset([("a", P.option("A"))], effects=[eff])
    ke = ke_history(P, d, [sort_json({"A": 1, "OUT": "x"})])
    save("C03_known_F9", P, {"ke": ke, "root": d, "expect_known": "F9"})
    # known finding F26: an option value that refers to a template parameter
    P = Prog()
    t = P.template("{:n:} -> {PATTERN}", [("n", P.option("N"))])
    o = sort_json({"N": 7, "PATTERN": "part-{:n:}.csv"})
    for op in ("evaluate", "keys", "explain"):
        P.op(op, t, o)
    save("C09_known_F26", P, {"c09": [{"e": 0, "k": 1, "x": 2, "node": t}], "t": "{:n:} -> {PATTERN}", "expect_known": "F26",
                                    "expect_known_match": ["keys() fails", "explain() fails"]})
    witnesses()
    print(len(list(OUT.glob("*.json"))), "corpus files")


def witness(pid: str, fid: str, P: Prog, what: str, conds):
    save(f"{pid}_witness_{fid}", P, {"known_witness": {"id": fid, "what": what, "conds": conds}})


def witnesses():
    """one deterministic witness per (known finding, property) pair of known_findings.json: the check
    prints its KNOWN-FINDING line exactly when the implementation still behaves as the finding says"""
    ok, err = (lambda i, **k: dict(op=i, status="ok", **k)), (lambda i, **k: dict(op=i, status="err", **k))
    # F9 / C10
    P = Prog()
    eff = P.partial(P.fnvalue("pair"), args=[P.option("OUT")])
    d = P.dataset([("a", P.option("A"))], effects=[eff])
    P.op("keys", d, {"A": 1})
    P.op("evaluate", d, {"A": 1})
    witness("C10", "F9", P, "keys({'A': 1}) succeeds for a dataset whose effect reads Option('OUT'); evaluate (and validate) fail for the missing option OUT",
            [ok(0), err(1, raises="KeyNotFoundError")])
    # F10 / C04, C05, C11
    P = Prog()
    P.op("evaluate", P.option("S.X", dflt=P.value(7)), {"S": 5})
    witness("C04", "F10", P, "Option('S.X', 7) on {'S': 5}: the key is absent but evaluation raises a raw TypeError instead of yielding the default",
            [err(0, innermost="TypeError")])
    P = Prog()
    P.op("evaluate", P.coalesce([P.option("S.X"), P.value(1)]), {"S": 5})
    witness("C05", "F10", P, "coalesce(Option('S.X'), 1) on {'S': 5} raises TypeError instead of yielding the second member",
            [err(0, innermost="TypeError")])
    P = Prog()
    P.op("explain", P.option("S.X"), {"S": 5})
    witness("C11", "F10", P, "Option('S.X').explain({'S': 5}) fails with a raw TypeError, not an insufficient-information error",
            [err(0, innermost="TypeError")])
    # F27 / C11
    P = Prog()
    nomatch = P.case(P.value("x"), [(P.fnvalue("eq", 0), P.value(None))], None)
    inner = P.switch(P.option("K", bare=True), [("z", P.option("Q")), ("x", nomatch)], P.value(1))
    m = P.map(inner, [("K", P.value(["z", "x"]))])
    P.op("explain", m, {})
    P.op("validate", m, {})
    witness("C11", "F27", P, "Map over a switch on the mapped key, one element's explain fails: explain({}) lists nothing (static fallback) while validate({}) fails for the missing Q",
            [ok(0, value={"$": "set", "v": []}), err(1, raises="KeyNotFoundError")])
    # F17 / C04
    P = Prog()
    P.raw_op(op="set_get", n=P.option("L.0"), o={"L": [1, 2]}, v=9)
    witness("C04", "F17", P, "Option('L.0').set({'L': [1, 2]}, 9) returns {'L': {'0': 9}}, on which Option('L.0') no longer evaluates",
            [err(0, raises="KeyNotFoundError")])
    # F20 / C10
    P = Prog()
    inner = P.option("NS.B", h=1)
    ns = P.namespace("NS", [("A", P.option("NS.A")), ("B", P._node("apply", e=inner, f=P.fnvalue("tostr"), h=1))])
    P.op("evaluate", ns, {"NS": {"A": 1}})
    P.op("validate", ns, {"NS": {"A": 1}})
    witness("C10", "F20", P, "namespace with B = Option.auto() >> str: evaluate({'NS': {'A': 1}}) succeeds while validate requires NS.B",
            [ok(0), err(1, raises="KeyNotFoundError")])
    # F21 / C10
    P = Prog()
    a = P.all_options()
    P.op("keys", a, {"A": "{Q}"})
    P.op("evaluate", a, {"A": "{Q}"})
    witness("C10", "F21", P, "AllOptions.keys({'A': '{Q}'}) succeeds while AllOptions({'A': '{Q}'}) fails for the missing Q",
            [ok(0), err(1, raises="KeyNotFoundError")])
    # F22 / C09, C10 (section embedded in a longer template), C01, C03 (re-read text names an option)
    for pid in ("C09", "C10"):
        P = Prog()
        t = P.template("x{S}", [])
        P.op("validate", t, {"S": {"a": 1}})
        P.op("keys", t, {"S": {"a": 1}})
        P.op("evaluate", t, {"S": {"a": 1}})
        witness(pid, "F22", P, "Template('x{S}') on {'S': {'a': 1}}: validate and keys succeed, evaluate re-reads str(dict) as a template and fails",
                [ok(0), ok(1), err(2, raises="KeyNotFoundError")])
    esc = "\\{B\\}"
    P = Prog()
    t = P.cached(P.template("{:p:}", [("p", P.option("A"))]))
    P.evaluate(t, {"A": esc, "B": 1})
    P.evaluate(t, {"A": esc, "B": 2})
    P.evaluate(t, {"A": esc, "B": 2}, cache_off=True)
    witness("C01", "F22", P, "cached Template('{:p:}', p=Option('A')) with A='\\{B\\}': the substituted text is re-read and reads B, which keys() does not report: stale hit after B changed",
            [ok(0, value="1"), ok(1, value="1"), ok(2, value="2")])
    P = Prog()
    t = P.template("{:p:}", [("p", P.option("A"))])
    P.op("keys", t, {"A": esc, "B": 1})
    P.op("evaluate", t, {"A": esc, "B": 1})
    P.op("evaluate", t, {"A": esc})
    witness("C03", "F22", P, "Template('{:p:}', p=Option('A')) with A='\\{B\\}': keys() is {'A'} but evaluation on the restriction to it fails (B is read)",
            [ok(0, value={"$": "set", "v": ["A"]}), ok(1, value="1"), err(2, raises="KeyNotFoundError")])
    # F31 / C01
    P = Prog()
    c = P.cached(P.coalesce([P.option("K", dflt=P.value("auto"), dom=P.value(["fast", "exact"])), P.option("K2")]))
    P.evaluate(c, {"K2": "fast"})
    P.evaluate(c, {"K2": "exact"})
    P.evaluate(c, {"K2": "exact"}, cache_off=True)
    witness("C01", "F31", P, "cached coalesce(Option('K', 'auto', domain=['fast', 'exact']), Option('K2')): the first member validates (its default is "
            "not checked against its domain) so keys() is empty, evaluation rejects the default and reads K2: stale hit after K2 changed",
            [ok(0, value="fast"), ok(1, value="fast"), ok(2, value="exact")])
    # F26 / C01, C10
    o = sort_json({"N": 7, "PATTERN": "part-{:n:}.csv"})
    P = Prog()
    t = P.cached(P.template("{:n:} -> {PATTERN}", [("n", P.option("N"))]))
    P.evaluate(t, o)
    P.evaluate(t, o, cache_off=True)
    witness("C01", "F26", P, "cached Template whose option value refers to a {:param:}: the cached evaluation fails in keys() (ValueError) where the uncached one succeeds",
            [err(0, innermost="ValueError"), ok(1, value="7 -> part-7.csv")])
    P = Prog()
    t = P.template("{:n:} -> {PATTERN}", [("n", P.option("N"))])
    P.op("evaluate", t, o)
    P.op("keys", t, o)
    P.op("validate", t, o)
    witness("C10", "F26", P, "Template whose option value refers to a {:param:}: evaluate succeeds while keys() raises ValueError and validate() KeyNotFoundError(':n:')",
            [ok(0, value="7 -> part-7.csv"), err(1, innermost="ValueError"), err(2, raises="KeyNotFoundError")])


if __name__ == "__main__":
    main()

"""tools/matrix_to_json.py: out/seed_matrix.txt (written by tools/full_matrix.sh) -> seeded/MATRIX.json,
seeded/<id>/meta.json["detected_by"], and a markdown table on stdout (pasted into DESIGN.md section 0.6)."""
import json
import re
import sys
from pathlib import Path

V = Path(__file__).resolve().parent.parent
rows = {}
for line in (V / "out" / "seed_matrix.txt").read_text().splitlines():
    m = re.match(r"^(C\d\d-[a-z]):\s*(.*)$", line)
    if not m:
        continue
    rows[m.group(1)] = dict(x.split("=") for x in m.group(2).split())
(V / "seeded" / "MATRIX.json").write_text(json.dumps(dict(sorted(rows.items())), indent=1))
print("| change | file(s) touched | own check | other checks run |")
print("|---|---|---|---|")
for sid, res in sorted(rows.items()):
    d = V / "seeded" / sid
    meta = json.loads((d / "meta.json").read_text())
    meta["detected_by"] = [{"check": c, "result": r} for c, r in res.items()]
    meta["what_ran"] = ("tools/full_matrix.sh -> tools/seed_matrix.sh: scratch copy of /repo HEAD with patch.diff applied, "
                        "VERIF_REPO pointing at it; quick tier, seed 0")
    (d / "meta.json").write_text(json.dumps(meta, indent=1))
    files = sorted({l[6:].strip().replace("labrea/", "") for l in (d / "patch.diff").read_text().splitlines() if l.startswith("+++ b/")})
    own = sid[:3]
    others = ", ".join(f"{c}: {r}" for c, r in res.items() if c != own) or "—"
    print(f"| {sid} | {', '.join(files)} | {res.get(own, 'not run')} | {others} |")
n = len(rows)
own_caught = sum(1 for s, r in rows.items() if r.get(s[:3], "").lower().startswith("caught"))
with_input = sum(1 for s, r in rows.items() if r.get(s[:3]) == "CAUGHT")
any_caught = sum(1 for s, r in rows.items() if any(v.lower().startswith("caught") for v in r.values()))
print(f"\n{n} changes; caught by the check of their own property: {own_caught} ({with_input} with a concrete failing input); "
      f"caught by some check: {any_caught}", file=sys.stderr)

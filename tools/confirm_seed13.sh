#!/bin/bash
# tools/confirm_seed13.sh <Cxx>: round 13 — confirm /tmp/seed13/<Cxx>-out/patch.diff in a scratch worktree, store as seeded/<Cxx>-f/
p="$1"; nv=o
src=/tmp/seed13/$p-out
wt=/tmp/confirm13-$p
git -C /repo worktree add -q --detach $wt HEAD || exit 2
cd $wt
res_apply=$(git apply $src/patch.diff 2>&1 && echo applied)
tests=$(PYTHONPATH=$wt /venv/bin/python -m pytest -q -p no:cacheprovider 2>&1 | tail -1)
(cd $src && PYTHONPATH=$wt timeout 300 /venv/bin/python demo.py >/dev/null 2>&1); with=$?
git checkout -q -- .
(cd $src && PYTHONPATH=$wt timeout 300 /venv/bin/python demo.py >/dev/null 2>&1); without=$?
cd /; git -C /repo worktree remove --force $wt
echo "$p -> $p-$nv: apply=[$res_apply] tests=[$tests] demo_with_patch_exit=$with demo_without_exit=$without"
if [ "$res_apply" = "applied" ] && echo "$tests" | grep -q "178 passed" && [ $with -ne 0 ] && [ $without -eq 0 ]; then
  d=/verif/seeded/$p-$nv; mkdir -p $d
  cp $src/patch.diff $d/patch.diff; cp $src/demo.py $d/demo.py; cp $src/README.md $d/README.md
  cat > $d/meta.json <<M
{
 "id": "$p-$nv",
 "property": "$p",
 "variant": "$nv",
 "round": 13,
 "source": "written by an independent sub-agent that saw only the property text and a scratch worktree of /repo (round 13: told which sites the earlier rounds used)",
 "needs_to_manifest": "see README.md",
 "confirmed": {
  "how": "tools/confirm_seed13.sh: scratch git worktree of /repo HEAD; git apply patch.diff; pytest (178 passed); demo.py exits non-zero with the patch and 0 without; worktree removed",
  "tests_with_patch": "178 passed",
  "demo_with_patch_exit": $with,
  "demo_without_patch_exit": $without
 },
 "detected_by": []
}
M
fi

/-
  drv_hook — driver of the class-creation model (property C18).

    drv_hook table      prints one line per class of the generated class table:
                          <id> <name> mro=<ids> | e:<hk>,<attr>,<slot>,<req>,<ran>,<mdd> | v:… | k:… | x:…
    drv_hook            reads one synthetic subclass chain per stdin line and prints one line per chain:
                          <class>|<class>|…   with <class> = e:<hk>,<attr>,<slot>,<req>,<ran>,<ok>,<int>;v:…;k:…;x:…

  Chain line:  BASE|BODY|BODY|…
    BASE  = T:<table id>            the chain starts below that table class
          | M:<id>,<id>,…           below several pure roots (like Effect)
    BODY  = <tok>,<tok>,<tok>,<tok>,<ssss>     tokens for evaluate,validate,keys,explain; s = 0/1 `def __labrea_m__`
    tok   = -            absent
          | d            def
          | p<j>         assignment of the plain outside function j
          | f<j>         assignment of a function carrying a hand-set marker
          | a<i>.<m>     assignment of getattr(chain class i, m)      (m one of e v k x)
          | b.<m>        assignment of getattr(base class, m)          (T: bases only)
          | t<id>.<m>    assignment of getattr(table class id, m)
  Function names: u<cls>.<m> def m in cls; s<cls>.<m> def __labrea_m__ in cls; x<j>; f<j>; w.<m> wrapper; - none.
  Chain class i has id 1000+i.
-/
import LabreaModel.Hook
import LabreaModel.Generated.ClassTable

open Labrea.Hook

def ml : Meth → String
  | .evaluate => "e" | .validate => "v" | .keys => "k" | .explain => "x"

def parseM (s : String) : Option Meth :=
  match s with
  | "e" => some .evaluate | "v" => some .validate | "k" => some .keys | "x" => some .explain
  | _ => none

def fnS : Option Fn → String
  | none => "-"
  | some (.user c m) => s!"u{c}.{ml m}"
  | some (.slotfn c m) => s!"s{c}.{ml m}"
  | some (.ext j) => s!"x{j}"
  | some (.wrapper m) => s!"w.{ml m}"
  | some (.fake j) => s!"f{j}"

def b01 (b : Bool) : String := if b then "1" else "0"

def reqS (l : List Meth) : String := if l.isEmpty then "-" else String.intercalate "+" (l.map ml)

def methOrder : List Meth := [.evaluate, .validate, .keys, .explain]

/-- observation of method `m` on the class with MRO `w` whose ancestors are `anc` -/
def obsM (anc w : MRO) (m : Meth) : String :=
  let o := call w m
  s!"{b01 (hooked anc m)},{fnS (lookupAttr m w)},{fnS (lookupSlot m w)},{reqS o.requests},{fnS o.ran}"

def tableLine (t : List Entry) (r : Row) : String :=
  let cols := methOrder.map fun m =>
    let mdd := fnS (mostDerivedDef t m (t.length + 1) r.id)
    s!"{ml m}:{obsM r.anc r.mro m},{mdd}"
  let mro := String.intercalate "," (r.mro.map fun c => toString c.id)
  s!"{r.id} {r.name} mro={mro} | " ++ String.intercalate " | " cols

def resolveFrom (src : MRO) (m' : Meth) : Option Def :=
  match lookupAttr m' src with
  | some (.wrapper mm) => some (.alias (lookupSlot mm src) mm)
  | some f => some (.fn f)
  | none => none

def parseTok (rows : List Row) (base : Option MRO) (mros : Array MRO) (id : Nat) (m : Meth)
    (tok : String) : Except String Def :=
  if tok == "-" then .ok .absent
  else if tok == "d" then .ok (.fn (.user id m))
  else
    let hd := tok.take 1
    let rest := (tok.drop 1).toString
    if hd == "p" then
      match rest.toNat? with | some j => .ok (.fn (.ext j)) | none => .error s!"bad token {tok}"
    else if hd == "f" then
      match rest.toNat? with | some j => .ok (.fn (.fake j)) | none => .error s!"bad token {tok}"
    else
      match rest.splitOn "." with
      | [k, ms] =>
        match parseM ms with
        | none => .error s!"bad method in {tok}"
        | some m' =>
          let src : Except String MRO :=
            if hd == "a" then
              match k.toNat? with
              | some i => if h : i < mros.size then .ok mros[i] else .error s!"bad index in {tok}"
              | none => .error s!"bad index in {tok}"
            else if hd == "b" then
              match base with | some w => .ok w | none => .error "b. needs a T: base"
            else if hd == "t" then
              match k.toNat? with
              | some i => match findRow rows i with | some r => .ok r.mro | none => .error s!"no table class {i}"
              | none => .error s!"bad id in {tok}"
            else .error s!"bad token {tok}"
          match src with
          | .error e => .error e
          | .ok w =>
            match resolveFrom w m' with
            | some d => .ok d
            | none => .error s!"noattr {tok}"
      | _ => .error s!"bad token {tok}"

def parseBody (rows : List Row) (base : Option MRO) (mros : Array MRO) (id : Nat) (s : String) :
    Except String Body :=
  match s.splitOn "," with
  | [te, tv, tk, tx, ss] => do
    let de ← parseTok rows base mros id .evaluate te
    let dv ← parseTok rows base mros id .validate tv
    let dk ← parseTok rows base mros id .keys tk
    let dx ← parseTok rows base mros id .explain tx
    let cs := ss.toList
    if cs.length != 4 then throw s!"bad slot flags {ss}"
    let fl : Quad Bool := ⟨cs[0]! == '1', cs[1]! == '1', cs[2]! == '1', cs[3]! == '1'⟩
    pure { id := id, meth := (Quad.mk de dv dk dx).get, slot := fl.get, root := fun _ => false }
  | _ => throw s!"bad body {s}"

def parseBase (rows : List Row) (s : String) : Except String (MRO × Bool) :=
  if s.startsWith "T:" then
    match (s.drop 2).toString.toNat? with
    | some i => match findRow rows i with
      | some r => .ok (r.mro, true)
      | none => .error s!"no table class {i}"
    | none => .error s!"bad base {s}"
  else if s.startsWith "M:" then
    let ids := ((s.drop 2).toString.splitOn ",").map String.toNat?
    ids.foldr (fun i acc => match i, acc with
      | some i, .ok (w, _) => match findRow rows i with
        | some r => if r.anc.isEmpty then .ok (r.mro ++ w, false) else .error s!"{i} is not a pure root"
        | none => .error s!"no table class {i}"
      | none, _ => .error s!"bad base {s}"
      | _, .error e => .error e) (.ok ([], false))
  else .error s!"bad base {s}"

def chainLine (rows : List Row) (line : String) : String :=
  match line.splitOn "|" with
  | [] => "ERR empty"
  | bs :: bodies =>
    match parseBase rows bs with
    | .error e => s!"ERR {e}"
    | .ok (w0, single) =>
      let baseOpt := if single then some w0 else none
      let rec go (i : Nat) (w : MRO) (mros : Array MRO) (done : List Body) (todo : List String)
          (acc : List String) : String :=
        match todo with
        | [] => String.intercalate "|" acc.reverse
        | t :: ts =>
          match parseBody rows baseOpt mros (1000 + i) t with
          | .error e => s!"ERR {e}"
          | .ok b =>
            let w' := extend w b
            let bodiesSoFar := done ++ [b]
            let cols := methOrder.map fun m =>
              let r0 := resolved m w0
              let okS :=
                if hooked w0 m then
                  b01 (decide (Inv m w0 r0) && decide (ChainOK m (wrappedAt m w0) r0 bodiesSoFar))
                else "n"
              s!"{ml m}:{obsM w w' m},{okS},{fnS (intended m r0 bodiesSoFar)}"
            go (i + 1) w' (mros.push w') bodiesSoFar ts (String.intercalate ";" cols :: acc)
      go 0 w0 #[] [] bodies []

def main (args : List String) : IO Unit := do
  match evalTable classTable [] with
  | none =>
    IO.println "ERR the class table has a shape the model does not cover"
  | some rows =>
    if args == ["table"] then
      for r in rows do
        IO.println (tableLine classTable r)
    else
      let stdin ← IO.getStdin
      let stdout ← IO.getStdout
      let rec loop : Nat → IO Unit
        | 0 => pure ()
        | n + 1 => do
          let line ← stdin.getLine
          if line.isEmpty then pure ()
          else
            let l := line.trimAscii.toString
            if l.isEmpty then stdout.putStrLn "" else stdout.putStrLn (chainLine rows l)
            loop n
      loop 100000000
      stdout.flush

/-
  drv_iface — runs the InterfaceSM model on histories (property C07).

  stdin: one JSON object per line
    {"impls":[spec…], "disps":[spec…], "ops":[op…]}
  impl spec (index = ImplId):
    {"k":"leaf","tag":T,"reads":[[key, null | {"d":v}]…]}     body returns (T, values…)
    {"k":"const","v":v}                                         Value(v)
    {"k":"opt","key":K,"d": null | {"d":v}}                     Option(K[, v])
    {"k":"sw","key":K,"tbl":[[alias, leaf]…],"dflt": leaf|null,"cb": n|null}
                                                               a frozen dispatching dataset
  dispatch-dataset spec (index = DispId): {"key":Q,"map":[[from,to]…]}   body: MAP.get(x, x)
  ops: ["new",d,disp,dflt|null,cb|null] ["reg",d,alias,i] ["ovl",[[d,[alias…]]…],i]
       ["setd",d,disp] ["iface",I,disp,[[name,d]…]] ["impl",[I…],[alias…],[[name,i]…]]
       ["eval",d,{opts}]
  disp: ["missing"] | ["key",K] | ["keyd",K,v] | ["ds",n]
  values: JSON scalars, arrays (lists), {"t":[…]} (tuples).  Callback n maps v to ("cb", n, v).
  stdout: one line per input line, the observations of the operations joined by " | ".
-/
import Lean.Data.Json
import LabreaModel.InterfaceSM
open Lean Labrea Labrea.Iface

namespace DrvIface

/-! ### JSON -> model values (fuel-bounded, total) -/

def jsonToV : Nat → Json → Except String V
  | 0, _ => .error "value too deep"
  | _ + 1, .null => .ok .none
  | _ + 1, .bool b => .ok (.bool b)
  | _ + 1, .num n => if n.exponent = 0 then .ok (.int n.mantissa) else .error "non-integer number"
  | _ + 1, .str s => .ok (.str s)
  | f + 1, .arr a => (a.toList.mapM (jsonToV f)).map V.list
  | f + 1, j@(.obj _) =>
    match j.getObjVal? "t" with
    | .ok (.arr a) => (a.toList.mapM (jsonToV f)).map V.tuple
    | _ => .error "unsupported object value"

def toV (j : Json) : Except String V := jsonToV 8 j

def toAlias (j : Json) : Except String Alias := do
  let v ← toV j
  match aliasOf v with
  | some a => pure a
  | Option.none => throw "alias not hashable"

def optWrapped (j : Json) : Except String (Option V) :=
  match j with
  | .null => pure Option.none
  | _ => do
    let d ← j.getObjVal? "d"
    let v ← toV d
    pure (some v)

/-! ### the concrete environment -/

structure LeafSpec where
  tag : String
  reads : List (String × Option V)

inductive ImplSpec where
  | leaf (l : LeafSpec)
  | const (v : V)
  | opt (key : String) (dflt : Option V)
  | sw (key : String) (tbl : List (Alias × LeafSpec)) (dflt : Option LeafSpec) (cb : Option Nat)

structure DispSpec where
  key : String
  map : List (V × V)

/-- the arguments of a body: present option, else its default, else KeyNotFoundError -/
def readArgs (o : Opts) : List (String × Option V) → Except Err (List V)
  | [] => .ok []
  | (k, d) :: rest =>
    match alookup k o, d with
    | some v, _ => (readArgs o rest).map (v :: ·)
    | Option.none, some dv => (readArgs o rest).map (dv :: ·)
    | Option.none, Option.none => .error (.keyNotFound k)

def readKeys (o : Opts) : List (String × Option V) → Except Err (List String)
  | [] => .ok []
  | (k, d) :: rest =>
    match alookup k o, d with
    | some _, _ => (readKeys o rest).map (k :: ·)
    | Option.none, some _ => readKeys o rest
    | Option.none, Option.none => .error (.keyNotFound k)

def LeafSpec.val (l : LeafSpec) (o : Opts) : Except Err V :=
  (readArgs o l.reads).map fun vs => V.tuple (V.str l.tag :: vs)

def LeafSpec.keys (l : LeafSpec) (o : Opts) : Except Err (List String) := readKeys o l.reads

def cbFun (n : Nat) (v : V) : V := .tuple [.str "cb", .int n, v]

/-- the frozen nested dataset `sw`: a `Cfg` over a private environment of leaves -/
def swEnv (tbl : List (Alias × LeafSpec)) (dflt : Option LeafSpec) : Env where
  implVal := fun i o => match (tbl.map Prod.snd ++ dflt.toList)[i]? with
    | some l => l.val o
    | Option.none => .error (.other "no leaf")
  implKeys := fun i o => match (tbl.map Prod.snd ++ dflt.toList)[i]? with
    | some l => l.keys o
    | Option.none => .error (.other "no leaf")
  dispVal := fun _ _ => .error (.other "no dispatch dataset")
  dispKeys := fun _ _ => .error (.other "no dispatch dataset")
  cb := cbFun

def swCfg (key : String) (tbl : List (Alias × LeafSpec)) (dflt : Option LeafSpec)
    (cb : Option Nat) : Cfg :=
  { dispatch := .key key,
    table := (List.range tbl.length).zip tbl |>.foldl (fun t p => tinsert p.2.1 p.1 t) [],
    default := dflt.map fun _ => tbl.length,
    callback := cb }

def ImplSpec.val (o : Opts) : ImplSpec → Except Err V
  | .leaf l => l.val o
  | .const v => .ok v
  | .opt k d => match alookup k o, d with
    | some v, _ => .ok v
    | Option.none, some dv => .ok dv
    | Option.none, Option.none => .error (.keyNotFound k)
  | .sw key tbl dflt cb => den (swEnv tbl dflt) (swCfg key tbl dflt cb) o

def ImplSpec.keys (o : Opts) : ImplSpec → Except Err (List String)
  | .leaf l => l.keys o
  | .const _ => .ok []
  | .opt k d => match alookup k o, d with
    | some _, _ => .ok [k]
    | Option.none, some _ => .ok []
    | Option.none, Option.none => .error (.keyNotFound k)
  | .sw key tbl dflt cb =>
    match select (swEnv tbl dflt) (swCfg key tbl dflt cb) o with
    | .error e => .error e
    | .ok ch => chosenKeys (swEnv tbl dflt) (swCfg key tbl dflt cb) o ch

def DispSpec.val (d : DispSpec) (o : Opts) : Except Err V :=
  match alookup d.key o with
  | Option.none => .error (.keyNotFound d.key)
  | some v => match d.map.find? (fun p => p.1 == v) with
    | some p => .ok p.2
    | Option.none => .ok v

def DispSpec.keys (d : DispSpec) (o : Opts) : Except Err (List String) :=
  match alookup d.key o with
  | Option.none => .error (.keyNotFound d.key)
  | some _ => .ok [d.key]

def mkEnv (impls : Array ImplSpec) (disps : Array DispSpec) : Env where
  implVal := fun i o => match impls[i]? with
    | some sp => sp.val o
    | Option.none => .error (.other "no impl")
  implKeys := fun i o => match impls[i]? with
    | some sp => sp.keys o
    | Option.none => .error (.other "no impl")
  dispVal := fun i o => match disps[i]? with
    | some sp => sp.val o
    | Option.none => .error (.other "no disp")
  dispKeys := fun i o => match disps[i]? with
    | some sp => sp.keys o
    | Option.none => .error (.other "no disp")
  cb := cbFun

/-! ### parsing -/

def parseLeaf (j : Json) : Except String LeafSpec := do
  let tag ← (← j.getObjVal? "tag").getStr?
  let reads ← (← j.getObjVal? "reads").getArr?
  let rs ← reads.toList.mapM fun r => do
    let a ← r.getArr?
    let k ← (a.getD 0 .null).getStr?
    let d ← optWrapped (a.getD 1 .null)
    pure (k, d)
  pure ⟨tag, rs⟩

def parseOptNat (j : Json) : Except String (Option Nat) :=
  match j with
  | .null => pure Option.none
  | _ => do let n ← j.getNat?; pure (some n)

def parseImpl (j : Json) : Except String ImplSpec := do
  let k ← (← j.getObjVal? "k").getStr?
  match k with
  | "leaf" => do let l ← parseLeaf j; pure (.leaf l)
  | "const" => do let v ← toV (← j.getObjVal? "v"); pure (.const v)
  | "opt" => do
    let key ← (← j.getObjVal? "key").getStr?
    let d ← optWrapped ((j.getObjVal? "d").toOption.getD .null)
    pure (.opt key d)
  | "sw" => do
    let key ← (← j.getObjVal? "key").getStr?
    let tblJ ← (← j.getObjVal? "tbl").getArr?
    let tbl ← tblJ.toList.mapM fun e => do
      let a ← e.getArr?
      let al ← toAlias (a.getD 0 .null)
      let l ← parseLeaf (a.getD 1 .null)
      pure (al, l)
    let dflt ← match (j.getObjVal? "dflt").toOption.getD .null with
      | .null => pure Option.none
      | dj => do let l ← parseLeaf dj; pure (some l)
    let cb ← parseOptNat ((j.getObjVal? "cb").toOption.getD .null)
    pure (.sw key tbl dflt cb)
  | _ => throw s!"unknown impl kind {k}"

def parseDispSpec (j : Json) : Except String DispSpec := do
  let key ← (← j.getObjVal? "key").getStr?
  let mp ← (← j.getObjVal? "map").getArr?
  let m ← mp.toList.mapM fun e => do
    let a ← e.getArr?
    let f ← toV (a.getD 0 .null)
    let t ← toV (a.getD 1 .null)
    pure (f, t)
  pure ⟨key, m⟩

def parseDispatch (j : Json) : Except String Dispatch := do
  let a ← j.getArr?
  let k ← (a.getD 0 .null).getStr?
  match k with
  | "missing" => pure .missing
  | "key" => do let s ← (a.getD 1 .null).getStr?; pure (.key s)
  | "keyd" => do
    let s ← (a.getD 1 .null).getStr?
    let v ← toV (a.getD 2 .null)
    pure (.keyDefault s v)
  | "ds" => do let n ← (a.getD 1 .null).getNat?; pure (.dataset n)
  | _ => throw s!"unknown dispatch {k}"

def parseOpts (j : Json) : Except String Opts := do
  let o ← j.getObj?
  o.toList.mapM fun (k, vj) => do
    let v ← toV vj
    pure (k, v)

def parseOp (j : Json) : Except String Op := do
  let a ← j.getArr?
  let k ← (a.getD 0 .null).getStr?
  let arg (i : Nat) : Json := a.getD i .null
  match k with
  | "new" => do
    let d ← (arg 1).getNat?
    let disp ← parseDispatch (arg 2)
    let dflt ← parseOptNat (arg 3)
    let cb ← parseOptNat (arg 4)
    pure (.newDs d disp dflt cb)
  | "reg" => do
    let d ← (arg 1).getNat?
    let al ← toAlias (arg 2)
    let i ← (arg 3).getNat?
    pure (.register d al i)
  | "ovl" => do
    let ts ← (arg 1).getArr?
    let targets ← ts.toList.mapM fun t => do
      let ta ← t.getArr?
      let d ← (ta.getD 0 .null).getNat?
      let as ← (ta.getD 1 .null).getArr?
      let als ← as.toList.mapM toAlias
      pure (d, als)
    let i ← (arg 2).getNat?
    pure (.overload targets i)
  | "setd" => do
    let d ← (arg 1).getNat?
    let disp ← parseDispatch (arg 2)
    pure (.setDispatch d disp)
  | "iface" => do
    let I ← (arg 1).getNat?
    let disp ← parseDispatch (arg 2)
    let ms ← (arg 3).getArr?
    let members ← ms.toList.mapM fun m => do
      let ma ← m.getArr?
      let n ← (ma.getD 0 .null).getStr?
      let d ← (ma.getD 1 .null).getNat?
      pure (n, d)
    pure (.defineInterface I disp members)
  | "impl" => do
    let is ← (arg 1).getArr?
    let ifs ← is.toList.mapM fun x => x.getNat?
    let as ← (arg 2).getArr?
    let als ← as.toList.mapM toAlias
    let ps ← (arg 3).getArr?
    let provided ← ps.toList.mapM fun p => do
      let pa ← p.getArr?
      let n ← (pa.getD 0 .null).getStr?
      let i ← (pa.getD 1 .null).getNat?
      pure (n, i)
    pure (.defineImpl ifs als provided)
  | "eval" => do
    let d ← (arg 1).getNat?
    let o ← parseOpts (arg 2)
    pure (.evaluate d o)
  | _ => throw s!"unknown op {k}"

/-! ### canonical printing -/

def showV : Nat → V → String
  | 0, _ => "…"
  | _ + 1, .none => "null"
  | _ + 1, .bool b => if b then "true" else "false"
  | _ + 1, .int i => toString i
  | _ + 1, .str s => "\"" ++ s ++ "\""
  | f + 1, .list xs => "[" ++ ",".intercalate (xs.map (showV f)) ++ "]"
  | f + 1, .tuple xs => "(" ++ ",".intercalate (xs.map (showV f)) ++ ")"
  | _ + 1, .missing => "MISSING"
  | _ + 1, _ => "?"

def showFp (fp : Fingerprint) : String :=
  "[" ++ ",".intercalate (fp.map fun p => p.1 ++ "=" ++ match p.2 with
    | some v => showV 10 v
    | Option.none => "<absent>") ++ "]"

def showErr : Err → String
  | .keyNotFound k => "KeyNotFoundError:" ++ k
  | .switchError _ => "SwitchError"
  | .unhashable => "TypeError:unhashable"
  | .other t => "Other:" ++ t

def showObs : Obs → String
  | .done => "ok"
  | .valueError => "ValueError"
  | .typeError (.unknownMember n) => "TypeError:unknown:" ++ n
  | .typeError (.missingAbstract n) => "TypeError:abstract:" ++ n
  | .eval out => match out.res with
    | .ok v => "val=" ++ showV 10 v ++ (if out.hit then " hit" else " miss") ++ " fp=" ++
        (match out.fp with | some fp => showFp fp | Option.none => "-")
    | .error e => "err=" ++ showErr e

def runLine (line : String) : String :=
  let r : Except String String := do
    let j ← Json.parse line
    let implsJ ← (← j.getObjVal? "impls").getArr?
    let impls ← implsJ.mapM parseImpl
    let dispsJ ← (← j.getObjVal? "disps").getArr?
    let disps ← dispsJ.mapM parseDispSpec
    let opsJ ← (← j.getObjVal? "ops").getArr?
    let ops ← opsJ.toList.mapM parseOp
    let env := mkEnv impls disps
    pure (" | ".intercalate ((runObs env St.init ops).map showObs))
  match r with
  | .ok s => s
  | .error e => "PARSE-ERROR " ++ e

end DrvIface

def main : IO Unit := do
  let stdin ← IO.getStdin
  let stdout ← IO.getStdout
  let mut go := true
  while go do
    let line ← stdin.getLine
    if line.isEmpty then
      go := false
    else
      let l := (line.trimAsciiEnd).toString
      if !l.isEmpty then stdout.putStrLn (DrvIface.runLine l)

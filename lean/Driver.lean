def main : IO Unit := IO.println "ok"

/-
  Line-protocol driver for the core model: one PDL program (JSON) per input line, one JSON
  observation list per output line.  See harness/pdl.md for the format.  This file is glue
  (parsing, printing, the concrete library of user callables); it contains no model logic.
-/
import Lean.Data.Json
import LabreaModel.Eval
open Lean Labrea

/-! ### JSON ⇄ V -/

partial def vOfJson (j : Json) : V :=
  match j with
  | .null => .none
  | .bool b => .bool b
  | .num n => .int n.mantissa   -- integers only (exponent 0)
  | .str s => .str s
  | .arr a => .list (a.toList.map vOfJson)
  | .obj _ =>
    match j.getObjValAs? String "$" with
    | .ok tag =>
      let arr (k : String) : List V := match j.getObjVal? k with
        | .ok (.arr a) => a.toList.map vOfJson
        | _ => []
      let kvs (k : String) : List (String × V) := match j.getObjVal? k with
        | .ok (.arr a) => a.toList.filterMap fun p => match p with
          | .arr #[.str n, v] => some (n, vOfJson v)
          | _ => Option.none
        | _ => []
      let f : String := (j.getObjValAs? String "f").toOption.getD ""
      match tag with
      | "tuple" => .tuple (arr "v")
      | "set" => .set (arr "v")
      | "app" => .app f (arr "a") (kvs "k")
      | "fn" => .fn f (arr "a") (kvs "k")
      | "comp" => .comp (arr "v")
      | "missing" => .missing
      | "dict" => .dict (kvs "v")
      | _ => .none
    | .error _ =>
      match j with
      | .obj o => .dict (o.toList.map fun (k, v) => (k, vOfJson v))
      | _ => .none

def sortByKey {α} (xs : List (String × α)) : List (String × α) :=
  xs.mergeSort (fun a b => decide (a.1 ≤ b.1))

partial def jsonOfV : V → Json
  | .none => .null
  | .bool b => .bool b
  | .int i => .num (JsonNumber.fromInt i)
  | .str s => .str s
  | .list xs => .arr (xs.map jsonOfV).toArray
  | .dict kvs => Json.mkObj ((sortByKey kvs).map fun (k, v) => (k, jsonOfV v))
  | .tuple xs => Json.mkObj [("$", "tuple"), ("v", .arr (xs.map jsonOfV).toArray)]
  | .set xs =>
    let js := (xs.map fun x => let j := jsonOfV x; (j.compress, j))
    Json.mkObj [("$", "set"), ("v", .arr ((sortByKey js).map Prod.snd).toArray)]
  | .app f a k => Json.mkObj [("$", "app"), ("f", .str f), ("a", .arr (a.map jsonOfV).toArray),
      ("k", .arr ((sortByKey k).map fun (n, v) => Json.arr #[.str n, jsonOfV v]).toArray)]
  | .fn f a k => Json.mkObj [("$", "fn"), ("f", .str f), ("a", .arr (a.map jsonOfV).toArray),
      ("k", .arr ((sortByKey k).map fun (n, v) => Json.arr #[.str n, jsonOfV v]).toArray)]
  | .comp fs => Json.mkObj [("$", "comp"), ("v", .arr (fs.map jsonOfV).toArray)]
  | .missing => Json.mkObj [("$", "missing")]

/-! ### The concrete library of user callables (each has an identical Python twin in
    harness/pylib.py) -/

def asInt? : V → Option Int
  | .int i => some i
  | .bool b => some (if b then 1 else 0)
  | _ => Option.none

def prim (p : String) (args : List V) : Except String V :=
  match p, args with
  | "ident", [x] => .ok x
  | "const", [v, _] => .ok v
  | "not", [x] => .ok (.bool (!x.truthy))
  | "truthy", [x] => .ok (.bool x.truthy)
  | "eq", [v, x] => .ok (.bool (pyEq x v))
  | "ne", [v, x] => .ok (.bool (!pyEq x v))
  | "neg", [x] => match asInt? x with
    | some i => .ok (.int (-i))
    | Option.none => .error "TypeError"
  | "lt", [n, x] => match asInt? x, asInt? n with
    | some a, some b => .ok (.bool (a < b))
    | _, _ => match x, n with
      | .str a, .str b => .ok (.bool (a < b))
      | _, _ => .error "TypeError"
  | "gt", [n, x] => match asInt? x, asInt? n with
    | some a, some b => .ok (.bool (a > b))
    | _, _ => match x, n with
      | .str a, .str b => .ok (.bool (a > b))
      | _, _ => .error "TypeError"
  | "add", [n, x] => match asInt? x, asInt? n with
    | some a, some b => .ok (.int (a + b))
    | _, _ => match x, n with
      | .str a, .str b => .ok (.str (a ++ b))
      | .list a, .list b => .ok (.list (a ++ b))
      | .tuple a, .tuple b => .ok (.tuple (a ++ b))
      | _, _ => .error "TypeError"
  | "isin", [c, x] => match pyIn x c with
    | some b => .ok (.bool b)
    | Option.none => .error "TypeError"
  | "len", [x] => match x with
    | .str s => .ok (.int s.length)
    | .list xs | .tuple xs | .set xs => .ok (.int xs.length)
    | .dict kvs => .ok (.int kvs.length)
    | _ => .error "TypeError"
  | "pair", [a, x] => .ok (.tuple [a, x])
  | "tostr", [x] => .ok (.str (pyStr x))
  | _, _ => .error "TypeError"

structure FnSpec where
  kind : String            -- free | const | prim
  p : String := ""
  v : V := .none
  raiseCls : String := ""
  raiseAlways : Bool := false
  raiseOn : List V := []

def fnSpecOfJson (j : Json) : FnSpec :=
  let kind := (j.getObjValAs? String "t").toOption.getD "free"
  let p := (j.getObjValAs? String "p").toOption.getD ""
  let v := match j.getObjVal? "v" with | .ok x => vOfJson x | _ => V.none
  match j.getObjVal? "raise" with
  | .ok r =>
    let cls := (r.getObjValAs? String "cls").toOption.getD "ValueError"
    match r.getObjVal? "on" with
    | .ok (.arr a) => { kind, p, v, raiseCls := cls, raiseOn := a.toList.map vOfJson }
    | _ => { kind, p, v, raiseCls := cls, raiseAlways := true }
  | _ => { kind, p, v }

def mkBeta (fns : List (String × FnSpec)) : String → List V → List (String × V) → Except String V :=
  fun name args kw =>
    match fns.find? (fun q => q.1 == name) with
    | Option.none =>
      -- undeclared names are primitives called by name
      prim name args
    | some (_, spec) =>
      let vals := args ++ kw.map Prod.snd
      if spec.raiseAlways || vals.any (fun x => spec.raiseOn.any (pyEq x)) then .error spec.raiseCls
      else match spec.kind with
        | "const" => .ok spec.v
        | "prim" => prim spec.p args
        | _ => .ok (.app name args kw)

/-! ### PDL program → model -/

structure Prog where
  nodes : Std.HashMap Nat Json := {}
  ovs : List (Nat × Json) := []     -- static part: dispatch/dflt node ids
  binds : List (Nat × Json) := []
  fns : List (String × FnSpec) := []

abbrev DsRecJ := Nat × List Nat × Nat × V × V × Nat × Bool × String

/-- mutable (between operations) part of the environment -/
structure Dyn where
  ov : List (Nat × (Nat × List (V × Nat) × Option Nat)) := []   -- dispatch nid, table, dflt nid
  ds : List (Nat × DsRecJ) := []
  cacheKinds : List (Nat × CacheKind) := []

def natOf (j : Json) (k : String) : Nat := (j.getObjValAs? Nat k).toOption.getD 0
def optNatOf (j : Json) (k : String) : Option Nat := (j.getObjValAs? Nat k).toOption
def strOf (j : Json) (k : String) : String := (j.getObjValAs? String k).toOption.getD ""
def boolOf (j : Json) (k : String) : Bool := (j.getObjValAs? Bool k).toOption.getD false
def valOf (j : Json) (k : String) : V := match j.getObjVal? k with | .ok x => vOfJson x | _ => V.none
def arrOf (j : Json) (k : String) : List Json := match j.getObjVal? k with | .ok (.arr a) => a.toList | _ => []
def natList (j : Json) (k : String) : List Nat := (arrOf j k).filterMap fun x => (x.getNat?).toOption
def pairList (j : Json) (k : String) : List (Json × Json) :=
  (arrOf j k).filterMap fun x => match x with | .arr #[a, b] => some (a, b) | _ => Option.none

partial def buildExpr (p : Prog) (nid : Nat) : Expr :=
  match p.nodes[nid]? with
  | Option.none => .value nid .none
  | some j =>
    let sub (k : String) : Expr := buildExpr p (natOf j k)
    let osub (k : String) : Option Expr := (optNatOf j k).map (buildExpr p)
    let subs (k : String) : List Expr := (natList j k).map (buildExpr p)
    let named (k : String) : List (String × Expr) := (pairList j k).filterMap fun (a, b) =>
      match a, b.getNat? with
      | .str n, .ok i => some (n, buildExpr p i)
      | _, _ => Option.none
    match strOf j "k" with
    | "value" => .value nid (valOf j "v")
    | "option" => .option nid (strOf j "key") (osub "dflt") (osub "dom")
    | "apply" => .apply nid (sub "e") (sub "f")
    | "bind" => .bind nid (sub "e") (natOf j "b")
    | "switch" => .switch nid (sub "d")
        ((pairList j "lookup").filterMap fun (a, b) => match b.getNat? with
          | .ok i => some (vOfJson a, buildExpr p i) | _ => Option.none) (osub "dflt")
    | "case" => .caseWhen nid (sub "d")
        ((pairList j "cases").filterMap fun (a, b) => match a.getNat?, b.getNat? with
          | .ok x, .ok y => some (buildExpr p x, buildExpr p y) | _, _ => Option.none) (osub "dflt")
    | "coalesce" => .coalesce nid (subs "ms")
    | "iter" => .iter nid (subs "es")
    | "map" => .map nid (sub "e") (named "its")
    | "template" => .template nid (strOf j "t") (named "params")
    | "with" => .withOptions nid (sub "e") (valOf j "p") (boolOf j "force")
    | "all" => .allOptions nid
    | "cached" => .cached nid (sub "e") (natOf j "cache")
    | "logged" => .logged nid (sub "e") (strOf j "msg")
    | "computation" => .computation nid (sub "e") (subs "effects")
    | "funapp" => .funApp nid (sub "f") (subs "args") (named "kw")
    | "partial" => .partialApp nid (sub "f") (subs "args") (named "kw")
    | "step" => .pipelineStep nid (sub "step")
    | "pipeline" => .pipeline nid (sub "tail") (osub "rest")
    | "overloaded" => .overloaded nid (natOf j "ov")
    | "dataset" => .dataset nid (natOf j "ds")
    | "namespace" => .namespace nid (strOf j "key") (named "members")
    | _ => .value nid .none

def mkEnv (p : Prog) (d : Dyn) (cacheOff logOff : Bool) (subst : Option (Nat × V)) : Env where
  β := mkBeta p.fns
  binds := fun k v =>
    match p.binds.find? (fun q => q.1 == k) with
    | Option.none => .error "TypeError"
    | some (_, j) =>
      let table := (pairList j "table").filterMap fun (a, b) => match b.getNat? with
        | .ok i => some (vOfJson a, i) | _ => Option.none
      -- the continuation is user code with a type-strict table (`1` is not `True`)
      match table.find? (fun q => q.1 == v) with
      | some (_, i) => .ok (buildExpr p i)
      | Option.none => match optNatOf j "dflt" with
        | some i => .ok (buildExpr p i)
        | Option.none => .error (let c := strOf j "cls"; if c == "" then "ValueError" else c)
  ov := fun k =>
    match d.ov.find? (fun q => q.1 == k) with
    | some (_, (disp, table, dflt)) =>
      { dispatch := buildExpr p disp, table := table.map fun (v, i) => (v, buildExpr p i),
        dflt := dflt.map (buildExpr p) }
    | Option.none => { dispatch := .value 0 .missing, table := [], dflt := Option.none }
  ds := fun k =>
    match d.ds.find? (fun q => q.1 == k) with
    | some (_, (ov, effects, cache, opts, dopts, cb, effOff, msg)) =>
      { ov, effects := effects.map (buildExpr p), cache, options := opts, defaultOptions := dopts,
        callback := buildExpr p cb, effectsDisabled := effOff, msg }
    | Option.none => default
  cacheKind := fun c => match d.cacheKinds.find? (fun q => q.1 == c) with
    | some (_, k) => k
    | Option.none => .memory
  cacheCtxOff := cacheOff
  logCtxOff := logOff
  subst := subst

/-! ### Printing observations -/

def clsName : ErrCls → String
  | .evaluation => "EvaluationError"
  | .keyNotFound => "KeyNotFoundError"
  | .switchErr => "SwitchError"
  | .caseWhenErr => "CaseWhenError"
  | .insufficient => "InsufficientInformationError"
  | .other c => c

def declared (i : Nat) : Nat := if i ≥ 1000000 then 0 else i

def jsonOfErr (e : Err) : Json :=
  .arr (e.map fun f => Json.arr #[.str (clsName f.cls), toJson (declared f.src), .str f.key]).toArray

def jsonOfEvents (evs : List Event) : List (String × Json) :=
  let evs := evs.reverse
  let calls := evs.filterMap fun
    | .call f a k => some (Json.arr #[.str f, .arr (a.map jsonOfV).toArray,
        .arr ((sortByKey k).map fun (n, v) => Json.arr #[.str n, jsonOfV v]).toArray])
    | _ => Option.none
  let cache := evs.filterMap fun
    | .cacheOp c op fp res => some (Json.arr #[toJson c, .str op, jsonOfV fp, .str res])
    | _ => Option.none
  let logs := evs.filterMap fun
    | .log msg emitted => some (Json.arr #[.str msg, .bool emitted])
    | _ => Option.none
  let reqs := evs.filterMap fun
    | .req op node => if declared node == 0 then Option.none else some (Json.arr #[.str op, toJson node])
    | _ => Option.none
  let logreq := (evs.filter fun
    | .req op _ => op == "log"
    | _ => false).length
  let reads := (evs.filterMap fun
    | .read k => some k
    | .readAll => some "*"
    | _ => Option.none).eraseDups
  let tchk := evs.filterMap fun
    | .typeCheck node => if declared node == 0 then Option.none else some (toJson node)
    | _ => Option.none
  [("calls", .arr calls.toArray), ("cache", .arr cache.toArray), ("log", .arr logs.toArray),
   ("req", .arr reqs.toArray), ("reads", .arr ((sortStrings reads).map Json.str).toArray),
   ("tchk", .arr tchk.toArray), ("logreq", toJson logreq)]

def opOfString : String → Option Op
  | "evaluate" => some .evaluate
  | "validate" => some .validate
  | "keys" => some .keys
  | "explain" => some .explain
  | _ => Option.none

def faultOfString : String → Fault
  | "miss" => .miss | "lieExists" => .lieExists | "failGet" => .failGet | "forget" => .forget | "lieBlind" => .lieBlind
  | _ => .behave

def FUEL : Nat := 400

def dynUpdate {α} (xs : List (Nat × α)) (k : Nat) (v : α) : List (Nat × α) :=
  if xs.any (fun q => q.1 == k) then xs.map fun q => if q.1 == k then (k, v) else q else xs ++ [(k, v)]

def runOp (p : Prog) (dyn : Dyn) (st : St) (j : Json) : Dyn × St × Json :=
  let opName := strOf j "op"
  let okJ := Json.mkObj [("ok", true)]
  match opOfString opName with
  | some op =>
    let subst := match j.getObjVal? "subst" with
      | .ok (.arr #[a, b]) => (a.getNat?).toOption.map fun i => (i, vOfJson b)
      | _ => Option.none
    let env := mkEnv p dyn (boolOf j "cache_off") (boolOf j "log_off") subst
    let e := buildExpr p (natOf j "n")
    match ev env FUEL op e (valOf j "o") { st with events := [] } with
    | Option.none => (dyn, st, Json.mkObj [("r", Json.arr #["fuel"])])
    | some (r, st') =>
      let rj := match r with
        | .ok v => Json.arr #["ok", jsonOfV v]
        | .error err => Json.arr #["err", jsonOfErr err]
      (dyn, { st' with events := [] }, Json.mkObj (("r", rj) :: jsonOfEvents st'.events))
  | Option.none =>
    match opName with
    | "transform" =>
      let env := mkEnv p dyn (boolOf j "cache_off") (boolOf j "log_off") Option.none
      let e := buildExpr p (natOf j "n")
      let m : M V := do
        let f ← ev env FUEL .evaluate e (valOf j "o")
        call env f [valOf j "x"] []
      match m { st with events := [] } with
      | Option.none => (dyn, st, Json.mkObj [("r", Json.arr #["fuel"])])
      | some (r, st') =>
        let rj := match r with
          | .ok v => Json.arr #["ok", jsonOfV v]
          | .error err => Json.arr #["err", jsonOfErr err]
        (dyn, { st' with events := [] }, Json.mkObj (("r", rj) :: jsonOfEvents st'.events))
    | "fingerprint" =>
      -- `Cacheable.fingerprint`: keys, sorted, each looked up in the options
      let env := mkEnv p dyn (boolOf j "cache_off") (boolOf j "log_off") Option.none
      let e := buildExpr p (natOf j "n")
      let o := valOf j "o"
      let m : M V := do
        let ks ← ev env FUEL .keys e o
        let items ← mapM' (fun k => do let v ← getKey k o; pure (V.dict [(k, v)])) (sortStrings (keyStrings ks))
        pure (.list items)
      match m { st with events := [] } with
      | Option.none => (dyn, st, Json.mkObj [("r", Json.arr #["fuel"])])
      | some (r, st') =>
        let rj := match r with
          | .ok v => Json.arr #["ok", jsonOfV v]
          | .error err => Json.arr #["err", jsonOfErr err]
        (dyn, { st' with events := [] }, Json.mkObj (("r", rj) :: jsonOfEvents st'.events))
    | "set_get" =>
      -- `new = option.set(o, v); option.evaluate(new)`
      let env := mkEnv p dyn false false Option.none
      let e := buildExpr p (natOf j "n")
      let o := valOf j "o"
      let m : M V := do
        match e with
        | .option _ key _ _ =>
          match setPath (splitKey key) (valOf j "v") [] with
          | some sub => do
            let new := mix o (.dict sub)
            let r ← ev env FUEL .evaluate e new
            -- with "v2": [new, value, the input afterwards, an earlier result is unaffected by a later set]
            if (j.getObjVal? "v2").isOk then pure (.list [new, r, o, .bool true]) else pure (.list [new, r])
          | Option.none => raise (errOther "TypeError")
        | _ => raise (errOther "TypeError")
      match m { st with events := [] } with
      | Option.none => (dyn, st, Json.mkObj [("r", Json.arr #["fuel"])])
      | some (r, st') =>
        let rj := match r with
          | .ok v => Json.arr #["ok", jsonOfV v]
          | .error err => Json.arr #["err", jsonOfErr err]
        (dyn, { st' with events := [] }, Json.mkObj (("r", rj) :: jsonOfEvents st'.events))
    | "register" =>
      let k := natOf j "ov"
      match dyn.ov.find? (fun q => q.1 == k) with
      | some (_, (disp, table, dflt)) =>
        let key := valOf j "key"
        let nid := natOf j "n"
        -- `{**self.lookup, key: value}` with Python hash-equality of keys
        let table' := if table.any (fun q => pyEq q.1 key) then
            table.map fun q => if pyEq q.1 key then (q.1, nid) else q
          else table ++ [(key, nid)]
        ({ dyn with ov := dynUpdate dyn.ov k (disp, table', dflt) }, st, okJ)
      | Option.none => (dyn, st, Json.mkObj [("ok", false)])
    | "set_dispatch" =>
      let dsid := natOf j "ds"
      match dyn.ds.find? (fun q => q.1 == dsid) with
      | some (_, (ov, effects, cache, opts, dopts, cb, effOff, msg)) =>
        let (_, table, dflt) := match dyn.ov.find? (fun q => q.1 == ov) with
          | some (_, r) => r
          | Option.none => (0, [], Option.none)
        let newOv := natOf j "ov"
        ({ dyn with ov := dynUpdate dyn.ov newOv (natOf j "dispatch", table, dflt),
                    ds := dynUpdate dyn.ds dsid (newOv, effects, cache, opts, dopts, cb, effOff, msg) }, st, okJ)
      | Option.none => (dyn, st, Json.mkObj [("ok", false)])
    | "add_effect" =>
      let dsid := natOf j "ds"
      match dyn.ds.find? (fun q => q.1 == dsid) with
      | some (_, (ov, effects, cache, opts, dopts, cb, effOff, msg)) =>
        ({ dyn with ds := dynUpdate dyn.ds dsid (ov, effects ++ [natOf j "n"], cache, opts, dopts, cb, effOff, msg) }, st, okJ)
      | Option.none => (dyn, st, Json.mkObj [("ok", false)])
    | "effects_disabled" =>
      let dsid := natOf j "ds"
      match dyn.ds.find? (fun q => q.1 == dsid) with
      | some (_, (ov, effects, cache, opts, dopts, cb, _, msg)) =>
        ({ dyn with ds := dynUpdate dyn.ds dsid (ov, effects, cache, opts, dopts, cb, boolOf j "v", msg) }, st, okJ)
      | Option.none => (dyn, st, Json.mkObj [("ok", false)])
    | "set_cache" =>
      let dsid := natOf j "ds"
      match dyn.ds.find? (fun q => q.1 == dsid) with
      | some (_, (ov, effects, _, opts, dopts, cb, effOff, msg)) =>
        ({ dyn with ds := dynUpdate dyn.ds dsid (ov, effects, natOf j "cache", opts, dopts, cb, effOff, msg) }, st, okJ)
      | Option.none => (dyn, st, Json.mkObj [("ok", false)])
    | "with_options" =>
      let dsid := natOf j "ds"
      match dyn.ds.find? (fun q => q.1 == dsid) with
      | some (_, (ov, effects, cache, opts, dopts, cb, _, msg)) =>
        let pv := valOf j "p"
        let rec' := if boolOf j "default" then (ov, effects, cache, opts, mix dopts pv, cb, false, strOf j "msg")
                    else (ov, effects, cache, mix opts pv, dopts, cb, false, strOf j "msg")
        let _ := msg
        ({ dyn with ds := dynUpdate dyn.ds (natOf j "new") rec' }, st, okJ)
      | Option.none => (dyn, st, Json.mkObj [("ok", false)])
    | "reset" => (dyn, { st with caches := [] }, okJ)
    | "script" =>
      let c := natOf j "cache"
      let faults := (arrOf j "faults").map fun x => faultOfString ((x.getStr?).toOption.getD "")
      (dyn, { st with scripts := dynUpdate st.scripts c faults }, okJ)
    | _ => (dyn, st, Json.mkObj [("ok", false), ("unknown", .str opName)])

def runProgram (j : Json) : Json :=
  let nodes : Std.HashMap Nat Json := (arrOf j "nodes").foldl (fun m n => m.insert (natOf n "id") n) {}
  let p : Prog := {
    nodes
    binds := (arrOf j "binds").map fun b => (natOf b "id", b)
    fns := (pairList j "fns").filterMap fun (a, b) => match a with
      | .str n => some (n, fnSpecOfJson b) | _ => Option.none }
  let dyn : Dyn := {
    ov := (arrOf j "ovs").map fun o => (natOf o "id",
      (natOf o "dispatch",
       (pairList o "table").filterMap (fun (a, b) => match b.getNat? with
          | .ok i => some (vOfJson a, i) | _ => Option.none),
       optNatOf o "dflt"))
    ds := (arrOf j "dss").map fun d => (natOf d "id",
      (natOf d "ov", natList d "effects", natOf d "cache", valOf d "options", valOf d "default_options",
       natOf d "callback", boolOf d "effects_disabled", strOf d "msg"))
    cacheKinds := (pairList j "caches").filterMap fun (a, b) => match a.getNat?, b with
      | .ok c, .str "nocache" => some (c, CacheKind.nocache)
      | .ok c, .str "scripted" => some (c, CacheKind.scripted)
      | .ok c, _ => some (c, CacheKind.memory)
      | _, _ => Option.none }
  let (_, _, outs) := (arrOf j "ops").foldl (fun (acc : Dyn × St × List Json) op =>
    let (d, s, o) := runOp p acc.1 acc.2.1 op
    (d, s, o :: acc.2.2)) (dyn, ({} : St), [])
  .arr outs.reverse.toArray

/-- `prim` mode: one `[name, [args…]]` per line → result (used to tie the primitive library and
    the layer-0 functions to their Python twins) -/
def runPrim (j : Json) : Json :=
  match j with
  | .arr #[.str name, .arr args] =>
    let a := args.toList.map vOfJson
    let strArg (i : Nat) : String := match a[i]? with | some (.str s) => s | _ => ""
    let r : Except String V :=
      match name with
      | "getDotted" => match getDotted (strArg 0) (a[1]?.getD .none) with
        | .found v => .ok (.tuple [.str "found", v])
        | .keyErr => .ok (.tuple [.str "KeyError"])
        | .typeErr => .ok (.tuple [.str "TypeError"])
      | "mix" => .ok (mix (a[0]?.getD .none) (a[1]?.getD .none))
      | "setDotted" => match a[2]? with
        | some (V.dict d) => match setPath (splitKey (strArg 0)) (a[1]?.getD .none) d with
          | some d' => .ok (.dict d')
          | Option.none => .error "TypeError"
        | _ => .error "TypeError"
      | "findKeys" => .ok (.list ((findKeys (strArg 0)).map V.str))
      | "resolve" => match resolveR 200 (a[0]?.getD .none) (a[1]?.getD .none) with
        | Option.none => .error "fuel"
        | some (.ok v, rd) => .ok (.tuple [v, .list (rd.map V.str)])
        | some (.error (.key k), _) => .error ("KeyError:" ++ k)
        | some (.error .type, _) => .error "TypeError"
      | "pyStr" => .ok (.str (pyStr (a[0]?.getD .none)))
      | "pyEq" => .ok (.bool (pyEq (a[0]?.getD .none) (a[1]?.getD .none)))
      | _ => prim name a
    match r with
    | .ok v => Json.arr #["ok", jsonOfV v]
    | .error e => Json.arr #["err", .str e]
  | _ => Json.arr #["err", "bad-line"]

partial def loop (h : IO.FS.Stream) (f : Json → Json) : IO Unit := do
  let line ← h.getLine
  if line.isEmpty then return ()
  if line.trimAscii.isEmpty then
    IO.println "null"
  else
    match Json.parse line with
    | .ok j => IO.println (f j).compress
    | .error e => IO.println (Json.mkObj [("parse_error", .str e)]).compress
  loop h f

def main (args : List String) : IO Unit := do
  let h ← IO.getStdin
  match args with
  | ["prim"] => loop h runPrim
  | _ => loop h runProgram

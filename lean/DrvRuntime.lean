/-
  drv_runtime — runs the RuntimeSM / Threads models on operation sequences, one per stdin line.

  mode `c14` (default): a line is a list of segments, each a block tree run by one thread
      line  := seg*                          seg := "S" t block
      block := "." | "^" | "W" x block block | "Y" block block | op block
      op    := "c" x | "n" x hs | "d" x y hs | "h" x hs | "g" ty h | "r" ty | "i" p | "p"
      hs    := n (ty h)^n
    output: "S<t>" obs* ["!"]  per segment, then "F<t>=<name>" per thread (first-use order)
      obs   := "s<h>" | "T" | "@<name>"      name := "-" | "v<min var bound to it>" | "a<k>"
  mode `sched`: a line is an interleaving  (t op)*  with op as above plus "e" x (enter), "x" x (exit)
    output: "<t>:<obs>" in schedule order ("K" = exit of a non-entered object), then "F<t>=<name>"
  mode `reg`:   (t k v)*  -> final table "k=v" sorted by k
  mode `cache`: n fp_1 … fp_n "|" thread ids / e<fp> (eviction)   (val f = f) -> "<t>=<v>" for finished threads, "<t>=?" else
-/
import LabreaModel.RuntimeSM
import LabreaModel.Threads

open Labrea.RuntimeSM Labrea.Threads

abbrev P := Except String

def num (s : String) : P Nat :=
  match s.toNat? with
  | some n => pure n
  | none => throw s!"not a number: {s}"

def pTable : Nat → List String → P (Table × List String)
  | 0, ts => pure ([], ts)
  | n + 1, a :: b :: ts => do
      let ty ← num a; let h ← num b
      let (rest, ts') ← pTable n ts
      pure ((ty, h) :: rest, ts')
  | _, _ => throw "truncated table"

def pHs : List String → P (Table × List String)
  | n :: ts => do pTable (← num n) ts
  | [] => throw "missing table"

/-- parse a non-scoping op; returns none if the token is not an op -/
def pOp : List String → P (Option (BOp × List String))
  | "c" :: x :: ts => do pure (some (.current (← num x), ts))
  | "n" :: x :: ts => do let (hs, ts') ← pHs ts; pure (some (.new (← num x) hs, ts'))
  | "d" :: x :: y :: ts => do let (hs, ts') ← pHs ts; pure (some (.derive (← num x) (← num y) hs, ts'))
  | "h" :: x :: ts => do let (hs, ts') ← pHs ts; pure (some (.handleCur (← num x) hs, ts'))
  | "g" :: ty :: h :: ts => do pure (some (.registerDefault (← num ty) (← num h), ts))
  | "r" :: ty :: ts => do pure (some (.run (← num ty), ts))
  | "i" :: p :: ts => do pure (some (.inherit (← num p), ts))
  | "p" :: ts => pure (some (.probe, ts))
  | _ => pure none

partial def pBlock : List String → P (Block × List String)
  | "." :: ts => pure (.done, ts)
  | "^" :: ts => pure (.raise, ts)
  | "W" :: x :: ts => do
      let (b, ts1) ← pBlock ts
      let (k, ts2) ← pBlock ts1
      pure (.with_ (← num x) b k, ts2)
  | "Y" :: ts => do
      let (b, ts1) ← pBlock ts
      let (k, ts2) ← pBlock ts1
      pure (.try_ b k, ts2)
  | ts => do
      match ← pOp ts with
      | some (o, ts1) =>
          let (k, ts2) ← pBlock ts1
          pure (.op o k, ts2)
      | none => throw s!"bad block at {ts.take 3}"

partial def pSegs : List String → P (List (Thread × Block))
  | [] => pure []
  | "S" :: t :: ts => do
      let (b, ts1) ← pBlock ts
      let rest ← pSegs ts1
      pure ((← num t, b) :: rest)
  | ts => throw s!"bad segment at {ts.take 3}"

def s0 : State := ⟨[], fun _ => ⟨[], fun _ => []⟩, fun _ => 0, fun _ => none⟩
def env0 : Env := fun _ => (4000000, 0)

/-- output items before naming -/
inductive Item
  | tok (s : String)
  | ident (pre : String) (o : Option Id)

structure Namer where
  bound : List (Id × Var)
  anon : List Id

def Namer.varOf (n : Namer) (r : Id) : Option Var :=
  n.bound.foldl (fun acc (p : Id × Var) =>
    if p.1 == r then (match acc with | some v => some (min v p.2) | none => some p.2) else acc) none

def render (n : Namer) : List Item → List String → List String
  | [], acc => acc.reverse
  | .tok s :: rest, acc => render n rest (s :: acc)
  | .ident pre none :: rest, acc => render n rest ((pre ++ "-") :: acc)
  | .ident pre (some r) :: rest, acc =>
      match n.varOf r with
      | some v => render n rest ((pre ++ "v" ++ toString v) :: acc)
      | none =>
        match n.anon.findIdx? (· == r) with
        | some k => render n rest ((pre ++ "a" ++ toString k) :: acc)
        | none =>
          let k := n.anon.length
          render { n with anon := n.anon ++ [r] } rest ((pre ++ "a" ++ toString k) :: acc)

def obsItems (pre : String) : List Obs → List Item
  | [] => []
  | .bound _ _ :: rest => obsItems pre rest
  | .served h :: rest => .tok (pre ++ "s" ++ toString h) :: obsItems pre rest
  | .typeError :: rest => .tok (pre ++ "T") :: obsItems pre rest
  | .cur o :: rest => .ident (pre ++ "@") o :: obsItems pre rest

def boundsOf : List Obs → List (Id × Var)
  | [] => []
  | .bound x r :: rest => (r, x) :: boundsOf rest
  | _ :: rest => boundsOf rest

def runC14 (line : String) : String :=
  let toks := (line.splitOn " ").filter (· ≠ "")
  match pSegs toks with
  | .error e => "PARSE-ERROR " ++ e
  | .ok segs =>
    let init : Env × State × List Item × List (Id × Var) × List Thread := (env0, s0, [], [], [])
    let (_, s, items, bounds, threads) := segs.foldl
      (fun (acc : Env × State × List Item × List (Id × Var) × List Thread) (seg : Thread × Block) =>
        let (env, s, items, bounds, threads) := acc
        let out := exec seg.1 seg.2 env s
        let its := [Item.tok ("S" ++ toString seg.1)] ++ obsItems "" out.obs ++
                   (if out.raised then [Item.tok "!"] else [])
        (out.env, out.st, items ++ its, bounds ++ boundsOf out.obs,
         if threads.contains seg.1 then threads else threads ++ [seg.1])) init
    let finals := threads.map (fun t => Item.ident ("F" ++ toString t ++ "=") (s.cur t))
    " ".intercalate (render ⟨bounds, []⟩ (items ++ finals) [])

/-! ### sched mode -/

inductive SOp
  | b (o : BOp)
  | enter (x : Var)
  | exit (x : Var)

partial def pSched : List String → P (List (Thread × SOp))
  | [] => pure []
  | t :: "e" :: x :: ts => do pure ((← num t, .enter (← num x)) :: (← pSched ts))
  | t :: "x" :: x :: ts => do pure ((← num t, .exit (← num x)) :: (← pSched ts))
  | t :: ts => do
      match ← pOp ts with
      | some (o, ts1) => pure ((← num t, .b o) :: (← pSched ts1))
      | none => throw s!"bad step at {ts.take 3}"

def resItems (pre : String) (o : BOp) (r : Res) : List Item × List (Id × Var) :=
  match o.target, r with
  | some x, .id i => ([], [(i, x)])
  | _, .served h => ([.tok (pre ++ "s" ++ toString h)], [])
  | _, .typeError => ([.tok (pre ++ "T")], [])
  | _, _ => ([], [])

def runSchedLine (line : String) : String :=
  let toks := (line.splitOn " ").filter (· ≠ "")
  match pSched toks with
  | .error e => "PARSE-ERROR " ++ e
  | .ok steps =>
    let init : Env × State × List Item × List (Id × Var) × List Thread := (env0, s0, [], [], [])
    let (_, s, items, bounds, threads) := steps.foldl
      (fun (acc : Env × State × List Item × List (Id × Var) × List Thread) (st : Thread × SOp) =>
        let (env, s, items, bounds, threads) := acc
        let t := st.1
        let pre := toString t ++ ":"
        let threads := if threads.contains t then threads else threads ++ [t]
        match st.2 with
        | .enter x => (env, (step s t (.enter (env x))).1, items, bounds, threads)
        | .exit x =>
            let r := step s t (.exit (env x))
            (env, r.1, items ++ (if r.2 == .notEntered then [Item.tok (pre ++ "K")] else []), bounds, threads)
        | .b o =>
            match o.toOp env with
            | none => (env, s, items ++ [Item.ident (pre ++ "@") (s.cur t)], bounds, threads)
            | some a =>
                let r := step s t a
                let (its, bs) := resItems pre o r.2
                (bindEnv env o r.2, r.1, items ++ its, bounds ++ bs, threads)) init
    let finals := threads.map (fun t => Item.ident ("F" ++ toString t ++ "=") (s.cur t))
    " ".intercalate (render ⟨bounds, []⟩ (items ++ finals) [])

/-! ### reg / cache modes -/

partial def pTriples : List String → P (List (Thread × Key × Val))
  | [] => pure []
  | t :: k :: v :: ts => do pure ((← num t, ← num k, ← num v) :: (← pTriples ts))
  | _ => throw "truncated triple"

def insertSorted (k : Nat) : List Nat → List Nat
  | [] => [k]
  | x :: xs => if k < x then k :: x :: xs else if k == x then x :: xs else x :: insertSorted k xs

def runRegLine (line : String) : String :=
  let toks := (line.splitOn " ").filter (· ≠ "")
  match pTriples toks with
  | .error e => "PARSE-ERROR " ++ e
  | .ok sched =>
    let tb := runReg sched []
    let keys := tb.foldl (fun acc (p : Key × Val) => insertSorted p.1 acc) []
    " ".intercalate (keys.map (fun k => toString k ++ "=" ++ (match tb.lookup k with | some v => toString v | none => "?")))

def runCacheLine (line : String) : String :=
  let toks := (line.splitOn " ").filter (· ≠ "")
  match toks with
  | n :: rest =>
    match n.toNat? with
    | none => "PARSE-ERROR n"
    | some n =>
      let fps := (rest.take n).map (fun s => s.toNat?.getD 0)
      -- "<t>" = one atomic dict operation of thread t; "e<f>" = the backend drops the entry under f
      let sched : List CEv := ((rest.drop n).filter (· ≠ "|")).map (fun s =>
        if s.startsWith "e" then CEv.evict ((s.drop 1).toNat?.getD 0) else CEv.step (s.toNat?.getD 0))
      let fp : Thread → Fp := fun t => fps.getD t 0
      let s := runCacheEv (fun f => f) fp sched ⟨fun _ => none, fun _ => .start⟩
      " ".intercalate ((List.range n).map (fun t =>
        toString t ++ "=" ++ (match s.pc t with | .done v => toString v | _ => "?")))
  | [] => ""

partial def loop (f : String → String) (h : IO.FS.Stream) (out : IO.FS.Stream) : IO Unit := do
  let line ← h.getLine
  if line.isEmpty then pure ()
  else
    out.putStrLn (f ((line.replace "\n" "").replace "\r" ""))
    loop f h out

def main (args : List String) : IO Unit := do
  let stdin ← IO.getStdin
  let stdout ← IO.getStdout
  let f := match args with
    | "sched" :: _ => runSchedLine
    | "reg" :: _ => runRegLine
    | "cache" :: _ => runCacheLine
    | _ => runC14
  loop f stdin stdout
  stdout.flush

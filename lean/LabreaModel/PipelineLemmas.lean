/-
  Helper lemmas for LabreaProps/C13.lean (structure of `+`, evaluation of `+`).
-/
import LabreaModel.PipelineLL
namespace Labrea.PipelineLL
namespace Pipeline
variable {Ω α : Type}

theorem add_def (p q : Pipeline Ω α) : p + q = add p q := rfl

@[simp] theorem iter_ne_nil (p : Pipeline Ω α) : p.iter ≠ [] := by
  cases p <;> simp [iter]

theorem empty_iff (p : Pipeline Ω α) : p.empty = true ↔ p = .single .identity := by
  cases p with
  | single t => cases t <;> simp [empty, Step.isIdentity]
  | cons t r => simp [empty]

theorem steps_eq_nil_iff (p : Pipeline Ω α) : p.steps = [] ↔ p.empty = true := by
  unfold steps
  by_cases h : p.empty = true <;> simp [h]

theorem steps_of_not_empty {p : Pipeline Ω α} (h : p.empty = false) : p.steps = p.iter := by
  simp [steps, h]

theorem steps_of_empty {p : Pipeline Ω α} (h : p.empty = true) : p.steps = [] := by
  simp [steps, h]

theorem init_none (t : Step Ω α) : init t none = .single t := rfl

theorem init_of_empty (t : Step Ω α) {r : Pipeline Ω α} (h : r.empty = true) :
    init t (some r) = .single t := by
  show (if r.empty then _ else _) = _
  simp [h]

theorem init_of_not_empty (t : Step Ω α) {r : Pipeline Ω α} (h : r.empty = false) :
    init t (some r) = .cons t r := by
  show (if r.empty then _ else _) = _
  simp [h]

theorem steps_cons (t : Step Ω α) (r : Pipeline Ω α) : (cons t r).steps = r.iter ++ [t] := by
  simp [steps, empty, iter]

/-- `Pipeline(s, p)` appends `s` to the steps of `p` unless the result is the empty pipeline -/
theorem steps_addStep (p : Pipeline Ω α) (s : Step Ω α)
    (h : s.isIdentity = false ∨ p.empty = false) : (p.addStep s).steps = p.steps ++ [s] := by
  unfold addStep
  by_cases hp : p.empty = true
  · have hs : s.isIdentity = false := by
      cases h with
      | inl h => exact h
      | inr h => simp [hp] at h
    have hse : (Pipeline.single s).empty = false := by simp [empty, hs]
    rw [init_of_empty s hp, steps_of_empty hp, steps_of_not_empty hse]
    simp [iter]
  · have hp' : p.empty = false := by simpa using hp
    rw [init_of_not_empty s hp', steps_cons, steps_of_not_empty hp']

theorem wf_init (t : Step Ω α) (r : Option (Pipeline Ω α)) (h : ∀ q, r = some q → q.WF) :
    (init t r).WF := by
  cases r with
  | none => simp [init, WF]
  | some q =>
    by_cases hq : q.empty = true
    · rw [init_of_empty t hq]; simp [WF]
    · have hq' : q.empty = false := by simpa using hq
      rw [init_of_not_empty t hq']
      exact ⟨hq', h q rfl⟩

theorem wf_new : (new : Pipeline Ω α).WF := by simp [new, init, WF]

theorem wf_addStep {p : Pipeline Ω α} (hp : p.WF) (s : Step Ω α) : (p.addStep s).WF :=
  wf_init s (some p) (by intro q hq; cases hq; exact hp)

theorem wf_add {p : Pipeline Ω α} (hp : p.WF) (q : Pipeline Ω α) : (p + q).WF := by
  induction q with
  | single t =>
    show (add p (.single t)).WF
    unfold add
    by_cases h : (Pipeline.single t).empty = true
    · simp [h, hp]
    · simp [h]
      exact wf_init t (some p) (by intro q hq; cases hq; exact hp)
  | cons t r ih =>
    show (add p (.cons t r)).WF
    unfold add
    exact wf_addStep ih t

/-- a well-formed pipeline is determined by its steps -/
theorem steps_injective : ∀ {p q : Pipeline Ω α}, p.WF → q.WF → p.steps = q.steps → p = q := by
  intro p
  induction p with
  | single t =>
    intro q _ hq h
    cases q with
    | single u =>
      by_cases ht : t.isIdentity = true
      · have hte : (Pipeline.single t).empty = true := by simp [empty, ht]
        rw [steps_of_empty hte] at h
        have hu : (Pipeline.single u).empty = true := (steps_eq_nil_iff _).1 h.symm
        rw [(empty_iff _).1 hte, (empty_iff _).1 hu]
      · have hte : (Pipeline.single t).empty = false := by simpa [empty] using ht
        rw [steps_of_not_empty hte] at h
        by_cases hu : (Pipeline.single u).empty = true
        · rw [steps_of_empty hu] at h; simp [iter] at h
        · have hu' : (Pipeline.single u).empty = false := by simpa using hu
          rw [steps_of_not_empty hu'] at h
          simp [iter] at h
          rw [h]
    | cons u r =>
      rw [steps_cons] at h
      have hr : r.iter ≠ [] := iter_ne_nil r
      by_cases hte : (Pipeline.single t).empty = true
      · rw [steps_of_empty hte] at h
        simp at h
      · have hte' : (Pipeline.single t).empty = false := by simpa using hte
        rw [steps_of_not_empty hte'] at h
        simp [iter] at h
        have : (r.iter ++ [u]).length = 1 := by rw [← h]; rfl
        simp at this
  | cons t r ih =>
    intro q hp hq h
    rw [steps_cons] at h
    cases q with
    | single u =>
      by_cases hue : (Pipeline.single u).empty = true
      · rw [steps_of_empty hue] at h; simp at h
      · have hue' : (Pipeline.single u).empty = false := by simpa using hue
        rw [steps_of_not_empty hue'] at h
        simp [iter] at h
        have : (r.iter ++ [t]).length = 1 := by rw [h]; rfl
        simp at this
    | cons u s =>
      rw [steps_cons] at h
      have h1 := List.append_inj' h rfl
      simp at h1
      obtain ⟨hrs, htu⟩ := h1
      simp [WF] at hp hq
      have : r = s := by
        apply ih hp.2 hq.2
        rw [steps_of_not_empty hp.1, steps_of_not_empty hq.1, hrs]
      rw [this, htu]

/-! ### evaluation -/

/-- composition of two optional step functions: `g ∘ f` when both parameter phases succeed -/
def seqFn (f g : Option (α → Except Err α)) : Option (α → Except Err α) :=
  match f, g with
  | some f, some g => some (fun x => f x >>= g)
  | _, _ => none

theorem bind_ok_fun (f : α → Except Err α) : (fun x => Except.ok x >>= f) = f := by
  funext x; rfl

theorem fun_bind_ok (f : α → Except Err α) : (fun x => f x >>= Except.ok) = f := by
  funext x; cases f x <;> rfl

theorem except_bind_assoc {β γ δ : Type} (a : Except Err β) (f : β → Except Err γ)
    (g : γ → Except Err δ) : (a >>= f) >>= g = a >>= fun y => f y >>= g := by
  cases a <;> rfl

theorem evaluate_single (t : Step Ω α) (o : Ω) : (single t).evaluate o = t.evaluate o := by
  simp only [evaluate]
  cases t.evaluate o with
  | none => rfl
  | some f => simp [bind_ok_fun]

theorem evaluate_cons (t : Step Ω α) (r : Pipeline Ω α) (o : Ω) :
    (cons t r).evaluate o = seqFn (r.evaluate o) (t.evaluate o) := by
  simp only [evaluate, seqFn]
  cases t.evaluate o <;> cases r.evaluate o <;> rfl

theorem evaluate_of_empty {p : Pipeline Ω α} (h : p.empty = true) (o : Ω) :
    p.evaluate o = some Except.ok := by
  rw [(empty_iff p).1 h, evaluate_single]; rfl

theorem seqFn_ok_left (g : Option (α → Except Err α)) : seqFn (some Except.ok) g = g := by
  cases g with
  | none => rfl
  | some g => simp [seqFn, bind_ok_fun]

theorem seqFn_ok_right (f : Option (α → Except Err α)) : seqFn f (some Except.ok) = f := by
  cases f with
  | none => rfl
  | some f => simp [seqFn, fun_bind_ok]

theorem seqFn_assoc (f g h : Option (α → Except Err α)) :
    seqFn (seqFn f g) h = seqFn f (seqFn g h) := by
  cases f <;> cases g <;> cases h <;> simp [seqFn]

/-- `Pipeline(s, p)` evaluates to `s ∘ p`, whether or not `p` was dropped as empty -/
theorem evaluate_addStep (p : Pipeline Ω α) (s : Step Ω α) (o : Ω) :
    (p.addStep s).evaluate o = seqFn (p.evaluate o) (s.evaluate o) := by
  unfold addStep
  by_cases hp : p.empty = true
  · rw [init_of_empty s hp, evaluate_single, evaluate_of_empty hp, seqFn_ok_left]
  · have hp' : p.empty = false := by simpa using hp
    rw [init_of_not_empty s hp', evaluate_cons]

/-- the parameter phase and the function of `p + q` -/
theorem evaluate_add (p q : Pipeline Ω α) (o : Ω) :
    (p + q).evaluate o = seqFn (p.evaluate o) (q.evaluate o) := by
  induction q with
  | single t =>
    show (add p (.single t)).evaluate o = _
    unfold add
    by_cases h : (Pipeline.single t).empty = true
    · simp [h, evaluate_of_empty h, seqFn_ok_right]
    · simp [h]
      have := evaluate_addStep p t o
      unfold addStep at this
      rw [this, evaluate_single]
  | cons t r ih =>
    show (add p (.cons t r)).evaluate o = _
    unfold add
    rw [evaluate_addStep]
    have : add p r = p + r := rfl
    rw [this, ih, evaluate_cons, seqFn_assoc]

/-! ### keys / explain -/

theorem keys_eq_seqUnion (p : Pipeline Ω α) (o : Ω) :
    p.keys o = seqUnion (p.iter.reverse.map (fun s => s.keys o)) := by
  induction p with
  | single t =>
    simp only [keys, iter, List.reverse_cons, List.reverse_nil, List.nil_append, List.map_cons,
      List.map_nil, seqUnion]
    cases t.keys o <;> rfl
  | cons t r ih =>
    simp only [keys, iter, List.reverse_append, List.reverse_cons, List.reverse_nil,
      List.nil_append, List.singleton_append, List.map_cons, seqUnion]
    rw [ih]

theorem explain_eq_seqUnion (p : Pipeline Ω α) (o : Ω) :
    p.explain o = seqUnion (p.iter.reverse.map (fun s => s.explain o)) := by
  induction p with
  | single t =>
    simp only [explain, iter, List.reverse_cons, List.reverse_nil, List.nil_append, List.map_cons,
      List.map_nil, seqUnion]
    cases t.explain o <;> rfl
  | cons t r ih =>
    simp only [explain, iter, List.reverse_append, List.reverse_cons, List.reverse_nil,
      List.nil_append, List.singleton_append, List.map_cons, seqUnion]
    rw [ih]

/-- membership in a successful sequential union -/
theorem mem_seqUnion {rs : List (Except Err Keys)} {ks : Keys} (h : seqUnion rs = .ok ks) (k : String) :
    k ∈ ks ↔ ∃ r ∈ rs, ∃ ks', r = .ok ks' ∧ k ∈ ks' := by
  induction rs generalizing ks with
  | nil =>
    simp [seqUnion] at h
    subst h; simp
  | cons r rs ih =>
    simp only [seqUnion] at h
    cases hr : r with
    | error e => rw [hr] at h; cases h
    | ok a =>
      rw [hr] at h
      cases hrs : seqUnion rs with
      | error e => rw [hrs] at h; cases h
      | ok b =>
        rw [hrs] at h
        have : ks = a ++ b := by cases h; rfl
        subst this
        have ih' := ih hrs
        simp only [List.mem_append, List.mem_cons, ih']
        constructor
        · rintro (h1 | ⟨r', hr', ks', he, hk⟩)
          · exact ⟨.ok a, Or.inl rfl, a, rfl, h1⟩
          · exact ⟨r', Or.inr hr', ks', he, hk⟩
        · rintro ⟨r', (h1 | h1), ks', he, hk⟩
          · subst h1; cases he; exact Or.inl hk
          · exact Or.inr ⟨r', h1, ks', he, hk⟩

/-- a sequential union succeeds iff every member does -/
theorem seqUnion_ok_iff (rs : List (Except Err Keys)) :
    (∃ ks, seqUnion rs = .ok ks) ↔ ∀ r ∈ rs, ∃ ks', r = .ok ks' := by
  induction rs with
  | nil => simp [seqUnion]
  | cons r rs ih =>
    simp only [seqUnion, List.mem_cons, forall_eq_or_imp]
    cases r with
    | error e =>
      constructor
      · rintro ⟨ks, h⟩; cases h
      · rintro ⟨⟨ks', h⟩, _⟩; cases h
    | ok a =>
      cases hrs : seqUnion rs with
      | error e =>
        constructor
        · rintro ⟨ks, h⟩; cases h
        · rintro ⟨_, h2⟩
          have := ih.2 h2
          rw [hrs] at this
          obtain ⟨ks, h⟩ := this; cases h
      | ok b =>
        constructor
        · intro _
          exact ⟨⟨a, rfl⟩, ih.1 ⟨b, hrs⟩⟩
        · intro _
          exact ⟨a ++ b, rfl⟩

end Pipeline
end Labrea.PipelineLL

/-
  Layer 0c — confectioner templating: `find_template_keys`, `resolve`, and Python's `str()` /
  `repr()` on the modelled value universe (restricted string alphabet: no quotes, no control
  characters; backslash is doubled by `repr`).
-/
import LabreaModel.Dotted
namespace Labrea

/-! ### `find_template_keys`: the regex `(?<!\\){([^\\]*?)}` as a one-pass scanner -/

/-- scanner state: `open?` = characters of the key being matched (reversed), `prevBS` = the
    previous character was a backslash -/
def scanKeys : Option (List Char) → Bool → List Char → List (List Char)
  | _, _, [] => []
  | open?, prevBS, c :: rest =>
    if c = '\\' then scanKeys Option.none true rest
    else if c = '{' then
      match open? with
      | some acc => scanKeys (some (c :: acc)) false rest
      | Option.none => if prevBS then scanKeys Option.none false rest else scanKeys (some []) false rest
    else if c = '}' then
      match open? with
      | some acc => acc.reverse :: scanKeys Option.none false rest
      | Option.none => scanKeys Option.none false rest
    else
      match open? with
      | some acc => scanKeys (some (c :: acc)) false rest
      | Option.none => scanKeys Option.none false rest

/-- template keys in order of first occurrence, without duplicates -/
def findKeys (s : String) : List String :=
  ((scanKeys Option.none false s.toList).map String.ofList).eraseDups

/-- `str.replace(pat, rep)` for non-empty `pat` (`skip` = characters of a match still to drop) -/
def replaceGo (pat rep : List Char) : Nat → List Char → List Char
  | _, [] => []
  | skip + 1, _ :: rest => replaceGo pat rep skip rest
  | 0, c :: rest =>
    if pat.isPrefixOf (c :: rest) then rep ++ replaceGo pat rep (pat.length - 1) rest
    else c :: replaceGo pat rep 0 rest

def replaceAll (pat rep s : String) : String :=
  if pat.isEmpty then s else String.ofList (replaceGo pat.toList rep.toList 0 s.toList)

def unescape (s : String) : String :=
  replaceAll "\\}" "}" (replaceAll "\\{" "{" s)

/-! ### `str()` and `repr()` -/

/-- one character inside `repr(str)` quoted with `q` -/
def reprChar (q : Char) (c : Char) : List Char :=
  if c = '\\' then ['\\', '\\']
  else if c = q then ['\\', q]
  else if c = '\n' then ['\\', 'n']
  else if c = '\r' then ['\\', 'r']
  else if c = '\t' then ['\\', 't']
  else [c]

/-- `repr(s)` for a `str` (printable input): single quotes, unless the text holds a single quote and no double quote;
    backslash, the chosen quote, newline, carriage return and tab are escaped -/
def reprStr (s : String) : String :=
  let cs := s.toList
  let q := if cs.contains '\'' && !cs.contains '"' then '"' else '\''
  String.ofList (q :: (cs.flatMap (reprChar q)) ++ [q])

def pyInt (i : Int) : String := toString i

mutual
def pyRepr : V → String
  | .none => "None"
  | .bool b => if b then "True" else "False"
  | .int i => pyInt i
  | .str s => reprStr s
  | .list xs => "[" ++ ", ".intercalate (pyReprList xs) ++ "]"
  | .tuple xs => match pyReprList xs with
    | [p] => "(" ++ p ++ ",)"
    | ps => "(" ++ ", ".intercalate ps ++ ")"
  | .set xs => match pyReprList xs with
    | [] => "set()"
    | ps => "{" ++ ", ".intercalate ps ++ "}"
  | .dict kvs => "{" ++ ", ".intercalate (pyReprKvs kvs) ++ "}"
  | .app f _ _ => "<app " ++ f ++ ">"
  | .fn f _ _ => "<fn " ++ f ++ ">"
  | .comp _ => "<comp>"
  | .missing => "MISSING"
def pyReprList : List V → List String
  | [] => []
  | x :: xs => pyRepr x :: pyReprList xs
def pyReprKvs : List (String × V) → List String
  | [] => []
  | (k, v) :: rest => (reprStr k ++ ": " ++ pyRepr v) :: pyReprKvs rest
end

def pyStr : V → String
  | .str s => s
  | v => pyRepr v

/-! ### `resolve` -/

inductive RErr where
  | key (k : String)   -- `KeyError(k)`
  | type               -- raw `TypeError` out of `get_dotted_key`
  deriving Repr, DecidableEq, Inhabited

/-- `str.split('.')`, structurally (so that the kernel can evaluate it) -/
def splitDots : List Char → List Char → List String
  | acc, [] => [String.ofList acc.reverse]
  | acc, c :: cs => if c = '.' then String.ofList acc.reverse :: splitDots [] cs else splitDots (c :: acc) cs

def splitKey (k : String) : List String := splitDots [] k.toList

/-- `get_dotted_key(k, o)` for a dotted key string -/
def getDotted (k : String) (o : V) : Lk V := walk (splitKey k) o

/-- substitute every embedded key (lookup, `str()`, textual replace), left to right;
    also returns the keys looked up -/
def substKeys (opts : V) : List String → String → List String → Except RErr String × List String
  | [], s, rd => (.ok s, rd)
  | k :: ks, s, rd =>
    match getDotted k opts with
    | .found v => substKeys opts ks (replaceAll ("{" ++ k ++ "}") (pyStr v) s) (rd ++ [k])
    | .keyErr => (.error (.key k), rd ++ [k])
    | .typeErr => (.error .type, rd ++ [k])

/-- resolve the values of a dict with `f`, left to right, concatenating the read logs -/
def resolveKvs (f : V → Option (Except RErr V × List String)) :
    List (String × V) → Option (Except RErr (List (String × V)) × List String)
  | [] => some (.ok [], [])
  | (k, v) :: rest =>
    match f v with
    | Option.none => Option.none
    | some (.error e, rd) => some (.error e, rd)
    | some (.ok v', rd) => match resolveKvs f rest with
      | Option.none => Option.none
      | some (.error e, rd') => some (.error e, rd ++ rd')
      | some (.ok rest', rd') => some (.ok ((k, v') :: rest'), rd ++ rd')

/-- resolve the elements of a list with `f`, left to right -/
def resolveList (f : V → Option (Except RErr V × List String)) :
    List V → Option (Except RErr (List V) × List String)
  | [] => some (.ok [], [])
  | v :: rest =>
    match f v with
    | Option.none => Option.none
    | some (.error e, rd) => some (.error e, rd)
    | some (.ok v', rd) => match resolveList f rest with
      | Option.none => Option.none
      | some (.error e, rd') => some (.error e, rd ++ rd')
      | some (.ok rest', rd') => some (.ok (v' :: rest'), rd ++ rd')

/-- `confectioner.templating.resolve(x, opts)` together with the *read log* (every dotted key
    looked up in `opts`, in order); `none` = out of fuel (Python: RecursionError) -/
def resolveR : Nat → V → V → Option (Except RErr V × List String)
  | 0, _, _ => Option.none
  | n + 1, x, opts =>
    match x with
    | .dict kvs =>
      match resolveKvs (fun v => resolveR n v opts) kvs with
      | Option.none => Option.none
      | some (.error e, rd) => some (.error e, rd)
      | some (.ok kvs', rd) => some (.ok (.dict kvs'), rd)
    | .list xs =>
      match resolveList (fun v => resolveR n v opts) xs with
      | Option.none => Option.none
      | some (.error e, rd) => some (.error e, rd)
      | some (.ok xs', rd) => some (.ok (.list xs'), rd)
    | .str s =>
      match findKeys s with
      | [] => some (.ok (.str (unescape s)), [])
      | k :: ks =>
        if ks = [] ∧ s = "{" ++ k ++ "}" then
          match getDotted k opts with
          | .found v => match resolveR n v opts with
            | Option.none => Option.none
            | some (r, rd) => some (r, k :: rd)
          | .keyErr => some (.error (.key k), [k])
          | .typeErr => some (.error .type, [k])
        else
          match substKeys opts (k :: ks) s [] with
          | (.error e, rd) => some (.error e, rd)
          | (.ok s', rd) => match resolveR n (.str s') opts with
            | Option.none => Option.none
            | some (r, rd') => some (r, rd ++ rd')
    | v => some (.ok v, [])

def resolve (n : Nat) (x opts : V) : Option (Except RErr V) :=
  (resolveR n x opts).map Prod.fst

end Labrea

/-
  Lemmas about the class-creation model `LabreaModel.Hook` (used by LabreaProps.C18).
-/
import LabreaModel.Hook

namespace Labrea.Hook

/-! ### one hook acts on one (attr, slot) pair -/

/-- Effect of the hook for `m` on the pair (own attr `m`, own slot `m`), `inh` being what the
    ancestors provide for `m`. -/
def hookPair (m : Meth) (inh : Option Fn) (p : Option Fn × Option Fn) : Option Fn × Option Fn :=
  match (match p.1 with | some f => some f | none => inh) with
  | some f => if f.marked then p else (some (.wrapper m), some f)
  | none => p

@[simp] theorem Fn.marked_wrapper (m : Meth) : (Fn.wrapper m).marked = true := rfl

theorem hookPair_idem (m : Meth) (inh : Option Fn) (p : Option Fn × Option Fn) :
    hookPair m inh (hookPair m inh p) = hookPair m inh p := by
  obtain ⟨a, s⟩ := p
  cases a with
  | some f =>
    cases hf : f.marked with
    | true => simp [hookPair, hf]
    | false => simp [hookPair, hf]
  | none =>
    cases inh with
    | none => simp [hookPair]
    | some g =>
      cases hg : g.marked with
      | true => simp [hookPair, hg]
      | false => simp [hookPair, hg]

def Cls.pair (c : Cls) (k : Meth) : Option Fn × Option Fn := (c.attr k, c.slot k)

theorem runHook_pair (m : Meth) (anc : MRO) (c : Cls) (k : Meth) :
    (runHook m anc c).pair k =
      if k = m then hookPair m (lookupAttr m anc) (c.pair m) else c.pair k := by
  unfold runHook hookPair Cls.pair
  simp only [lookupAttr]
  by_cases hk : k = m
  · subst hk
    simp only [if_true]
    cases h1 : c.attr k with
    | some f =>
      simp only
      by_cases hf : f.marked = true
      · simp [hf, h1]
      · simp [hf, setAt]
    | none =>
      simp only
      cases h2 : lookupAttr k anc with
      | none => simp [h1]
      | some g =>
        simp only
        by_cases hg : g.marked = true
        · simp [hg, h1]
        · simp [hg, setAt]
  · simp only [hk, if_false]
    split
    · split
      · rfl
      · simp [setAt, hk]
    · rfl

theorem runHook_root (m : Meth) (anc : MRO) (c : Cls) : (runHook m anc c).root = c.root := by
  unfold runHook
  split
  · split <;> rfl
  · rfl

theorem runHook_id (m : Meth) (anc : MRO) (c : Cls) : (runHook m anc c).id = c.id := by
  unfold runHook
  split
  · split <;> rfl
  · rfl

theorem runHooks_pair (ms : List Meth) (anc : MRO) (c : Cls) (k : Meth) :
    (runHooks ms anc c).pair k =
      if k ∈ ms then hookPair k (lookupAttr k anc) (c.pair k) else c.pair k := by
  induction ms generalizing c with
  | nil => simp [runHooks]
  | cons m ms ih =>
    have hstep : runHooks (m :: ms) anc c = runHooks ms anc (runHook m anc c) := by
      simp [runHooks, List.foldl]
    rw [hstep, ih (runHook m anc c), runHook_pair]
    by_cases hkm : k = m
    · subst hkm
      by_cases hmem : k ∈ ms
      · simp [hmem, hookPair_idem]
      · simp [hmem]
    · by_cases hmem : k ∈ ms
      · simp [hkm, hmem]
      · simp [hkm, hmem]

theorem runHooks_root (ms : List Meth) (anc : MRO) (c : Cls) : (runHooks ms anc c).root = c.root := by
  induction ms generalizing c with
  | nil => rfl
  | cons m ms ih =>
    have hstep : runHooks (m :: ms) anc c = runHooks ms anc (runHook m anc c) := by
      simp [runHooks, List.foldl]
    rw [hstep, ih, runHook_root]

theorem runHooks_id (ms : List Meth) (anc : MRO) (c : Cls) : (runHooks ms anc c).id = c.id := by
  induction ms generalizing c with
  | nil => rfl
  | cons m ms ih =>
    have hstep : runHooks (m :: ms) anc c = runHooks ms anc (runHook m anc c) := by
      simp [runHooks, List.foldl]
    rw [hstep, ih, runHook_id]

theorem Cls.ext' (c d : Cls) (hid : c.id = d.id) (hroot : c.root = d.root)
    (hp : ∀ k, c.pair k = d.pair k) : c = d := by
  cases c with
  | mk i a s r =>
    cases d with
    | mk i' a' s' r' =>
      simp only [Cls.pair, Prod.mk.injEq] at hp
      have ha : a = a' := funext fun k => (hp k).1
      have hs : s = s' := funext fun k => (hp k).2
      simp_all

/-- The hooks touch disjoint names, so the class only depends on WHICH hooks run, not on their
    order or multiplicity. -/
theorem runHooks_congr (ms ms' : List Meth) (anc : MRO) (c : Cls)
    (h : ∀ k, k ∈ ms ↔ k ∈ ms') : runHooks ms anc c = runHooks ms' anc c := by
  apply Cls.ext'
  · rw [runHooks_id, runHooks_id]
  · rw [runHooks_root, runHooks_root]
  · intro k
    rw [runHooks_pair, runHooks_pair]
    by_cases hk : k ∈ ms
    · simp [hk, (h k).1 hk]
    · have : k ∉ ms' := fun h' => hk ((h k).2 h')
      simp [hk, this]

theorem mem_hookOrder (anc : MRO) (m : Meth) : m ∈ hookOrder anc ↔ hooked anc m = true := by
  unfold hookOrder hooked
  simp only [List.mem_flatMap, List.mem_reverse, List.mem_filter, List.any_eq_true]
  constructor
  · rintro ⟨c, hc, _, hr⟩
    exact ⟨c, hc, hr⟩
  · rintro ⟨c, hc, hr⟩
    exact ⟨c, hc, Meth.mem_all m, hr⟩

theorem mkClass_pair (b : Body) (anc : MRO) (m : Meth) :
    (mkClass b anc).pair m =
      if hooked anc m = true then hookPair m (lookupAttr m anc) ((rawClass b).pair m)
      else (rawClass b).pair m := by
  unfold mkClass
  rw [runHooks_pair]
  by_cases h : hooked anc m = true
  · simp [h, (mem_hookOrder anc m).2 h]
  · have : m ∉ hookOrder anc := fun h' => h ((mem_hookOrder anc m).1 h')
    simp [h, this]

theorem mkClass_root (b : Body) (anc : MRO) : (mkClass b anc).root = b.root := by
  unfold mkClass; rw [runHooks_root]; rfl

theorem mkClass_attr (b : Body) (anc : MRO) (m : Meth) :
    (mkClass b anc).attr m = ((mkClass b anc).pair m).1 := rfl

theorem mkClass_slot (b : Body) (anc : MRO) (m : Meth) :
    (mkClass b anc).slot m = ((mkClass b anc).pair m).2 := rfl

/-! ### monotonicity of `hooked` along a chain -/

theorem hooked_extend (anc : MRO) (b : Body) (m : Meth) (h : hooked anc m = true) :
    hooked (extend anc b) m = true := by
  unfold hooked extend at *
  simp only [List.any_cons, Bool.or_eq_true]
  exact Or.inr h

/-! ### the step lemma -/

theorem lookupAttr_extend (anc : MRO) (b : Body) (m : Meth) :
    lookupAttr m (extend anc b) =
      match ((mkClass b anc).pair m).1 with
      | some f => some f
      | none => lookupAttr m anc := rfl

theorem lookupSlot_extend (anc : MRO) (b : Body) (m : Meth) :
    lookupSlot m (extend anc b) =
      match ((mkClass b anc).pair m).2 with
      | some f => some f
      | none => lookupSlot m anc := rfl

theorem rawClass_pair (b : Body) (m : Meth) :
    (rawClass b).pair m = ((b.meth m).value, if b.slot m then some (.slotfn b.id m) else none) := rfl

/-- State after one hooked step: always a genuine wrapper with the intended slot. -/
theorem step_ok (m : Meth) (w : MRO) (prev : Option Fn) (b : Body)
    (hh : hooked w m = true) (hinv : Inv m w prev)
    (hok : StepOK m (wrappedAt m w) prev b) :
    lookupAttr m (extend w b) = some (.wrapper m) ∧
    lookupSlot m (extend w b) = stepIntended m prev b := by
  rw [lookupAttr_extend, lookupSlot_extend, mkClass_pair, rawClass_pair]
  simp only [hh, if_true]
  unfold Inv at hinv
  unfold StepOK at hok
  unfold stepIntended
  cases hla : lookupAttr m w with
  | none => simp [hla] at hinv
  | some g =>
    rw [hla] at hinv
    simp only at hinv
    cases hd : b.meth m with
    | absent =>
      rw [hd] at hok
      simp only at hok
      simp only [Def.value, hookPair]
      by_cases hg : g = .wrapper m
      · subst hg
        simp only [if_true] at hinv
        simp only [Fn.marked, if_true]
        by_cases hs : b.slot m = true
        · simp [hs]
        · simp [hs, hinv]
      · simp only [hg, if_false] at hinv
        obtain ⟨hgm, hprev⟩ := hinv
        have hw : wrappedAt m w = false := by
          unfold wrappedAt; rw [hla]; simp [hg]
        have hs : b.slot m = false := by
          cases hsb : b.slot m with
          | false => rfl
          | true => have := hok hsb; rw [hw] at this; cases this
        simp [hgm, hs, hprev]
    | fn f =>
      rw [hd] at hok
      simp only at hok
      simp [Def.value, hookPair, hok]
    | alias src m' =>
      rw [hd] at hok
      simp only at hok
      obtain ⟨hm', hrest⟩ := hok
      subst hm'
      simp only [Def.value, hookPair, Fn.marked, if_true]
      by_cases hs : b.slot m' = true
      · simp [hs]
      · have hs' : b.slot m' = false := by simpa using hs
        obtain ⟨hsrc, hwr⟩ := hrest hs'
        have hg : g = .wrapper m' := by
          unfold wrappedAt at hwr; rw [hla] at hwr; simpa using hwr
        subst hg
        simp only [if_true] at hinv
        simp [hs', hinv, hsrc]

theorem inv_after_step (m : Meth) (w : MRO) (b : Body) (r : Option Fn)
    (ha : lookupAttr m (extend w b) = some (.wrapper m)) (hs : lookupSlot m (extend w b) = r) :
    Inv m (extend w b) r ∧ wrappedAt m (extend w b) = true := by
  unfold Inv wrappedAt
  rw [ha]
  simp [hs]

theorem build_append (w : MRO) (bs cs : List Body) : build w (bs ++ cs) = build (build w bs) cs := by
  induction bs generalizing w with
  | nil => rfl
  | cons b bs ih => simp [build, ih]

theorem hooked_build (w : MRO) (bs : List Body) (m : Meth) (h : hooked w m = true) :
    hooked (build w bs) m = true := by
  induction bs generalizing w with
  | nil => exact h
  | cons b bs ih => exact ih (extend w b) (hooked_extend w b m h)

/-- Induction on the chain: the invariant is carried along any number of further subclasses. -/
theorem chain_ok (m : Meth) (bs : List Body) :
    ∀ (w : MRO) (prev : Option Fn), hooked w m = true → Inv m w prev →
      ChainOK m (wrappedAt m w) prev bs →
      Inv m (build w bs) (intended m prev bs) ∧
      (bs ≠ [] → lookupAttr m (build w bs) = some (.wrapper m) ∧
                  lookupSlot m (build w bs) = intended m prev bs) := by
  induction bs with
  | nil =>
    intro w prev _ hinv _
    exact ⟨by simpa [build, intended] using hinv, fun h => absurd rfl h⟩
  | cons b bs ih =>
    intro w prev hh hinv hok
    obtain ⟨hstep, hrest⟩ := hok
    obtain ⟨ha, hs⟩ := step_ok m w prev b hh hinv hstep
    obtain ⟨hinv', hwr'⟩ := inv_after_step m w b _ ha hs
    have hh' := hooked_extend w b m hh
    rw [← hwr'] at hrest
    obtain ⟨hI, hne⟩ := ih (extend w b) (stepIntended m prev b) hh' hinv' hrest
    have hint : intended m prev (b :: bs) = intended m (stepIntended m prev b) bs := by
      simp [intended, List.foldl]
    refine ⟨by simpa [build, hint] using hI, fun _ => ?_⟩
    simp only [build, hint]
    cases bs with
    | nil => exact ⟨by simpa [build] using ha, by simpa [build, intended] using hs⟩
    | cons c cs => exact hne (by simp)

/-! ### marker without premises -/

theorem step_marked (m : Meth) (w : MRO) (b : Body)
    (hh : hooked w m = true) (hsome : (lookupAttr m w).isSome = true) :
    ∃ f, lookupAttr m (extend w b) = some f ∧ f.marked = true := by
  rw [lookupAttr_extend, mkClass_pair, rawClass_pair]
  simp only [hh, if_true]
  cases hla : lookupAttr m w with
  | none => simp [hla] at hsome
  | some g =>
    cases hv : (b.meth m).value with
    | some f =>
      by_cases hf : f.marked = true
      · exact ⟨f, by simp [hookPair, hf], hf⟩
      · exact ⟨.wrapper m, by simp [hookPair, hf], rfl⟩
    | none =>
      by_cases hg : g.marked = true
      · exact ⟨g, by simp [hookPair, hg], hg⟩
      · exact ⟨.wrapper m, by simp [hookPair, hg], rfl⟩

theorem chain_marked (m : Meth) (bs : List Body) :
    ∀ (w : MRO), hooked w m = true → (lookupAttr m w).isSome = true → bs ≠ [] →
      ∃ f, lookupAttr m (build w bs) = some f ∧ f.marked = true := by
  induction bs with
  | nil => intro _ _ _ h; exact absurd rfl h
  | cons b bs ih =>
    intro w hh hsome _
    obtain ⟨f, hf, hm⟩ := step_marked m w b hh hsome
    cases bs with
    | nil => exact ⟨f, by simpa [build] using hf, hm⟩
    | cons c cs =>
      have := ih (extend w b) (hooked_extend w b m hh) (by simp [hf]) (by simp)
      simpa [build] using this

/-! ### idempotence -/

theorem runHooks_idem (ms ms' : List Meth) (anc : MRO) (c : Cls) (h : ∀ k, k ∈ ms' → k ∈ ms) :
    runHooks ms' anc (runHooks ms anc c) = runHooks ms anc c := by
  apply Cls.ext'
  · rw [runHooks_id]
  · rw [runHooks_root]
  · intro k
    rw [runHooks_pair ms' anc (runHooks ms anc c) k]
    by_cases hk : k ∈ ms'
    · have hk' := h k hk
      simp only [hk, if_true]
      rw [runHooks_pair ms anc c k]
      simp [hk', hookPair_idem]
    · simp [hk]

/-! ### inert bases -/

theorem inert_attr (c : Cls) (h : c.inert = true) (m : Meth) : c.attr m = none := by
  unfold Cls.inert at h
  have := (List.all_eq_true.1 h) m (Meth.mem_all m)
  simp only [Bool.and_eq_true, Option.isNone_iff_eq_none] at this
  exact this.1.1

theorem inert_slot (c : Cls) (h : c.inert = true) (m : Meth) : c.slot m = none := by
  unfold Cls.inert at h
  have := (List.all_eq_true.1 h) m (Meth.mem_all m)
  simp only [Bool.and_eq_true, Option.isNone_iff_eq_none] at this
  exact this.1.2

theorem inert_root (c : Cls) (h : c.inert = true) (m : Meth) : c.root m = false := by
  unfold Cls.inert at h
  have := (List.all_eq_true.1 h) m (Meth.mem_all m)
  simp only [Bool.and_eq_true, Bool.not_eq_true'] at this
  exact this.2

theorem lookupAttr_drop_inert (m : Meth) (w : MRO) :
    lookupAttr m (w.filter (fun c => !c.inert)) = lookupAttr m w := by
  induction w with
  | nil => rfl
  | cons c cs ih =>
    by_cases hc : c.inert = true
    · simp [List.filter, hc, lookupAttr, inert_attr c hc m, ih]
    · simp [List.filter, hc, lookupAttr, ih]

theorem lookupSlot_drop_inert (m : Meth) (w : MRO) :
    lookupSlot m (w.filter (fun c => !c.inert)) = lookupSlot m w := by
  induction w with
  | nil => rfl
  | cons c cs ih =>
    by_cases hc : c.inert = true
    · simp [List.filter, hc, lookupSlot, inert_slot c hc m, ih]
    · simp [List.filter, hc, lookupSlot, ih]

theorem hooked_drop_inert (m : Meth) (w : MRO) :
    hooked (w.filter (fun c => !c.inert)) m = hooked w m := by
  induction w with
  | nil => rfl
  | cons c cs ih =>
    unfold hooked at *
    by_cases hc : c.inert = true
    · simp [List.filter, hc, inert_root c hc m, ih]
    · simp [List.filter, hc, ih]

/-! ### soundness of the table checker -/

theorem checkRow_sound (r : Row) (h : checkRow r = true) (m : Meth) (hh : hooked r.anc m = true) :
    lookupAttr m r.mro = some (.wrapper m) ∧
    lookupSlot m r.mro = stepIntended m (resolved m r.anc) r.body := by
  unfold checkRow at h
  have := (List.all_eq_true.1 h) m (Meth.mem_all m)
  simp only [hh, Bool.not_true, Bool.false_or, Bool.and_eq_true, decide_eq_true_eq] at this
  exact step_ok m r.anc _ r.body hh this.1 this.2

end Labrea.Hook

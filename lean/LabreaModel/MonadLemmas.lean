/-
  Rewriting lemmas for the evaluation monad `M`: how `>>=`, `handle` and the primitives compute on a
  given state.  Used by the per-combinator semantic equations.
-/
import LabreaModel.Eval
namespace Labrea

theorem bind_run {α β} (m : M α) (f : α → M β) (s : St) :
    (m >>= f) s = match m s with
      | Option.none => Option.none
      | some (.error e, s') => some (.error e, s')
      | some (.ok a, s') => f a s' := rfl

theorem bind_of_ok {α β} {m : M α} {f : α → M β} {s s1 : St} {a : α} (h : m s = some (.ok a, s1)) :
    (m >>= f) s = f a s1 := by simp [bind_run, h]

theorem bind_of_err {α β} {m : M α} {f : α → M β} {s s1 : St} {e : Err} (h : m s = some (.error e, s1)) :
    (m >>= f) s = some (.error e, s1) := by simp [bind_run, h]

theorem bind_of_none {α β} {m : M α} {f : α → M β} {s : St} (h : m s = Option.none) :
    (m >>= f) s = Option.none := by simp [bind_run, h]

theorem handle_of_ok {α} {m : M α} {k : Err → M α} {s s1 : St} {a : α} (h : m s = some (.ok a, s1)) :
    handle m k s = some (.ok a, s1) := by simp [handle, h]

theorem handle_of_err {α} {m : M α} {k : Err → M α} {s s1 : St} {e : Err} (h : m s = some (.error e, s1)) :
    handle m k s = k e s1 := by simp [handle, h]

theorem handle_of_none {α} {m : M α} {k : Err → M α} {s : St} (h : m s = Option.none) :
    handle m k s = Option.none := by simp [handle, h]

@[simp] theorem pure_run {α} (a : α) (s : St) : (pure a : M α) s = some (.ok a, s) := rfl
@[simp] theorem raise_run {α} (e : Err) (s : St) : (raise e : M α) s = some (.error e, s) := rfl
@[simp] theorem emit_run (ev : Event) (s : St) : emit ev s = some (.ok (), { s with events := ev :: s.events }) := rfl

theorem emitAll_run : ∀ (evs : List Event) (s : St),
    emitAll evs s = some (.ok (), { s with events := evs.reverse ++ s.events })
  | [], s => by simp [emitAll]
  | e :: es, s => by
    simp only [emitAll, bind_run, emit_run]
    rw [emitAll_run es]
    simp [List.reverse_cons, List.append_assoc]

end Labrea

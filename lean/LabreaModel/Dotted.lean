/-
  Layer 0b — confectioner's option-dictionary primitives:
  `get_dotted_key`, `dotted_key_exists`, `set_dotted_key`, `mix` (default arguments).
  Dotted keys are handled as *paths* (`List String`, the result of `str.split('.')`);
  the driver performs the split, the model never looks inside a segment except to decide
  whether it is an index (`int(seg)` succeeds: a non-empty run of ASCII digits).
-/
import LabreaModel.Value
namespace Labrea

/-- outcome of a dotted lookup: value, `KeyError` (also `IndexError`), or a raw `TypeError`
    (subscripting a scalar / a string with a name), which confectioner does not catch -/
inductive Lk (α : Type) where
  | found (v : α)
  | keyErr
  | typeErr
  deriving Repr, DecidableEq, Inhabited

def digitsToNat (cs : List Char) : Nat :=
  cs.foldl (fun acc c => acc * 10 + (c.toNat - '0'.toNat)) 0

/-- `int(seg)` on the modelled key universe -/
def segIndex? (seg : String) : Option Nat :=
  let cs := seg.toList
  if !cs.isEmpty && cs.all Char.isDigit then some (digitsToNat cs) else Option.none

/-- one subscript step of `get_dotted_key` -/
def step (seg : String) (o : V) : Lk V :=
  match o with
  | .dict kvs =>
    match segIndex? seg with
    | some _ => .keyErr
    | Option.none => match alookup seg kvs with
      | some v => .found v
      | Option.none => .keyErr
  | .list xs =>
    match segIndex? seg with
    | some i => match xs[i]? with
      | some v => .found v
      | Option.none => .keyErr
    | Option.none => .keyErr
  | .str s =>
    match segIndex? seg with
    | some i => match s.toList[i]? with
      | some c => .found (.str (String.singleton c))
      | Option.none => .keyErr
    | Option.none => .typeErr
  | _ => .typeErr

/-- `get_dotted_key(path, o)` -/
def walk : List String → V → Lk V
  | [], o => .found o
  | seg :: rest, o =>
    match step seg o with
    | .found v => walk rest v
    | .keyErr => .keyErr
    | .typeErr => .typeErr

/-- `dotted_key_exists`: `none` = the raw `TypeError` escapes -/
def pathExists (p : List String) (o : V) : Option Bool :=
  match walk p o with
  | .found _ => some true
  | .keyErr => some false
  | .typeErr => Option.none

/-- `set_dotted_key(path, v, d)` on a dict `d`; `none` = `TypeError` (assigning into a non-dict).
    Segments are never treated as indices here (that is what the code does). -/
def setPath : List String → V → List (String × V) → Option (List (String × V))
  | [], _, d => some d
  | [k], v, d => some (ainsert k v d)
  | k :: (k2 :: rest), v, d =>
    match alookup k d with
    | Option.none => (setPath (k2 :: rest) v []).map fun sub => ainsert k (.dict sub) d
    | some (.dict sub) => (setPath (k2 :: rest) v sub).map fun sub' => ainsert k (.dict sub') d
    | some _ => Option.none

mutual
/-- `confectioner.mix(dish, ingredient)` with `dicts='merge', lists='overwrite'` on two dicts: the loop
    `for k, v in ingredient.items(): dish[k] = merge(dish.get(k), v)`.  A Python dict has no duplicate keys;
    on an association list that has some, only the first entry of a key counts (as `alookup` reads it):
    `seen` holds the keys already processed. -/
def mixObjAux (seen : List String) (d : List (String × V)) : List (String × V) → List (String × V)
  | [] => d
  | (k, v) :: rest =>
    if seen.contains k then mixObjAux seen d rest
    else mixObjAux (k :: seen) (ainsert k (mixVal (alookup k d) v) d) rest
def mixVal (old : Option V) : V → V
  | .dict iv => match old with
      | some (.dict dv) => .dict (mixObjAux [] dv iv)
      | _ => .dict (mixObjAux [] [] iv)
  | v => v
end

def mixObj (d i : List (String × V)) : List (String × V) := mixObjAux [] d i

/-- `mix` on values; labrea only ever calls it on two dicts, a non-dict `dish` is replaced -/
def mix (dish ingredient : V) : V :=
  match dish, ingredient with
  | .dict d, .dict i => .dict (mixObj d i)
  | _, .dict i => .dict (mixObj [] i)
  | d, _ => d

end Labrea

/-
  Layer 0b — confectioner's option-dictionary primitives:
  `get_dotted_key`, `dotted_key_exists`, `set_dotted_key`, `mix` (default arguments).
  Dotted keys are handled as *paths* (`List String`, the result of `str.split('.')`);
  the driver performs the split, the model never looks inside a segment except to decide
  whether it is an index (`int(seg)` succeeds: an ASCII integer literal — sign, digit groups, white space around).
-/
import LabreaModel.Value
namespace Labrea

/-- outcome of a dotted lookup: value, `KeyError` (also `IndexError`), or a raw `TypeError`
    (subscripting a scalar / a string with a name), which confectioner does not catch -/
inductive Lk (α : Type) where
  | found (v : α)
  | keyErr
  | typeErr
  deriving Repr, DecidableEq, Inhabited

def digitsToNat (cs : List Char) : Nat :=
  cs.foldl (fun acc c => acc * 10 + (c.toNat - '0'.toNat)) 0

/-- ASCII white space, which `int()` strips on both sides -/
def isAsciiSpace (c : Char) : Bool := c == ' ' || c == '\t' || c == '\n' || c == '\r' || c == '\x0b' || c == '\x0c'

/-- the digit groups of an integer literal: non-empty runs of ASCII digits separated by single underscores -/
def digitGroups : List Char → Bool
  | [] => false
  | [c] => c.isDigit
  | c :: d :: rest =>
    if c.isDigit then (if d == '_' then digitGroups rest else digitGroups (d :: rest)) else false

/-- `int(seg)` for ASCII input: optional white space on both sides, an optional sign, digit groups.
    Result: (negative?, magnitude).  (Non-ASCII decimal digits, which `int()` also accepts, are outside the model.) -/
def parseIntLit (cs : List Char) : Option (Bool × Nat) :=
  let body := ((cs.dropWhile isAsciiSpace).reverse.dropWhile isAsciiSpace).reverse
  let (neg, ds) := match body with
    | '-' :: r => (true, r)
    | '+' :: r => (false, r)
    | r => (false, r)
  if digitGroups ds then some (neg, digitsToNat (ds.filter Char.isDigit)) else Option.none

/-- `int(seg)` succeeds: the magnitude of the index -/
def segIndex? (seg : String) : Option Nat := (parseIntLit seg.toList).map Prod.snd

/-- the index counts from the end (`L.-1`); `-0` is `0` -/
def segFromEnd (seg : String) : Bool :=
  match parseIntLit seg.toList with
  | some (true, k) => k != 0
  | _ => false

/-- Python subscripting of a sequence by the integer a segment denotes -/
def seqAt? {α} (seg : String) (i : Nat) (xs : List α) : Option α :=
  if segFromEnd seg then (if i ≤ xs.length then xs[xs.length - i]? else Option.none) else xs[i]?

/-- one subscript step of `get_dotted_key` -/
def step (seg : String) (o : V) : Lk V :=
  match o with
  | .dict kvs =>
    match segIndex? seg with
    | some _ => .keyErr
    | Option.none => match alookup seg kvs with
      | some v => .found v
      | Option.none => .keyErr
  | .list xs =>
    match segIndex? seg with
    | some i => match seqAt? seg i xs with
      | some v => .found v
      | Option.none => .keyErr
    | Option.none => .keyErr
  | .str s =>
    match segIndex? seg with
    | some i => match seqAt? seg i s.toList with
      | some c => .found (.str (String.singleton c))
      | Option.none => .keyErr
    | Option.none => .typeErr
  | _ => .typeErr

/-- `get_dotted_key(path, o)` -/
def walk : List String → V → Lk V
  | [], o => .found o
  | seg :: rest, o =>
    match step seg o with
    | .found v => walk rest v
    | .keyErr => .keyErr
    | .typeErr => .typeErr

/-- `dotted_key_exists`: `none` = the raw `TypeError` escapes -/
def pathExists (p : List String) (o : V) : Option Bool :=
  match walk p o with
  | .found _ => some true
  | .keyErr => some false
  | .typeErr => Option.none

/-- `set_dotted_key(path, v, d)` on a dict `d`; `none` = `TypeError` (assigning into a non-dict).
    Segments are never treated as indices here (that is what the code does). -/
def setPath : List String → V → List (String × V) → Option (List (String × V))
  | [], _, d => some d
  | [k], v, d => some (ainsert k v d)
  | k :: (k2 :: rest), v, d =>
    match alookup k d with
    | Option.none => (setPath (k2 :: rest) v []).map fun sub => ainsert k (.dict sub) d
    | some (.dict sub) => (setPath (k2 :: rest) v sub).map fun sub' => ainsert k (.dict sub') d
    | some _ => Option.none

mutual
/-- `confectioner.mix(dish, ingredient)` with `dicts='merge', lists='overwrite'` on two dicts: the loop
    `for k, v in ingredient.items(): dish[k] = merge(dish.get(k), v)`.  A Python dict has no duplicate keys;
    on an association list that has some, only the first entry of a key counts (as `alookup` reads it):
    `seen` holds the keys already processed. -/
def mixObjAux (seen : List String) (d : List (String × V)) : List (String × V) → List (String × V)
  | [] => d
  | (k, v) :: rest =>
    if seen.contains k then mixObjAux seen d rest
    else mixObjAux (k :: seen) (ainsert k (mixVal (alookup k d) v) d) rest
def mixVal (old : Option V) : V → V
  | .dict iv => match old with
      | some (.dict dv) => .dict (mixObjAux [] dv iv)
      | _ => .dict (mixObjAux [] [] iv)
  | v => v
end

def mixObj (d i : List (String × V)) : List (String × V) := mixObjAux [] d i

/-- `mix` on values; labrea only ever calls it on two dicts, a non-dict `dish` is replaced -/
def mix (dish ingredient : V) : V :=
  match dish, ingredient with
  | .dict d, .dict i => .dict (mixObj d i)
  | _, .dict i => .dict (mixObj [] i)
  | d, _ => d

end Labrea

/-
  Cache transparency of a real dataset, for all histories.

  `@dataset def d(p = Option(key)): return body(p=p)` — one option-valued parameter, no dispatch, no effects, the
  identity callback, a `MemoryCache` — is composed by `Dataset._composed` as
  `WithOptions(WithOptions(Cached(Logged(Computation(Apply(Overloaded, callback), effects))), options), defaults)`.
  The hypotheses of `cache_transparent_of_fingerprint_sound` (CacheTransparency.lean) are proved here for the node
  the dataset's cache wraps, under the real interpreter, for every dotted key, every environment of that shape, every
  fuel ≥ 9 and every state, on the dictionaries that hold an integer under the key and do not set the library's
  switches.
-/
import LabreaModel.Uniform
import LabreaModel.FaultyTransparency
namespace Labrea

/-- the lifted function application `body(p = Option(key))` -/
def dsBody (key pname body : String) : Expr :=
  .funApp 21 (.value 22 (.fn body [] [])) [] [(pname, .option 23 key Option.none Option.none)]

/-- `Pipeline()` : the identity callback -/
def dsCallback : Expr := .pipeline 24 (.pipelineStep 25 (.value 26 (.fn "py:identity" [] []))) Option.none

/-- what the dataset's `Cached` wraps -/
def dsInner (id ovid : Nat) (msg : String) : Expr :=
  .logged (tid id 3) (.computation (tid id 2) (.apply (tid id 1) (.overloaded (tid id 7) ovid) dsCallback) []) msg

structure SimpleDataset (env : Env) (ovid cid : Nat) (key pname body : String) (out : Int → V) : Prop where
  subst : env.subst = Option.none
  logOn : env.logCtxOff = false
  cacheOn : env.cacheCtxOff = false
  ov : env.ov ovid = { dispatch := .value 20 .missing, table := [], dflt := some (dsBody key pname body) }
  β : ∀ i, env.β body [] [(pname, .int i)] = .ok (out i)

/-- the dictionaries of the history: an integer under `key`, none of the library's switches set -/
structure DsDict (key : String) (o : V) : Prop where
  int : ∃ i, getDotted key o = .found (.int i)
  c1 : getDotted "LABREA.CACHE.DISABLED" o = .keyErr
  c2 : getDotted "LABREA.CACHE.DISABLE" o = .keyErr
  l : getDotted "LABREA.LOGGING.DISABLED" o = .keyErr
  e : getDotted "LABREA.EFFECTS.DISABLED" o = .keyErr

def intOf (key : String) (o : V) : Int := match getDotted key o with | .found (.int i) => i | _ => 0

section
variable {env : Env} {ovid cid : Nat} {key pname body : String} {out : Int → V}
variable (H : SimpleDataset env ovid cid key pname body out) {o : V} (ho : DsDict key o)
include H ho

theorem ds_int : getDotted key o = .found (.int (intOf key o)) := by
  obtain ⟨i, hi⟩ := ho.int
  simp [intOf, hi]

theorem ev_value (n id : Nat) (v : V) : U (ev env (n + 1) .evaluate (.value id v) o) (.ok v) :=
  u_ev_evaluate H.subst (u_value_evaluate env _ n o id v)

theorem ev_value_keys (n id : Nat) (v : V) : U (ev env (n + 1) .keys (.value id v) o) (.ok (.set [])) :=
  u_ev_keys (u_value_keys env _ n o id v)

/-- a switch option of the library that is not set: its default `False` -/
theorem ev_switch_option (n id1 id2 : Nat) (k : String) (hk : getDotted k o = .keyErr) :
    U (ev env (n + 2) .evaluate (optFalse id1 k (.value id2 (.bool false))) o) (.ok (.bool false)) := by
  refine u_ev_evaluate H.subst ?_
  simp only [optFalse, nodeOp]
  exact u_option_default env _ (n + 1) o _ id1 k _ _ hk (ev_value H ho n id2 _)

theorem ev_param (n : Nat) :
    U (ev env (n + 2) .evaluate (.option 23 key Option.none Option.none) o) (.ok (.int (intOf key o))) := by
  refine u_ev_evaluate H.subst ?_
  simp only [nodeOp]
  exact u_option_int env _ n o _ 23 key _ (ds_int H ho)

theorem ev_param_keys (n : Nat) :
    U (ev env (n + 1) .keys (.option 23 key Option.none Option.none) o) (.ok (keySet [key])) := by
  refine u_ev_keys ?_
  simp only [nodeOp]
  exact u_option_int_keys env _ n o _ 23 key _ (ds_int H ho)

theorem ev_body (n : Nat) : U (ev env (n + 3) .evaluate (dsBody key pname body) o) (.ok (out (intOf key o))) := by
  refine u_ev_evaluate H.subst ?_
  unfold dsBody
  refine u_funApp env _ (n + 2) o 21 _ [] _ (.fn body [] []) (fun _ => .none) (fun _ => .int (intOf key o)) _
    [Event.call body [] [(pname, .int (intOf key o))]] (ev_value H ho (n + 1) 22 _) (by simp) ?_ ?_
  · intro p hp
    simp only [List.mem_singleton] at hp
    subst hp
    exact ev_param H ho n
  · simp [callV, builtin, mergeKw, ainsert, H.β]

omit H ho in
theorem hashable_missing : hashable V.missing = true := by decide +kernel

/-- the dataset's `Overloaded` without dispatch: the default implementation -/
theorem ev_overloaded (n id : Nat) :
    U (ev env (n + 6) .evaluate (.overloaded id ovid) o) (.ok (out (intOf key o))) := by
  refine u_ev_evaluate H.subst (u_overloaded env _ (n + 5) o .evaluate id ovid _ ?_)
  rw [H.ov]
  refine u_ev_evaluate H.subst ?_
  refine u_switch_default env _ (n + 4) o .evaluate (by decide) _ _ [] _ .missing _ (ev_value H ho (n + 3) 20 _)
    hashable_missing (by simp) ?_
  exact u_ev_evaluate H.subst (u_dependsOn_evaluate env _ (n + 3) o _ _ _ _ (ev_body H ho n))

theorem ev_callback (n : Nat) : U (ev env (n + 3) .evaluate dsCallback o) (.ok (.comp [.fn "py:identity" [] []])) := by
  refine u_ev_evaluate H.subst ?_
  unfold dsCallback
  refine u_pipeline_single env _ (n + 2) o 24 _ _ ?_
  exact u_ev_evaluate H.subst (u_pipelineStep env _ (n + 1) o .evaluate 25 _ _ (ev_value H ho n 26 _))

/-- the node the dataset's cache wraps evaluates, from every state, to the body's value, leaving every store alone -/
theorem ev_inner (n id : Nat) (msg : String) :
    U (ev env (n + 9) .evaluate (dsInner id ovid msg) o) (.ok (out (intOf key o))) := by
  refine u_ev_evaluate H.subst ?_
  unfold dsInner
  refine u_logged env _ (n + 8) o _ _ msg (.bool false) _ H.logOn ?_ ?_
  · exact ev_switch_option H ho (n + 6) _ _ _ ho.l
  refine u_ev_evaluate H.subst ?_
  refine u_computation_noeffects env _ (n + 7) o _ _ _ (.bool false) ?_ (ev_switch_option H ho (n + 5) _ _ _ ho.e)
  refine u_ev_evaluate H.subst ?_
  refine u_apply env _ (n + 6) o _ _ _ (out (intOf key o)) (.comp [.fn "py:identity" [] []]) (out (intOf key o)) []
    (by intro i es h; cases h) (by intro i y its h; cases h) (ev_overloaded H ho n _) (ev_callback H ho (n + 3)) ?_
  simp [callV, callChain, builtin]

/-! #### `keys()` of the same node, and its fingerprint -/

theorem ev_body_keys (n : Nat) : ∃ ks, U (ev env (n + 2) .keys (dsBody key pname body) o) (.ok ks) ∧ keyStrings ks = [key] := by
  have h := u_funApp_keys env (ev env (n + 1)) (n + 1) o 21 (.value 22 (.fn body [] [])) []
    [(pname, .option 23 key Option.none Option.none)] (.set []) (fun _ => keySet [key]) (ev_value_keys H ho n 22 _) (by simp)
    (by intro x hx; simp only [List.map_cons, List.map_nil, List.mem_singleton] at hx; subst hx; exact ev_param_keys H ho n)
  refine ⟨_, u_ev_keys h, ?_⟩
  simp [unionV, unionAll, unionKeys, keySet, dedup, V.setElems, keyStrings, pyMem]

theorem ev_switch_keys (n id : Nat) (kb : V) (hb : U (ev env (n + 3) .keys (dsBody key pname body) o) (.ok kb)) :
    U (ev env (n + 5) .keys (.switch id (.value 20 .missing) [] (some (dsBody key pname body))) o) (.ok (unionV kb (.set []))) := by
  have hdep : U (ev env (n + 4) .keys (.dependsOn (tid id 1) (dsBody key pname body) (.value 20 .missing)) o)
      (.ok (unionV kb (.set []))) :=
    u_ev_keys (u_dependsOn_keys env _ (n + 3) o _ _ _ _ _ hb (ev_value_keys H ho (n + 2) 20 _))
  have hd : U (ev env (n + 4) .evaluate (.value 20 .missing) o) (.ok .missing) := ev_value H ho (n + 3) 20 _
  exact u_ev_keys (u_switch_default env (ev env (n + 4)) (n + 4) o .keys (by intro h; cases h) id (.value 20 .missing) []
    (dsBody key pname body) .missing _ hd hashable_missing rfl hdep)

theorem ev_inner_keys (n id : Nat) (msg : String) :
    ∃ ks, U (ev env (n + 9) .keys (dsInner id ovid msg) o) (.ok ks) ∧ keyStrings ks = [key] := by
  obtain ⟨kb, hb, hkb⟩ := ev_body_keys H ho (n + 1)
  have hsw : U (ev env (n + 6) .keys (.overloaded (tid id 7) ovid) o) (.ok (unionV kb (.set []))) := by
    refine u_ev_keys (u_overloaded env _ (n + 5) o .keys _ ovid _ ?_)
    rw [H.ov]
    exact ev_switch_keys H ho n _ kb hb
  have hcb : U (ev env (n + 6) .keys dsCallback o) (.ok (.set [])) := by
    refine u_ev_keys ?_
    unfold dsCallback
    refine u_pipeline_single_keys env _ (n + 5) o 24 _ _ ?_
    exact u_ev_keys (u_pipelineStep env _ (n + 4) o .keys 25 _ _ (ev_value_keys H ho (n + 3) 26 _))
  have happ : U (ev env (n + 7) .keys (.apply (tid id 1) (.overloaded (tid id 7) ovid) dsCallback) o)
      (.ok (unionV (unionV kb (.set [])) (.set []))) :=
    u_ev_keys (u_apply_keys env _ (n + 6) o _ _ _ _ _ hsw hcb)
  refine ⟨unionV (unionV kb (.set [])) (.set []), ?_, ?_⟩
  · refine u_ev_keys ?_
    unfold dsInner
    exact u_logged_keys env _ (n + 8) o _ _ msg _ (u_ev_keys (u_computation_keys env _ (n + 7) o _ _ [] _ happ))
  · -- the union with empty sets changes nothing about the strings
    cases kb with
    | set xs => simpa [unionV, unionKeys, V.setElems, keyStrings] using hkb
    | _ => simp [keyStrings, V.setElems] at hkb

omit H in
theorem u_fpItems_single : U (fpItems o [key]) (.ok [V.dict [(key, .int (intOf key o))]]) := by
  obtain ⟨i, hi⟩ := ho.int
  have : intOf key o = i := by simp [intOf, hi]
  refine ⟨fun s => ?_⟩
  simp [fpItems, getKey, readKey, bind_run, emit_run, pure_run, hi, this]
  exact ⟨rfl, rfl⟩

theorem ds_fingerprint (n id : Nat) (msg : String) :
    U (fingerprintOf (ev env (n + 9)) (dsInner id ovid msg) o) (.ok (.list [.dict [(key, .int (intOf key o))]])) := by
  obtain ⟨ks, hks, hstr⟩ := ev_inner_keys H ho n id msg
  unfold fingerprintOf
  refine u_bind hks ?_
  simp only [hstr, sortStrings, List.foldr_cons, List.foldr_nil, insertSorted]
  exact u_bind (u_fpItems_single ho) (u_pure _)

theorem ds_enabled (n : Nat) : U (cacheDisabled env (ev env (n + 3)) o) (.ok false) := by
  unfold cacheDisabled
  simp only [H.cacheOn, Bool.false_eq_true, if_false]
  refine u_bind (a := .bool false) ?_ (u_pure _)
  refine u_ev_evaluate H.subst ?_
  simp only [cacheDisabledOption, optFalse, nodeOp]
  exact u_option_default env _ (n + 2) o _ _ _ _ _ ho.c1 (ev_switch_option H ho n _ _ _ ho.c2)

end

/-- **the hypotheses of the reduction hold of a real dataset.** -/
theorem dataset_fingerprint_sound {env : Env} {ovid cid : Nat} {key pname body : String} {out : Int → V}
    (H : SimpleDataset env ovid cid key pname body out) (hk : env.cacheKind cid = .memory) (n id : Nat) (msg : String) :
    FingerprintSound env (ev env (n + 9)) (dsInner id ovid msg) cid (DsDict key)
      (fun o => .list [.dict [(key, .int (intOf key o))]]) (fun o => .ok (out (intOf key o))) where
  memory := hk
  enabled := fun o ho s => (ds_enabled H ho (n + 6)).E cid s
  fingerprint := fun o ho s => (ds_fingerprint H ho n id msg).E cid s
  inner := fun o ho s => (ev_inner H ho n id msg).E cid s
  sufficient := by
    intro o o' _ _ h
    simp only [V.list.injEq, List.cons.injEq, V.dict.injEq, Prod.mk.injEq, V.int.injEq, true_and, and_true] at h
    rw [h]

/-- the same over an unreliable backend -/
theorem dataset_fingerprint_soundF {env : Env} {ovid cid : Nat} {key pname body : String} {out : Int → V}
    (H : SimpleDataset env ovid cid key pname body out) (hk : env.cacheKind cid = .scripted) (n id : Nat) (msg : String) :
    FingerprintSoundF env (ev env (n + 9)) (dsInner id ovid msg) cid (DsDict key)
      (fun o => .list [.dict [(key, .int (intOf key o))]]) (fun o => .ok (out (intOf key o))) where
  scripted := hk
  enabled := fun o ho s => (ds_enabled H ho (n + 6)).E cid s
  fingerprint := fun o ho s => (ds_fingerprint H ho n id msg).E cid s
  inner := fun o ho s => (ev_inner H ho n id msg).E cid s
  sufficient := by
    intro o o' _ _ h
    simp only [V.list.injEq, List.cons.injEq, V.dict.injEq, Prod.mk.injEq, V.int.injEq, true_and, and_true] at h
    rw [h]

end Labrea

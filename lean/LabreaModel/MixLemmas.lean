/-
  Algebra of `mix` (confectioner's recursive merge), `walk` (dotted lookup) and `setPath`.
-/
import LabreaModel.Dotted
namespace Labrea

theorem mixObj_nil (d : List (String × V)) : mixObj d [] = d := by simp [mixObj, mixObjAux]

theorem mixObj_singleton (d : List (String × V)) (k : String) (v : V) :
    mixObj d [(k, v)] = ainsert k (mixVal (alookup k d) v) d := by simp [mixObj, mixObjAux]

theorem alookup_eq_none_of_not_mem {α} {k : String} : ∀ {l : List (String × α)}, k ∉ akeys l → alookup k l = Option.none
  | [], _ => rfl
  | (k', v) :: rest, h => by
    simp only [akeys, List.map_cons, List.mem_cons, not_or] at h
    simp only [alookup, Ne.symm h.1, if_false]
    exact alookup_eq_none_of_not_mem (by simpa [akeys] using h.2)

/-- lookup in a merge in progress: keys already processed (`seen`) are not touched again -/
theorem alookup_mixObjAux (k : String) : ∀ (i : List (String × V)) (seen : List String) (d : List (String × V)),
    alookup k (mixObjAux seen d i) =
      if seen.contains k then alookup k d else
      match alookup k i with
      | Option.none => alookup k d
      | some v => some (mixVal (alookup k d) v)
  | [], seen, d => by simp [mixObjAux, alookup]
  | (k', v) :: rest, seen, d => by
    unfold mixObjAux
    by_cases hs : seen.contains k' = true
    · rw [if_pos hs, alookup_mixObjAux k rest seen d]
      by_cases hk : seen.contains k = true
      · rw [if_pos hk, if_pos hk]
      · have hne : k' ≠ k := fun h => hk (h ▸ hs)
        rw [if_neg hk, if_neg hk]
        simp [alookup, hne]
    · rw [if_neg hs, alookup_mixObjAux k rest (k' :: seen) _]
      by_cases hkk : k' = k
      · subst hkk
        have h1 : (k' :: seen).contains k' = true := by simp
        rw [if_pos h1, if_neg hs]
        simp [alookup, alookup_ainsert_same]
      · have h1 : (k' :: seen).contains k = seen.contains k := by
          simp [List.contains_cons, Ne.symm hkk]
        rw [h1, alookup_ainsert_other (Ne.symm hkk)]
        simp [alookup, hkk]

/-- lookup in a merge: the ingredient decides when it has the key (merging sections), the dish otherwise
    (no well-formedness hypothesis: of duplicate keys in an association list only the first counts) -/
theorem alookup_mixObj' (k : String) (i d : List (String × V)) :
    alookup k (mixObj d i) = match alookup k i with
      | Option.none => alookup k d
      | some v => some (mixVal (alookup k d) v) := by
  simp [mixObj, alookup_mixObjAux]

theorem alookup_mixObj (k : String) (i d : List (String × V)) (_ : (akeys i).Nodup) :
    alookup k (mixObj d i) = match alookup k i with
      | Option.none => alookup k d
      | some v => some (mixVal (alookup k d) v) := alookup_mixObj' k i d

/-- pre-set scalars and lists win -/
theorem mix_ingredient_scalar_wins (k : String) (i d : List (String × V)) (v : V) (hnd : (akeys i).Nodup)
    (hv : alookup k i = some v) (hs : v.isDict = false) : alookup k (mixObj d i) = some v := by
  rw [alookup_mixObj k i d hnd, hv]
  cases v <;> simp_all [mixVal, V.isDict]

/-- sections present on both sides are merged key by key -/
theorem mix_sections_merge (k : String) (i d iv dv : List (String × V)) (hnd : (akeys i).Nodup)
    (hi : alookup k i = some (.dict iv)) (hd : alookup k d = some (.dict dv)) :
    alookup k (mixObj d i) = some (.dict (mixObj dv iv)) := by
  rw [alookup_mixObj k i d hnd, hi, hd]; simp [mixVal, mixObj]

/-- what the ingredient does not mention is kept -/
theorem mix_keeps_other (k : String) (i d : List (String × V)) (hnd : (akeys i).Nodup)
    (hi : alookup k i = Option.none) : alookup k (mixObj d i) = alookup k d := by
  rw [alookup_mixObj k i d hnd, hi]

/-- segments that `get_dotted_key` treats as names -/
def NoIdx (p : List String) : Prop := ∀ seg ∈ p, segIndex? seg = Option.none

theorem step_dict_name (seg : String) (kvs : List (String × V)) (h : segIndex? seg = Option.none) :
    step seg (.dict kvs) = match alookup seg kvs with
      | some v => .found v
      | Option.none => .keyErr := by
  cases hl : alookup seg kvs <;> simp [step, h, hl]

theorem walk_cons_found {seg : String} {rest : List String} {o v : V} (h : step seg o = .found v) :
    walk (seg :: rest) o = walk rest v := by
  simp [walk, h]

theorem step_dict_found {seg : String} {kvs : List (String × V)} {v : V} (h : segIndex? seg = Option.none)
    (hl : alookup seg kvs = some v) : step seg (.dict kvs) = .found v := by
  rw [step_dict_name _ _ h, hl]

theorem walk_dict_nil_found {ks : List String} {w : V} (h : walk ks (.dict []) = .found w) : ks = [] := by
  cases ks with
  | nil => rfl
  | cons seg rest =>
    simp only [walk, step] at h
    cases hi : segIndex? seg <;> simp [hi, alookup] at h

theorem mixVal_dict (old : Option V) (iv : List (String × V)) :
    ∃ dv, mixVal old (.dict iv) = mix (.dict dv) (.dict iv) ∧
      (old = some (.dict dv) ∨ (dv = [] ∧ ∀ x, old ≠ some (.dict x))) := by
  cases old with
  | none => exact ⟨[], by simp [mixVal, mix, mixObj], Or.inr ⟨rfl, by simp⟩⟩
  | some o =>
    cases o with
    | dict dv => exact ⟨dv, by simp [mixVal, mix, mixObj], Or.inl rfl⟩
    | _ => exact ⟨[], by simp [mixVal, mix, mixObj], Or.inr ⟨rfl, by simp⟩⟩

/-- **a key found in a merge is found in one of the two dictionaries** (`get_dotted_key` on `mix(a, b)`;
    no hypothesis on `a`, `b` or the path: index segments, strings, scalars and lists included) -/
theorem walk_mix_found : ∀ (ks : List String) (a b v : V), walk ks (mix a b) = .found v →
    (∃ w, walk ks a = .found w) ∨ (∃ w, walk ks b = .found w)
  | [], a, _, _, _ => Or.inl ⟨a, rfl⟩
  | seg :: rest, a, b, v, h => by
    cases b with
    | dict i =>
      -- the dish as a dict (`[]` when it is not one: it is replaced)
      have hm : ∃ d, mix a (.dict i) = .dict (mixObj d i) ∧
          (∀ w, walk (seg :: rest) (.dict d) = .found w → walk (seg :: rest) a = .found w) := by
        cases a with
        | dict d => exact ⟨d, by simp [mix], fun _ h => h⟩
        | _ =>
          refine ⟨[], by simp [mix], fun w hw => ?_⟩
          have := walk_dict_nil_found hw
          cases this
      obtain ⟨d, hmix, hback⟩ := hm
      rw [hmix] at h
      simp only [walk] at h
      cases hi : segIndex? seg with
      | some n => simp [step, hi] at h
      | none =>
        rw [step_dict_name _ _ hi, alookup_mixObj'] at h
        cases hb : alookup seg i with
        | none =>
          simp only [hb] at h
          cases hd : alookup seg d with
          | none => simp [hd] at h
          | some v' =>
            simp only [hd] at h
            refine Or.inl ⟨v, hback v ?_⟩
            simp [walk, step_dict_name _ _ hi, hd, h]
        | some vb =>
          simp only [hb] at h
          have hright : ∀ w, walk rest vb = .found w → ∃ w, walk (seg :: rest) (.dict i) = .found w := fun w hw =>
            ⟨w, by simp [walk, step_dict_name _ _ hi, hb, hw]⟩
          by_cases hvb : ∃ iv, vb = .dict iv
          · obtain ⟨iv, rfl⟩ := hvb
            obtain ⟨dv, hmv, hold⟩ := mixVal_dict (alookup seg d) iv
            rw [hmv] at h
            rcases walk_mix_found rest (.dict dv) (.dict iv) v h with ⟨w, hw⟩ | ⟨w, hw⟩
            · rcases hold with hold | ⟨rfl, _⟩
              · refine Or.inl ⟨w, hback w ?_⟩
                simp [walk, step_dict_name _ _ hi, hold, hw]
              · have := walk_dict_nil_found hw
                subst this
                exact Or.inr (hright _ rfl)
            · exact Or.inr (hright w hw)
          · have hmv : mixVal (alookup seg d) vb = vb := by
              cases vb <;> first | rfl | (exact absurd ⟨_, rfl⟩ hvb)
            rw [hmv] at h
            exact Or.inr (hright v h)
    | _ =>
      all_goals
        refine Or.inl ⟨v, ?_⟩
        have hm : ∀ x : V, (∀ i, x ≠ .dict i) → mix a x = a := by
          intro x hx; cases a <;> cases x <;> first | rfl | (exact absurd rfl (hx _))
        rwa [hm _ (by intro i hi; cases hi)] at h

/-- `Option.set` followed by a lookup: `get_dotted_key(k, mix(o, set_dotted_key(k, v, {}))) = v` for a
    non-mapping `v` and a key without index segments, whatever `o` contains -/
theorem set_get (v : V) (hv : v.isDict = false) : ∀ (p : List String), p ≠ [] → NoIdx p → ∀ (d : List (String × V)),
    ∃ sub, setPath p v [] = some sub ∧ walk p (.dict (mixObj d sub)) = .found v
  | [], h, _, _ => absurd rfl h
  | [k], _, hn, d => by
    refine ⟨[(k, v)], by simp [setPath, ainsert], ?_⟩
    have hk : segIndex? k = Option.none := hn k (by simp)
    have hm : mixVal (alookup k d) v = v := by cases v <;> simp_all [mixVal, V.isDict]
    have hl : alookup k (mixObj d [(k, v)]) = some v := by
      rw [mixObj_singleton, hm]; exact alookup_ainsert_same _ _ _
    rw [walk_cons_found (step_dict_found hk hl)]
    rfl
  | k :: k2 :: rest, _, hn, d => by
    have hk : segIndex? k = Option.none := hn k (by simp)
    have hn' : NoIdx (k2 :: rest) := fun seg hs => hn seg (by simp [hs])
    -- the section the merge leaves under `k`
    have key : ∀ dv : List (String × V), ∃ sub, setPath (k2 :: rest) v [] = some sub ∧
        walk (k2 :: rest) (.dict (mixObj dv sub)) = .found v := fun dv => set_get v hv (k2 :: rest) (by simp) hn' dv
    obtain ⟨sub, hsub, _⟩ := key []
    have hset : setPath (k :: k2 :: rest) v [] = some [(k, .dict sub)] := by
      rw [setPath]
      simp [alookup, hsub, ainsert]
    refine ⟨[(k, .dict sub)], hset, ?_⟩
    have hm : ∃ dv, mixVal (alookup k d) (.dict sub) = .dict (mixObj dv sub) := by
      cases hd : alookup k d with
      | none => exact ⟨[], by simp [mixVal, mixObj]⟩
      | some old =>
        cases old with
        | dict dv => exact ⟨dv, by simp [mixVal, mixObj]⟩
        | _ => exact ⟨[], by simp [mixVal, mixObj]⟩
    obtain ⟨dv, hdv⟩ := hm
    have hl : alookup k (mixObj d [(k, .dict sub)]) = some (.dict (mixObj dv sub)) := by
      rw [mixObj_singleton, hdv]; exact alookup_ainsert_same _ _ _
    rw [walk_cons_found (step_dict_found hk hl)]
    obtain ⟨sub', hsub', hw⟩ := key dv
    have : sub' = sub := by rw [hsub] at hsub'; exact (Option.some.inj hsub').symm
    subst this
    exact hw

/-- `Option.set` leaves every other top-level key intact -/
theorem set_frame_top (v : V) (p : List String) (k k' : String) (rest : List String) (hp : p = k :: rest)
    (hne : k' ≠ k) (d sub : List (String × V)) (hs : setPath p v [] = some sub) :
    alookup k' (mixObj d sub) = alookup k' d := by
  subst hp
  cases rest with
  | nil =>
    simp only [setPath, ainsert, Option.some.injEq] at hs
    subst hs
    simp [mixObj_singleton, alookup_ainsert_other hne]
  | cons k2 rest =>
    simp only [setPath, alookup, Option.map_eq_some_iff] at hs
    obtain ⟨sub', _, hs⟩ := hs
    subst hs
    have : ainsert k (V.dict sub') [] = [(k, V.dict sub')] := by simp [ainsert]
    rw [this, mixObj_singleton, alookup_ainsert_other hne]

end Labrea

/-
  Algebra of `mix` (confectioner's recursive merge), `walk` (dotted lookup) and `setPath`.
-/
import LabreaModel.Dotted
namespace Labrea

theorem mixObj_nil (d : List (String × V)) : mixObj d [] = d := by simp [mixObj]

theorem mixObj_cons (d : List (String × V)) (k : String) (v : V) (rest : List (String × V)) :
    mixObj d ((k, v) :: rest) = mixObj (ainsert k (mixVal (alookup k d) v) d) rest := by simp [mixObj]

theorem alookup_eq_none_of_not_mem {α} {k : String} : ∀ {l : List (String × α)}, k ∉ akeys l → alookup k l = Option.none
  | [], _ => rfl
  | (k', v) :: rest, h => by
    simp only [akeys, List.map_cons, List.mem_cons, not_or] at h
    simp only [alookup, Ne.symm h.1, if_false]
    exact alookup_eq_none_of_not_mem (by simpa [akeys] using h.2)

/-- lookup in a merge: the ingredient decides when it has the key (merging sections), the dish otherwise -/
theorem alookup_mixObj (k : String) : ∀ (i d : List (String × V)), (akeys i).Nodup →
    alookup k (mixObj d i) = match alookup k i with
      | Option.none => alookup k d
      | some v => some (mixVal (alookup k d) v)
  | [], d, _ => by simp [mixObj, alookup]
  | (k', v) :: rest, d, hnd => by
    simp only [akeys, List.map_cons, List.nodup_cons] at hnd
    rw [mixObj_cons, alookup_mixObj k rest _ hnd.2]
    by_cases hk : k' = k
    · subst hk
      have : alookup k' rest = Option.none := alookup_eq_none_of_not_mem (by simpa [akeys] using hnd.1)
      simp [this, alookup]
    · simp only [alookup, hk, if_false]
      rw [alookup_ainsert_other (Ne.symm hk)]

/-- pre-set scalars and lists win -/
theorem mix_ingredient_scalar_wins (k : String) (i d : List (String × V)) (v : V) (hnd : (akeys i).Nodup)
    (hv : alookup k i = some v) (hs : v.isDict = false) : alookup k (mixObj d i) = some v := by
  rw [alookup_mixObj k i d hnd, hv]
  cases v <;> simp_all [mixVal, V.isDict]

/-- sections present on both sides are merged key by key -/
theorem mix_sections_merge (k : String) (i d iv dv : List (String × V)) (hnd : (akeys i).Nodup)
    (hi : alookup k i = some (.dict iv)) (hd : alookup k d = some (.dict dv)) :
    alookup k (mixObj d i) = some (.dict (mixObj dv iv)) := by
  rw [alookup_mixObj k i d hnd, hi, hd]; simp [mixVal]

/-- what the ingredient does not mention is kept -/
theorem mix_keeps_other (k : String) (i d : List (String × V)) (hnd : (akeys i).Nodup)
    (hi : alookup k i = Option.none) : alookup k (mixObj d i) = alookup k d := by
  rw [alookup_mixObj k i d hnd, hi]

/-- segments that `get_dotted_key` treats as names -/
def NoIdx (p : List String) : Prop := ∀ seg ∈ p, segIndex? seg = Option.none

theorem step_dict_name (seg : String) (kvs : List (String × V)) (h : segIndex? seg = Option.none) :
    step seg (.dict kvs) = match alookup seg kvs with
      | some v => .found v
      | Option.none => .keyErr := by
  cases hl : alookup seg kvs <;> simp [step, h, hl]

theorem walk_cons_found {seg : String} {rest : List String} {o v : V} (h : step seg o = .found v) :
    walk (seg :: rest) o = walk rest v := by
  simp [walk, h]

theorem step_dict_found {seg : String} {kvs : List (String × V)} {v : V} (h : segIndex? seg = Option.none)
    (hl : alookup seg kvs = some v) : step seg (.dict kvs) = .found v := by
  rw [step_dict_name _ _ h, hl]

/-- `Option.set` followed by a lookup: `get_dotted_key(k, mix(o, set_dotted_key(k, v, {}))) = v` for a
    non-mapping `v` and a key without index segments, whatever `o` contains -/
theorem set_get (v : V) (hv : v.isDict = false) : ∀ (p : List String), p ≠ [] → NoIdx p → ∀ (d : List (String × V)),
    ∃ sub, setPath p v [] = some sub ∧ walk p (.dict (mixObj d sub)) = .found v
  | [], h, _, _ => absurd rfl h
  | [k], _, hn, d => by
    refine ⟨[(k, v)], by simp [setPath, ainsert], ?_⟩
    have hk : segIndex? k = Option.none := hn k (by simp)
    have hm : mixVal (alookup k d) v = v := by cases v <;> simp_all [mixVal, V.isDict]
    have hl : alookup k (mixObj d [(k, v)]) = some v := by
      rw [mixObj_cons, mixObj_nil, hm]; exact alookup_ainsert_same _ _ _
    rw [walk_cons_found (step_dict_found hk hl)]
    rfl
  | k :: k2 :: rest, _, hn, d => by
    have hk : segIndex? k = Option.none := hn k (by simp)
    have hn' : NoIdx (k2 :: rest) := fun seg hs => hn seg (by simp [hs])
    -- the section the merge leaves under `k`
    have key : ∀ dv : List (String × V), ∃ sub, setPath (k2 :: rest) v [] = some sub ∧
        walk (k2 :: rest) (.dict (mixObj dv sub)) = .found v := fun dv => set_get v hv (k2 :: rest) (by simp) hn' dv
    obtain ⟨sub, hsub, _⟩ := key []
    have hset : setPath (k :: k2 :: rest) v [] = some [(k, .dict sub)] := by
      rw [setPath]
      simp [alookup, hsub, ainsert]
    refine ⟨[(k, .dict sub)], hset, ?_⟩
    have hm : ∃ dv, mixVal (alookup k d) (.dict sub) = .dict (mixObj dv sub) := by
      cases hd : alookup k d with
      | none => exact ⟨[], by simp [mixVal]⟩
      | some old =>
        cases old with
        | dict dv => exact ⟨dv, by simp [mixVal]⟩
        | _ => exact ⟨[], by simp [mixVal]⟩
    obtain ⟨dv, hdv⟩ := hm
    have hl : alookup k (mixObj d [(k, .dict sub)]) = some (.dict (mixObj dv sub)) := by
      rw [mixObj_cons, mixObj_nil, hdv]; exact alookup_ainsert_same _ _ _
    rw [walk_cons_found (step_dict_found hk hl)]
    obtain ⟨sub', hsub', hw⟩ := key dv
    have : sub' = sub := by rw [hsub] at hsub'; exact (Option.some.inj hsub').symm
    subst this
    exact hw

/-- `Option.set` leaves every other top-level key intact -/
theorem set_frame_top (v : V) (p : List String) (k k' : String) (rest : List String) (hp : p = k :: rest)
    (hne : k' ≠ k) (d sub : List (String × V)) (hs : setPath p v [] = some sub) :
    alookup k' (mixObj d sub) = alookup k' d := by
  subst hp
  cases rest with
  | nil =>
    simp only [setPath, ainsert, Option.some.injEq] at hs
    subst hs
    simp [mixObj, alookup_ainsert_other hne]
  | cons k2 rest =>
    simp only [setPath, alookup, Option.map_eq_some_iff] at hs
    obtain ⟨sub', _, hs⟩ := hs
    subst hs
    simp [mixObj, ainsert, alookup_ainsert_other hne]

end Labrea

/-
  Layer 0a — Python values as they flow through labrea.

  One type `V` serves both as the JSON option dictionaries (`none/bool/int/str/list/dict`)
  and as evaluation results (adding tuples, sets, opaque results of user callables,
  callable values and the MISSING sentinel).  Dictionaries are association lists in
  *insertion order* (as Python dicts are); only string keys are modelled.
  No Mathlib imports: this file is part of the compiled driver.
-/
namespace Labrea

inductive V where
  | none
  | bool (b : Bool)
  | int (i : Int)
  | str (s : String)
  | list (xs : List V)
  | dict (kvs : List (String × V))
  | tuple (xs : List V)
  | set (xs : List V)
  /-- result of an opaque ("free") user callable: records which body saw which arguments -/
  | app (f : String) (args : List V) (kw : List (String × V))
  /-- a callable value: named primitive / user function with bound (functools.partial) arguments -/
  | fn (f : String) (pos : List V) (kw : List (String × V))
  /-- composition of callables, applied left to right (`Pipeline.evaluate`) -/
  | comp (fs : List V)
  | missing
  deriving Inhabited, Repr

mutual
def V.beq : V → V → Bool
  | .none, .none => true
  | .bool a, .bool b => a == b
  | .int a, .int b => a == b
  | .str a, .str b => a == b
  | .list a, .list b => V.beqList a b
  | .dict a, .dict b => V.beqKvs a b
  | .tuple a, .tuple b => V.beqList a b
  | .set a, .set b => V.beqList a b
  | .app f a k, .app g b l => f == g && V.beqList a b && V.beqKvs k l
  | .fn f a k, .fn g b l => f == g && V.beqList a b && V.beqKvs k l
  | .comp a, .comp b => V.beqList a b
  | .missing, .missing => true
  | _, _ => false
def V.beqList : List V → List V → Bool
  | [], [] => true
  | x :: xs, y :: ys => V.beq x y && V.beqList xs ys
  | _, _ => false
def V.beqKvs : List (String × V) → List (String × V) → Bool
  | [], [] => true
  | (k, x) :: xs, (k', y) :: ys => k == k' && V.beq x y && V.beqKvs xs ys
  | _, _ => false
end

mutual
theorem V.beq_eq : ∀ (a b : V), V.beq a b = true → a = b
  | .none, b => by cases b <;> simp [V.beq]
  | .bool a, b => by cases b <;> simp [V.beq]
  | .int a, b => by cases b <;> simp [V.beq]
  | .str a, b => by cases b <;> simp [V.beq]
  | .missing, b => by cases b <;> simp [V.beq]
  | .list a, b => by
      cases b <;> simp [V.beq]
      exact V.beqList_eq a _
  | .tuple a, b => by
      cases b <;> simp [V.beq]
      exact V.beqList_eq a _
  | .set a, b => by
      cases b <;> simp [V.beq]
      exact V.beqList_eq a _
  | .comp a, b => by
      cases b <;> simp [V.beq]
      exact V.beqList_eq a _
  | .dict a, b => by
      cases b <;> simp [V.beq]
      exact V.beqKvs_eq a _
  | .app f a k, b => by
      cases b <;> simp [V.beq]
      intro h0 h1 h2
      exact ⟨h0, V.beqList_eq a _ h1, V.beqKvs_eq k _ h2⟩
  | .fn f a k, b => by
      cases b <;> simp [V.beq]
      intro h0 h1 h2
      exact ⟨h0, V.beqList_eq a _ h1, V.beqKvs_eq k _ h2⟩
theorem V.beqList_eq : ∀ (a b : List V), V.beqList a b = true → a = b
  | [], b => by cases b <;> simp [V.beqList]
  | x :: xs, b => by
      cases b with
      | nil => simp [V.beqList]
      | cons y ys =>
        simp [V.beqList]
        intro h1 h2
        exact ⟨V.beq_eq x y h1, V.beqList_eq xs ys h2⟩
theorem V.beqKvs_eq : ∀ (a b : List (String × V)), V.beqKvs a b = true → a = b
  | [], b => by cases b <;> simp [V.beqKvs]
  | (k, x) :: xs, b => by
      cases b with
      | nil => simp [V.beqKvs]
      | cons y ys =>
        obtain ⟨k', y⟩ := y
        simp [V.beqKvs]
        intro h0 h1 h2
        exact ⟨⟨h0, V.beq_eq x y h1⟩, V.beqKvs_eq xs ys h2⟩
end

mutual
theorem V.beq_refl : ∀ (a : V), V.beq a a = true
  | .none => by simp [V.beq]
  | .bool a => by simp [V.beq]
  | .int a => by simp [V.beq]
  | .str a => by simp [V.beq]
  | .missing => by simp [V.beq]
  | .list a => by simp [V.beq]; exact V.beqList_refl a
  | .tuple a => by simp [V.beq]; exact V.beqList_refl a
  | .set a => by simp [V.beq]; exact V.beqList_refl a
  | .comp a => by simp [V.beq]; exact V.beqList_refl a
  | .dict a => by simp [V.beq]; exact V.beqKvs_refl a
  | .app f a k => by simp [V.beq]; exact ⟨V.beqList_refl a, V.beqKvs_refl k⟩
  | .fn f a k => by simp [V.beq]; exact ⟨V.beqList_refl a, V.beqKvs_refl k⟩
theorem V.beqList_refl : ∀ (a : List V), V.beqList a a = true
  | [] => by simp [V.beqList]
  | x :: xs => by simp [V.beqList]; exact ⟨V.beq_refl x, V.beqList_refl xs⟩
theorem V.beqKvs_refl : ∀ (a : List (String × V)), V.beqKvs a a = true
  | [] => by simp [V.beqKvs]
  | (k, x) :: xs => by simp [V.beqKvs]; exact ⟨V.beq_refl x, V.beqKvs_refl xs⟩
end

instance : DecidableEq V := fun a b =>
  if h : V.beq a b = true then isTrue (V.beq_eq a b h)
  else isFalse (fun e => h (e ▸ V.beq_refl a))

/-- association-list lookup (first match), as `dict.__getitem__` -/
def alookup {α : Type} (k : String) : List (String × α) → Option α
  | [] => Option.none
  | (k', v) :: rest => if k' = k then some v else alookup k rest

/-- `d[k] = v`: replace in place when present, append otherwise (Python insertion order) -/
def ainsert {α : Type} (k : String) (v : α) : List (String × α) → List (String × α)
  | [] => [(k, v)]
  | (k', v') :: rest => if k' = k then (k, v) :: rest else (k', v') :: ainsert k v rest

def akeys {α : Type} (d : List (String × α)) : List String := d.map Prod.fst

@[simp] theorem alookup_ainsert_same {α} (k : String) (v : α) (d : List (String × α)) :
    alookup k (ainsert k v d) = some v := by
  induction d with
  | nil => simp [ainsert, alookup]
  | cons p rest ih =>
    obtain ⟨k', v'⟩ := p
    by_cases h : k' = k <;> simp [ainsert, alookup, h, ih]

theorem alookup_ainsert_other {α} {k k' : String} (h : k' ≠ k) (v : α) (d : List (String × α)) :
    alookup k' (ainsert k v d) = alookup k' d := by
  induction d with
  | nil => simp [ainsert, alookup, Ne.symm h]
  | cons p rest ih =>
    obtain ⟨k'', v''⟩ := p
    by_cases h2 : k'' = k
    · subst h2; simp [ainsert, alookup, Ne.symm h]
    · by_cases h3 : k'' = k'
      · subst h3; simp [ainsert, alookup, h2]
      · simp [ainsert, alookup, h2, h3, ih]

/-- Python truthiness (`bool(x)`) -/
def V.truthy : V → Bool
  | .none => false
  | .bool b => b
  | .int i => i != 0
  | .str s => s != ""
  | .list xs => !xs.isEmpty
  | .dict kvs => !kvs.isEmpty
  | .tuple xs => !xs.isEmpty
  | .set xs => !xs.isEmpty
  | _ => true

/-- Is this a JSON value (what an options dictionary may contain)? -/
def V.isJson : V → Bool
  | .none | .bool _ | .int _ | .str _ => true
  | .list xs => xs.attach.all fun ⟨x, _⟩ => x.isJson
  | .dict kvs => kvs.attach.all fun ⟨(_, x), _⟩ => x.isJson
  | _ => false
termination_by v => sizeOf v
decreasing_by
  all_goals simp_wf
  · have := List.sizeOf_lt_of_mem ‹x ∈ xs›; omega
  · rename_i h; have := List.sizeOf_lt_of_mem h; simp at this; omega

def V.isDict : V → Bool
  | .dict _ => true
  | _ => false

end Labrea

/-
  PickleSM — what `pickle.dumps` / `pickle.loads` do with a labrea object graph, as a state algebra.

  WHAT IS MODELLED
  * An object graph is a finite heap `Id ↦ Obj`.  An `Obj` is a *head* (everything that is not a
    reference: the class name with the attribute names of the instance `__dict__` in insertion
    order, or "list"/"tuple"/"set"/"dict", or a function with its qualified name) and the list of
    its *kids* (attribute values / items; a dict is `k₁ v₁ k₂ v₂ …`).  A kid is a scalar, a
    reference to another heap object, or a `threading.Lock` (identified with its key in
    `labrea.overload._LOCKS`, because `_get_lock` is `setdefault` on that key).
  * `encode` walks the graph from a root in pre-order exactly as the pickler does: every object
    gets a memo number at its first visit, a second visit emits a back reference (sharing and
    cycles are kept), a function is emitted *by qualified name* after checking that the module
    namespace `Name ↦ Id` resolves that name to this very object (`save_global`:
    "it's not the same object as m.f" / "attribute lookup … failed"), a lock is unpicklable.
    Before an instance is emitted its state is taken through `getstate`
    (`Overloaded.__getstate__`: `_lock` replaced by `id(self)`; every other labrea class: the
    plain `__dict__`).
  * `decode` rebuilds objects in the same order, numbering them 0,1,2,… (= the memo numbers),
    resolves function names in the *receiving* namespace (only "is the name defined" matters:
    the receiving process imports the same module source), and passes every rebuilt instance
    through `setstate` (`Overloaded.__setstate__`: `_lock` re-obtained from `_LOCKS` under the
    pickled id).
  * `register` is `Overloaded.register` (needs a real lock; builds a new lookup dict).

  WHAT IS ABSTRACTED (this is why C20 is labelled *partial*)
  * The byte level: `Pk` is the opcode stream seen as a term (what `pickletools.dis` shows as
    nesting) — no framing, no protocol differences (protocols 2…5 differ in opcodes only), no
    parsing.  `__reduce_ex__`/`copyreg` are summarised as "class + state", class objects are
    assumed importable (they are labrea's own classes), `__dict__` update on load is "take the
    state as the attribute list".
  * Function bodies: a function is its qualified name; the receiving interpreter is assumed to
    run the same module source.
  * Behaviour (evaluate / keys / explain) is not interpreted here: it is *any* function of the
    reachable graph that is invariant under renaming of object ids (`Iso`); the correspondence
    check compares the real behaviour before / after the round trip.
  No Mathlib; everything is executable and kernel-reducible (fuel instead of well-founded recursion).
-/
namespace Labrea.Pickle

abbrev Id := Nat
abbrev Name := String

inductive Scalar where
  | none
  | bool (b : Bool)
  | int (i : Int)
  | str (s : String)
  deriving DecidableEq, Repr, Inhabited

/-- one attribute value / container item -/
inductive Fld where
  | sc (v : Scalar)
  | ref (i : Id)
  /-- a `threading.Lock`: the entry of `labrea.overload._LOCKS` under `key` -/
  | lock (key : Nat)
  deriving DecidableEq, Repr, Inhabited

inductive Head where
  /-- instance of class `cls`; `attrs` = keys of `__dict__` in insertion order -/
  | inst (cls : String) (attrs : List String)
  | list
  | tuple
  | set
  /-- kids are `k₁ v₁ k₂ v₂ …` -/
  | dict
  /-- a function (or class) object, known by `module.qualname` -/
  | func (qual : Name)
  deriving DecidableEq, Repr, Inhabited

structure Obj where
  head : Head
  kids : List Fld
  deriving DecidableEq, Repr, Inhabited

/-- finite heap; first binding wins -/
abbrev Heap := List (Id × Obj)

def hget : Heap → Id → Option Obj
  | [], _ => none
  | (j, o) :: rest, i => if j = i then some o else hget rest i

/-- module namespace of the pickling process: qualified name ↦ the object it is bound to -/
abbrev Namespace := Name → Option Id

def nsOf : List (Name × Id) → Namespace
  | [], _ => none
  | (n, i) :: rest, q => if n = q then some i else nsOf rest q

/-- namespace of the receiving process: is the qualified name defined there -/
abbrev Defined := Name → Bool

def definedOf (l : List Name) : Defined := fun n => l.contains n

/-! ### attribute access -/

def getAttr : List String → List Fld → String → Option Fld
  | a :: as, k :: ks, q => if a = q then some k else getAttr as ks q
  | _, _, _ => none

def setAttr : List String → List Fld → String → Fld → List Fld
  | a :: as, k :: ks, q, v => if a = q then v :: ks else k :: setAttr as ks q v
  | _, ks, _, _ => ks

/-! ### the two hooks labrea defines -/

/-- `Overloaded.__getstate__`: `{**self.__dict__, "_lock": id(self)}`; all other classes: `__dict__` -/
def getstate (i : Id) (o : Obj) : Obj :=
  match o.head with
  | .inst cls attrs =>
    if cls = "Overloaded" then ⟨o.head, setAttr attrs o.kids "_lock" (.sc (.int i))⟩ else o
  | _ => o

/-- `Overloaded.__setstate__`: `__dict__.update(state); self._lock = _get_lock(state["_lock"])` -/
def setstate (o : Obj) : Obj :=
  match o.head with
  | .inst cls attrs =>
    if cls = "Overloaded" then
      match getAttr attrs o.kids "_lock" with
      | some (.sc (.int n)) => ⟨o.head, setAttr attrs o.kids "_lock" (.lock n.toNat)⟩
      | _ => o
    else o
  | _ => o

instance {ε α : Type} [DecidableEq ε] [DecidableEq α] : DecidableEq (Except ε α) := fun a b =>
  match a, b with
  | .ok x, .ok y => if e : x = y then isTrue (by rw [e]) else isFalse (fun c => e (Except.ok.inj c))
  | .error x, .error y =>
    if e : x = y then isTrue (by rw [e]) else isFalse (fun c => e (Except.error.inj c))
  | .ok _, .error _ => isFalse (fun c => by cases c)
  | .error _, .ok _ => isFalse (fun c => by cases c)

/-! ### encoding -/

inductive PErr where
  | fuel
  | dangling (i : Id)
  /-- PicklingError: "it's not the same object as `n`" -/
  | notSame (n : Name)
  /-- PicklingError: "attribute lookup … failed" -/
  | notFound (n : Name)
  /-- unpickling: the name is not defined in the receiving process -/
  | noGlobal (n : Name)
  /-- TypeError: cannot pickle '_thread.lock' object -/
  | unpicklable (what : String)
  | badMemo (k : Nat)
  | badRoot
  deriving DecidableEq, Repr, Inhabited

/-- the pickle, as the term structure of the opcode stream -/
inductive Pk where
  | sc (v : Scalar)
  /-- BINGET k -/
  | back (k : Nat)
  /-- GLOBAL / STACK_GLOBAL `n` (memoised) -/
  | glob (n : Name)
  /-- NEWOBJ / EMPTY_LIST / … + MEMOIZE, then the state / items, then BUILD / APPENDS / SETITEMS -/
  | new (hd : Head) (kids : List Pk)
  deriving Repr, Inhabited

abbrev Bytes := Pk

/-- position of `i` in the memo (`m.length` when absent) -/
def idx : List Id → Id → Nat
  | [], _ => 0
  | a :: as, i => if a = i then 0 else idx as i + 1

def encKids (enc1 : List Id → Fld → Except PErr (Pk × List Id)) :
    List Id → List Fld → Except PErr (List Pk × List Id)
  | m, [] => .ok ([], m)
  | m, x :: xs =>
    match enc1 m x with
    | .error e => .error e
    | .ok (p, m1) =>
      match encKids enc1 m1 xs with
      | .error e => .error e
      | .ok (ps, m2) => .ok (p :: ps, m2)

/-- `save`: `m` is the memo (objects in order of first visit).  `fuel` bounds the *depth* of the
    traversal; `h.length + 1` always suffices (`PickleLemmas.encFld_total`). -/
def encFld (h : Heap) (ns : Namespace) : Nat → List Id → Fld → Except PErr (Pk × List Id)
  | 0, _, _ => .error .fuel
  | _ + 1, m, .sc v => .ok (.sc v, m)
  | _ + 1, _, .lock _ => .error (.unpicklable "_thread.lock")
  | f + 1, m, .ref i =>
    if i ∈ m then .ok (.back (idx m i), m) else
    match hget h i with
    | none => .error (.dangling i)
    | some o =>
      match (getstate i o).head, (getstate i o).kids with
      | .func n, [] =>
        match ns n with
        | none => .error (.notFound n)
        | some j => if j = i then .ok (.glob n, m ++ [i]) else .error (.notSame n)
      | .func _, _ :: _ => .error (.unpicklable "function with items")
      | hd, kids =>
        match encKids (fun m x => encFld h ns f m x) (m ++ [i]) kids with
        | .error e => .error e
        | .ok (ps, m') => .ok (.new hd ps, m')

/-- `pickle.dumps(root)` together with the final memo (the renaming of object ids) -/
def encodeM (h : Heap) (ns : Namespace) (r : Id) : Except PErr (Pk × List Id) :=
  encFld h ns (h.length + 1) [] (.ref r)

def encode (h : Heap) (ns : Namespace) (r : Id) : Except PErr Bytes :=
  match encodeM h ns r with
  | .ok (p, _) => .ok p
  | .error e => .error e

/-! ### decoding -/

def renFld (σ : Id → Nat) : Fld → Fld
  | .ref i => .ref (σ i)
  | x => x

def renObj (σ : Id → Nat) (o : Obj) : Obj := ⟨o.head, o.kids.map (renFld σ)⟩

/-- decoder state: next memo number, objects finished so far -/
structure DecSt where
  next : Nat
  done : Heap
  deriving Repr, Inhabited

mutual
def decPk (ns' : Defined) : Pk → DecSt → Except PErr (Fld × DecSt)
  | .sc v, st => .ok (.sc v, st)
  | .back k, st => if k < st.next then .ok (.ref k, st) else .error (.badMemo k)
  | .glob n, st =>
    if ns' n then .ok (.ref st.next, ⟨st.next + 1, st.done ++ [(st.next, ⟨.func n, []⟩)]⟩)
    else .error (.noGlobal n)
  | .new hd ps, st =>
    match decPks ns' ps ⟨st.next + 1, st.done⟩ with
    | .error e => .error e
    | .ok (kids, st') => .ok (.ref st.next, ⟨st'.next, st'.done ++ [(st.next, setstate ⟨hd, kids⟩)]⟩)
def decPks (ns' : Defined) : List Pk → DecSt → Except PErr (List Fld × DecSt)
  | [], st => .ok ([], st)
  | p :: ps, st =>
    match decPk ns' p st with
    | .error e => .error e
    | .ok (x, st1) =>
      match decPks ns' ps st1 with
      | .error e => .error e
      | .ok (xs, st2) => .ok (x :: xs, st2)
end

/-- `pickle.loads`: the rebuilt heap (ids are the memo numbers) and the root -/
def decode (ns' : Defined) (p : Bytes) : Except PErr (Heap × Id) :=
  match decPk ns' p ⟨0, []⟩ with
  | .error e => .error e
  | .ok (.ref r, st) => .ok (st.done, r)
  | .ok (_, _) => .error .badRoot

/-! ### `Overloaded.register` and the lookup table -/

def dictPairs : List Fld → List (Fld × Fld)
  | k :: v :: rest => (k, v) :: dictPairs rest
  | _ => []

def unPairs : List (Fld × Fld) → List Fld
  | [] => []
  | (k, v) :: rest => k :: v :: unPairs rest

/-- `{**d, key: value}`: an existing key keeps its position -/
def pairsInsert (k v : Fld) : List (Fld × Fld) → List (Fld × Fld)
  | [] => [(k, v)]
  | (k', v') :: rest => if k' = k then (k, v) :: rest else (k', v') :: pairsInsert k v rest

/-- the lookup table of the `Overloaded` object `ov` -/
def table (h : Heap) (ov : Id) : Option (List (Fld × Fld)) :=
  match hget h ov with
  | some ⟨.inst "Overloaded" attrs, kids⟩ =>
    match getAttr attrs kids "lookup" with
    | some (.ref d) =>
      match hget h d with
      | some ⟨.dict, items⟩ => some (dictPairs items)
      | _ => none
    | _ => none
  | _ => none

inductive RErr where
  /-- `with self._lock:` on something that is not a lock (AttributeError / TypeError) -/
  | noLock
  | notOverloaded
  deriving DecidableEq, Repr, Inhabited

def freshId (h : Heap) : Id := (h.map (·.1)).foldl Nat.max 0 + 1

/-- `with self._lock: self.lookup = {**self.lookup, key: value}` -/
def register (h : Heap) (ov : Id) (key val : Fld) : Except RErr Heap :=
  match hget h ov with
  | some ⟨.inst "Overloaded" attrs, kids⟩ =>
    match getAttr attrs kids "_lock" with
    | some (.lock _) =>
      match table h ov with
      | some t =>
        let d := freshId h
        .ok ((ov, ⟨.inst "Overloaded" attrs, setAttr attrs kids "lookup" (.ref d)⟩)
              :: (d, ⟨.dict, unPairs (pairsInsert key val t)⟩) :: h)
      | none => .error .notOverloaded
    | _ => .error .noLock
  | _ => .error .notOverloaded

/-! ### reachability and isomorphism (what "behaves identically" is a function of) -/

/-- `Reach h a i`: pickle's traversal gets from `a` to `i` (through the state `getstate` exposes) -/
inductive Reach (h : Heap) : Id → Id → Prop where
  | refl (a : Id) : Reach h a a
  | step {a i j : Id} {o : Obj} : Reach h a i → hget h i = some o →
      Fld.ref j ∈ (getstate i o).kids → Reach h a j

/-- the object rebuilt from `o` (which lived at `i`): state taken, ids renamed, state set -/
def viaState (σ : Id → Nat) (i : Id) (o : Obj) : Obj := setstate (renObj σ (getstate i o))

/-- `h'` (rooted at `r'`) is a copy of the part of `h` reachable from `r`, with `σ` the renaming
    of ids.  `σ` is a function (so two references to one object stay references to one object) and
    injective on the reachable part (distinct objects stay distinct): sharing is preserved. -/
structure Iso (σ : Id → Nat) (h : Heap) (r : Id) (h' : Heap) (r' : Id) : Prop where
  root : σ r = r'
  inj : ∀ i j, Reach h r i → Reach h r j → σ i = σ j → i = j
  obj : ∀ i, Reach h r i → ∃ o, hget h i = some o ∧ hget h' (σ i) = some (viaState σ i o)
  onto : ∀ k o', hget h' k = some o' → ∃ i, Reach h r i ∧ σ i = k

/-- the pickler can take this heap: references closed, functions importable under their own
    name in the sending process ("resolve by reference"), no lock exposed by `getstate`.
    (Stated for all objects of `h`; take for `h` the part of the process heap reachable from `r`.) -/
structure Picklable (h : Heap) (ns : Namespace) (r : Id) : Prop where
  root : (hget h r).isSome = true
  closed : ∀ i o j, hget h i = some o → Fld.ref j ∈ (getstate i o).kids → (hget h j).isSome = true
  nolock : ∀ i o k, hget h i = some o → Fld.lock k ∉ (getstate i o).kids
  byref : ∀ i o n, hget h i = some o → (getstate i o).head = .func n →
    ns n = some i ∧ (getstate i o).kids = []

/-- executable version of `Picklable` (sound: `PickleLemmas.picklableB_sound`) -/
def picklableB (h : Heap) (ns : Namespace) (r : Id) : Bool :=
  (hget h r).isSome && h.all fun io =>
    let g := getstate io.1 io.2
    g.kids.all (fun k => match k with
      | .ref j => (hget h j).isSome
      | .lock _ => false
      | .sc _ => true) &&
    (match g.head with
      | .func n => ns n == some io.1 && g.kids.isEmpty
      | _ => true)

/-- an `Overloaded` object with its lock and its lookup dict -/
structure IsOverloaded (h : Heap) (ov : Id) (attrs : List String) (kids : List Fld)
    (d : Id) (items : List Fld) : Prop where
  obj : hget h ov = some ⟨.inst "Overloaded" attrs, kids⟩
  lock : ∃ k, getAttr attrs kids "_lock" = some (.lock k)
  lookup : getAttr attrs kids "lookup" = some (.ref d)
  dict : hget h d = some ⟨.dict, items⟩

def failsWith (e : PErr) : Except PErr Bytes → Bool
  | .error e' => e == e'
  | .ok _ => false

def renPairs (σ : Id → Nat) (t : List (Fld × Fld)) : List (Fld × Fld) :=
  t.map fun kv => (renFld σ kv.1, renFld σ kv.2)

/-- every `Overloaded` holds the lock registered under its own id (what `__init__` establishes),
    and locks occur nowhere else -/
def OwnLock (i : Id) (o : Obj) : Prop :=
  match o.head with
  | .inst cls attrs => if cls = "Overloaded" then getAttr attrs o.kids "_lock" = some (.lock i) else True
  | _ => True

/-- `pickle.loads(pickle.dumps(root))` -/
def roundtrip (h : Heap) (ns : Namespace) (ns' : Defined) (r : Id) : Except PErr (Heap × Id) :=
  match encode h ns r with
  | .ok p => decode ns' p
  | .error e => .error e

/-! ### printing (driver) -/

def Scalar.show : Scalar → String
  | .none => "n"
  | .bool b => if b then "b1" else "b0"
  | .int i => s!"i{i}"
  | .str s => s!"s{s}"

def PErr.show : PErr → String
  | .fuel => "fuel"
  | .dangling i => s!"dangling {i}"
  | .notSame n => s!"notSame {n}"
  | .notFound n => s!"notFound {n}"
  | .noGlobal n => s!"noGlobal {n}"
  | .unpicklable w => s!"unpicklable {w}"
  | .badMemo k => s!"badMemo {k}"
  | .badRoot => "badRoot"

end Labrea.Pickle

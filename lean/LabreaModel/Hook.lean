/-
  Hook — an abstraction of CPython class creation as far as labrea's four
  `__init_subclass__` hooks are concerned (labrea/types.py: Validatable, Cacheable, Explainable,
  Evaluatable).  Used by property C18.

  What is modelled
  * a class = its own `__dict__` restricted to the eight names `evaluate/validate/keys/explain`
    and `__labrea_evaluate__/…` (fields `attr`, `slot`), plus which of the four hooks its own
    `__init_subclass__` implements (`root`);
  * an MRO = list of classes, most derived first; attribute lookup = first own entry along it;
  * class creation (`mkClass`): the raw class from the body, then every hook whose root is a proper
    ancestor runs (`hookOrder`: bodies of the cooperative `__init_subclass__` run in reverse MRO
    order because each calls `super().__init_subclass__()` first), each doing
        if not hasattr(cls.m, "__labrea_wrapper__"):
            cls.__labrea_m__ = cls.m ; cls.m = <wrapper issuing Request_m(self).run()>
  * a class body may leave a method absent, `def` it, assign any existing function object
    (`Def.fn`: plain function, or a function on which the marker was set by hand = `Fn.fake`),
    or assign a genuine wrapper taken from some class (`Def.alias`; the annotation `src` is what
    that class runs under the default handler, i.e. what the author of the assignment expects),
    and may `def __labrea_m__` directly;
  * calling a method (`call`): a wrapper issues one request whose default handler runs
    `self.__labrea_m__`; anything else runs directly without a request.

  Abstracted away: all wrappers for the same method are identified (they are behaviourally
  identical closures); instance dictionaries, descriptors other than plain functions, metaclass
  attribute shadowing, `__init_subclass__` implementations that do not call `super()`; multiple
  inheritance is covered only through `lookup_inert` (bases that define none of the eight names and
  no hook are invisible) and bases made of several root classes.
  No Mathlib.
-/
namespace Labrea.Hook

inductive Meth where
  | evaluate | validate | keys | explain
  deriving DecidableEq, Repr, Inhabited

def Meth.all : List Meth := [.evaluate, .validate, .keys, .explain]

theorem Meth.mem_all (m : Meth) : m ∈ Meth.all := by cases m <;> simp [Meth.all]

/-- Function objects. -/
inductive Fn where
  /-- `def m` in the body of class `cls` -/
  | user (cls : Nat) (m : Meth)
  /-- `def __labrea_m__` in the body of class `cls` (the roots' `raise NotImplementedError` stubs) -/
  | slotfn (cls : Nat) (m : Meth)
  /-- an unmarked function object created outside any class body -/
  | ext (id : Nat)
  /-- the closure made by the hook for `m`: `return Request_m(self, options).run()`; carries the marker -/
  | wrapper (m : Meth)
  /-- a function on which `__labrea_wrapper__` was set by hand: carries the marker, issues nothing -/
  | fake (id : Nat)
  deriving DecidableEq, Repr, Inhabited

/-- `hasattr(f, "__labrea_wrapper__")` -/
def Fn.marked : Fn → Bool
  | .wrapper _ => true
  | .fake _ => true
  | _ => false

/-- How a class body binds one of the four method names. -/
inductive Def where
  | absent
  | fn (f : Fn)
  /-- `m = X.m'` where `X.m'` is a genuine wrapper for `m'`; `src` = `X.__labrea_m'__` as resolved on `X` -/
  | alias (src : Option Fn) (m' : Meth)
  deriving DecidableEq, Repr, Inhabited

def Def.value : Def → Option Fn
  | .absent => none
  | .fn f => some f
  | .alias _ m' => some (.wrapper m')

structure Body where
  id : Nat
  meth : Meth → Def
  /-- the body contains `def __labrea_m__` -/
  slot : Meth → Bool
  /-- the body contains the labrea `__init_subclass__` for `m` -/
  root : Meth → Bool

structure Cls where
  id : Nat
  attr : Meth → Option Fn
  slot : Meth → Option Fn
  root : Meth → Bool

abbrev MRO := List Cls

def lookupAttr (m : Meth) : MRO → Option Fn
  | [] => none
  | c :: cs => match c.attr m with
    | some f => some f
    | none => lookupAttr m cs

def lookupSlot (m : Meth) : MRO → Option Fn
  | [] => none
  | c :: cs => match c.slot m with
    | some f => some f
    | none => lookupSlot m cs

/-- some proper ancestor implements the hook for `m` -/
def hooked (anc : MRO) (m : Meth) : Bool := anc.any (fun c => c.root m)

def setAt {α : Type} (f : Meth → α) (m : Meth) (a : α) : Meth → α :=
  fun k => if k = m then a else f k

/-- One `__init_subclass__` body for method `m`, run on the class `c` being created. -/
def runHook (m : Meth) (anc : MRO) (c : Cls) : Cls :=
  match lookupAttr m (c :: anc) with
  | some f =>
    if f.marked then c
    else { c with slot := setAt c.slot m (some f), attr := setAt c.attr m (some (.wrapper m)) }
  | none => c

def runHooks (ms : List Meth) (anc : MRO) (c : Cls) : Cls :=
  ms.foldl (fun c m => runHook m anc c) c

/-- Order in which the hook bodies run: reverse MRO (each calls `super()` first). -/
def hookOrder (anc : MRO) : List Meth :=
  anc.reverse.flatMap (fun c => Meth.all.filter c.root)

def rawClass (b : Body) : Cls :=
  { id := b.id
    attr := fun m => (b.meth m).value
    slot := fun m => if b.slot m then some (.slotfn b.id m) else none
    root := b.root }

def mkClass (b : Body) (anc : MRO) : Cls := runHooks (hookOrder anc) anc (rawClass b)

/-- MRO of the new class under single inheritance (inert bases dropped, see `lookup_inert`). -/
def extend (anc : MRO) (b : Body) : MRO := mkClass b anc :: anc

/-- Successive subclassing, bodies in creation order. -/
def build : MRO → List Body → MRO
  | w, [] => w
  | w, b :: bs => build (extend w b) bs

/-! ### Calling a method on an instance -/

structure Obs where
  /-- request types issued by the call itself -/
  requests : List Meth
  /-- the function whose body finally runs (under the default handler) -/
  ran : Option Fn
  deriving DecidableEq, Repr

def call (w : MRO) (m : Meth) : Obs :=
  match lookupAttr m w with
  | some (.wrapper m') => ⟨[m'], lookupSlot m' w⟩
  | some f => ⟨[], some f⟩
  | none => ⟨[], none⟩

/-- What runs when `m` is called and every request goes to its default handler. -/
def resolved (m : Meth) (w : MRO) : Option Fn := (call w m).ran

/-! ### The specification side: what the author of a chain of class bodies wrote -/

/-- The implementation designated by body `b` for `m`, `prev` being the inherited one. -/
def stepIntended (m : Meth) (prev : Option Fn) (b : Body) : Option Fn :=
  match b.meth m with
  | .fn f => some f
  | .alias src _ => if b.slot m then some (.slotfn b.id m) else src
  | .absent => if b.slot m then some (.slotfn b.id m) else prev

/-- Most-derived user implementation of `m` along a chain of bodies (creation order). -/
def intended (m : Meth) (r0 : Option Fn) (bs : List Body) : Option Fn :=
  bs.foldl (stepIntended m) r0

/-- The exact side conditions on one body (`wrapped`: the inherited attribute is already a
    wrapper for `m`; `prev`: the inherited implementation). -/
def StepOK (m : Meth) (wrapped : Bool) (prev : Option Fn) (b : Body) : Prop :=
  match b.meth m with
  | .absent => b.slot m = true → wrapped = true
  | .fn f => f.marked = false
  | .alias src m' => m' = m ∧ (b.slot m = false → src = prev ∧ wrapped = true)

instance (m : Meth) (wrapped : Bool) (prev : Option Fn) (b : Body) :
    Decidable (StepOK m wrapped prev b) := by
  unfold StepOK; split <;> infer_instance

def ChainOK (m : Meth) : Bool → Option Fn → List Body → Prop
  | _, _, [] => True
  | wr, prev, b :: bs => StepOK m wr prev b ∧ ChainOK m true (stepIntended m prev b) bs

instance instDecChainOK (m : Meth) : (wr : Bool) → (prev : Option Fn) → (bs : List Body) →
    Decidable (ChainOK m wr prev bs)
  | _, _, [] => isTrue trivial
  | wr, prev, b :: bs =>
    have := instDecChainOK m true (stepIntended m prev b) bs
    by unfold ChainOK; infer_instance

def wrappedAt (m : Meth) (w : MRO) : Bool := lookupAttr m w == some (.wrapper m)

/-- State of method `m` on the class with MRO `w`: either a genuine wrapper for `m` whose slot is
    `r`, or an unmarked function `r` itself (a root class, where the hook has not run). -/
def Inv (m : Meth) (w : MRO) (r : Option Fn) : Prop :=
  match lookupAttr m w with
  | some f => if f = .wrapper m then lookupSlot m w = r else f.marked = false ∧ r = some f
  | none => False

instance (m : Meth) (w : MRO) (r : Option Fn) : Decidable (Inv m w r) := by
  unfold Inv; split
  · split <;> infer_instance
  · infer_instance

/-! ### Inert bases (multiple inheritance as used by the package) -/

def Cls.inert (c : Cls) : Bool :=
  Meth.all.all fun m => (c.attr m).isNone && (c.slot m).isNone && !c.root m

/-! ### The class table generated from the package sources -/

structure Quad (α : Type) where
  evaluate : α
  validate : α
  keys : α
  explain : α
  deriving Repr

def Quad.get {α : Type} (q : Quad α) : Meth → α
  | .evaluate => q.evaluate
  | .validate => q.validate
  | .keys => q.keys
  | .explain => q.explain

/-- How the source text of a class body binds a method name. -/
inductive TDef where
  | absent
  /-- `def m(self, …)` (possibly `@abstractmethod`) -/
  | def_
  /-- `m = X.m'` with `X` the table class `cls` -/
  | from_ (cls : Nat) (m' : Meth)
  /-- `m = f` with `f` an undecorated module-level function -/
  | extfn (id : Nat)
  deriving DecidableEq, Repr

structure Entry where
  id : Nat
  name : String
  /-- bases that are table classes (descend from a root or are one), in base order -/
  parents : List Nat
  meth : Quad TDef
  slot : Quad Bool
  root : Quad Bool

/-- A table class after evaluation: the MRO of its (non-inert) ancestors and its body. -/
structure Row where
  id : Nat
  name : String
  anc : MRO
  body : Body

def Row.mro (r : Row) : MRO := extend r.anc r.body

def findRow (rows : List Row) (id : Nat) : Option Row := rows.find? (fun r => r.id == id)

/-- MRO of the ancestors: one table parent, or several parents that are all pure roots. -/
def entryAnc (rows : List Row) (ps : List Nat) : Option MRO :=
  match ps with
  | [] => some []
  | [p] => (findRow rows p).map Row.mro
  | ps => ps.foldr (fun p acc =>
      match findRow rows p, acc with
      | some r, some w => if r.anc.isEmpty then some (r.mro ++ w) else none
      | _, _ => none) (some [])

def resolveDef (rows : List Row) (id : Nat) (m : Meth) : TDef → Option Def
  | .absent => some .absent
  | .def_ => some (.fn (.user id m))
  | .extfn k => some (.fn (.ext k))
  | .from_ c m' =>
    match findRow rows c with
    | none => none
    | some r =>
      match lookupAttr m' r.mro with
      | some (.wrapper mm) => some (.alias (lookupSlot mm r.mro) mm)
      | some f => some (.fn f)
      | none => none

def entryBody (rows : List Row) (e : Entry) : Option Body :=
  match resolveDef rows e.id .evaluate e.meth.evaluate, resolveDef rows e.id .validate e.meth.validate,
        resolveDef rows e.id .keys e.meth.keys, resolveDef rows e.id .explain e.meth.explain with
  | some de, some dv, some dk, some dx =>
    some { id := e.id, meth := (Quad.mk de dv dk dx).get, slot := e.slot.get, root := e.root.get }
  | _, _, _, _ => none

/-- Evaluate the table in order (the translator emits bases before subclasses). `none` = a shape
    the model does not cover. -/
def evalTable : List Entry → List Row → Option (List Row)
  | [], rows => some rows
  | e :: es, rows =>
    match entryAnc rows e.parents, entryBody rows e with
    | some anc, some body => evalTable es (rows ++ [⟨e.id, e.name, anc, body⟩])
    | _, _ => none

/-- The premises of `hook_total` for one table class, for every method its ancestors hook. -/
def checkRow (r : Row) : Bool :=
  Meth.all.all fun m =>
    !hooked r.anc m ||
      (decide (Inv m r.anc (resolved m r.anc)) &&
       decide (StepOK m (wrappedAt m r.anc) (resolved m r.anc) r.body))

def tableCheck (t : List Entry) : Bool :=
  match evalTable t [] with
  | some rows => rows.all checkRow
  | none => false

/-- Purely syntactic: walking the bases upwards from `id`, the function written by the nearest
    class whose body `def`s `m` (or binds it to a module-level function). A body that re-binds an
    inherited wrapper (`m = Base.m`, validated by `tableCheck`) is looked through. -/
def mostDerivedDef (t : List Entry) (m : Meth) : Nat → Nat → Option Fn
  | 0, _ => none
  | fuel + 1, id =>
    match t.find? (fun e => e.id == id) with
    | none => none
    | some e =>
      match e.meth.get m with
      | .def_ => some (.user id m)
      | .extfn k => some (.ext k)
      | _ =>
        e.parents.foldl (fun acc p => match acc with
          | some x => some x
          | none => mostDerivedDef t m fuel p) none

/-- For every table class and hooked method: the slot found on the class is the `def` of the
    nearest defining class (syntactic walk), and the attribute is the wrapper. -/
def slotIsMostDerivedDef (t : List Entry) : Bool :=
  match evalTable t [] with
  | none => false
  | some rows => rows.all fun r => Meth.all.all fun m =>
      !hooked r.anc m ||
        (lookupAttr m r.mro == some (.wrapper m) &&
         lookupSlot m r.mro == mostDerivedDef t m (t.length + 1) r.id)

/-! ### Standard classes used in examples (ids as in the generated table) -/

def rootBody (id : Nat) (m : Meth) : Body :=
  { id := id
    meth := fun k => if k = m then .fn (.user id m) else .absent
    slot := fun k => k == m
    root := fun k => k == m }

/-- `Validatable`, `Cacheable`, `Explainable` as classes without hooked ancestors. -/
def stdValidatable : Cls := mkClass (rootBody 1 .validate) []
def stdCacheable : Cls := mkClass (rootBody 2 .keys) []
def stdExplainable : Cls := mkClass (rootBody 3 .explain) []

/-- MRO of the ancestors of `Evaluatable(Generic, Cacheable, Explainable, Validatable, ABC)`. -/
def stdRoots : MRO := [stdCacheable, stdExplainable, stdValidatable]

/-- MRO of `Evaluatable` itself. -/
def stdEvaluatable : MRO := extend stdRoots (rootBody 4 .evaluate)

/-- MRO of `Effect(Transformation, Validatable, Explainable, ABC)`. -/
def stdEffect : MRO :=
  extend [stdValidatable, stdExplainable]
    { id := 15, meth := fun _ => .absent, slot := fun _ => false, root := fun _ => false }

/-- a body that `def`s exactly the methods in `ms` -/
def defBody (id : Nat) (ms : List Meth) : Body :=
  { id := id
    meth := fun m => if ms.contains m then .fn (.user id m) else .absent
    slot := fun _ => false
    root := fun _ => false }

/-- a body that binds `m` to `d` and nothing else -/
def oneBody (id : Nat) (m : Meth) (d : Def) (slot : Bool := false) : Body :=
  { id := id
    meth := fun k => if k = m then d else .absent
    slot := fun k => slot && k == m
    root := fun _ => false }

end Labrea.Hook

/-
  Lemmas about `PickleSM`: the memo index, the traversal invariants of `encFld`/`encKids`
  (structure of the memo, decoding of the produced term), sufficiency of the fuel.
  Used by `LabreaProps/C20.lean`.
-/
import LabreaModel.PickleSM
namespace Labrea.Pickle

/-! ### memo index -/

theorem idx_lt_of_mem {m : List Id} {i : Id} (h : i ∈ m) : idx m i < m.length := by
  induction m with
  | nil => cases h
  | cons a as ih =>
    by_cases e : a = i
    · simp [idx, e]
    · have : i ∈ as := by
        cases h with
        | head => exact absurd rfl e
        | tail _ h' => exact h'
      simp [idx, e]; exact ih this

theorem idx_append_of_mem {m : List Id} {i : Id} (e : List Id) (h : i ∈ m) :
    idx (m ++ e) i = idx m i := by
  induction m with
  | nil => cases h
  | cons a as ih =>
    by_cases c : a = i
    · simp [idx, c]
    · have : i ∈ as := by
        cases h with
        | head => exact absurd rfl c
        | tail _ h' => exact h'
      simp [idx, c, ih this]

theorem idx_append_self {m : List Id} {i : Id} (e : List Id) (h : i ∉ m) :
    idx (m ++ i :: e) i = m.length := by
  induction m with
  | nil => simp [idx]
  | cons a as ih =>
    have c : a ≠ i := fun c => h (c ▸ List.mem_cons_self)
    have h' : i ∉ as := fun x => h (List.mem_cons_of_mem _ x)
    simp [idx, c, ih h']

theorem get_idx {m : List Id} {i : Id} (h : i ∈ m) : m[idx m i]? = some i := by
  induction m with
  | nil => cases h
  | cons a as ih =>
    by_cases c : a = i
    · simp [idx, c]
    · have : i ∈ as := by
        cases h with
        | head => exact absurd rfl c
        | tail _ h' => exact h'
      simp [idx, c, ih this]

theorem mem_of_get {m : List Id} {k : Nat} {i : Id} (h : m[k]? = some i) : i ∈ m :=
  List.mem_of_getElem? h

theorem idx_of_get {m : List Id} {k : Nat} {i : Id} (nd : m.Nodup) (h : m[k]? = some i) :
    idx m i = k := by
  induction m generalizing k with
  | nil => simp at h
  | cons a as ih =>
    have nd' := List.nodup_cons.mp nd
    cases k with
    | zero => simp at h; simp [idx, h]
    | succ k =>
      simp at h
      have hi : i ∈ as := mem_of_get h
      have c : a ≠ i := fun c => nd'.1 (c ▸ hi)
      simp [idx, c, ih nd'.2 h]

theorem idx_inj {m : List Id} {i j : Id} (hi : i ∈ m) (hj : j ∈ m) (e : idx m i = idx m j) : i = j := by
  have a := get_idx hi
  have b := get_idx hj
  rw [e] at a
  rw [a] at b
  exact Option.some.inj b

/-! ### heap lookup -/

theorem hget_mem {h : Heap} {i : Id} {o : Obj} (e : hget h i = some o) : (i, o) ∈ h := by
  induction h with
  | nil => simp [hget] at e
  | cons p rest ih =>
    obtain ⟨j, o'⟩ := p
    by_cases c : j = i
    · simp [hget, c] at e; subst e; subst c; exact List.mem_cons_self
    · simp [hget, c] at e; exact List.mem_cons_of_mem _ (ih e)

theorem hget_key_mem {h : Heap} {i : Id} (e : (hget h i).isSome = true) : i ∈ h.map (·.1) := by
  cases hq : hget h i with
  | none => simp [hq] at e
  | some o => exact List.mem_map.mpr ⟨(i, o), hget_mem hq, rfl⟩

theorem hget_of_key {D : Heap} {k : Nat} {o' : Obj} (e : (k, o') ∈ D) :
    ∃ o'', hget D k = some o'' ∧ (k, o'') ∈ D := by
  induction D with
  | nil => cases e
  | cons p rest ih =>
    obtain ⟨j, o1⟩ := p
    by_cases c : j = k
    · subst c; exact ⟨o1, by simp [hget], List.mem_cons_self⟩
    · have : (k, o') ∈ rest := by
        cases e with
        | head => exact absurd rfl c
        | tail _ h' => exact h'
      obtain ⟨o'', h1, h2⟩ := ih this
      exact ⟨o'', by simp [hget, c, h1], List.mem_cons_of_mem _ h2⟩

/-! ### pigeonhole (fuel bound) -/

theorem length_le_of_nodup_subset : ∀ (l l' : List Nat), l.Nodup → (∀ a ∈ l, a ∈ l') →
    l.length ≤ l'.length
  | [], _, _, _ => Nat.zero_le _
  | a :: t, l', nd, sub => by
    have nd' := List.nodup_cons.mp nd
    have ha : a ∈ l' := sub a List.mem_cons_self
    have sub' : ∀ x ∈ t, x ∈ l'.erase a := by
      intro x hx
      have hne : x ≠ a := fun c => nd'.1 (c ▸ hx)
      exact (List.mem_erase_of_ne hne).mpr (sub x (List.mem_cons_of_mem _ hx))
    have ih := length_le_of_nodup_subset t (l'.erase a) nd'.2 sub'
    have hl := List.length_erase_of_mem ha
    have hpos : 0 < l'.length := List.length_pos_of_mem ha
    simp only [List.length_cons]
    omega

theorem memo_bound {h : Heap} {m : List Id} (nd : m.Nodup)
    (dom : ∀ a ∈ m, (hget h a).isSome = true) : m.length ≤ h.length := by
  have := length_le_of_nodup_subset m (h.map (·.1)) nd (fun a ha => hget_key_mem (dom a ha))
  simpa using this

/-! ### reachability -/

theorem Reach.trans {h : Heap} {a b c : Id} (h1 : Reach h a b) (h2 : Reach h b c) : Reach h a c := by
  induction h2 with
  | refl => exact h1
  | step _ ho hk ih => exact Reach.step ih ho hk

theorem Reach.child {h : Heap} {i j : Id} {o : Obj} (ho : hget h i = some o)
    (hk : Fld.ref j ∈ (getstate i o).kids) : Reach h i j :=
  Reach.step (Reach.refl i) ho hk

/-! ### structure of the memo after a successful traversal -/

/-- structural facts about one successful `encFld` / `encKids` call; `srcs` are the references
    the call started from -/
structure EncSpec (h : Heap) (m : List Id) (srcs : List Fld) (m' : List Id) : Prop where
  ext : ∃ e, m' = m ++ e ∧ ∀ a ∈ e, ∃ j, Fld.ref j ∈ srcs ∧ Reach h j a
  nodup : m.Nodup → m'.Nodup
  xin : ∀ j, Fld.ref j ∈ srcs → j ∈ m'
  dom : (∀ a ∈ m, (hget h a).isSome = true) → ∀ a ∈ m', (hget h a).isSome = true

theorem encKids_spec {h : Heap} (enc1 : List Id → Fld → Except PErr (Pk × List Id))
    (H1 : ∀ m x p m', enc1 m x = .ok (p, m') → EncSpec h m [x] m') :
    ∀ xs m ps m', encKids enc1 m xs = .ok (ps, m') → EncSpec h m xs m' := by
  intro xs
  induction xs with
  | nil =>
    intro m ps m' e
    simp [encKids] at e
    obtain ⟨_, rfl⟩ := e
    exact ⟨⟨[], by simp⟩, id, by simp, fun d => d⟩
  | cons x xs ih =>
    intro m ps m' e
    simp only [encKids] at e
    split at e
    · cases e
    · rename_i p m1 e1
      split at e
      · cases e
      · rename_i ps2 m2 e2
        cases e
        have s1 := H1 _ _ _ _ e1
        have s2 := ih _ _ _ e2
        obtain ⟨ea, rfl, ra⟩ := s1.ext
        obtain ⟨eb, rfl, rb⟩ := s2.ext
        refine ⟨⟨ea ++ eb, by simp, ?_⟩, fun nd => s2.nodup (s1.nodup nd), ?_, fun d => s2.dom (s1.dom d)⟩
        · intro a ha
          rcases List.mem_append.mp ha with ha | ha
          · obtain ⟨j, hj, r⟩ := ra a ha
            simp at hj
            exact ⟨j, by simp [hj], r⟩
          · obtain ⟨j, hj, r⟩ := rb a ha
            exact ⟨j, List.mem_cons_of_mem _ hj, r⟩
        · intro j hj
          rcases List.mem_cons.mp hj with hj | hj
          · have := s1.xin j (by simp [hj])
            exact List.mem_append_left _ this
          · exact s2.xin j hj

theorem encFld_spec (h : Heap) (ns : Namespace) :
    ∀ f m x p m', encFld h ns f m x = .ok (p, m') → EncSpec h m [x] m' := by
  intro f
  induction f with
  | zero => intro m x p m' e; simp [encFld] at e
  | succ f ih =>
    intro m x p m' e
    cases x with
    | sc v =>
      simp [encFld] at e
      obtain ⟨_, rfl⟩ := e
      exact ⟨⟨[], by simp⟩, id, by simp, fun d => d⟩
    | lock k => simp [encFld] at e
    | ref i =>
      simp only [encFld] at e
      split at e
      · rename_i hin
        cases e
        exact ⟨⟨[], by simp⟩, id, by simpa using hin, fun d => d⟩
      · rename_i hnin
        split at e
        · cases e
        · rename_i o ho
          have base : ∀ (e0 : List Id), (∀ a ∈ e0, ∃ j, Fld.ref j ∈ (getstate i o).kids ∧ Reach h j a) →
              ((m ++ [i]).Nodup → (m ++ [i] ++ e0).Nodup) →
              ((∀ a ∈ m ++ [i], (hget h a).isSome = true) → ∀ a ∈ m ++ [i] ++ e0, (hget h a).isSome = true) →
              EncSpec h m [Fld.ref i] (m ++ [i] ++ e0) := by
            intro e0 r0 nd0 dom0
            refine ⟨⟨[i] ++ e0, by simp, ?_⟩, ?_, ?_, ?_⟩
            · intro a ha
              rcases List.mem_append.mp ha with ha | ha
              · simp at ha; subst ha; exact ⟨a, by simp, Reach.refl a⟩
              · obtain ⟨j, hj, r⟩ := r0 a ha
                exact ⟨i, by simp, Reach.trans (Reach.child ho hj) r⟩
            · intro nd
              apply nd0
              rw [List.nodup_append]
              refine ⟨nd, by simp, ?_⟩
              intro a ha b hb
              simp at hb; subst hb
              exact fun c => hnin (c ▸ ha)
            · intro j hj
              simp at hj; subst hj; simp
            · intro d
              apply dom0
              intro a ha
              rcases List.mem_append.mp ha with ha | ha
              · exact d a ha
              · simp at ha; subst ha; simp [ho]
          split at e
          · split at e
            · cases e
            · split at e
              · rename_i j hj
                cases e
                have := base [] (by simp) (by simp) (by simp)
                simpa using this
              · cases e
          · cases e
          · split at e
            · cases e
            · rename_i ps m2 ek
              cases e
              have sk := encKids_spec (h := h) (fun m x => encFld h ns f m x)
                (fun m x p m' e => ih m x p m' e) _ _ _ _ ek
              obtain ⟨e0, rfl, r0⟩ := sk.ext
              exact base e0 r0 sk.nodup sk.dom

/-! ### decoding what was encoded -/

/-- every finished object of `D` is the image of the object the memo names -/
def Sound (h : Heap) (ns : Namespace) (lo : Nat) (m' : List Id) (D : Heap) : Prop :=
  ∀ k o', (k, o') ∈ D → lo ≤ k ∧ k < m'.length ∧ ∃ i o, m'[k]? = some i ∧ hget h i = some o ∧
    o' = viaState (idx m') i o ∧ (∀ j, Fld.ref j ∈ (getstate i o).kids → j ∈ m') ∧
    (∀ n, (getstate i o).head = .func n → ns n = some i)

def Cover (lo hi : Nat) (D : Heap) : Prop := ∀ k, lo ≤ k → k < hi → ∃ o', (k, o') ∈ D

theorem renFld_stable {m : List Id} (e : List Id) {x : Fld} (hx : ∀ j, x = .ref j → j ∈ m) :
    renFld (idx (m ++ e)) x = renFld (idx m) x := by
  cases x with
  | ref j => simp [renFld, idx_append_of_mem e (hx j rfl)]
  | sc v => rfl
  | lock k => rfl

theorem viaState_stable {m : List Id} (e : List Id) (i : Id) (o : Obj)
    (hk : ∀ j, Fld.ref j ∈ (getstate i o).kids → j ∈ m) :
    viaState (idx (m ++ e)) i o = viaState (idx m) i o := by
  unfold viaState renObj
  congr 2
  apply List.map_congr_left
  intro x hx
  apply renFld_stable
  intro j hj
  subst hj
  exact hk j hx

theorem Sound.mono {h : Heap} {ns : Namespace} {lo : Nat} {m' : List Id} {D : Heap}
    (s : Sound h ns lo m' D) (e : List Id) : Sound h ns lo (m' ++ e) D := by
  intro k o' hk
  obtain ⟨h1, h2, i, o, g, ho, eq, kids, fn⟩ := s k o' hk
  refine ⟨h1, Nat.lt_of_lt_of_le h2 (by simp), i, o, ?_, ho, ?_, fun j hj => List.mem_append_left _ (kids j hj), fn⟩
  · rw [List.getElem?_append_left h2]; exact g
  · rw [viaState_stable e i o kids]; exact eq

theorem Sound.weaken {h : Heap} {ns : Namespace} {lo lo' : Nat} {m' : List Id} {D : Heap}
    (s : Sound h ns lo m' D) (le : lo' ≤ lo) : Sound h ns lo' m' D := by
  intro k o' hk
  obtain ⟨h1, rest⟩ := s k o' hk
  exact ⟨Nat.le_trans le h1, rest⟩

theorem Sound.append {h : Heap} {ns : Namespace} {lo : Nat} {m' : List Id} {D1 D2 : Heap}
    (s1 : Sound h ns lo m' D1) (s2 : Sound h ns lo m' D2) : Sound h ns lo m' (D1 ++ D2) := by
  intro k o' hk
  rcases List.mem_append.mp hk with hk | hk
  · exact s1 k o' hk
  · exact s2 k o' hk

theorem Cover.append {a b c : Nat} {D1 D2 : Heap} (c1 : Cover a b D1) (c2 : Cover b c D2) :
    Cover a c (D1 ++ D2) := by
  intro k h1 h2
  by_cases hb : k < b
  · obtain ⟨o', ho⟩ := c1 k h1 hb
    exact ⟨o', List.mem_append_left _ ho⟩
  · obtain ⟨o', ho⟩ := c2 k (by omega) h2
    exact ⟨o', List.mem_append_right _ ho⟩

/-- decoding the term produced for `srcs` from memo `m` yields the renamed fields and finishes
    exactly the objects numbered `m.length … m'.length - 1` -/
def DecSpec (h : Heap) (ns : Namespace) (m m' : List Id) (D : Heap) : Prop :=
  Sound h ns m.length m' D ∧ Cover m.length m'.length D

theorem encKids_dec {h : Heap} {ns : Namespace} (ns' : Defined)
    (enc1 : List Id → Fld → Except PErr (Pk × List Id))
    (S1 : ∀ m x p m', enc1 m x = .ok (p, m') → EncSpec h m [x] m')
    (H1 : ∀ m x p m', enc1 m x = .ok (p, m') → ∀ done, ∃ D,
      decPk ns' p ⟨m.length, done⟩ = .ok (renFld (idx m') x, ⟨m'.length, done ++ D⟩) ∧
      DecSpec h ns m m' D) :
    ∀ xs m ps m', encKids enc1 m xs = .ok (ps, m') → ∀ done, ∃ D,
      decPks ns' ps ⟨m.length, done⟩ = .ok (xs.map (renFld (idx m')), ⟨m'.length, done ++ D⟩) ∧
      DecSpec h ns m m' D := by
  intro xs
  induction xs with
  | nil =>
    intro m ps m' e done
    simp [encKids] at e
    obtain ⟨rfl, rfl⟩ := e
    refine ⟨[], by simp [decPks], ?_, ?_⟩
    · intro k o' hk; cases hk
    · intro k h1 h2; omega
  | cons x xs ih =>
    intro m ps m' e done
    simp only [encKids] at e
    split at e
    · cases e
    · rename_i p m1 e1
      split at e
      · cases e
      · rename_i ps2 m2 e2
        cases e
        obtain ⟨D1, d1, s1, c1⟩ := H1 _ _ _ _ e1 done
        obtain ⟨D2, d2, s2, c2⟩ := ih _ _ _ e2 (done ++ D1)
        have sp1 := S1 _ _ _ _ e1
        have sp2 := encKids_spec enc1 S1 _ _ _ _ e2
        obtain ⟨ea, rfl, _⟩ := sp1.ext
        obtain ⟨eb, rfl, _⟩ := sp2.ext
        refine ⟨D1 ++ D2, ?_, ?_, ?_⟩
        · have hx := renFld_stable (m := m ++ ea) eb (x := x)
            (fun j (hj : x = Fld.ref j) => sp1.xin j (by simp [hj]))
          rw [List.append_assoc done D1 D2] at d2
          simp only [decPks, d1, d2, List.map_cons, hx]
        · apply Sound.append
          · exact s1.mono eb
          · exact s2.weaken (by simp)
        · exact c1.append c2

theorem encFld_dec (h : Heap) (ns : Namespace) (ns' : Defined)
    (hrecv : ∀ n i, ns n = some i → ns' n = true) :
    ∀ f m x p m', encFld h ns f m x = .ok (p, m') → ∀ done, ∃ D,
      decPk ns' p ⟨m.length, done⟩ = .ok (renFld (idx m') x, ⟨m'.length, done ++ D⟩) ∧
      DecSpec h ns m m' D := by
  intro f
  induction f with
  | zero => intro m x p m' e; simp [encFld] at e
  | succ f ih =>
    intro m x p m' e done
    have triv : DecSpec h ns m m [] :=
      ⟨fun k o' hk => (by cases hk), fun k h1 h2 => (by omega)⟩
    cases x with
    | sc v =>
      simp [encFld] at e
      obtain ⟨rfl, rfl⟩ := e
      exact ⟨[], by simp [decPk, renFld], triv⟩
    | lock k => simp [encFld] at e
    | ref i =>
      simp only [encFld] at e
      split at e
      · rename_i hin
        cases e
        exact ⟨[], by simp [decPk, renFld, idx_lt_of_mem hin], triv⟩
      · rename_i hnin
        split at e
        · cases e
        · rename_i o ho
          have hidx : ∀ e0, idx (m ++ [i] ++ e0) i = m.length := by
            intro e0
            rw [List.append_assoc]
            exact idx_append_self _ hnin
          have hget : ∀ e0, (m ++ [i] ++ e0)[m.length]? = some i := by
            intro e0; simp
          split at e
          · -- function by reference
            rename_i n hhd hkids
            split at e
            · cases e
            · split at e
              · rename_i j hj hji
                cases e
                subst hji
                have hgs : getstate j o = ⟨.func n, []⟩ := by
                  cases hg : getstate j o with
                  | mk hd kids => rw [hg] at hhd hkids; simp at hhd hkids; simp [hhd, hkids]
                refine ⟨[(m.length, ⟨.func n, []⟩)], ?_, ?_, ?_⟩
                · have := hidx []
                  simp at this
                  simp [decPk, hrecv n j hj, renFld, this]
                · intro k o' hk
                  simp at hk
                  obtain ⟨rfl, rfl⟩ := hk
                  refine ⟨Nat.le_refl _, by simp, j, o, by simp, ho, ?_, ?_, ?_⟩
                  · simp [viaState, hgs, renObj, setstate]
                  · intro j' hj'; rw [hgs] at hj'; cases hj'
                  · intro n' hn'; rw [hgs] at hn'; simp at hn'; subst hn'; exact hj
                · intro k h1 h2
                  simp at h2
                  have : k = m.length := by omega
                  subst this
                  exact ⟨_, List.mem_singleton.mpr rfl⟩
              · cases e
          · cases e
          · rename_i hd kids hnf1 hnf2
            split at e
            · cases e
            · rename_i ps m2 ek
              cases e
              have S1 : ∀ m x p m', encFld h ns f m x = .ok (p, m') → EncSpec h m [x] m' :=
                fun m x p m' e => encFld_spec h ns f m x p m' e
              have sk := encKids_spec (h := h) (fun m x => encFld h ns f m x) S1 _ _ _ _ ek
              obtain ⟨D0, d0, s0, c0⟩ := encKids_dec (h := h) (ns := ns) ns'
                (fun m x => encFld h ns f m x) S1 (fun m x p m' e => ih m x p m' e) _ _ _ _ ek done
              obtain ⟨e0, rfl, _⟩ := sk.ext
              have hlen : (m ++ [i]).length = m.length + 1 := by simp
              rw [hlen] at d0
              refine ⟨D0 ++ [(m.length, setstate ⟨(getstate i o).head, (getstate i o).kids.map
                (renFld (idx (m ++ [i] ++ e0)))⟩)], ?_, ?_, ?_⟩
              · have hidx' := hidx e0
                rw [List.append_assoc] at hidx'
                simp only [decPk, d0, renFld, hidx', List.append_assoc]
              · apply Sound.append
                · exact s0.weaken (by simp)
                · intro k o' hk
                  obtain ⟨rfl, rfl⟩ := Prod.mk.inj (List.mem_singleton.mp hk)
                  refine ⟨Nat.le_refl _, by simp, i, o, hget e0, ho, rfl, ?_, ?_⟩
                  · intro j hj; exact sk.xin j hj
                  · intro n hn
                    exfalso
                    cases hk : (getstate i o).kids with
                    | nil => exact hnf1 n hn hk
                    | cons a as => exact hnf2 n a as hn hk
              · intro k h1 h2
                by_cases hk : k = m.length
                · subst hk
                  exact ⟨_, List.mem_append_right _ (List.mem_singleton.mpr rfl)⟩
                · obtain ⟨o', ho'⟩ := c0 k (by simp; omega) h2
                  exact ⟨o', List.mem_append_left _ ho'⟩

/-! ### the fuel `h.length + 1` suffices -/

theorem encKids_total {h : Heap} (enc1 : List Id → Fld → Except PErr (Pk × List Id))
    (S1 : ∀ m x p m', enc1 m x = .ok (p, m') → EncSpec h m [x] m')
    (P : List Id → Prop)
    (T1 : ∀ m x, m.Nodup → (∀ a ∈ m, (hget h a).isSome = true) → P m →
      (∀ j, x = .ref j → (hget h j).isSome = true) → (∀ k, x ≠ .lock k) →
      ∃ p m', enc1 m x = .ok (p, m'))
    (Pext : ∀ m e, P m → P (m ++ e)) :
    ∀ xs m, m.Nodup → (∀ a ∈ m, (hget h a).isSome = true) → P m →
      (∀ j, Fld.ref j ∈ xs → (hget h j).isSome = true) → (∀ k, Fld.lock k ∉ xs) →
      ∃ ps m', encKids enc1 m xs = .ok (ps, m') := by
  intro xs
  induction xs with
  | nil => intro m _ _ _ _ _; exact ⟨[], m, rfl⟩
  | cons x xs ih =>
    intro m nd dom pm hr hl
    obtain ⟨p, m1, e1⟩ := T1 m x nd dom pm (fun j hj => hr j (by simp [hj]))
      (fun k hk => hl k (by simp [hk]))
    have s1 := S1 _ _ _ _ e1
    obtain ⟨ea, rfl, _⟩ := s1.ext
    obtain ⟨ps, m2, e2⟩ := ih (m ++ ea) (s1.nodup nd) (s1.dom dom) (Pext _ _ pm)
      (fun j hj => hr j (List.mem_cons_of_mem _ hj)) (fun k hk => hl k (List.mem_cons_of_mem _ hk))
    exact ⟨p :: ps, m2, by simp [encKids, e1, e2]⟩

theorem encFld_total (h : Heap) (ns : Namespace) (r : Id) (wf : Picklable h ns r) :
    ∀ f m x, h.length < f + m.length → m.Nodup → (∀ a ∈ m, (hget h a).isSome = true) →
      (∀ j, x = .ref j → (hget h j).isSome = true) → (∀ k, x ≠ .lock k) →
      ∃ p m', encFld h ns f m x = .ok (p, m') := by
  intro f
  induction f with
  | zero =>
    intro m x hf nd dom _ _
    have := memo_bound nd dom
    omega
  | succ f ih =>
    intro m x hf nd dom hx hl
    cases x with
    | sc v => exact ⟨.sc v, m, by simp [encFld]⟩
    | lock k => exact absurd rfl (hl k)
    | ref i =>
      simp only [encFld]
      by_cases hin : i ∈ m
      · simp [hin]
      · simp only [hin, if_false]
        have hi := hx i rfl
        cases ho : hget h i with
        | none => simp [ho] at hi
        | some o =>
          simp only
          have nd1 : (m ++ [i]).Nodup := by
            rw [List.nodup_append]
            refine ⟨nd, by simp, ?_⟩
            intro a ha b hb
            simp at hb; subst hb
            exact fun c => hin (c ▸ ha)
          have dom1 : ∀ a ∈ m ++ [i], (hget h a).isSome = true := by
            intro a ha
            rcases List.mem_append.mp ha with ha | ha
            · exact dom a ha
            · simp at ha; subst ha; simp [ho]
          split
          · rename_i n hhd hkids
            have := (wf.byref i o n ho hhd).1
            simp [this]
          · rename_i n a as hhd hkids
            have := (wf.byref i o n ho hhd).2
            rw [this] at hkids; cases hkids
          · rename_i hd kids _ _
            have hb : h.length < f + (m ++ [i]).length := by simp; omega
            obtain ⟨ps, m2, ek⟩ := encKids_total (h := h) (fun m x => encFld h ns f m x)
              (fun m x p m' e => encFld_spec h ns f m x p m' e)
              (fun m => h.length < f + m.length)
              (fun m x nd dom pm hx hl => ih m x pm nd dom hx hl)
              (fun m e pm => by simp; omega)
              (getstate i o).kids (m ++ [i]) nd1 dom1 hb
              (fun j hj => wf.closed i o j ho hj) (fun k => wf.nolock i o k ho)
            simp [ek]

/-! ### whole round trip, conditional on `encodeM` having succeeded -/

theorem encode_sound {h : Heap} {ns : Namespace} {ns' : Defined} {r : Id} {p : Pk} {memo : List Id}
    (hrecv : ∀ n i, ns n = some i → ns' n = true) (e : encodeM h ns r = .ok (p, memo)) :
    ∃ h', decode ns' p = .ok (h', idx memo r) ∧ Iso (idx memo) h r h' (idx memo r) ∧
      (∀ i, Reach h r i ↔ i ∈ memo) ∧ memo.Nodup ∧
      (∀ i o n, i ∈ memo → hget h i = some o → (getstate i o).head = .func n → ns n = some i) := by
  unfold encodeM at e
  have sp := encFld_spec h ns _ _ _ _ _ e
  obtain ⟨D, d, snd, cov⟩ := encFld_dec h ns ns' hrecv _ _ _ _ _ e []
  have nd : memo.Nodup := sp.nodup List.nodup_nil
  have rin : r ∈ memo := sp.xin r (by simp)
  obtain ⟨e0, he0, reach0⟩ := sp.ext
  simp at he0
  subst he0
  have entry : ∀ i, i ∈ memo → ∃ o, hget h i = some o ∧ hget D (idx memo i) = some (viaState (idx memo) i o) ∧
      (∀ j, Fld.ref j ∈ (getstate i o).kids → j ∈ memo) ∧
      (∀ n, (getstate i o).head = .func n → ns n = some i) := by
    intro i hi
    have lt := idx_lt_of_mem hi
    obtain ⟨o', ho'⟩ := cov (idx memo i) (Nat.zero_le _) lt
    obtain ⟨o'', hg, hm⟩ := hget_of_key ho'
    obtain ⟨_, _, i', o, gi, ho, eq, kids, fn⟩ := snd _ _ hm
    have := get_idx hi
    rw [this] at gi
    cases gi
    exact ⟨o, ho, by rw [hg, eq], kids, fn⟩
  have reach_iff : ∀ i, Reach h r i ↔ i ∈ memo := by
    intro i
    constructor
    · intro hr
      induction hr with
      | refl => exact rin
      | step _ ho hk ih =>
        obtain ⟨o1, ho1, _, kids, _⟩ := entry _ ih
        rw [ho] at ho1
        cases ho1
        exact kids _ hk
    · intro hi
      obtain ⟨j, hj, hr⟩ := reach0 i hi
      simp at hj
      subst hj
      exact hr
  refine ⟨D, ?_, ?_, reach_iff, nd, ?_⟩
  · simp [decode, renFld] at d ⊢
    simp [d]
  · refine ⟨rfl, ?_, ?_, ?_⟩
    · intro i j hi hj eq
      exact idx_inj ((reach_iff i).mp hi) ((reach_iff j).mp hj) eq
    · intro i hi
      obtain ⟨o, ho, hd, _, _⟩ := entry i ((reach_iff i).mp hi)
      exact ⟨o, ho, hd⟩
    · intro k o' hk
      have hm := hget_mem hk
      obtain ⟨_, _, i, o, gi, _, _, _, _⟩ := snd _ _ hm
      exact ⟨i, (reach_iff i).mpr (mem_of_get gi), idx_of_get nd gi⟩
  · intro i o n hi ho hn
    obtain ⟨o1, ho1, _, _, fn⟩ := entry i hi
    rw [ho] at ho1
    cases ho1
    exact fn n hn

theorem encodeM_total {h : Heap} {ns : Namespace} {r : Id} (wf : Picklable h ns r) :
    ∃ p memo, encodeM h ns r = .ok (p, memo) := by
  unfold encodeM
  exact encFld_total h ns r wf (h.length + 1) [] (.ref r) (by simp) List.nodup_nil (by simp)
    (fun j hj => by cases hj; exact wf.root) (fun k hk => by cases hk)

theorem encode_of_encodeM {h : Heap} {ns : Namespace} {r : Id} {p : Pk} {memo : List Id}
    (e : encodeM h ns r = .ok (p, memo)) : encode h ns r = .ok p := by
  simp [encode, e]

theorem encodeM_of_encode {h : Heap} {ns : Namespace} {r : Id} {p : Pk}
    (e : encode h ns r = .ok p) : ∃ memo, encodeM h ns r = .ok (p, memo) := by
  unfold encode at e
  split at e
  · rename_i p' memo he
    cases e
    exact ⟨memo, he⟩
  · cases e

/-! ### attributes -/

theorem getAttr_map (f : Fld → Fld) : ∀ (attrs : List String) (kids : List Fld) (q : String),
    getAttr attrs (kids.map f) q = (getAttr attrs kids q).map f
  | [], _, _ => by simp [getAttr]
  | _ :: _, [], _ => by simp [getAttr]
  | a :: as, k :: ks, q => by
    by_cases c : a = q
    · simp [getAttr, c]
    · simp [getAttr, c, getAttr_map f as ks q]

theorem setAttr_map (f : Fld → Fld) : ∀ (attrs : List String) (kids : List Fld) (q : String) (v : Fld),
    (setAttr attrs kids q v).map f = setAttr attrs (kids.map f) q (f v)
  | [], _, _, _ => by simp [setAttr]
  | _ :: _, [], _, _ => by simp [setAttr]
  | a :: as, k :: ks, q, v => by
    by_cases c : a = q
    · simp [setAttr, c]
    · simp [setAttr, c, setAttr_map f as ks q v]

theorem getAttr_setAttr_same : ∀ (attrs : List String) (kids : List Fld) (q : String) (v : Fld),
    (getAttr attrs kids q).isSome = true → getAttr attrs (setAttr attrs kids q v) q = some v
  | [], _, _, _ => by simp [getAttr]
  | _ :: _, [], _, _ => by simp [getAttr]
  | a :: as, k :: ks, q, v => by
    by_cases c : a = q
    · simp [getAttr, setAttr, c]
    · simp only [getAttr, setAttr, c, if_false]
      exact getAttr_setAttr_same as ks q v

theorem getAttr_setAttr_other : ∀ (attrs : List String) (kids : List Fld) (q q' : String) (v : Fld),
    q' ≠ q → getAttr attrs (setAttr attrs kids q v) q' = getAttr attrs kids q'
  | [], _, _, _, _ => by simp [getAttr]
  | _ :: _, [], _, _, _ => by simp [getAttr, setAttr]
  | a :: as, k :: ks, q, q', v => by
    intro hne
    by_cases c : a = q
    · subst c
      have : ¬ a = q' := fun x => hne x.symm
      simp [getAttr, setAttr, this]
    · by_cases c' : a = q'
      · subst c'
        simp [getAttr, setAttr, c]
      · simp only [getAttr, setAttr, c, c', if_false]
        exact getAttr_setAttr_other as ks q q' v hne

theorem getAttr_mem : ∀ (attrs : List String) (kids : List Fld) (q : String) (v : Fld),
    getAttr attrs kids q = some v → v ∈ kids
  | [], _, _, _ => by simp [getAttr]
  | _ :: _, [], _, _ => by simp [getAttr]
  | a :: as, k :: ks, q, v => by
    by_cases c : a = q
    · simp [getAttr, c]; intro e; exact Or.inl e.symm
    · simp only [getAttr, c, if_false]
      intro e
      exact List.mem_cons_of_mem _ (getAttr_mem as ks q v e)

theorem dictPairs_map (f : Fld → Fld) : ∀ (items : List Fld),
    dictPairs (items.map f) = (dictPairs items).map fun kv => (f kv.1, f kv.2)
  | [] => by simp [dictPairs]
  | [_] => by simp [dictPairs]
  | k :: v :: rest => by simp [dictPairs, dictPairs_map f rest]

theorem dictPairs_unPairs : ∀ (t : List (Fld × Fld)), dictPairs (unPairs t) = t
  | [] => by simp [unPairs, dictPairs]
  | (k, v) :: rest => by simp [unPairs, dictPairs, dictPairs_unPairs rest]

/-! ### what the receiving side holds for an `Overloaded` -/

theorem viaState_overloaded (σ : Id → Nat) (ov : Id) (attrs : List String) (kids : List Fld)
    (hl : (getAttr attrs kids "_lock").isSome = true) :
    viaState σ ov ⟨.inst "Overloaded" attrs, kids⟩ =
      ⟨.inst "Overloaded" attrs, setAttr attrs (kids.map (renFld σ)) "_lock" (.lock ov)⟩ := by
  have h1 : getAttr attrs (setAttr attrs (kids.map (renFld σ)) "_lock" (.sc (.int ov))) "_lock"
      = some (.sc (.int ov)) := by
    apply getAttr_setAttr_same
    rw [getAttr_map]
    simpa using hl
  simp only [viaState, getstate, renObj, setstate, if_true, setAttr_map, renFld, h1]
  congr 1
  -- setting `_lock` twice
  have : ∀ (attrs : List String) (ks : List Fld) (v w : Fld),
      setAttr attrs (setAttr attrs ks "_lock" v) "_lock" w = setAttr attrs ks "_lock" w := by
    intro attrs
    induction attrs with
    | nil => intro ks v w; simp [setAttr]
    | cons a as ih =>
      intro ks v w
      cases ks with
      | nil => simp [setAttr]
      | cons k ks =>
        by_cases c : a = "_lock"
        · simp [setAttr, c]
        · simp [setAttr, c, ih]
  rw [this]
  simp

theorem viaState_plain (σ : Id → Nat) (i : Id) (o : Obj)
    (hp : ∀ attrs, o.head ≠ .inst "Overloaded" attrs) : viaState σ i o = renObj σ o := by
  obtain ⟨hd, kids⟩ := o
  cases hd with
  | inst cls attrs =>
    have c : cls ≠ "Overloaded" := fun c => hp attrs (by simp [c])
    simp [viaState, getstate, setstate, renObj, c]
  | _ => simp [viaState, getstate, setstate, renObj]

/-- under `Iso`, the copy of an `Overloaded` carries the (renamed) lookup table and a real lock -/
theorem iso_overloaded {σ : Id → Nat} {h h' : Heap} {r r' ov d : Id} {attrs : List String}
    {kids items : List Fld} (iso : Iso σ h r h' r') (reach : Reach h r ov)
    (io : IsOverloaded h ov attrs kids d items) :
    IsOverloaded h' (σ ov) attrs (setAttr attrs (kids.map (renFld σ)) "_lock" (.lock ov))
      (σ d) (items.map (renFld σ)) := by
  obtain ⟨k, hk⟩ := io.lock
  have hl : (getAttr attrs kids "_lock").isSome = true := by simp [hk]
  obtain ⟨o, ho, hc⟩ := iso.obj ov reach
  rw [io.obj] at ho
  cases ho
  rw [viaState_overloaded σ ov attrs kids hl] at hc
  -- the dict is a child of the Overloaded (through the state `getstate` exposes)
  have hchild : Fld.ref d ∈ (getstate ov ⟨.inst "Overloaded" attrs, kids⟩).kids := by
    simp only [getstate, if_true]
    apply getAttr_mem attrs _ "lookup"
    rw [getAttr_setAttr_other _ _ _ _ _ (by decide)]
    exact io.lookup
  have reachd : Reach h r d := Reach.step reach io.obj hchild
  obtain ⟨od, hod, hcd⟩ := iso.obj d reachd
  rw [io.dict] at hod
  cases hod
  rw [viaState_plain σ d _ (by intro a; simp)] at hcd
  refine ⟨hc, ⟨ov, ?_⟩, ?_, hcd⟩
  · apply getAttr_setAttr_same
    rw [getAttr_map]; simpa using hl
  · rw [getAttr_setAttr_other _ _ _ _ _ (by decide), getAttr_map, io.lookup]
    rfl

theorem table_of_isOverloaded {h : Heap} {ov d : Id} {attrs : List String} {kids items : List Fld}
    (io : IsOverloaded h ov attrs kids d items) : table h ov = some (dictPairs items) := by
  simp [table, io.obj, io.lookup, io.dict]

/-! ### `register` -/

theorem foldl_max_ge (l : List Nat) (a : Nat) : a ≤ l.foldl Nat.max a ∧ ∀ x ∈ l, x ≤ l.foldl Nat.max a := by
  induction l generalizing a with
  | nil => simp
  | cons b t ih =>
    simp only [List.foldl_cons]
    obtain ⟨h1, h2⟩ := ih (Nat.max a b)
    refine ⟨Nat.le_trans (Nat.le_max_left a b) h1, ?_⟩
    intro x hx
    rcases List.mem_cons.mp hx with hx | hx
    · subst hx; exact Nat.le_trans (Nat.le_max_right a x) h1
    · exact h2 x hx

theorem lt_freshId {h : Heap} {k : Id} {o : Obj} (hm : (k, o) ∈ h) : k < freshId h := by
  unfold freshId
  have := (foldl_max_ge (h.map (·.1)) 0).2 k (List.mem_map.mpr ⟨(k, o), hm, rfl⟩)
  exact Nat.lt_succ_of_le this

/-- `register` on an `Overloaded` that holds a lock succeeds and extends the table -/
theorem register_extends {h : Heap} {ov d : Id} {attrs : List String} {kids items : List Fld}
    (io : IsOverloaded h ov attrs kids d items) (key val : Fld) :
    ∃ h'', register h ov key val = .ok h'' ∧
      table h'' ov = some (pairsInsert key val (dictPairs items)) ∧
      (∀ i, i ≠ ov → i ≠ freshId h → hget h'' i = hget h i) := by
  obtain ⟨k, hk⟩ := io.lock
  have ht := table_of_isOverloaded io
  have hne : ov ≠ freshId h := Nat.ne_of_lt (lt_freshId (hget_mem io.obj))
  have hls : (getAttr attrs kids "lookup").isSome = true := by simp [io.lookup]
  refine ⟨(ov, ⟨.inst "Overloaded" attrs, setAttr attrs kids "lookup" (.ref (freshId h))⟩)
      :: (freshId h, ⟨.dict, unPairs (pairsInsert key val (dictPairs items))⟩) :: h,
    by simp [register, io.obj, hk, ht], ?_, ?_⟩
  · simp [table, hget, getAttr_setAttr_same _ _ _ _ hls, hne, dictPairs_unPairs]
  · intro i h1 h2
    simp [hget, Ne.symm h1, Ne.symm h2]

/-! ### the executable well-formedness check is sound -/

theorem picklableB_sound {h : Heap} {ns : Namespace} {r : Id} (c : picklableB h ns r = true) :
    Picklable h ns r := by
  simp only [picklableB, Bool.and_eq_true, List.all_eq_true] at c
  obtain ⟨hr, hall⟩ := c
  refine ⟨hr, ?_, ?_, ?_⟩
  · intro i o j ho hj
    have := (hall (i, o) (hget_mem ho)).1 _ hj
    simpa using this
  · intro i o k ho hk
    have := (hall (i, o) (hget_mem ho)).1 _ hk
    simp at this
  · intro i o n ho hn
    have := (hall (i, o) (hget_mem ho)).2
    simp only [hn] at this
    simpa using this

/-! ### lock identity, heads -/

theorem setAttr_self : ∀ (attrs : List String) (kids : List Fld) (q : String) (v : Fld),
    getAttr attrs kids q = some v → setAttr attrs kids q v = kids
  | [], _, _, _ => by simp [getAttr]
  | _ :: _, [], _, _ => by simp [getAttr]
  | a :: as, k :: ks, q, v => by
    by_cases c : a = q
    · simp [getAttr, setAttr, c]; intro e; exact e.symm
    · simp only [getAttr, setAttr, c, if_false]
      intro e
      rw [setAttr_self as ks q v e]

/-- an object made by `Overloaded.__init__` in this process comes back with the very same lock key -/
theorem viaState_ownLock (σ : Id → Nat) (i : Id) (o : Obj) (own : OwnLock i o) :
    viaState σ i o = renObj σ o := by
  obtain ⟨hd, kids⟩ := o
  cases hd with
  | inst cls attrs =>
    by_cases c : cls = "Overloaded"
    · subst c
      simp only [OwnLock, if_true] at own
      rw [viaState_overloaded σ i attrs kids (by simp [own])]
      simp only [renObj]
      congr 1
      apply setAttr_self
      rw [getAttr_map, own]
      rfl
    · exact viaState_plain σ i _ (by intro a; simp [c])
  | _ => exact viaState_plain σ i _ (by intro a; simp)

theorem viaState_head (σ : Id → Nat) (i : Id) (o : Obj) : (viaState σ i o).head = o.head := by
  obtain ⟨hd, kids⟩ := o
  cases hd with
  | inst cls attrs =>
    by_cases c : cls = "Overloaded"
    · subst c
      simp only [viaState, getstate, renObj, setstate, if_true]
      split <;> rfl
    · simp [viaState, getstate, setstate, renObj, c]
  | _ => simp [viaState, getstate, setstate, renObj]

/-! ### concrete graphs used as witnesses (non-vacuity examples of `LabreaProps/C20.lean`)

  `@dataset def f(a=Option('A'))` / `d = dataset(_f)` with one registered overload, reduced to the
  attributes that matter.  Object 5 is the user function; 0 the Dataset (`__wrapped__` → 5);
  1 its `Overloaded` (lock registered under its own id); 2 the lookup dict `{'one': <Option>}`;
  3/4 `FunctionApplication` / `Value` holding the function; 6 the registered `Option`;
  7 the `MemoryCache` with one warm entry (8 = its dict, 9 = the cached list). -/

def exHeap : Heap := [
  (0, ⟨.inst "Dataset" ["overloads", "cache", "__qualname__", "__wrapped__"],
        [.ref 1, .ref 7, .sc (.str "f"), .ref 5]⟩),
  (1, ⟨.inst "Overloaded" ["dispatch", "lookup", "default", "_lock"],
        [.sc (.str "K"), .ref 2, .ref 3, .lock 1]⟩),
  (2, ⟨.dict, [.sc (.str "one"), .ref 6]⟩),
  (3, ⟨.inst "FunctionApplication" ["func"], [.ref 4]⟩),
  (4, ⟨.inst "Value" ["value"], [.ref 5]⟩),
  (5, ⟨.func "m.f", []⟩),
  (6, ⟨.inst "Option" ["key"], [.sc (.str "C")]⟩),
  (7, ⟨.inst "MemoryCache" ["_cache"], [.ref 8]⟩),
  (8, ⟨.dict, [.sc (.str "[{\"A\": 1}]"), .ref 9]⟩),
  (9, ⟨.list, [.sc (.str "f"), .sc (.int 1)]⟩)]

/-- explicit form `d = dataset(f)`: the name `m.f` still denotes the function -/
def nsExplicit : Namespace := nsOf [("m.f", 5), ("m.d", 0)]
/-- decorator form `@dataset def f`: the name `m.f` now denotes the Dataset -/
def nsDecorator : Namespace := nsOf [("m.f", 0)]
def recvDefined : Defined := definedOf ["m.f", "m.d"]

/-- what `loads(dumps(d))` is expected to build (ids = memo numbers, finished objects first) -/
def exCopy : Heap := [
  (3, ⟨.inst "Option" ["key"], [.sc (.str "C")]⟩),
  (2, ⟨.dict, [.sc (.str "one"), .ref 3]⟩),
  (6, ⟨.func "m.f", []⟩),
  (5, ⟨.inst "Value" ["value"], [.ref 6]⟩),
  (4, ⟨.inst "FunctionApplication" ["func"], [.ref 5]⟩),
  (1, ⟨.inst "Overloaded" ["dispatch", "lookup", "default", "_lock"],
        [.sc (.str "K"), .ref 2, .ref 4, .lock 1]⟩),
  (9, ⟨.list, [.sc (.str "f"), .sc (.int 1)]⟩),
  (8, ⟨.dict, [.sc (.str "[{\"A\": 1}]"), .ref 9]⟩),
  (7, ⟨.inst "MemoryCache" ["_cache"], [.ref 8]⟩),
  (0, ⟨.inst "Dataset" ["overloads", "cache", "__qualname__", "__wrapped__"],
        [.ref 1, .ref 7, .sc (.str "f"), .ref 6]⟩)]

theorem exRecv : ∀ n i, nsExplicit n = some i → recvDefined n = true := by
  intro n i hn
  by_cases c1 : n = "m.f"
  · subst c1; decide
  · by_cases c2 : n = "m.d"
    · subst c2; decide
    · have : nsExplicit n = none := by
        simp [nsExplicit, nsOf, Ne.symm c1, Ne.symm c2]
      rw [this] at hn; cases hn

theorem exReachOv : Reach exHeap 0 1 :=
  Reach.step (o := ⟨.inst "Dataset" ["overloads", "cache", "__qualname__", "__wrapped__"],
    [.ref 1, .ref 7, .sc (.str "f"), .ref 5]⟩) (Reach.refl 0) (by decide) (by decide)

theorem exReachFn : Reach exHeap 0 5 := by
  have r3 : Reach exHeap 0 3 := Reach.step (o := ⟨.inst "Overloaded"
    ["dispatch", "lookup", "default", "_lock"], [.sc (.str "K"), .ref 2, .ref 3, .lock 1]⟩)
    exReachOv (by decide) (by decide)
  have r4 : Reach exHeap 0 4 := Reach.step (o := ⟨.inst "FunctionApplication" ["func"], [.ref 4]⟩)
    r3 (by decide) (by decide)
  exact Reach.step (o := ⟨.inst "Value" ["value"], [.ref 5]⟩) r4 (by decide) (by decide)

end Labrea.Pickle

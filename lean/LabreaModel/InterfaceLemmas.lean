/-
  Helper lemmas about InterfaceSM used by LabreaProps/C07.lean: exact characterisations of what
  each operation does to a dataset record, the table-indexed cache invariant, persistence of a
  registration, and the fingerprint/dispatch lemma behind `no_cross_dispatch`.
-/
import LabreaModel.InterfaceSM
namespace Labrea.Iface

/-! ## state updates -/

theorem setDs_ds (s : St) (d : DsId) (r : DsRec) (x : DsId) :
    (s.setDs d r).ds x = if x = d then some r else s.ds x := rfl

theorem setDs_ifs (s : St) (d : DsId) (r : DsRec) : (s.setDs d r).ifs = s.ifs := rfl

theorem modDs_ds (s : St) (d : DsId) (f : DsRec → DsRec) (x : DsId) :
    (s.modDs d f).ds x = if x = d then (s.ds x).map f else s.ds x := by
  unfold St.modDs
  cases h : s.ds d with
  | none =>
    by_cases hx : x = d
    · subst hx; simp [h]
    · simp [hx]
  | some r =>
    by_cases hx : x = d
    · subst hx; simp [St.setDs, h]
    · simp [St.setDs, hx]

theorem modDs_ifs (s : St) (d : DsId) (f : DsRec → DsRec) : (s.modDs d f).ifs = s.ifs := by
  unfold St.modDs
  cases s.ds d <;> rfl

/-- the table of dataset `d` after a list of registrations -/
def regsTable (d : DsId) (regs : List Reg) (t : Table) : Table :=
  regs.foldl (fun t x => if x.1 = d then tinsert x.2.1 x.2.2 t else t) t

theorem applyRegs_ds (regs : List Reg) (s : St) (d : DsId) :
    (applyRegs s regs).ds d =
      (s.ds d).map fun r => { r with table := regsTable d regs r.table } := by
  induction regs generalizing s with
  | nil =>
    simp [applyRegs, regsTable]
  | cons x regs ih =>
    have h1 : applyRegs s (x :: regs) = applyRegs (regDs s x.1 x.2.1 x.2.2) regs := rfl
    rw [h1, ih]
    unfold regDs
    rw [modDs_ds]
    by_cases hx : d = x.1
    · subst hx
      cases hsd : s.ds x.1 with
      | none => simp
      | some r => simp [regsTable]
    · have hx' : ¬ x.1 = d := fun e => hx e.symm
      cases hsd : s.ds d with
      | none => simp [hx]
      | some r => simp [hx, hx', regsTable]

theorem applyRegs_ifs (regs : List Reg) (s : St) : (applyRegs s regs).ifs = s.ifs := by
  induction regs generalizing s with
  | nil => rfl
  | cons x regs ih =>
    have h1 : applyRegs s (x :: regs) = applyRegs (regDs s x.1 x.2.1 x.2.2) regs := rfl
    rw [h1, ih]; unfold regDs; exact modDs_ifs _ _ _

theorem setDispFold_ds (disp : Dispatch) (ms : List (String × DsId)) (s : St) (d : DsId) :
    (ms.foldl (fun s m => setDisp s m.2 disp) s).ds d =
      (s.ds d).map fun r => if ms.any (fun m => m.2 = d) then { r with dispatch := disp } else r := by
  induction ms generalizing s with
  | nil => simp
  | cons m ms ih =>
    simp only [List.foldl_cons]
    rw [ih]
    unfold setDisp
    rw [modDs_ds]
    by_cases hx : d = m.2
    · subst hx
      cases hsd : s.ds m.2 with
      | none => simp
      | some r =>
        simp
    · have hx' : ¬ m.2 = d := fun e => hx e.symm
      have hdec : decide (m.2 = d) = false := decide_eq_false hx'
      rw [if_neg hx]
      cases hsd : s.ds d with
      | none => rfl
      | some r => simp only [Option.map_some, List.any_cons, hdec, Bool.false_or]

theorem setDispFold_ifs (disp : Dispatch) (ms : List (String × DsId)) (s : St) :
    (ms.foldl (fun s m => setDisp s m.2 disp) s).ifs = s.ifs := by
  induction ms generalizing s with
  | nil => rfl
  | cons m ms ih =>
    simp only [List.foldl_cons]
    rw [ih]; unfold setDisp; exact modDs_ifs _ _ _

theorem defIface_ds (s : St) (I : IfId) (disp : Dispatch) (ms : List (String × DsId)) (d : DsId) :
    (defIface s I disp ms).ds d =
      (s.ds d).map fun r => if ms.any (fun m => m.2 = d) then { r with dispatch := disp } else r := by
  unfold defIface
  exact setDispFold_ds disp ms s d

theorem defIface_ifs (s : St) (I : IfId) (disp : Dispatch) (ms : List (String × DsId)) (x : IfId) :
    (defIface s I disp ms).ifs x = if x = I then some ⟨disp, ms⟩ else s.ifs x := by
  unfold defIface
  simp [setDispFold_ifs]

/-! ## what one step does to a dataset record -/

/-- same cache, default and callback (what every operation except `evaluate`/`newDs` preserves) -/
def SameCore (r r' : DsRec) : Prop :=
  r'.cache = r.cache ∧ r'.default = r.default ∧ r'.callback = r.callback

theorem defineImpl_cases (s : St) (ifs : List IfId) (as : List Alias) (pr : List (String × ImplId)) :
    (∃ e, defineImpl s ifs as pr = (s, some e)) ∨
    defineImpl s ifs as pr = (applyRegs s (implRegs (flatMembers s ifs) as pr), Option.none) := by
  unfold defineImpl
  simp only
  cases unknownCheck (flatMembers s ifs) pr with
  | some p => exact Or.inl ⟨_, rfl⟩
  | none =>
    cases abstractCheck s (flatMembers s ifs) pr with
    | some n => exact Or.inl ⟨_, rfl⟩
    | none => exact Or.inr rfl

/-- Every operation other than `evaluate` and `newDs d` keeps cache/default/callback of `d`. -/
theorem step_core (env : Env) (s : St) (op : Op) (d : DsId) (r' : DsRec)
    (hne : ∀ d' o, op ≠ .evaluate d' o) (hnew : ∀ disp dflt cb, op ≠ .newDs d disp dflt cb)
    (h : (step env s op).1.ds d = some r') : ∃ r, s.ds d = some r ∧ SameCore r r' := by
  cases op with
  | newDs d0 disp dflt cb =>
    simp only [step, setDs_ds] at h
    by_cases hd : d = d0
    · subst hd; exact absurd rfl (hnew disp dflt cb)
    · simp [hd] at h; exact ⟨r', h, rfl, rfl, rfl⟩
  | register d0 a i =>
    simp only [step, regDs, modDs_ds] at h
    by_cases hd : d = d0
    · simp [hd] at h
      obtain ⟨r, hr, he⟩ := h
      subst hd
      exact ⟨r, hr, by subst he; exact ⟨rfl, rfl, rfl⟩⟩
    · simp [hd] at h; exact ⟨r', h, rfl, rfl, rfl⟩
  | overload ts i =>
    simp only [step, doOverload] at h
    split at h
    · simp only [applyRegs_ds] at h
      cases hr : s.ds d with
      | none => simp [hr] at h
      | some r =>
        simp [hr] at h
        exact ⟨r, rfl, by subst h; exact ⟨rfl, rfl, rfl⟩⟩
    · exact ⟨r', h, rfl, rfl, rfl⟩
  | setDispatch d0 disp =>
    simp only [step, setDisp, modDs_ds] at h
    by_cases hd : d = d0
    · simp [hd] at h
      obtain ⟨r, hr, he⟩ := h
      subst hd
      exact ⟨r, hr, by subst he; exact ⟨rfl, rfl, rfl⟩⟩
    · simp [hd] at h; exact ⟨r', h, rfl, rfl, rfl⟩
  | defineInterface I disp ms =>
    simp only [step, defIface_ds] at h
    cases hr : s.ds d with
    | none => simp [hr] at h
    | some r =>
      simp [hr] at h
      refine ⟨r, rfl, ?_⟩
      subst h
      split <;> exact ⟨rfl, rfl, rfl⟩
  | defineImpl ifs as pr =>
    simp only [step] at h
    rcases defineImpl_cases s ifs as pr with ⟨e, he⟩ | he
    · rw [he] at h; exact ⟨r', h, rfl, rfl, rfl⟩
    · rw [he] at h
      simp only [applyRegs_ds] at h
      cases hr : s.ds d with
      | none => simp [hr] at h
      | some r =>
        simp [hr] at h
        exact ⟨r, rfl, by subst h; exact ⟨rfl, rfl, rfl⟩⟩
  | evaluate d' o => exact absurd rfl (hne d' o)

/-- `evaluate` leaves every configuration alone and adds at most one entry, the cold value under
    the current configuration. -/
theorem evalDs_ds (env : Env) (s : St) (d0 : DsId) (o : Opts) (d : DsId) (r' : DsRec)
    (h : (evalDs env s d0 o).2.ds d = some r') :
    ∃ r, s.ds d = some r ∧ r'.toCfg = r.toCfg ∧
      ∀ e ∈ r'.cache, e ∈ r.cache ∨
        (fingerprint env r.toCfg o = .ok e.1 ∧ den env r.toCfg o = .ok e.2) := by
  unfold evalDs at h
  cases hr0 : s.ds d0 with
  | none => simp [hr0] at h; exact ⟨r', h, rfl, fun e he => Or.inl he⟩
  | some r0 =>
    simp only [hr0] at h
    cases hfp : fingerprint env r0.toCfg o with
    | error e => simp [hfp] at h; exact ⟨r', h, rfl, fun e he => Or.inl he⟩
    | ok fp =>
      simp only [hfp] at h
      cases hg : aget fp r0.cache with
      | some v => simp [hg] at h; exact ⟨r', h, rfl, fun e he => Or.inl he⟩
      | none =>
        simp only [hg] at h
        cases hden : den env r0.toCfg o with
        | error e => simp [hden] at h; exact ⟨r', h, rfl, fun e he => Or.inl he⟩
        | ok w =>
          simp only [hden, setDs_ds] at h
          by_cases hd : d = d0
          · subst hd
            simp at h
            subst h
            refine ⟨r0, hr0, rfl, ?_⟩
            intro e he
            rcases mem_aput he with he | he
            · subst he; exact Or.inr ⟨hfp, hden⟩
            · exact Or.inl he
          · simp [hd] at h; exact ⟨r', h, rfl, fun e he => Or.inl he⟩

/-- evaluation never removes a dataset nor changes a configuration -/
theorem evalDs_ds_fwd (env : Env) (s : St) (d0 : DsId) (o : Opts) (d : DsId) (r : DsRec)
    (hr : s.ds d = some r) :
    ∃ r', (evalDs env s d0 o).2.ds d = some r' ∧ r'.toCfg = r.toCfg := by
  unfold evalDs
  cases hr0 : s.ds d0 with
  | none => exact ⟨r, hr, rfl⟩
  | some r0 =>
    simp only
    cases fingerprint env r0.toCfg o with
    | error e => exact ⟨r, hr, rfl⟩
    | ok fp =>
      simp only
      cases aget fp r0.cache with
      | some v => exact ⟨r, hr, rfl⟩
      | none =>
        simp only
        cases den env r0.toCfg o with
        | error e => exact ⟨r, hr, rfl⟩
        | ok w =>
          simp only [setDs_ds]
          by_cases hd : d = d0
          · subst hd
            rw [hr] at hr0; cases hr0
            exact ⟨{ r with cache := aput fp w r.cache }, by simp, rfl⟩
          · exact ⟨r, by simp [hd, hr], rfl⟩

theorem evalDs_ifs (env : Env) (s : St) (d0 : DsId) (o : Opts) :
    (evalDs env s d0 o).2.ifs = s.ifs := by
  unfold evalDs
  cases s.ds d0 with
  | none => rfl
  | some r0 =>
    simp only
    cases fingerprint env r0.toCfg o with
    | error e => rfl
    | ok fp =>
      simp only
      cases aget fp r0.cache with
      | some v => rfl
      | none =>
        simp only
        cases den env r0.toCfg o with
        | error e => rfl
        | ok w => rfl

/-! ## the table-indexed cache invariant -/

/-- every stored entry is the cold value, under its own fingerprint, of some configuration in `P` -/
def Stored (env : Env) (P : DsId → Cfg → Prop) (s : St) : Prop :=
  ∀ d r, s.ds d = some r → ∀ e ∈ r.cache,
    ∃ c o, P d c ∧ fingerprint env c o = .ok e.1 ∧ den env c o = .ok e.2

theorem stored_mono {env : Env} {P Q : DsId → Cfg → Prop} {s : St} (h : Stored env P s)
    (hPQ : ∀ d c, P d c → Q d c) : Stored env Q s := by
  intro d r hr e he
  obtain ⟨c, o, hp, h1, h2⟩ := h d r hr e he
  exact ⟨c, o, hPQ d c hp, h1, h2⟩

/-- One step preserves the invariant when `P` contains the current configurations. -/
theorem stored_step {env : Env} {P : DsId → Cfg → Prop} {s : St} (h : Stored env P s)
    (hcur : ∀ d r, s.ds d = some r → P d r.toCfg) (op : Op) :
    Stored env P (step env s op).1 := by
  intro d r' hr' e he
  by_cases hev : ∃ d' o, op = .evaluate d' o
  · obtain ⟨d', o, hop⟩ := hev
    subst hop
    simp only [step] at hr'
    obtain ⟨r, hr, _, hc⟩ := evalDs_ds env s d' o d r' hr'
    rcases hc e he with hc | ⟨h1, h2⟩
    · exact h d r hr e hc
    · exact ⟨r.toCfg, o, hcur d r hr, h1, h2⟩
  · by_cases hnw : ∃ disp dflt cb, op = .newDs d disp dflt cb
    · obtain ⟨disp, dflt, cb, hop⟩ := hnw
      subst hop
      simp [step, setDs_ds] at hr'
      subst hr'
      simp at he
    · have hne : ∀ d' o, op ≠ .evaluate d' o := fun d' o e => hev ⟨d', o, e⟩
      have hnew : ∀ disp dflt cb, op ≠ .newDs d disp dflt cb :=
        fun a b c e => hnw ⟨a, b, c, e⟩
      obtain ⟨r, hr, hc, _, _⟩ := step_core env s op d r' hne hnew hr'
      rw [hc] at he
      exact h d r hr e he

/-- the configurations dataset `d` has had along the history `h` started in `s` -/
def PastCfg (env : Env) (s : St) (h : List Op) (d : DsId) (c : Cfg) : Prop :=
  ∃ h' r, h' <+: h ∧ (run env s h').ds d = some r ∧ r.toCfg = c

theorem stored_run {env : Env} (h : List Op) : ∀ (s : St) (P : DsId → Cfg → Prop),
    Stored env P s → Stored env (fun d c => P d c ∨ PastCfg env s h d c) (run env s h) := by
  induction h with
  | nil =>
    intro s P hs
    exact stored_mono hs fun d c hp => Or.inl hp
  | cons op h ih =>
    intro s P hs
    let P1 : DsId → Cfg → Prop := fun d c => P d c ∨ ∃ r, s.ds d = some r ∧ r.toCfg = c
    have h1 : Stored env P1 s := stored_mono hs fun d c hp => Or.inl hp
    have h2 : Stored env P1 (step env s op).1 :=
      stored_step h1 (fun d r hr => Or.inr ⟨r, hr, rfl⟩) op
    have h3 := ih (step env s op).1 P1 h2
    refine stored_mono h3 ?_
    intro d c hp
    rcases hp with (hp | ⟨r, hr, hc⟩) | ⟨h', r, hpre, hr, hc⟩
    · exact Or.inl hp
    · exact Or.inr ⟨[], r, List.nil_prefix, hr, hc⟩
    · exact Or.inr ⟨op :: h', r, by
        obtain ⟨t, ht⟩ := hpre
        exact ⟨t, by rw [← ht]; rfl⟩, hr, hc⟩

/-! ## `evaluate` returns a stored value or the cold value under the current tables -/

theorem evalDs_res (env : Env) (s : St) (d : DsId) (o : Opts) (r : DsRec) (hr : s.ds d = some r) :
    (∃ fp v, fingerprint env r.toCfg o = .ok fp ∧ aget fp r.cache = some v ∧
        (evalDs env s d o).1.res = .ok v ∧ (evalDs env s d o).1.hit = true) ∨
    ((∀ fp, fingerprint env r.toCfg o = .ok fp → aget fp r.cache = Option.none) ∧
        (evalDs env s d o).1.res = den env r.toCfg o ∧ (evalDs env s d o).1.hit = false) := by
  unfold evalDs
  simp only [hr]
  cases hfp : fingerprint env r.toCfg o with
  | error e =>
    right
    refine ⟨(fun fp h => by cases h), ?_, rfl⟩
    -- den fails with the same error
    simp only
    unfold fingerprint at hfp
    unfold den
    cases hs : select env r.toCfg o with
    | error e' => simp [hs] at hfp; simp [hfp]
    | ok ch =>
      simp only [hs] at hfp
      cases hk : chosenKeys env r.toCfg o ch with
      | error e' => simp [hk] at hfp; subst hfp; simp [hk]
      | ok ks => simp [hk] at hfp
  | ok fp =>
    simp only
    cases hg : aget fp r.cache with
    | some v => left; exact ⟨fp, v, rfl, hg, rfl, rfl⟩
    | none =>
      right
      refine ⟨(fun fp' h => by cases h; exact hg), ?_, ?_⟩
      · simp only
        cases hden : den env r.toCfg o <;> rfl
      · simp only
        cases hden : den env r.toCfg o <;> rfl

/-! ## persistence of a registration -/

/-- the operation does not register, on dataset `d`, an alias Python-equal to `a`, and does not
    re-create `d` -/
def NoOverwrite (d : DsId) (a : Alias) : Op → Prop
  | .newDs d' _ _ _ => d' ≠ d
  | .register d' a' _ => d' = d → ¬ pyEq a' a
  | .overload ts _ => ∀ t ∈ ts, t.1 = d → ∀ a' ∈ t.2, ¬ pyEq a' a
  | .defineImpl _ as _ => ∀ a' ∈ as, ¬ pyEq a' a
  | _ => True

theorem regsTable_keep (d : DsId) (a : Alias) (regs : List Reg)
    (h : ∀ x ∈ regs, x.1 = d → ¬ pyEq x.2.1 a) (t : Table) :
    tlookup a (regsTable d regs t) = tlookup a t := by
  induction regs generalizing t with
  | nil => rfl
  | cons x regs ih =>
    have h1 : regsTable d (x :: regs) t =
        regsTable d regs (if x.1 = d then tinsert x.2.1 x.2.2 t else t) := rfl
    rw [h1, ih (fun y hy => h y (List.mem_cons_of_mem _ hy))]
    by_cases hx : x.1 = d
    · simp only [hx, if_true]
      exact tlookup_tinsert_ne (h x List.mem_cons_self hx) _ _
    · simp [hx]

theorem mem_overloadRegs {ts : List (DsId × List Alias)} {i : ImplId} {x : Reg}
    (h : x ∈ overloadRegs ts i) : ∃ t ∈ ts, x.1 = t.1 ∧ x.2.1 ∈ t.2 ∧ x.2.2 = i := by
  unfold overloadRegs at h
  obtain ⟨t, ht, hx⟩ := List.mem_flatMap.mp h
  obtain ⟨a, ha, he⟩ := List.mem_map.mp hx
  subst he
  exact ⟨t, ht, rfl, ha, rfl⟩

theorem mem_regsFor {flat : List (String × DsId)} {as : List Alias} {n : String} {i : ImplId}
    {x : Reg} : x ∈ regsFor flat as n i ↔ (n, x.1) ∈ flat ∧ x.2.1 ∈ as ∧ x.2.2 = i := by
  unfold regsFor
  constructor
  · intro h
    obtain ⟨m, hm, hx⟩ := List.mem_flatMap.mp h
    obtain ⟨a, ha, he⟩ := List.mem_map.mp hx
    subst he
    simp at hm
    obtain ⟨hm1, hm2⟩ := hm
    refine ⟨?_, ha, rfl⟩
    rw [← hm2]; exact hm1
  · rintro ⟨h1, h2, h3⟩
    refine List.mem_flatMap.mpr ⟨(n, x.1), by simp [h1], ?_⟩
    refine List.mem_map.mpr ⟨x.2.1, h2, ?_⟩
    rw [← h3]

theorem mem_implRegs {flat : List (String × DsId)} {as : List Alias}
    {pr : List (String × ImplId)} {x : Reg} :
    x ∈ implRegs flat as pr ↔
      ∃ n, (n, x.1) ∈ flat ∧ aget n pr = some x.2.2 ∧ x.2.1 ∈ as := by
  unfold implRegs
  constructor
  · intro h
    obtain ⟨n, _, hx⟩ := List.mem_flatMap.mp h
    cases hp : aget n pr with
    | none => simp [hp] at hx
    | some i =>
      simp only [hp] at hx
      obtain ⟨h1, h2, h3⟩ := mem_regsFor.mp hx
      exact ⟨n, h1, by rw [h3]; exact hp, h2⟩
  · rintro ⟨n, h1, h2, h3⟩
    refine List.mem_flatMap.mpr ⟨n, ?_, ?_⟩
    · unfold memberNames
      rw [mem_dedupF]
      exact List.mem_map.mpr ⟨(n, x.1), h1, rfl⟩
    · simp only [h2]
      exact mem_regsFor.mpr ⟨h1, h3, rfl⟩

/-- a registered alias stays registered (to the same implementation) across an operation that
    does not overwrite it -/
theorem step_keeps_registration (env : Env) (s : St) (op : Op) (d : DsId) (a : Alias) (i : ImplId)
    (r : DsRec) (hno : NoOverwrite d a op) (hr : s.ds d = some r)
    (hl : tlookup a r.table = some i) :
    ∃ r', (step env s op).1.ds d = some r' ∧ tlookup a r'.table = some i := by
  cases op with
  | newDs d0 disp dflt cb =>
    have hd : ¬ d = d0 := fun e => hno e.symm
    exact ⟨r, by simp [step, setDs_ds, hd, hr], hl⟩
  | register d0 a' i' =>
    simp only [step, regDs, modDs_ds]
    by_cases hd : d = d0
    · subst hd
      refine ⟨{ r with table := tinsert a' i' r.table }, by simp [hr], ?_⟩
      simp only
      rw [tlookup_tinsert_ne (hno rfl)]; exact hl
    · exact ⟨r, by simp [hd, hr], hl⟩
  | overload ts i' =>
    simp only [step, doOverload]
    split
    · refine ⟨{ r with table := regsTable d (overloadRegs ts i') r.table },
        by simp [applyRegs_ds, hr], ?_⟩
      simp only
      rw [regsTable_keep d a]
      · exact hl
      · intro x hx hxd
        obtain ⟨t, ht, h1, h2, _⟩ := mem_overloadRegs hx
        exact hno t ht (by rw [← h1]; exact hxd) _ h2
    · exact ⟨r, hr, hl⟩
  | setDispatch d0 disp =>
    simp only [step, setDisp, modDs_ds]
    by_cases hd : d = d0
    · subst hd; exact ⟨{ r with dispatch := disp }, by simp [hr], hl⟩
    · exact ⟨r, by simp [hd, hr], hl⟩
  | defineInterface I disp ms =>
    simp only [step, defIface_ds, hr]
    refine ⟨_, rfl, ?_⟩
    split <;> exact hl
  | defineImpl ifs as pr =>
    simp only [step]
    rcases defineImpl_cases s ifs as pr with ⟨e, he⟩ | he
    · rw [he]; exact ⟨r, hr, hl⟩
    · rw [he]
      refine ⟨{ r with table := regsTable d (implRegs (flatMembers s ifs) as pr) r.table },
        by simp [applyRegs_ds, hr], ?_⟩
      simp only
      rw [regsTable_keep d a]
      · exact hl
      · intro x hx _
        obtain ⟨n, _, _, h3⟩ := mem_implRegs.mp hx
        exact hno _ h3
  | evaluate d' o =>
    simp only [step]
    -- evaluation only touches caches
    unfold evalDs
    cases hr0 : s.ds d' with
    | none => exact ⟨r, hr, hl⟩
    | some r0 =>
      simp only
      cases fingerprint env r0.toCfg o with
      | error e => exact ⟨r, hr, hl⟩
      | ok fp =>
        simp only
        cases aget fp r0.cache with
        | some v => exact ⟨r, hr, hl⟩
        | none =>
          simp only
          cases den env r0.toCfg o with
          | error e => exact ⟨r, hr, hl⟩
          | ok w =>
            simp only [setDs_ds]
            by_cases hd : d = d'
            · subst hd
              rw [hr] at hr0; cases hr0
              exact ⟨{ r with cache := aput fp w r.cache }, by simp, hl⟩
            · exact ⟨r, by simp [hd, hr], hl⟩

def NoOverwriteAll (d : DsId) (a : Alias) (h : List Op) : Prop := ∀ op ∈ h, NoOverwrite d a op

theorem run_keeps_registration (env : Env) (h : List Op) : ∀ (s : St) (d : DsId) (a : Alias)
    (i : ImplId) (r : DsRec), NoOverwriteAll d a h → s.ds d = some r →
    tlookup a r.table = some i →
    ∃ r', (run env s h).ds d = some r' ∧ tlookup a r'.table = some i := by
  induction h with
  | nil => intro s d a i r _ hr hl; exact ⟨r, hr, hl⟩
  | cons op h ih =>
    intro s d a i r hno hr hl
    obtain ⟨r1, hr1, hl1⟩ :=
      step_keeps_registration env s op d a i r (hno op List.mem_cons_self) hr hl
    exact ih (step env s op).1 d a i r1 (fun op' h' => hno op' (List.mem_cons_of_mem _ h')) hr1 hl1

/-! ## fingerprints determine the dispatch value -/

/-- The dispatch is a deterministic function of the options it reports as its keys, and reports
    no keys when it cannot be evaluated. -/
structure DispDet (env : Env) (disp : Dispatch) : Prop where
  det : ∀ o o' : Opts,
    (∀ ks, disp.keys env o = .ok ks → ∀ k ∈ ks, alookup k o' = alookup k o) →
    (∀ ks', disp.keys env o' = .ok ks' → ∀ k ∈ ks', alookup k o = alookup k o') →
    disp.eval env o' = disp.eval env o
  keys_fail : ∀ o e, disp.eval env o = .error e → ∃ e', disp.keys env o = .error e'

theorem dispDet_missing (env : Env) : DispDet env .missing :=
  ⟨fun _ _ _ _ => rfl, fun o e h => by simp [Dispatch.eval] at h⟩

theorem dispDet_key (env : Env) (k : String) : DispDet env (.key k) := by
  constructor
  · intro o o' h1 h2
    simp only [Dispatch.eval]
    cases ho : alookup k o with
    | some v =>
      have := h1 [k] (by simp [Dispatch.keys, ho]) k (by simp)
      rw [this, ho]
    | none =>
      cases ho' : alookup k o' with
      | none => rfl
      | some v' =>
        have := h2 [k] (by simp [Dispatch.keys, ho']) k (by simp)
        rw [ho, ho'] at this
        cases this
  · intro o e h
    simp only [Dispatch.eval] at h
    cases ho : alookup k o with
    | some v => simp [ho] at h
    | none => exact ⟨.keyNotFound k, by simp [Dispatch.keys, ho]⟩

theorem dispDet_keyDefault (env : Env) (k : String) (v : V) : DispDet env (.keyDefault k v) := by
  constructor
  · intro o o' h1 h2
    simp only [Dispatch.eval]
    cases ho : alookup k o with
    | some w =>
      have := h1 [k] (by simp [Dispatch.keys, ho]) k (by simp)
      rw [this, ho]
    | none =>
      cases ho' : alookup k o' with
      | none => rfl
      | some v' =>
        have := h2 [k] (by simp [Dispatch.keys, ho']) k (by simp)
        rw [ho, ho'] at this
        cases this
  · intro o e h
    simp only [Dispatch.eval] at h
    cases ho : alookup k o <;> simp [ho] at h

/-- the dispatch keys that are part of the fingerprint of a successful fingerprint computation -/
theorem fingerprint_dispatch_keys {env : Env} {c : Cfg} {o : Opts} {fp : Fingerprint}
    (hdet : DispDet env c.dispatch) (h : fingerprint env c o = .ok fp) :
    ∃ ks, fp = fpOf ks o ∧ ∀ dk, c.dispatch.keys env o = .ok dk → ∀ k ∈ dk, k ∈ ks := by
  unfold fingerprint at h
  cases hs : select env c o with
  | error e => simp [hs] at h
  | ok ch =>
    simp only [hs] at h
    cases hk : chosenKeys env c o ch with
    | error e => simp [hk] at h
    | ok ks =>
      simp only [hk] at h
      refine ⟨ks, by cases h; rfl, ?_⟩
      intro dk hdk k hkm
      have hwd : ∀ i, withDispatchKeys env c o i = .ok ks → k ∈ ks := by
        intro i hw
        unfold withDispatchKeys at hw
        cases hik : env.implKeys i o with
        | error e => simp [hik] at hw
        | ok ik =>
          simp only [hik, hdk] at hw
          cases hw
          exact List.mem_append_right _ hkm
      cases ch with
      | hit a i => exact hwd i hk
      | dflt a i => exact hwd i hk
      | fallback i =>
        -- the dispatch failed, so it reports no keys
        unfold select at hs
        cases he : c.dispatch.eval env o with
        | error e =>
          obtain ⟨e', he'⟩ := hdet.keys_fail o e he
          rw [he'] at hdk; cases hdk
        | ok v =>
          simp only [he] at hs
          cases ha : aliasOf v with
          | none => simp [ha] at hs
          | some a =>
            simp only [ha] at hs
            cases ht : tlookup a c.table with
            | some i' => simp [ht] at hs
            | none =>
              simp only [ht] at hs
              cases hdf : c.default <;> simp [hdf] at hs

/-- Two configurations with the same deterministic dispatch expression: equal fingerprints
    imply the dispatch evaluated to the same thing. -/
theorem fp_eq_same_dispatch {env : Env} {c c' : Cfg} {o o' : Opts} {fp : Fingerprint}
    (hd : c'.dispatch = c.dispatch) (hdet : DispDet env c.dispatch)
    (h : fingerprint env c o = .ok fp) (h' : fingerprint env c' o' = .ok fp) :
    c'.dispatch.eval env o' = c.dispatch.eval env o := by
  have hdet' : DispDet env c'.dispatch := by rw [hd]; exact hdet
  obtain ⟨ks, hfp, hks⟩ := fingerprint_dispatch_keys hdet h
  obtain ⟨ks', hfp', hks'⟩ := fingerprint_dispatch_keys hdet' h'
  have heq : fpOf ks o = fpOf ks' o' := by rw [← hfp, ← hfp']
  rw [hd]
  apply hdet.det
  · intro dk hdk k hk
    exact ((fpOf_eq_agree heq (hks dk hdk k hk)).2).symm
  · intro dk hdk k hk
    rw [← hd] at hdk
    exact ((fpOf_eq_agree heq.symm (hks' dk hdk k hk)).2).symm

/-! ## interfaces -/

def MemberOf (s : St) (d : DsId) : Prop :=
  ∃ I ir n, s.ifs I = some ir ∧ (n, d) ∈ ir.members

/-- every member of every interface exists and carries the interface's dispatch -/
def IfaceOK (s : St) : Prop :=
  ∀ I ir, s.ifs I = some ir → ∀ m ∈ ir.members, ∃ r, s.ds m.2 = some r ∧ r.dispatch = ir.dispatch

/-- the operation does not take an interface member's dispatch away -/
def OpOK (s : St) : Op → Prop
  | .newDs d _ _ _ => ¬ MemberOf s d
  | .setDispatch d _ => ¬ MemberOf s d
  | .defineInterface I _ ms =>
    s.ifs I = Option.none ∧ ∀ m ∈ ms, (∃ r, s.ds m.2 = some r) ∧ ¬ MemberOf s m.2
  | _ => True

def HistOK (env : Env) : St → List Op → Prop
  | _, [] => True
  | s, op :: h => OpOK s op ∧ HistOK env (step env s op).1 h

theorem step_ifs_other (env : Env) (s : St) (op : Op)
    (h : ∀ I disp ms, op ≠ .defineInterface I disp ms) : (step env s op).1.ifs = s.ifs := by
  cases op with
  | newDs d0 disp dflt cb => rfl
  | register d0 a i => simp only [step, regDs, modDs_ifs]
  | overload ts i =>
    simp only [step, doOverload]
    split
    · exact applyRegs_ifs _ _
    · rfl
  | setDispatch d0 disp => simp only [step, setDisp, modDs_ifs]
  | defineInterface I disp ms => exact absurd rfl (h I disp ms)
  | defineImpl ifs as pr =>
    simp only [step]
    rcases defineImpl_cases s ifs as pr with ⟨e, he⟩ | he
    · rw [he]
    · rw [he]; exact applyRegs_ifs _ _
  | evaluate d' o => simp only [step]; exact evalDs_ifs env s d' o

/-- operations other than `newDs d`, `setDispatch d`, `defineInterface` keep the dispatch of `d` -/
theorem step_keeps_dispatch (env : Env) (s : St) (op : Op) (d : DsId) (r : DsRec)
    (hr : s.ds d = some r)
    (h1 : ∀ disp dflt cb, op ≠ .newDs d disp dflt cb)
    (h2 : ∀ disp, op ≠ .setDispatch d disp)
    (h3 : ∀ I disp ms, op ≠ .defineInterface I disp ms) :
    ∃ r', (step env s op).1.ds d = some r' ∧ r'.dispatch = r.dispatch := by
  cases op with
  | newDs d0 disp dflt cb =>
    have hd : ¬ d = d0 := fun e => h1 disp dflt cb (by rw [e])
    exact ⟨r, by simp [step, setDs_ds, hd, hr], rfl⟩
  | register d0 a i =>
    simp only [step, regDs, modDs_ds]
    by_cases hd : d = d0
    · subst hd; exact ⟨{ r with table := tinsert a i r.table }, by simp [hr], rfl⟩
    · exact ⟨r, by simp [hd, hr], rfl⟩
  | overload ts i =>
    simp only [step, doOverload]
    split
    · exact ⟨{ r with table := regsTable d (overloadRegs ts i) r.table },
        by simp [applyRegs_ds, hr], rfl⟩
    · exact ⟨r, hr, rfl⟩
  | setDispatch d0 disp =>
    have hd : ¬ d = d0 := fun e => h2 disp (by rw [e])
    exact ⟨r, by simp [step, setDisp, modDs_ds, hd, hr], rfl⟩
  | defineInterface I disp ms => exact absurd rfl (h3 I disp ms)
  | defineImpl ifs as pr =>
    simp only [step]
    rcases defineImpl_cases s ifs as pr with ⟨e, he⟩ | he
    · rw [he]; exact ⟨r, hr, rfl⟩
    · rw [he]
      exact ⟨{ r with table := regsTable d (implRegs (flatMembers s ifs) as pr) r.table },
        by simp [applyRegs_ds, hr], rfl⟩
  | evaluate d' o =>
    simp only [step]
    obtain ⟨r', hr', hc⟩ := evalDs_ds_fwd env s d' o d r hr
    exact ⟨r', hr', congrArg Cfg.dispatch hc⟩

theorem ifaceOK_step {env : Env} {s : St} (hs : IfaceOK s) (op : Op) (hok : OpOK s op) :
    IfaceOK (step env s op).1 := by
  by_cases hdi : ∃ I disp ms, op = .defineInterface I disp ms
  · obtain ⟨I0, disp, ms, hop⟩ := hdi
    subst hop
    obtain ⟨_, hms⟩ := hok
    intro I ir hir m hm
    simp only [step, defIface_ifs] at hir
    simp only [step, defIface_ds]
    by_cases hI : I = I0
    · simp [hI] at hir
      subst hir
      obtain ⟨⟨r, hr⟩, _⟩ := hms m hm
      have : (ms.any fun m' => decide (m'.2 = m.2)) = true :=
        List.any_eq_true.mpr ⟨m, hm, by simp⟩
      rw [hr]
      simp only [Option.map_some, this, if_true]
      exact ⟨_, rfl, rfl⟩
    · simp [hI] at hir
      obtain ⟨r, hr, hd⟩ := hs I ir hir m hm
      have hnot : (ms.any fun m' => decide (m'.2 = m.2)) = false := by
        cases hany : (ms.any fun m' => decide (m'.2 = m.2)) with
        | false => rfl
        | true =>
          obtain ⟨m', hm', he⟩ := List.any_eq_true.mp hany
          simp at he
          exfalso
          exact (hms m' hm').2 ⟨I, ir, m.1, hir, by rw [he]; exact hm⟩
      rw [hr]
      simp only [Option.map_some, hnot]
      exact ⟨r, by simp, hd⟩
  · have hdi' : ∀ I disp ms, op ≠ .defineInterface I disp ms :=
      fun I disp ms e => hdi ⟨I, disp, ms, e⟩
    intro I ir hir m hm
    rw [step_ifs_other env s op hdi'] at hir
    obtain ⟨r, hr, hd⟩ := hs I ir hir m hm
    have hmem : MemberOf s m.2 := ⟨I, ir, m.1, hir, hm⟩
    have h1 : ∀ disp dflt cb, op ≠ .newDs m.2 disp dflt cb := by
      intro disp dflt cb e; subst e; exact hok hmem
    have h2 : ∀ disp, op ≠ .setDispatch m.2 disp := by
      intro disp e; subst e; exact hok hmem
    obtain ⟨r', hr', hd'⟩ := step_keeps_dispatch env s op m.2 r hr h1 h2 hdi'
    exact ⟨r', hr', by rw [hd', hd]⟩

theorem ifaceOK_run {env : Env} (h : List Op) : ∀ (s : St), IfaceOK s → HistOK env s h →
    IfaceOK (run env s h) := by
  induction h with
  | nil => intro s hs _; exact hs
  | cons op h ih =>
    intro s hs hok
    exact ih _ (ifaceOK_step hs op hok.1) hok.2

theorem ifaceOK_init : IfaceOK St.init := by
  intro I ir h; simp [St.init] at h

/-! ## a complete implementation: what gets registered where -/

theorem regsTable_set (d : DsId) (a : Alias) (i : ImplId) (regs : List Reg)
    (hall : ∀ x ∈ regs, x.1 = d → pyEq x.2.1 a → x.2.2 = i)
    (hex : ∃ x ∈ regs, x.1 = d ∧ pyEq x.2.1 a) (t : Table) :
    tlookup a (regsTable d regs t) = some i := by
  -- generalise: either some registration for `a` is still to come, or `a` already maps to `i`
  have gen : ∀ (regs : List Reg) (t : Table),
      (∀ x ∈ regs, x.1 = d → pyEq x.2.1 a → x.2.2 = i) →
      ((∃ x ∈ regs, x.1 = d ∧ pyEq x.2.1 a) ∨ tlookup a t = some i) →
      tlookup a (regsTable d regs t) = some i := by
    intro regs
    induction regs with
    | nil =>
      intro t _ h
      rcases h with ⟨x, hx, _⟩ | h
      · cases hx
      · exact h
    | cons x regs ih =>
      intro t hall h
      have h1 : regsTable d (x :: regs) t =
          regsTable d regs (if x.1 = d then tinsert x.2.1 x.2.2 t else t) := rfl
      rw [h1]
      apply ih _ (fun y hy => hall y (List.mem_cons_of_mem _ hy))
      by_cases hx : x.1 = d ∧ pyEq x.2.1 a
      · right
        simp only [hx.1, if_true]
        rw [← hall x List.mem_cons_self hx.1 hx.2]
        exact tlookup_tinsert_eq hx.2 _ _
      · rcases h with ⟨y, hy, hyd⟩ | h
        · rcases List.mem_cons.mp hy with hy | hy
          · subst hy; exact absurd hyd hx
          · exact Or.inl ⟨y, hy, hyd⟩
        · right
          by_cases hxd : x.1 = d
          · simp only [hxd, if_true]
            rw [tlookup_tinsert_ne (fun e => hx ⟨hxd, e⟩)]; exact h
          · simp [hxd, h]
  exact gen regs t hall (Or.inl hex)

theorem regsTable_untouched (d : DsId) (regs : List Reg) (h : ∀ x ∈ regs, x.1 ≠ d) (t : Table) :
    regsTable d regs t = t := by
  induction regs generalizing t with
  | nil => rfl
  | cons x regs ih =>
    have h1 : regsTable d (x :: regs) t =
        regsTable d regs (if x.1 = d then tinsert x.2.1 x.2.2 t else t) := rfl
    rw [h1, ih (fun y hy => h y (List.mem_cons_of_mem _ hy))]
    simp [h x List.mem_cons_self]

/-- the alias the dispatch of configuration `c` denotes under `o` (none: undetermined) -/
def dispatchAlias (env : Env) (c : Cfg) (o : Opts) : Option Alias :=
  match c.dispatch.eval env o with
  | .ok v => aliasOf v
  | .error _ => Option.none

theorem select_alias {env : Env} {c : Cfg} {o : Opts} {ch : Choice}
    (h : select env c o = .ok ch) : ch.alias? = dispatchAlias env c o := by
  unfold select at h
  unfold dispatchAlias
  cases he : c.dispatch.eval env o with
  | error e =>
    simp only [he] at h
    cases hd : c.default with
    | none => simp [hd] at h
    | some i => simp [hd] at h; subst h; rfl
  | ok v =>
    simp only [he] at h
    cases ha : aliasOf v with
    | none => simp [ha] at h
    | some a =>
      simp only [ha] at h
      cases ht : tlookup a c.table with
      | some i => simp [ht] at h; subst h; simp [Choice.alias?, ha]
      | none =>
        simp only [ht] at h
        cases hd : c.default with
        | none => simp [hd] at h
        | some i => simp [hd] at h; subst h; simp [Choice.alias?, ha]

theorem tlookup_pyEq {a b : Alias} (h : pyEq a b) (t : Table) : tlookup a t = tlookup b t := by
  unfold tlookup; unfold pyEq at h; rw [h]

end Labrea.Iface

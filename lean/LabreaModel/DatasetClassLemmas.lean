/-
  C19 — lemmas about the dataset-class model: `set_dotted_key` against nested lookups, the fold
  that builds `_repr_options`, and Python dict equality (`V.le`).
-/
import LabreaModel.DatasetClass
namespace Labrea.DatasetClass
open Labrea

/-! ### association lists -/

theorem ainsert_same_id {k : String} {v : V} {d : List (String × V)} (h : alookup k d = some v) :
    ainsert k v d = d := by
  induction d with
  | nil => simp [alookup] at h
  | cons p rest ih =>
    obtain ⟨k', v'⟩ := p
    by_cases hk : k' = k
    · subst hk; simp [alookup] at h; simp [ainsert, h]
    · simp [alookup, hk] at h; simp [ainsert, hk, ih h]

/-! ### `dget` and `walk` -/

@[simp] theorem dget_nil (v : V) : dget [] v = some v := by simp [dget]

theorem dget_cons_dict (a : String) (p : Path) (d : List (String × V)) :
    dget (a :: p) (.dict d) = match alookup a d with
      | some x => dget p x
      | Option.none => Option.none := by rw [dget]; cases alookup a d <;> rfl

theorem dget_cons_some {a : String} {p : Path} {x v : V} (h : dget (a :: p) x = some v) :
    ∃ d y, x = .dict d ∧ alookup a d = some y ∧ dget p y = some v := by
  cases x <;> simp [dget] at h
  rename_i d
  cases hl : alookup a d with
  | none => simp [hl] at h
  | some y => simp [hl] at h; exact ⟨d, y, rfl, hl, h⟩

theorem dget_append (p q : Path) (x : V) :
    dget (p ++ q) x = (dget p x).bind (dget q) := by
  induction p generalizing x with
  | nil => simp
  | cons a p ih =>
    cases x <;> simp [dget]
    rename_i d
    cases alookup a d with
    | none => simp
    | some y => simp [ih]

theorem dget_nonempty_empty {p : Path} (h : p ≠ []) : dget p (.dict []) = Option.none := by
  cases p with
  | nil => exact absurd rfl h
  | cons a p => simp [dget, alookup]

theorem walk_append (p q : Path) (x : V) :
    walk (p ++ q) x = match walk p x with
      | .found v => walk q v
      | .keyErr => .keyErr
      | .typeErr => .typeErr := by
  induction p generalizing x with
  | nil => simp [walk]
  | cons a p ih =>
    simp only [List.cons_append, walk]
    cases step a x with
    | found v => simp [ih]
    | keyErr => rfl
    | typeErr => rfl

theorem step_noidx {s : String} (hs : segIndex? s = Option.none) (x v : V) :
    step s x = .found v ↔ ∃ d, x = .dict d ∧ alookup s d = some v := by
  cases x <;> simp [step, hs]
  rename_i d
  cases alookup s d <;> simp

theorem NoIdx.cons {a : String} {p : Path} (h : NoIdx (a :: p)) :
    segIndex? a = Option.none ∧ NoIdx p :=
  ⟨h a (by simp), fun s hs => h s (by simp [hs])⟩

theorem NoIdx.append_left {p q : Path} (h : NoIdx (p ++ q)) : NoIdx p :=
  fun s hs => h s (by simp [hs])

/-- on index-free keys `get_dotted_key` finds exactly what the plain nested lookup finds -/
theorem walk_found_iff_dget {p : Path} (hp : NoIdx p) (x v : V) :
    walk p x = .found v ↔ dget p x = some v := by
  induction p generalizing x with
  | nil => simp [walk]
  | cons a p ih =>
    obtain ⟨ha, hp'⟩ := hp.cons
    constructor
    · intro h
      simp only [walk] at h
      cases hs : step a x with
      | found y =>
        simp [hs] at h
        obtain ⟨d, rfl, hl⟩ := (step_noidx ha x y).1 hs
        simp [dget, hl, (ih hp' y).1 h]
      | keyErr => simp [hs] at h
      | typeErr => simp [hs] at h
    · intro h
      obtain ⟨d, y, rfl, hl, hy⟩ := dget_cons_some h
      have : step a (.dict d) = .found y := (step_noidx ha _ y).2 ⟨d, rfl, hl⟩
      simp [walk, this, (ih hp' y).2 hy]

/-! ### `set_dotted_key` against `dget` -/

/-- the key just written reads back the value written -/
theorem dget_setPath_same {a : String} {p : Path} {v : V} {r r' : List (String × V)}
    (h : setPath (a :: p) v r = some r') : dget (a :: p) (.dict r') = some v := by
  induction p generalizing a r r' with
  | nil => simp [setPath] at h; subst h; simp [dget]
  | cons b q ih =>
    simp only [setPath] at h
    cases hl : alookup a r with
    | none =>
      simp [hl] at h
      obtain ⟨sub, hsub, rfl⟩ := h
      simp [dget_cons_dict, ih hsub]
    | some x =>
      cases x <;> simp [hl] at h
      obtain ⟨sub, hsub, rfl⟩ := h
      simp [dget_cons_dict, ih hsub]

/-- writing a key leaves every other top-level name alone -/
theorem alookup_setPath_other {a a' : String} {p : Path} {v : V} {r r' : List (String × V)}
    (hne : a' ≠ a) (h : setPath (a :: p) v r = some r') : alookup a' r' = alookup a' r := by
  cases p with
  | nil => simp [setPath] at h; subst h; exact alookup_ainsert_other hne _ _
  | cons b q =>
    simp only [setPath] at h
    cases hl : alookup a r with
    | none =>
      simp [hl] at h
      obtain ⟨sub, _, rfl⟩ := h
      exact alookup_ainsert_other hne _ _
    | some x =>
      cases x <;> simp [hl] at h
      obtain ⟨sub, _, rfl⟩ := h
      exact alookup_ainsert_other hne _ _

/-- frame: a path that neither extends nor is extended by the key written is not affected -/
theorem dget_setPath_incomparable {k : Path} {v : V} {r r' : List (String × V)} {q : Path}
    (hk : k ≠ []) (h1 : ¬ k <+: q) (h2 : ¬ q <+: k) (h : setPath k v r = some r') :
    dget q (.dict r') = dget q (.dict r) := by
  induction k generalizing q r r' with
  | nil => exact absurd rfl hk
  | cons a p ih =>
    cases q with
    | nil => exact absurd (List.nil_prefix) h2
    | cons b q' =>
      by_cases hba : b = a
      · subst hba
        have h1' : ¬ p <+: q' := fun hp => h1 ((List.prefix_cons_inj b).2 hp)
        have h2' : ¬ q' <+: p := fun hp => h2 ((List.prefix_cons_inj b).2 hp)
        cases p with
        | nil => exact absurd List.nil_prefix h1'
        | cons c p' =>
          simp only [setPath] at h
          have hq' : q' ≠ [] := fun e => h2' (e ▸ List.nil_prefix)
          cases hl : alookup b r with
          | none =>
            simp [hl] at h
            obtain ⟨sub, hsub, rfl⟩ := h
            have := ih (q := q') (by simp) h1' h2' hsub
            simp [dget_cons_dict, hl, this, dget_nonempty_empty hq']
          | some x =>
            cases x <;> simp [hl] at h
            obtain ⟨sub, hsub, rfl⟩ := h
            have := ih (q := q') (by simp) h1' h2' hsub
            simp [dget_cons_dict, hl, this]
      · simp [dget_cons_dict, alookup_setPath_other hba h]

/-- writing again what is already there changes nothing (the `A` then `A.X` overlap) -/
theorem setPath_idem {k : Path} {v : V} {r : List (String × V)} (hk : k ≠ [])
    (h : dget k (.dict r) = some v) : setPath k v r = some r := by
  induction k generalizing r with
  | nil => exact absurd rfl hk
  | cons a p ih =>
    cases p with
    | nil =>
      obtain ⟨d, y, hd, hl, hy⟩ := dget_cons_some h
      cases hd
      simp at hy; subst hy
      simp [setPath, ainsert_same_id hl]
    | cons b q =>
      obtain ⟨d, y, hd, hl, hy⟩ := dget_cons_some h
      cases hd
      obtain ⟨s, _, hs, _, _⟩ := dget_cons_some hy
      subst hs
      have := ih (r := s) (by simp) hy
      simp [setPath, hl, this, ainsert_same_id hl]

/-- `set_dotted_key` succeeds as soon as everything strictly on the way is a dictionary -/
theorem setPath_succeeds {k : Path} (v : V) {r : List (String × V)}
    (h : ∀ q s x, k = q ++ s → q ≠ [] → s ≠ [] → dget q (.dict r) = some x → x.isDict = true) :
    ∃ r', setPath k v r = some r' := by
  induction k generalizing r with
  | nil => exact ⟨r, by simp [setPath]⟩
  | cons a p ih =>
    cases p with
    | nil => simp [setPath]
    | cons b q =>
      simp only [setPath]
      cases hl : alookup a r with
      | none =>
        have : ∀ q' s x, b :: q = q' ++ s → q' ≠ [] → s ≠ [] →
            dget q' (.dict ([] : List (String × V))) = some x → x.isDict = true := by
          intro q' s x _ hq' _ hx
          simp [dget_nonempty_empty hq'] at hx
        obtain ⟨sub, hsub⟩ := ih (r := []) this
        simp [hsub]
      | some x =>
        have hx : x.isDict = true :=
          h [a] (b :: q) x (by simp) (by simp) (by simp) (by simp [dget_cons_dict, hl])
        cases x <;> simp [V.isDict] at hx
        rename_i s
        have : ∀ q' t x, b :: q = q' ++ t → q' ≠ [] → t ≠ [] →
            dget q' (.dict s) = some x → x.isDict = true := by
          intro q' t x e hq' ht hx
          exact h (a :: q') t x (by simp [e]) (by simp) ht (by simp [dget_cons_dict, hl, hx])
        obtain ⟨sub, hsub⟩ := ih (r := s) this
        simp [hsub]

theorem isDict_of_dget_nonempty {t : Path} {x v : V} (ht : t ≠ []) (h : dget t x = some v) :
    x.isDict = true := by
  cases t with
  | nil => exact absurd rfl ht
  | cons a t =>
    obtain ⟨d, _, rfl, _, _⟩ := dget_cons_some h
    rfl

/-! ### the fold that builds `_repr_options` -/

/-- invariant of the fold, in terms of the plain nested lookup -/
structure Inv (o : V) (K : List Path) (R : List (String × V)) : Prop where
  lookup : ∀ k ∈ K, dget k (.dict R) = dget k o
  exact : ∀ p v, p ≠ [] → dget p (.dict R) = some v → (∃ k ∈ K, k <+: p) ∨ (∃ k ∈ K, p <+: k)

theorem Inv.nil (o : V) : Inv o [] [] :=
  ⟨by simp, fun p v hp h => by simp [dget_nonempty_empty hp] at h⟩

theorem Inv.step {o : V} {Kd : List Path} {R : List (String × V)} (inv : Inv o Kd R)
    (hKd : ∀ k ∈ Kd, ∃ v, dget k o = some v) {k2 : Path} {v2 : V} (hk2 : k2 ≠ [])
    (hv2 : dget k2 o = some v2) :
    ∃ R', setPath k2 v2 R = some R' ∧ Inv o (Kd ++ [k2]) R' := by
  have hsucc : ∃ R', setPath k2 v2 R = some R' := by
    apply setPath_succeeds
    intro q s x e hq hs hx
    rcases inv.exact q x hq hx with ⟨k, hk, hpre⟩ | ⟨k, hk, hpre⟩
    · obtain ⟨t, rfl⟩ := hpre
      have h1 : dget (k ++ t) (.dict R) = dget (k ++ t) o := by
        rw [dget_append, dget_append, inv.lookup k hk]
      rw [h1] at hx
      rw [e, dget_append, hx] at hv2
      exact isDict_of_dget_nonempty hs hv2
    · obtain ⟨t, rfl⟩ := hpre
      obtain ⟨vk, hvk⟩ := hKd _ hk
      have h1 := inv.lookup _ hk
      rw [hvk, dget_append, hx] at h1
      cases t with
      | nil =>
        simp at h1; subst h1
        have h2 := hvk
        simp at h2
        rw [e, dget_append, h2] at hv2
        exact isDict_of_dget_nonempty hs hv2
      | cons c t => exact isDict_of_dget_nonempty (by simp) h1
  obtain ⟨R', hR'⟩ := hsucc
  refine ⟨R', hR', ?_, ?_⟩
  · intro k hk
    obtain ⟨a, p, rfl⟩ : ∃ a p, k2 = a :: p := by
      cases k2 with
      | nil => exact absurd rfl hk2
      | cons a p => exact ⟨a, p, rfl⟩
    have hsame : dget (a :: p) (.dict R') = some v2 := dget_setPath_same hR'
    rcases List.mem_append.1 hk with hk | hk
    · by_cases c1 : (a :: p) <+: k
      · obtain ⟨t, rfl⟩ := c1
        rw [dget_append, dget_append, hsame, hv2]
      · by_cases c2 : k <+: (a :: p)
        · obtain ⟨t, ht⟩ := c2
          have h1 : dget (a :: p) (.dict R) = some v2 := by
            rw [← ht, dget_append, inv.lookup k hk, ← dget_append, ht, hv2]
          rw [setPath_idem (by simp) h1] at hR'
          cases hR'
          exact inv.lookup k hk
        · rw [dget_setPath_incomparable (by simp) c1 c2 hR']
          exact inv.lookup k hk
    · simp at hk; subst hk
      rw [hsame, hv2]
  · intro p v hp hv
    by_cases c1 : k2 <+: p
    · exact Or.inl ⟨k2, by simp, c1⟩
    · by_cases c2 : p <+: k2
      · exact Or.inr ⟨k2, by simp, c2⟩
      · rw [dget_setPath_incomparable hk2 c1 c2 hR'] at hv
        rcases inv.exact p v hp hv with ⟨k, hk, h⟩ | ⟨k, hk, h⟩
        · exact Or.inl ⟨k, by simp [hk], h⟩
        · exact Or.inr ⟨k, by simp [hk], h⟩

theorem Present.dget {o : V} {K : List Path} (h : Present o K) :
    ∀ k ∈ K, ∃ v, dget k o = some v := by
  intro k hk
  obtain ⟨_, hn, v, hv⟩ := h k hk
  exact ⟨v, (walk_found_iff_dget hn o v).1 hv⟩

theorem Present.append {o : V} {K K' : List Path} (h : Present o K) (h' : Present o K') :
    Present o (K ++ K') := by
  intro k hk
  rcases List.mem_append.1 hk with hk | hk
  · exact h k hk
  · exact h' k hk

/-- the fold succeeds and keeps the invariant -/
theorem reprOptions_inv {o : V} (K : List Path) :
    ∀ (Kd : List Path) (R : List (String × V)), Inv o Kd R → Present o Kd → Present o K →
      ∃ R', reprOptions o K R = .ok R' ∧ Inv o (Kd ++ K) R' := by
  induction K with
  | nil => intro Kd R inv _ _; exact ⟨R, by simp [reprOptions], by simpa using inv⟩
  | cons k K ih =>
    intro Kd R inv hKd hK
    obtain ⟨hk, hn, v, hv⟩ := hK k (by simp)
    have hd : dget k o = some v := (walk_found_iff_dget hn o v).1 hv
    obtain ⟨R1, hR1, inv1⟩ := inv.step hKd.dget hk hd
    have hK1 : Present o (Kd ++ [k]) := hKd.append (fun k' hk' => by
      simp at hk'; subst hk'; exact ⟨hk, hn, v, hv⟩)
    have hK' : Present o K := fun k' hk' => hK k' (by simp [hk'])
    obtain ⟨R', hR', inv'⟩ := ih (Kd ++ [k]) R1 inv1 hK1 hK'
    refine ⟨R', ?_, by simpa using inv'⟩
    simp [reprOptions, hv, hR1, hR']

/-- **restriction lemma**: over keys that are present and index-free, in any order and with any
    prefix overlap, the fold succeeds and what it builds is the options restricted to the keys -/
theorem reprOptions_isRestrict {o : V} {K : List Path} (hK : Present o K) :
    ∃ R, reprOptions o K [] = .ok R ∧ IsRestrict o K R := by
  obtain ⟨R, hR, inv⟩ := reprOptions_inv K [] [] (Inv.nil o) (by intro k hk; simp at hk) hK
  refine ⟨R, hR, ?_, ?_⟩
  · intro k hk
    obtain ⟨_, hn, v, hv⟩ := hK k hk
    have hd : dget k o = some v := (walk_found_iff_dget hn o v).1 hv
    have := inv.lookup k (by simpa using hk)
    rw [hd] at this
    rw [hv, (walk_found_iff_dget hn _ v).2 this]
  · intro p v hp h
    simpa using inv.exact p v hp h

/-! ### `sortKeys` keeps the set of keys -/

theorem mem_insertKey {k x : Path} {xs : List Path} : x ∈ insertKey k xs ↔ x = k ∨ x ∈ xs := by
  induction xs with
  | nil => simp [insertKey]
  | cons y ys ih =>
    simp only [insertKey]
    by_cases h1 : k = y
    · subst h1; simp
    · by_cases h2 : dotted k < dotted y
      · simp [h1, h2]
      · simp [h1, h2, ih]; constructor
        · rintro (h | h | h)
          · exact Or.inr (Or.inl h)
          · exact Or.inl h
          · exact Or.inr (Or.inr h)
        · rintro (h | h | h)
          · exact Or.inr (Or.inl h)
          · exact Or.inl h
          · exact Or.inr (Or.inr h)

theorem mem_sortKeys {x : Path} {K : List Path} : x ∈ sortKeys K ↔ x ∈ K := by
  induction K with
  | nil => simp [sortKeys]
  | cons k K ih => simp [sortKeys, mem_insertKey, ih]

theorem Present.sortKeys {o : V} {K : List Path} (h : Present o K) : Present o (sortKeys K) :=
  fun k hk => h k (mem_sortKeys.1 hk)

/-! ### Python dict equality -/

theorem leKvs_iff (seen : List String) (a b : List (String × V)) :
    leKvs seen a b = true ↔
      ∀ k v, k ∉ seen → alookup k a = some v → ∃ w, alookup k b = some w ∧ V.le v w = true := by
  induction a generalizing seen with
  | nil => simp [leKvs, alookup]
  | cons p rest ih =>
    obtain ⟨k0, v0⟩ := p
    simp only [leKvs, Bool.and_eq_true, Bool.or_eq_true, ih]
    constructor
    · rintro ⟨h1, h2⟩ k v hk hl
      by_cases e : k0 = k
      · subst e
        simp [alookup] at hl; subst hl
        rcases h1 with h1 | h1
        · simp at h1; exact absurd h1 hk
        · cases hb : alookup k0 b with
          | none => simp [hb] at h1
          | some w => simp [hb] at h1; exact ⟨w, rfl, h1⟩
      · simp [alookup, e] at hl
        exact h2 k v (by simp [hk, Ne.symm e]) hl
    · intro h
      constructor
      · by_cases hs : k0 ∈ seen
        · left; simp [hs]
        · right
          obtain ⟨w, hw, hle⟩ := h k0 v0 hs (by simp [alookup])
          simp [hw, hle]
      · intro k v hk hl
        have hne : k0 ≠ k := by intro e; apply hk; simp [e]
        exact h k v (fun hs => hk (by simp [hs])) (by simp [alookup, hne, hl])

theorem le_dict_iff (a b : List (String × V)) :
    V.le (.dict a) (.dict b) = true ↔
      ∀ k v, alookup k a = some v → ∃ w, alookup k b = some w ∧ V.le v w = true := by
  rw [V.le, leKvs_iff]; simp

theorem le_dict_left {a : List (String × V)} {b : V} (h : V.le (.dict a) b = true) :
    ∃ b', b = .dict b' := by
  cases b <;> simp [V.le] at h
  exact ⟨_, rfl⟩

theorem le_list_left {a : List V} {b : V} (h : V.le (.list a) b = true) :
    ∃ b', b = .list b' ∧ leList a b' = true := by
  cases b <;> simp [V.le] at h
  exact ⟨_, rfl, h⟩

theorem leList_get {a b : List V} (h : leList a b = true) {i : Nat} {x : V} (hx : a[i]? = some x) :
    ∃ y, b[i]? = some y ∧ V.le x y = true := by
  induction a generalizing b i with
  | nil => simp at hx
  | cons x0 xs ih =>
    cases b with
    | nil => simp [leList] at h
    | cons y0 ys =>
      simp [leList] at h
      cases i with
      | zero => simp at hx; subst hx; exact ⟨y0, by simp, h.1⟩
      | succ i => simp at hx; simpa using ih h.2 hx

theorem leList_length {a b : List V} (h : leList a b = true) : a.length = b.length := by
  induction a generalizing b with
  | nil => cases b with
    | nil => rfl
    | cons _ _ => simp [leList] at h
  | cons x0 xs ih =>
    cases b with
    | nil => simp [leList] at h
    | cons y0 ys =>
      simp [leList] at h
      simp [ih h.2]

theorem leList_seqAt {a b : List V} (h : leList a b = true) {s : String} {i : Nat} {x : V} (hx : seqAt? s i a = some x) :
    ∃ y, seqAt? s i b = some y ∧ V.le x y = true := by
  unfold seqAt? at hx ⊢
  rw [← leList_length h]
  split at hx
  · split at hx
    · rename_i h1 h2
      simp only [h1, h2, if_true]
      exact leList_get h hx
    · simp at hx
  · rename_i h1
    simp only [h1]
    exact leList_get h hx

theorem le_step {a b : V} (h : V.le a b = true) {s : String} {x : V} (hs : step s a = .found x) :
    ∃ y, step s b = .found y ∧ V.le x y = true := by
  cases a with
  | dict d =>
    obtain ⟨b', rfl⟩ := le_dict_left h
    simp only [step] at hs ⊢
    cases hi : segIndex? s with
    | some i => simp [hi] at hs
    | none =>
      simp only [hi] at hs ⊢
      cases hl : alookup s d with
      | none => simp [hl] at hs
      | some v =>
        simp [hl] at hs; subst hs
        obtain ⟨w, hw, hle⟩ := (le_dict_iff d b').1 h s v hl
        exact ⟨w, by simp [hw], hle⟩
  | list xs =>
    obtain ⟨b', rfl, hb⟩ := le_list_left h
    simp only [step] at hs ⊢
    cases hi : segIndex? s with
    | none => simp [hi] at hs
    | some i =>
      simp only [hi] at hs ⊢
      cases hl : seqAt? s i xs with
      | none => simp [hl] at hs
      | some v =>
        simp [hl] at hs; subst hs
        obtain ⟨w, hw, hle⟩ := leList_seqAt hb hl
        exact ⟨w, by simp [hw], hle⟩
  | str t =>
    have hb : b = .str t := by
      have : (V.str t == b) = true := by simpa [V.le] using h
      exact (eq_of_beq this).symm
    subst hb
    refine ⟨x, hs, ?_⟩
    simp only [step] at hs
    cases hi : segIndex? s with
    | none => simp [hi] at hs
    | some i =>
      simp only [hi] at hs
      cases hl : seqAt? s i t.toList with
      | none => simp [hl] at hs
      | some c => simp [hl] at hs; subst hs; simp [V.le]
  | none => simp [step] at hs
  | bool _ => simp [step] at hs
  | int _ => simp [step] at hs
  | tuple _ => simp [step] at hs
  | set _ => simp [step] at hs
  | app _ _ _ => simp [step] at hs
  | fn _ _ _ => simp [step] at hs
  | comp _ => simp [step] at hs
  | missing => simp [step] at hs

/-- Python-equal (here: included) values answer every `get_dotted_key` alike -/
theorem le_walk {a b : V} (h : V.le a b = true) {p : Path} {x : V} (hp : walk p a = .found x) :
    ∃ y, walk p b = .found y ∧ V.le x y = true := by
  induction p generalizing a b with
  | nil => simp [walk] at hp; subst hp; exact ⟨b, by simp [walk], h⟩
  | cons s p ih =>
    simp only [walk] at hp ⊢
    cases hs : step s a with
    | found v =>
      simp only [hs] at hp
      obtain ⟨w, hw, hle⟩ := le_step h hs
      simp only [hw]
      exact ih hle hp
    | keyErr => simp [hs] at hp
    | typeErr => simp [hs] at hp

theorem le_ainsert_left {a : String} {v w : V} {r x : List (String × V)}
    (hr : V.le (.dict r) (.dict x) = true) (hx : alookup a x = some w) (hv : V.le v w = true) :
    V.le (.dict (ainsert a v r)) (.dict x) = true := by
  rw [le_dict_iff] at hr ⊢
  intro k' v' hl
  by_cases e : k' = a
  · subst e
    simp at hl; subst hl
    exact ⟨w, hx, hv⟩
  · rw [alookup_ainsert_other e] at hl
    exact hr k' v' hl

theorem le_empty_dict (x : List (String × V)) : V.le (.dict []) (.dict x) = true := by
  rw [le_dict_iff]; intro k v h; simp [alookup] at h

/-- writing into the smaller dictionary a value included in what the larger one holds there keeps
    the inclusion -/
theorem le_setPath_left {k : Path} {v w : V} {r r' x : List (String × V)} (hk : k ≠ [])
    (hr : V.le (.dict r) (.dict x) = true) (hx : dget k (.dict x) = some w)
    (hv : V.le v w = true) (hs : setPath k v r = some r') :
    V.le (.dict r') (.dict x) = true := by
  induction k generalizing r r' x with
  | nil => exact absurd rfl hk
  | cons a p ih =>
    obtain ⟨d, xa, hd, hxa, hrest⟩ := dget_cons_some hx
    cases hd
    cases p with
    | nil =>
      simp at hrest; subst hrest
      simp [setPath] at hs; subst hs
      exact le_ainsert_left hr hxa hv
    | cons b q =>
      obtain ⟨xs, _, hxs, _, _⟩ := dget_cons_some hrest
      subst hxs
      simp only [setPath] at hs
      cases hl : alookup a r with
      | none =>
        simp [hl] at hs
        obtain ⟨sub, hsub, rfl⟩ := hs
        have := ih (by simp) (le_empty_dict xs) hrest hsub
        exact le_ainsert_left hr hxa this
      | some y =>
        cases y <;> simp [hl] at hs
        rename_i s
        obtain ⟨sub, hsub, rfl⟩ := hs
        obtain ⟨w', hw', hle⟩ := (le_dict_iff _ _).1 hr a _ hl
        rw [hxa] at hw'; cases hw'
        have := ih (by simp) hle hrest hsub
        exact le_ainsert_left hr hxa this

/-- the restricted dictionary is the *least* one holding the keys: it is included in any
    dictionary that holds, at every key, a value including the options' value -/
theorem le_reprOptions_left {o : V} {K : List Path} {acc R x : List (String × V)}
    (hK : ∀ k ∈ K, k ≠ [] ∧ ∀ v, walk k o = .found v →
      ∃ w, dget k (.dict x) = some w ∧ V.le v w = true)
    (hacc : V.le (.dict acc) (.dict x) = true) (h : reprOptions o K acc = .ok R) :
    V.le (.dict R) (.dict x) = true := by
  induction K generalizing acc with
  | nil => simp [reprOptions] at h; subst h; exact hacc
  | cons k K ih =>
    simp only [reprOptions] at h
    cases hw : walk k o with
    | found v =>
      simp only [hw] at h
      cases hs : setPath k v acc with
      | none => simp [hs] at h
      | some acc' =>
        simp only [hs] at h
        obtain ⟨hk, hx⟩ := hK k (by simp)
        obtain ⟨w, hdw, hle⟩ := hx v hw
        exact ih (fun k' hk' => hK k' (by simp [hk'])) (le_setPath_left hk hacc hdw hle hs) h
    | keyErr => simp [hw] at h
    | typeErr => simp [hw] at h

/-! ### instances: equality through the restricted dictionaries -/

theorem IsRestrict.of_sortKeys {o : V} {K : List Path} {R : List (String × V)}
    (h : IsRestrict o (sortKeys K) R) : IsRestrict o K R := by
  refine ⟨fun k hk => h.lookup k (mem_sortKeys.2 hk), fun p v hp hv => ?_⟩
  rcases h.exact p v hp hv with ⟨k, hk, hpre⟩ | ⟨k, hk, hpre⟩
  · exact Or.inl ⟨k, mem_sortKeys.1 hk, hpre⟩
  · exact Or.inr ⟨k, mem_sortKeys.1 hk, hpre⟩

/-- below a reported key the restricted dictionary answers like the options -/
theorem IsRestrict.lookup_under {o : V} {K : List Path} {R : List (String × V)}
    (h : IsRestrict o K R) {k : Path} (hk : k ∈ K) (s : Path) :
    walk (k ++ s) (.dict R) = walk (k ++ s) o := by
  rw [walk_append, walk_append, h.lookup k hk]

/-- `R₁ ⊑ X` exactly when `X` holds, at every key, a value including the options' value -/
theorem le_restricted_iff {o : V} {K : List Path} {R x : List (String × V)} (hK : Present o K)
    (hR : reprOptions o (sortKeys K) [] = .ok R) (hspec : IsRestrict o K R) :
    V.le (.dict R) (.dict x) = true ↔ ∀ k ∈ K, LookLe (walk k o) (walk k (.dict x)) := by
  constructor
  · intro h k hk v hv
    rw [← hspec.lookup k hk] at hv
    exact le_walk h hv
  · intro h
    refine le_reprOptions_left (fun k hk => ?_) (le_empty_dict x) hR
    have hk' := mem_sortKeys.1 hk
    obtain ⟨hne, hn, _⟩ := hK k hk'
    refine ⟨hne, fun v hv => ?_⟩
    obtain ⟨w, hw, hle⟩ := h k hk' v hv
    exact ⟨w, (walk_found_iff_dget hn _ w).1 hw, hle⟩

theorem instantiate_ok {c : DsClass} {o : V} {i : Inst} (h : instantiate c o = .ok i) :
    ∃ attrs K R, evalMembers o c.members = .ok attrs ∧ classKeys c o = .ok K ∧
      reprOptions o (sortKeys K) [] = .ok R ∧ i = ⟨c.name, attrs, R⟩ := by
  unfold instantiate at h
  cases h1 : evalMembers o c.members with
  | error x => simp [h1] at h
  | ok attrs =>
    simp only [h1] at h
    cases h2 : classKeys c o with
    | error x => simp [h2] at h
    | ok K =>
      simp only [h2] at h
      cases h3 : reprOptions o (sortKeys K) [] with
      | error x => simp [h3] at h
      | ok R =>
        simp only [h3] at h
        cases h
        exact ⟨attrs, K, R, rfl, rfl, h3, rfl⟩

/-! ### members and metaclass operations -/

theorem evalMembers_ok {o : V} {ms : List (String × Member)} {as : List (String × Attr)}
    (h : evalMembers o ms = .ok as) : AllPairs (AttrOK o) ms as := by
  induction ms generalizing as with
  | nil => simp [evalMembers] at h; subst h; exact .nil
  | cons m ms ih =>
    simp only [evalMembers] at h
    cases h1 : evalMember o m with
    | error x => simp [h1] at h
    | ok a =>
      simp only [h1] at h
      cases h2 : evalMembers o ms with
      | error x => simp [h2] at h
      | ok as' =>
        simp only [h2] at h
        cases h
        refine .cons ?_ (ih h2)
        obtain ⟨n, mem⟩ := m
        cases mem with
        | const v => simp [evalMember] at h1; subst h1; simp [AttrOK]
        | ev e =>
          simp only [evalMember] at h1
          by_cases hh : hidden n = true
          · simp [hh] at h1; subst h1; simp [AttrOK, hh]
          · simp only [hh] at h1
            cases he : e.evaluate o with
            | error x => simp [he] at h1
            | ok v => simp [he] at h1; subst h1; simp [AttrOK, hh, he]

theorem evalMembers_first_failure {o : V} {pre post : List (String × Member)} {n : String}
    {e : Evaluatable} {x : Err} (hpre : ∀ m ∈ pre, ∃ a, evalMember o m = .ok a)
    (hn : hidden n = false) (he : e.evaluate o = .error x) :
    evalMembers o (pre ++ (n, .ev e) :: post) = .error x := by
  induction pre with
  | nil => simp [evalMembers, evalMember, hn, he]
  | cons m pre ih =>
    obtain ⟨a, ha⟩ := hpre m (by simp)
    have := ih (fun m' hm' => hpre m' (by simp [hm']))
    simp [evalMembers, ha, this]

theorem mem_evs {e : Evaluatable} {ms : List (String × Member)} :
    e ∈ evs ms ↔ ∃ n, (n, Member.ev e) ∈ ms ∧ hidden n = false := by
  induction ms with
  | nil => simp [evs]
  | cons m ms ih =>
    obtain ⟨n, mem⟩ := m
    cases mem with
    | const v => simp [evs, ih]
    | ev e' =>
      simp only [evs]
      by_cases hh : hidden n = true
      · rw [if_pos hh, ih]
        constructor
        · rintro ⟨n', h1, h2⟩; exact ⟨n', by simp [h1], h2⟩
        · rintro ⟨n', h1, h2⟩
          simp at h1
          rcases h1 with ⟨rfl, _⟩ | h1
          · simp [hh] at h2
          · exact ⟨n', h1, h2⟩
      · rw [if_neg hh, List.mem_cons, ih]
        constructor
        · rintro (rfl | ⟨n', h1, h2⟩)
          · exact ⟨n, by simp, by simpa using hh⟩
          · exact ⟨n', by simp [h1], h2⟩
        · rintro ⟨n', h1, h2⟩
          simp at h1
          rcases h1 with ⟨rfl, h1⟩ | h1
          · left; cases h1; rfl
          · exact Or.inr ⟨n', h1, h2⟩

theorem collect_ok_iff (f : Evaluatable → Except Err (List Path)) (es : List Evaluatable) :
    (∃ K, collect f es = .ok K) ↔ ∀ e ∈ es, ∃ Ke, f e = .ok Ke := by
  induction es with
  | nil => simp [collect]
  | cons e es ih =>
    simp only [collect]
    constructor
    · rintro ⟨K, h⟩
      cases h1 : f e with
      | error x => simp [h1] at h
      | ok a =>
        simp only [h1] at h
        cases h2 : collect f es with
        | error x => simp [h2] at h
        | ok b =>
          intro e' he'
          simp at he'
          rcases he' with rfl | he'
          · exact ⟨a, h1⟩
          · exact ih.1 ⟨b, h2⟩ e' he'
    · intro h
      obtain ⟨a, ha⟩ := h e (by simp)
      obtain ⟨b, hb⟩ := ih.2 (fun e' he' => h e' (by simp [he']))
      exact ⟨a ++ b, by simp [ha, hb]⟩

theorem collect_mem {f : Evaluatable → Except Err (List Path)} {es : List Evaluatable}
    {K : List Path} (h : collect f es = .ok K) (k : Path) :
    k ∈ K ↔ ∃ e ∈ es, ∃ Ke, f e = .ok Ke ∧ k ∈ Ke := by
  induction es generalizing K with
  | nil => simp [collect] at h; subst h; simp
  | cons e es ih =>
    simp only [collect] at h
    cases h1 : f e with
    | error x => simp [h1] at h
    | ok a =>
      simp only [h1] at h
      cases h2 : collect f es with
      | error x => simp [h2] at h
      | ok b =>
        simp only [h2] at h
        cases h
        simp only [List.mem_append, ih h2, List.mem_cons]
        constructor
        · rintro (hk | ⟨e', he', Ke, hKe, hk⟩)
          · exact ⟨e, Or.inl rfl, a, h1, hk⟩
          · exact ⟨e', Or.inr he', Ke, hKe, hk⟩
        · rintro ⟨e', (rfl | he'), Ke, hKe, hk⟩
          · rw [h1] at hKe; cases hKe; exact Or.inl hk
          · exact Or.inr ⟨e', he', Ke, hKe, hk⟩

theorem collect_first_failure {f : Evaluatable → Except Err (List Path)}
    {pre post : List Evaluatable} {e : Evaluatable} {x : Err}
    (hpre : ∀ e' ∈ pre, ∃ Ke, f e' = .ok Ke) (he : f e = .error x) :
    collect f (pre ++ e :: post) = .error x := by
  induction pre with
  | nil => simp [collect, he]
  | cons e' pre ih =>
    obtain ⟨a, ha⟩ := hpre e' (by simp)
    have := ih (fun e'' h => hpre e'' (by simp [h]))
    simp [collect, ha, this]

theorem validateAll_ok_iff (o : V) (es : List Evaluatable) :
    validateAll o es = .ok () ↔ ∀ e ∈ es, e.validate o = .ok () := by
  induction es with
  | nil => simp [validateAll]
  | cons e es ih =>
    simp only [validateAll]
    cases h1 : e.validate o with
    | error x => simp [h1]
    | ok u => simp [ih]; intro _; exact h1

theorem validateAll_first_failure {o : V} {pre post : List Evaluatable} {e : Evaluatable} {x : Err}
    (hpre : ∀ e' ∈ pre, e'.validate o = .ok ()) (he : e.validate o = .error x) :
    validateAll o (pre ++ e :: post) = .error x := by
  induction pre with
  | nil => simp [validateAll, he]
  | cons e' pre ih =>
    have := ih (fun e'' h => hpre e'' (by simp [h]))
    simp [validateAll, hpre e' (by simp), this]

/-! ### concrete members report only keys that are present -/

theorem OptSpec.keys_present {s : OptSpec} {o : V} {Ke : List Path} (h : s.keys o = .ok Ke)
    {k : Path} (hk : k ∈ Ke) : k = s.key ∧ ∃ v, walk k o = .found v := by
  unfold OptSpec.keys at h
  cases hw : walk s.key o with
  | found v => simp [hw] at h; subst h; simp at hk; subst hk; exact ⟨rfl, v, hw⟩
  | keyErr =>
    simp only [hw] at h
    cases hd : s.dflt with
    | none => simp [hd] at h
    | some d => simp [hd] at h; subst h; simp at hk
  | typeErr => simp [hw] at h

theorem dsCollect_keys_present {args : List OptSpec} {o : V} {Ke : List Path}
    (h : dsCollect (·.keys o) args = .ok Ke) {k : Path} (hk : k ∈ Ke) :
    ∃ a ∈ args, k = a.key ∧ ∃ v, walk k o = .found v := by
  induction args generalizing Ke with
  | nil => simp [dsCollect] at h; subst h; simp at hk
  | cons a as ih =>
    simp only [dsCollect] at h
    cases h1 : a.keys o with
    | error x => simp [h1] at h
    | ok ka =>
      simp only [h1] at h
      cases h2 : dsCollect (·.keys o) as with
      | error x => simp [h2] at h
      | ok kb =>
        simp only [h2] at h
        cases h
        rcases List.mem_append.1 hk with hk | hk
        · obtain ⟨e, hv⟩ := OptSpec.keys_present h1 hk
          exact ⟨a, by simp, e, hv⟩
        · obtain ⟨a', ha', e, hv⟩ := ih h2 hk
          exact ⟨a', by simp [ha'], e, hv⟩

theorem concrete_present {name : String} {ms : List (String × MemberSpec)} {o : V} {K : List Path}
    (hms : ∀ m ∈ ms, m.2.KeysOK) (h : classKeys (concreteClass name ms) o = .ok K) :
    Present o K := by
  intro k hk
  obtain ⟨e, he, Ke, hKe, hkKe⟩ := (collect_mem h k).1 hk
  obtain ⟨n, hmem, _⟩ := mem_evs.1 he
  simp only [concreteClass, List.mem_map] at hmem
  obtain ⟨m, hm, heq⟩ := hmem
  have hok := hms m hm
  obtain ⟨n', spec⟩ := m
  cases spec with
  | const v => simp [MemberSpec.toMember] at heq
  | opt s =>
    simp [MemberSpec.toMember] at heq
    obtain ⟨_, rfl⟩ := heq
    obtain ⟨rfl, hv⟩ := OptSpec.keys_present (s := s) hKe hkKe
    exact ⟨hok.1, hok.2, hv⟩
  | ds args =>
    simp [MemberSpec.toMember] at heq
    obtain ⟨_, rfl⟩ := heq
    obtain ⟨a, ha, rfl, hv⟩ := dsCollect_keys_present (args := args) hKe hkKe
    exact ⟨(hok a ha).1, (hok a ha).2, hv⟩

/-! ### Python dict equality is an equivalence; the restriction is unique up to it -/

theorem mem_of_alookup {k : String} {v : V} {a : List (String × V)} (h : alookup k a = some v) :
    (k, v) ∈ a := by
  induction a with
  | nil => simp [alookup] at h
  | cons p rest ih =>
    obtain ⟨k', v'⟩ := p
    by_cases e : k' = k
    · subst e; simp [alookup] at h; subst h; simp
    · simp [alookup, e] at h; simp [ih h]

mutual
theorem V.le_refl : ∀ v : V, V.le v v = true
  | .dict a => by
      rw [le_dict_iff]; intro k v h
      exact ⟨v, h, entries_le_refl a k v (mem_of_alookup h)⟩
  | .list xs => by rw [V.le]; exact leList_refl xs
  | .none => by simp [V.le]
  | .bool _ => by simp [V.le]
  | .int _ => by simp [V.le]
  | .str _ => by simp [V.le]
  | .tuple _ => by simp [V.le]
  | .set _ => by simp [V.le]
  | .app _ _ _ => by simp [V.le]
  | .fn _ _ _ => by simp [V.le]
  | .comp _ => by simp [V.le]
  | .missing => by simp [V.le]
theorem entries_le_refl : ∀ (a : List (String × V)) (k : String) (v : V), (k, v) ∈ a → V.le v v = true
  | [], _, _, h => by simp at h
  | (k0, v0) :: rest, k, v, h =>
    if e : v = v0 then e ▸ V.le_refl v0
    else entries_le_refl rest k v (by
      simp at h
      rcases h with ⟨_, h⟩ | h
      · exact absurd h e
      · exact h)
theorem leList_refl : ∀ xs : List V, leList xs xs = true
  | [] => by simp [leList]
  | x :: xs => by simp [leList, V.le_refl x, leList_refl xs]
end

theorem le_atom_left {a b : V} (hd : ∀ d, a ≠ .dict d) (hl : ∀ l, a ≠ .list l)
    (h : V.le a b = true) : a = b := by
  cases a with
  | dict d => exact absurd rfl (hd d)
  | list l => exact absurd rfl (hl l)
  | none => exact eq_of_beq (by simpa [V.le] using h)
  | bool _ => exact eq_of_beq (by simpa [V.le] using h)
  | int _ => exact eq_of_beq (by simpa [V.le] using h)
  | str _ => exact eq_of_beq (by simpa [V.le] using h)
  | tuple _ => exact eq_of_beq (by simpa [V.le] using h)
  | set _ => exact eq_of_beq (by simpa [V.le] using h)
  | app _ _ _ => exact eq_of_beq (by simpa [V.le] using h)
  | fn _ _ _ => exact eq_of_beq (by simpa [V.le] using h)
  | comp _ => exact eq_of_beq (by simpa [V.le] using h)
  | missing => exact eq_of_beq (by simpa [V.le] using h)

mutual
theorem V.le_trans : ∀ (a b c : V), V.le a b = true → V.le b c = true → V.le a c = true
  | .dict a, b, c, h1, h2 => by
      obtain ⟨b', rfl⟩ := le_dict_left h1
      obtain ⟨c', rfl⟩ := le_dict_left h2
      rw [le_dict_iff] at h1 h2 ⊢
      intro k v hk
      obtain ⟨w, hw, hvw⟩ := h1 k v hk
      obtain ⟨x, hx, hwx⟩ := h2 k w hw
      exact ⟨x, hx, entries_le_trans a k v (mem_of_alookup hk) w x hvw hwx⟩
  | .list xs, b, c, h1, h2 => by
      obtain ⟨b', rfl, h1'⟩ := le_list_left h1
      obtain ⟨c', rfl, h2'⟩ := le_list_left h2
      rw [V.le]
      exact leList_trans xs b' c' h1' h2'
  | .none, b, c, h1, h2 => by
      have := le_atom_left (by intro d; simp) (by intro l; simp) h1; subst this; exact h2
  | .bool _, b, c, h1, h2 => by
      have := le_atom_left (by intro d; simp) (by intro l; simp) h1; subst this; exact h2
  | .int _, b, c, h1, h2 => by
      have := le_atom_left (by intro d; simp) (by intro l; simp) h1; subst this; exact h2
  | .str _, b, c, h1, h2 => by
      have := le_atom_left (by intro d; simp) (by intro l; simp) h1; subst this; exact h2
  | .tuple _, b, c, h1, h2 => by
      have := le_atom_left (by intro d; simp) (by intro l; simp) h1; subst this; exact h2
  | .set _, b, c, h1, h2 => by
      have := le_atom_left (by intro d; simp) (by intro l; simp) h1; subst this; exact h2
  | .app _ _ _, b, c, h1, h2 => by
      have := le_atom_left (by intro d; simp) (by intro l; simp) h1; subst this; exact h2
  | .fn _ _ _, b, c, h1, h2 => by
      have := le_atom_left (by intro d; simp) (by intro l; simp) h1; subst this; exact h2
  | .comp _, b, c, h1, h2 => by
      have := le_atom_left (by intro d; simp) (by intro l; simp) h1; subst this; exact h2
  | .missing, b, c, h1, h2 => by
      have := le_atom_left (by intro d; simp) (by intro l; simp) h1; subst this; exact h2
theorem entries_le_trans : ∀ (a : List (String × V)) (k : String) (v : V), (k, v) ∈ a →
    ∀ w x, V.le v w = true → V.le w x = true → V.le v x = true
  | [], _, _, h => by simp at h
  | (k0, v0) :: rest, k, v, h =>
    if e : v = v0 then fun w x h1 h2 => e ▸ V.le_trans v0 w x (e ▸ h1) h2
    else entries_le_trans rest k v (by
      simp at h
      rcases h with ⟨_, h⟩ | h
      · exact absurd h e
      · exact h)
theorem leList_trans : ∀ (xs ys zs : List V), leList xs ys = true → leList ys zs = true →
    leList xs zs = true
  | [], ys, zs, h1, h2 => by
      cases ys with
      | nil => exact h2
      | cons _ _ => simp [leList] at h1
  | x :: xs, ys, zs, h1, h2 => by
      cases ys with
      | nil => simp [leList] at h1
      | cons y ys =>
        cases zs with
        | nil => simp [leList] at h2
        | cons z zs =>
          simp [leList] at h1 h2 ⊢
          exact ⟨V.le_trans x y z h1.1 h2.1, leList_trans xs ys zs h1.2 h2.2⟩
end

theorem dictEqv_refl (a : V) : dictEqv a a = true := by simp [dictEqv, V.le_refl]
theorem dictEqv_symm {a b : V} (h : dictEqv a b = true) : dictEqv b a = true := by
  simp [dictEqv] at h ⊢; exact ⟨h.2, h.1⟩
theorem dictEqv_trans {a b c : V} (h1 : dictEqv a b = true) (h2 : dictEqv b c = true) :
    dictEqv a c = true := by
  simp [dictEqv] at h1 h2 ⊢
  exact ⟨V.le_trans _ _ _ h1.1 h2.1, V.le_trans _ _ _ h2.2 h1.2⟩

theorem prefix_snoc {k pre : Path} {a : String} (h : k <+: pre ++ [a]) :
    k <+: pre ∨ k = pre ++ [a] := by
  obtain ⟨t, ht⟩ := h
  rcases List.eq_nil_or_concat t with rfl | ⟨t', b, rfl⟩
  · right; simpa using ht
  · left
    rw [List.concat_eq_append, ← List.append_assoc] at ht
    have := List.append_inj' ht (by simp)
    exact ⟨t', this.1⟩

theorem length_le_maxLen {k : Path} {K : List Path} (hk : k ∈ K) :
    k.length ≤ (K.map List.length).foldr max 0 := by
  induction K with
  | nil => simp at hk
  | cons k0 K ih =>
    simp at hk ⊢
    rcases hk with rfl | hk
    · omega
    · have := ih hk; omega

/-- inclusion half of uniqueness, by descent along the sections (bounded by the longest key) -/
theorem restrict_le_aux {o : V} {K : List Path} {R₁ R₂ : List (String × V)} (hK : Present o K)
    (s₁ : IsRestrict o K R₁) (s₂ : IsRestrict o K R₂) (N : Nat) (hN : ∀ k ∈ K, k.length ≤ N) :
    ∀ (d : Nat) (pre : Path) (r₁ r₂ : List (String × V)), N ≤ pre.length + d →
      dget pre (.dict R₁) = some (.dict r₁) → dget pre (.dict R₂) = some (.dict r₂) →
      (∀ k ∈ K, ¬ k <+: pre) → V.le (.dict r₁) (.dict r₂) = true := by
  intro d
  induction d with
  | zero =>
    intro pre r₁ r₂ hd h1 h2 hpre
    rw [le_dict_iff]
    intro a v ha
    have hp1 : dget (pre ++ [a]) (.dict R₁) = some v := by
      rw [dget_append, h1]; simp [dget_cons_dict, ha]
    by_cases c1 : ∃ k ∈ K, k <+: pre ++ [a]
    · obtain ⟨k, hk, hpk⟩ := c1
      rcases prefix_snoc hpk with h | rfl
      · exact absurd h (hpre k hk)
      · obtain ⟨_, hn, vo, hvo⟩ := hK _ hk
        have e1 := (walk_found_iff_dget hn _ vo).1 ((s₁.lookup _ hk).trans hvo)
        have e2 := (walk_found_iff_dget hn _ vo).1 ((s₂.lookup _ hk).trans hvo)
        rw [hp1] at e1; cases e1
        rw [dget_append, h2] at e2
        simp [dget_cons_dict] at e2
        cases hl : alookup a r₂ with
        | none => simp [hl] at e2
        | some w => simp [hl] at e2; subst e2; exact ⟨_, rfl, V.le_refl _⟩
    · rcases s₁.exact _ v (by simp) hp1 with h | ⟨k, hk, t, ht⟩
      · exact absurd h c1
      · have := hN k hk
        cases t with
        | nil => exact absurd ⟨k, hk, by simp at ht; rw [ht]; exact List.prefix_refl _⟩ c1
        | cons b t => rw [← ht] at this; simp at this; omega
  | succ d ih =>
    intro pre r₁ r₂ hd h1 h2 hpre
    rw [le_dict_iff]
    intro a v ha
    have hp1 : dget (pre ++ [a]) (.dict R₁) = some v := by
      rw [dget_append, h1]; simp [dget_cons_dict, ha]
    by_cases c1 : ∃ k ∈ K, k <+: pre ++ [a]
    · obtain ⟨k, hk, hpk⟩ := c1
      rcases prefix_snoc hpk with h | rfl
      · exact absurd h (hpre k hk)
      · obtain ⟨_, hn, vo, hvo⟩ := hK _ hk
        have e1 := (walk_found_iff_dget hn _ vo).1 ((s₁.lookup _ hk).trans hvo)
        have e2 := (walk_found_iff_dget hn _ vo).1 ((s₂.lookup _ hk).trans hvo)
        rw [hp1] at e1; cases e1
        rw [dget_append, h2] at e2
        simp [dget_cons_dict] at e2
        cases hl : alookup a r₂ with
        | none => simp [hl] at e2
        | some w => simp [hl] at e2; subst e2; exact ⟨_, rfl, V.le_refl _⟩
    · rcases s₁.exact _ v (by simp) hp1 with h | ⟨k, hk, t, ht⟩
      · exact absurd h c1
      · cases t with
        | nil => exact absurd ⟨k, hk, by simp at ht; rw [ht]; exact List.prefix_refl _⟩ c1
        | cons b t =>
          obtain ⟨_, hn, vo, hvo⟩ := hK _ hk
          have e1 := (walk_found_iff_dget hn _ vo).1 ((s₁.lookup _ hk).trans hvo)
          have e2 := (walk_found_iff_dget hn _ vo).1 ((s₂.lookup _ hk).trans hvo)
          rw [← ht, dget_append, hp1] at e1
          simp at e1
          obtain ⟨r₁', _, hr₁', _, _⟩ := dget_cons_some e1
          subst hr₁'
          rw [← ht, dget_append] at e2
          cases hp2 : dget (pre ++ [a]) (.dict R₂) with
          | none => simp [hp2] at e2
          | some v₂ =>
            simp [hp2] at e2
            obtain ⟨r₂', _, hr₂', _, _⟩ := dget_cons_some e2
            subst hr₂'
            have hl : alookup a r₂ = some (.dict r₂') := by
              rw [dget_append, h2] at hp2
              simp [dget_cons_dict] at hp2
              cases hl : alookup a r₂ with
              | none => simp [hl] at hp2
              | some w => simp [hl] at hp2; rw [hp2]
            refine ⟨_, hl, ih (pre ++ [a]) r₁' r₂' (by simp; omega) hp1 hp2 ?_⟩
            intro k' hk' hpk'
            exact c1 ⟨k', hk', hpk'⟩

/-- **uniqueness**: the restriction of `o` to `K` is determined up to Python dict equality -/
theorem restrict_unique {o : V} {K : List Path} {R₁ R₂ : List (String × V)} (hK : Present o K)
    (s₁ : IsRestrict o K R₁) (s₂ : IsRestrict o K R₂) :
    dictEqv (.dict R₁) (.dict R₂) = true := by
  have l₁ := restrict_le_aux hK s₁ s₂ _ (fun k hk => length_le_maxLen hk)
    ((K.map List.length).foldr max 0) [] R₁ R₂
    (by simp) (by simp) (by simp) (fun k hk h => (hK k hk).1 (List.prefix_nil.1 h))
  have l₂ := restrict_le_aux hK s₂ s₁ _ (fun k hk => length_le_maxLen hk)
    ((K.map List.length).foldr max 0) [] R₂ R₁
    (by simp) (by simp) (by simp) (fun k hk h => (hK k hk).1 (List.prefix_nil.1 h))
  simp [dictEqv, l₁, l₂]


/-! ### fixtures for the non-vacuity examples and witnesses of `LabreaProps/C19.lean` -/

/-- members on `A` and on `A.X` (prefix overlap), a defaulted `B.Y`, a constant, a dataset -/
def cOverlap : DsClass := concreteClass "C"
  [("a", .opt ⟨["A"], Option.none⟩), ("ax", .opt ⟨["A", "X"], Option.none⟩),
   ("b", .opt ⟨["B", "Y"], some (.int 3)⟩), ("c", .const (.int 9)),
   ("d", .ds [⟨["S", "T", "U"], some (.int 5)⟩])]
/-- `A` and a defaulted `A.X`: the reported keys depend on the options -/
def cPre : DsClass := concreteClass "C"
  [("a", .opt ⟨["A"], Option.none⟩), ("ax", .opt ⟨["A", "X"], some (.int 7)⟩)]
/-- one member on the nested key `A.X` -/
def cAX : DsClass := concreteClass "C" [("x", .opt ⟨["A", "X"], Option.none⟩)]

def oXY : V := .dict [("A", .dict [("X", .int 2), ("Y", .int 3)]), ("Z", .int 5)]
/-- `oXY` with another key order and another irrelevant `Z` -/
def oYX : V := .dict [("Z", .int 7), ("A", .dict [("Y", .int 3), ("X", .int 2)])]
/-- `oXY` with another `A.X` -/
def oX9 : V := .dict [("A", .dict [("X", .int 9), ("Y", .int 3)]), ("Z", .int 5)]

theorem cOverlap_keysOK : ∀ m ∈ [("a", MemberSpec.opt ⟨["A"], Option.none⟩),
    ("ax", .opt ⟨["A", "X"], Option.none⟩), ("b", .opt ⟨["B", "Y"], some (.int 3)⟩),
    ("c", .const (.int 9)), ("d", .ds [⟨["S", "T", "U"], some (.int 5)⟩])], m.2.KeysOK := by
  intro m hm
  simp at hm
  rcases hm with rfl | rfl | rfl | rfl | rfl
  · exact ⟨by decide, by decide⟩
  · exact ⟨by decide, by decide⟩
  · exact ⟨by decide, by decide⟩
  · trivial
  · intro a ha; simp at ha; subst ha; exact ⟨by decide, by decide⟩

end Labrea.DatasetClass

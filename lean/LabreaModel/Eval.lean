/-
  Layer 2 — the interpreter: `ev env fuel op e o` runs operation `op`
  (`evaluate | validate | keys | explain`) of node `e` on options `o`, exactly as the code does:
  every operation is a *request* (`EvaluateRequest` wraps failures into
  `EvaluationError(source = node)`), caches are keyed by fingerprints, feature switches are read
  through `Option.evaluate` on the request's options, and everything observable is logged as an
  `Event` (user-callable executions, option reads, cache backend calls, log requests, requests).

  Results of all four operations are values `V`: `validate` returns `none`, `keys`/`explain`
  return a `set` of `str` (insertion order, no duplicates).
  Fuel: one unit per request; `none` = out of fuel (Python's RecursionError is outside the model).
-/
import LabreaModel.Expr
namespace Labrea

/-! ### The evaluation monad: state survives failures -/

def M (α : Type) := St → Option (Except Err α × St)

@[inline] def M.ret {α} (a : α) : M α := fun s => some (.ok a, s)
@[inline] def M.bnd {α β} (m : M α) (f : α → M β) : M β := fun s =>
  match m s with
  | Option.none => Option.none
  | some (.error e, s') => some (.error e, s')
  | some (.ok a, s') => f a s'
instance : Monad M where
  pure := M.ret
  bind := M.bnd
/-- `raise` -/
@[inline] def raise {α} (e : Err) : M α := fun s => some (.error e, s)
/-- `try … except` (the state reached at the failure is kept) -/
@[inline] def handle {α} (m : M α) (h : Err → M α) : M α := fun s =>
  match m s with
  | some (.error e, s') => h e s'
  | r => r
@[inline] def outOfFuel {α} : M α := fun _ => Option.none
@[inline] def emit (ev : Event) : M Unit := fun s => some (.ok (), { s with events := ev :: s.events })
@[inline] def getSt : M St := fun s => some (.ok s, s)
@[inline] def modifySt (f : St → St) : M Unit := fun s => some (.ok (), f s)
/-- run `m`, returning its outcome as a value (never fails) -/
@[inline] def attempt {α} (m : M α) : M (Except Err α) := fun s =>
  match m s with
  | Option.none => Option.none
  | some (r, s') => some (.ok r, s')

def mapM' {α β} (f : α → M β) : List α → M (List β)
  | [] => pure []
  | x :: xs => do
    let y ← f x
    let ys ← mapM' f xs
    pure (y :: ys)

def forM' {α} (f : α → M Unit) : List α → M Unit
  | [] => pure ()
  | x :: xs => do f x; forM' f xs

/-! ### Python helpers on values -/

mutual
/-- Python `==`/hash equality, as used by `dict`/`set` membership and `in`:
    `True == 1`, sequences compare element-wise, dicts and sets ignore order. -/
def pyEq : V → V → Bool
  | .none, .none => true
  | .bool a, .bool b => a == b
  | .bool a, .int b => (if a then 1 else 0) == b
  | .int a, .bool b => a == (if b then 1 else 0)
  | .int a, .int b => a == b
  | .str a, .str b => a == b
  | .list a, .list b => pyEqList a b
  | .tuple a, .tuple b => pyEqList a b
  | .set a, .set b => pySubList a b && pySubList b a
  | .dict a, .dict b => pySubKvs a b && pySubKvs b a
  | .missing, .missing => true
  | .app f a k, .app g b l => f == g && pyEqList a b && pySubKvs k l && pySubKvs l k
  | .fn f a k, .fn g b l => f == g && pyEqList a b && pySubKvs k l && pySubKvs l k
  | .comp a, .comp b => pyEqList a b
  | _, _ => false
termination_by a b => sizeOf a + sizeOf b
def pyEqList : List V → List V → Bool
  | [], [] => true
  | x :: xs, y :: ys => pyEq x y && pyEqList xs ys
  | _, _ => false
termination_by a b => sizeOf a + sizeOf b
def pyMemList (x : V) : List V → Bool
  | [] => false
  | y :: ys => pyEq x y || pyMemList x ys
termination_by b => sizeOf x + sizeOf b
def pySubList : List V → List V → Bool
  | [], _ => true
  | x :: xs, ys => pyMemList x ys && pySubList xs ys
termination_by a b => sizeOf a + sizeOf b
def pyLookupEq (k : String) (x : V) : List (String × V) → Bool
  | [] => false
  | (k', y) :: rest => if k' = k then pyEq x y else pyLookupEq k x rest
termination_by b => sizeOf x + sizeOf b
def pySubKvs : List (String × V) → List (String × V) → Bool
  | [], _ => true
  | (k, x) :: xs, ys => pyLookupEq k x ys && pySubKvs xs ys
termination_by a b => sizeOf a + sizeOf b
end

def pyMem (x : V) (xs : List V) : Bool := xs.any (pyEq x)

/-- `hash(x)` succeeds -/
def hashable : V → Bool
  | .list _ | .dict _ | .set _ => false
  | .tuple xs => xs.attach.all fun ⟨x, _⟩ => hashable x
  | _ => true
termination_by v => sizeOf v
decreasing_by
  simp_wf
  have := List.sizeOf_lt_of_mem ‹x ∈ xs›; omega

/-- first occurrence wins (Python `set(iterable)` / `dict(pairs)` keep the first key object) -/
def dedup : List V → List V
  | [] => []
  | x :: xs => x :: (dedup xs).filter (fun y => !pyEq x y)

def unionKeys (a b : List V) : List V := a ++ b.filter (fun y => !pyMem y a)

def keySet (ks : List String) : V := .set (dedup (ks.map V.str))

def V.setElems : V → List V
  | .set xs => xs
  | _ => []

def unionV (a b : V) : V := .set (unionKeys a.setElems b.setElems)

def unionAll (vs : List V) : V := vs.foldl unionV (.set [])

/-- materialise an iterable (`list(x)`, iteration); `none` = not iterable (TypeError) -/
def iterElems : V → Option (List V)
  | .list xs | .tuple xs | .set xs => some xs
  | .dict kvs => some (kvs.map fun (k, _) => V.str k)
  | .str s => some (s.toList.map fun c => V.str (String.singleton c))
  | _ => Option.none

def isCallable : V → Bool
  | .fn _ _ _ | .comp _ => true
  | _ => false

def isContainer : V → Bool
  | .list _ | .tuple _ | .set _ | .dict _ | .str _ => true
  | _ => false

/-- `value in container`; `none` = TypeError (e.g. non-string in a string) -/
def pyIn (x : V) : V → Option Bool
  | .list xs | .tuple xs | .set xs => some (pyMem x xs)
  | .dict kvs => match x with
    | .str k => some ((alookup k kvs).isSome)
    | _ => some false
  | .str s => match x with
    | .str t => some (decide (t.toList <:+: s.toList))
    | _ => Option.none
  | _ => Option.none

/-- `dict(pairs)` with Python's semantics: later value wins, position of first insertion kept -/
def dictOfPairs (ps : List V) : Option (List (String × V)) :=
  ps.foldlM (fun acc p =>
    match iterElems p with
    | some [.str k, v] => some (ainsert k v acc)
    | _ => Option.none) []

/-- built-in callables the library itself applies (`Iter(...).apply(list)`, `Map`) -/
def builtin (name : String) (args : List V) : Option (Except String V) :=
  match name, args with
  | "py:list", [x] => some (match iterElems x with | some xs => .ok (.list xs) | Option.none => .error "TypeError")
  | "py:tuple", [x] => some (match iterElems x with | some xs => .ok (.tuple xs) | Option.none => .error "TypeError")
  | "py:set", [x] => some (match iterElems x with
      | some xs => if xs.all hashable then .ok (.set (dedup xs)) else .error "TypeError"
      | Option.none => .error "TypeError")
  | "py:dict", [x] => some (match iterElems x with
      | some xs => (match dictOfPairs xs with | some d => .ok (.dict d) | Option.none => .error "TypeError")
      | Option.none => .error "TypeError")
  | "py:identity", [x] => some (.ok x)
  | _, _ => Option.none

def mergeKw (a b : List (String × V)) : List (String × V) :=
  b.foldl (fun acc (k, v) => ainsert k v acc) a

mutual
/-- call a callable value; the `Event.call`s of user callables are returned in order -/
def callV (β : String → List V → List (String × V) → Except String V) :
    V → List V → List (String × V) → Except String V × List Event
  | .fn f pos kw0, args, kw =>
    let a := pos ++ args
    let k := mergeKw kw0 kw
    match builtin f a with
    | some r => (r, [])
    | Option.none => (β f a k, [Event.call f a k])
  | .comp fs, [x], [] => callChain β fs x
  | _, _, _ => (.error "TypeError", [])
def callChain (β : String → List V → List (String × V) → Except String V) :
    List V → V → Except String V × List Event
  | [], x => (.ok x, [])
  | f :: fs, x =>
    match callV β f [x] [] with
    | (.ok y, evs) => let (r, evs') := callChain β fs y; (r, evs ++ evs')
    | (.error e, evs) => (.error e, evs)
end

/-- `functools.partial(f, *args, **kw)` -/
def mkPartial : V → List V → List (String × V) → Option V
  | .fn f pos kw0, args, kw => some (.fn f (pos ++ args) (mergeKw kw0 kw))
  | _, _, _ => Option.none

/-! ### Small monadic helpers -/

def emitAll : List Event → M Unit
  | [] => pure ()
  | e :: es => do emit e; emitAll es

def call (env : Env) (f : V) (args : List V) (kw : List (String × V)) : M V := do
  let (r, evs) := callV env.β f args kw
  emitAll evs
  match r with
  | .ok v => pure v
  | .error cls => raise (errOther cls)

def readKey (key : String) (o : V) : M (Lk V) := do
  emit (.read key)
  pure (getDotted key o)

/-- `dotted_key_exists(key, o)` (a raw TypeError escapes) -/
def existsKey (key : String) (o : V) : M Bool := do
  match ← readKey key o with
  | .found _ => pure true
  | .keyErr => pure false
  | .typeErr => raise (errOther "TypeError")

/-- `get_dotted_key(key, o)` with Python's exceptions -/
def getKey (key : String) (o : V) : M V := do
  match ← readKey key o with
  | .found v => pure v
  | .keyErr => raise (errOther "KeyError")
  | .typeErr => raise (errOther "TypeError")

/-- strings inside an option value that `resolve` treats as templates (`_templated_strings`) -/
def templatedStrings : V → List String
  | .str s => [s]
  | .dict kvs => goK kvs
  | .list xs => goL xs
  | _ => []
where
  goK : List (String × V) → List String
    | [] => []
    | (_, v) :: rest => templatedStrings v ++ goK rest
  goL : List V → List String
    | [] => []
    | v :: rest => templatedStrings v ++ goL rest

def isParamKey (k : String) : Bool :=
  match k.toList with
  | ':' :: rest =>
    match rest.reverse with
    | ':' :: midRev =>
      match midRev.reverse with
      | c :: cs => (c.isAlpha || c == '_') && cs.all (fun d => d.isAlphanum || d == '_')
      | [] => false
    | _ => false
  | _ => false

def insertSorted (a : String) : List String → List String
  | [] => [a]
  | b :: bs => if a ≤ b then a :: b :: bs else b :: insertSorted a bs

/-- `sorted(keys)` (insertion sort: structural, so the kernel can evaluate it) -/
def sortStrings (ks : List String) : List String := ks.foldr insertSorted []

def keyStrings (v : V) : List String :=
  v.setElems.filterMap fun | .str s => some s | _ => Option.none

/-- cartesian product in `itertools.product` order -/
def product {α} : List (List α) → List (List α)
  | [] => [[]]
  | xs :: rest => xs.flatMap fun x => (product rest).map fun r => x :: r

/-- `Map._create_option_set` -/
def optionSet (pairs : List (String × V)) : Option (List (String × V)) :=
  pairs.foldlM (fun acc (k, v) => setPath (splitKey k) v acc) []

/-! ### Cache backends -/

def St.cacheEntries (s : St) (c : Nat) : List (V × V) :=
  match s.caches.find? (fun p => p.1 == c) with
  | some (_, es) => es
  | Option.none => []

def St.setCacheEntries (s : St) (c : Nat) (es : List (V × V)) : St :=
  if s.caches.any (fun p => p.1 == c) then
    { s with caches := s.caches.map fun p => if p.1 == c then (c, es) else p }
  else { s with caches := s.caches ++ [(c, es)] }

def entryLookup (fp : V) : List (V × V) → Option V
  | [] => Option.none
  | (k, v) :: rest => if k = fp then some v else entryLookup fp rest

def entryInsert (fp v : V) : List (V × V) → List (V × V)
  | [] => [(fp, v)]
  | (k, w) :: rest => if k = fp then (fp, v) :: rest else (k, w) :: entryInsert fp v rest

def entryErase (fp : V) (es : List (V × V)) : List (V × V) := es.filter fun p => p.1 ≠ fp

/-- next fault of a scripted cache (consumed); `behave` when the script is exhausted -/
def nextFault (c : Nat) : M Fault := fun s =>
  match s.scripts.find? (fun p => p.1 == c) with
  | some (_, f :: rest) =>
    some (.ok f, { s with scripts := s.scripts.map fun p => if p.1 == c then (c, rest) else p })
  | _ => some (.ok Fault.behave, s)

/-- is the next scripted fault of cache `c` a blind one (`lieBlind`)?  If so it is consumed. -/
def blindFault (c : Nat) : M Bool := fun s =>
  match s.scripts.find? (fun p => p.1 == c) with
  | some (_, Fault.lieBlind :: rest) =>
    some (.ok true, { s with scripts := s.scripts.map fun p => if p.1 == c then (c, rest) else p })
  | _ => some (.ok false, s)

def cacheGetFailure : Err := errOther "CacheGetFailure"

def filterM' {α} (f : α → M Bool) : List α → M (List α)
  | [] => pure []
  | x :: xs => do
    let b ← f x
    let ys ← filterM' f xs
    pure (if b then x :: ys else ys)

/-! ### The interpreter

  Helper combinators take the recursive interpreter as a parameter `run : Op → Expr → V → M V`
  (it is `ev env n` inside `ev env (n+1)`), so that `ev` is structurally recursive on fuel. -/

abbrev Run := Op → Expr → V → M V

def evalFrame (id : Nat) : Frame := { cls := .evaluation, src := id }

/-- `_evaluate_request`: re-raise an `EvaluationError` that originates in this node, wrap
    everything else into `EvaluationError(source = node)` -/
def wrapEvaluate {α} (id : Nat) (m : M α) : M α :=
  handle m fun err =>
    match err with
    | f :: _ => if err.isEvaluationError && f.src == id then raise err else raise (evalFrame id :: err)
    | [] => raise [evalFrame id]

/-- request of an undeclared helper object (`EvaluatableArguments`, `…Args`, `…Kwargs`, …) -/
def pseudo {α} (op : Op) (pid : Nat) (m : M α) : M α := do
  emit (.req op.name pid)
  if op = .evaluate then wrapEvaluate pid m else m

def optFalse (id : Nat) (key : String) (dflt : Expr) : Expr := .option id key (some dflt) Option.none

/-- `Option("LABREA.CACHE.DISABLED", Option("LABREA.CACHE.DISABLE", False))` -/
def cacheDisabledOption : Expr :=
  optFalse (tid 0 1) "LABREA.CACHE.DISABLED"
    (optFalse (tid 0 2) "LABREA.CACHE.DISABLE" (.value (tid 0 3) (.bool false)))

def effectsDisabledOption : Expr :=
  optFalse (tid 0 4) "LABREA.EFFECTS.DISABLED" (.value (tid 0 5) (.bool false))

def loggingDisabledOption : Expr :=
  optFalse (tid 0 6) "LABREA.LOGGING.DISABLED" (.value (tid 0 7) (.bool false))

def unionOver (run : Run) (op : Op) (xs : List Expr) (o : V) : M V := do
  let vs ← mapM' (fun x => run op x o) xs
  pure (unionAll vs)

def keyNotFound (id : Nat) (key : String) : Frame := { cls := .keyNotFound, src := id, key := key }

/-- re-raise an EvaluationError as InsufficientInformationError(source = id) from it -/
def insufficientFrom {α} (id : Nat) (m : M α) : M α :=
  handle m fun err =>
    if err.isEvaluationError then raise ({ cls := .insufficient, src := id } :: err) else raise err

/-- resolve a raw option value / template text, logging the reads -/
def resolveM (n : Nat) (id : Nat) (x : V) (o : V) (logAll : Bool) : M V :=
  match resolveR n x o with
  | Option.none => outOfFuel
  | some (r, rd) => do
    emitAll ((rd.filter fun k => logAll || !isParamKey k).map Event.read)
    match r with
    | .ok v => pure v
    | .error (.key k) => raise (keyNotFound id k :: errOther "KeyError")
    | .error .type => raise (errOther "TypeError")

/-! #### Option -/

def optionOp (env : Env) (run : Run) (n : Nat) (self : Expr) (id : Nat) (key : String)
    (dflt dom : Option Expr) (op : Op) (o : V) : M V :=
  let enforceDomain (v : V) : M Unit :=
    match dom with
    | Option.none => pure ()
    | some de => do
      let dv ← run .evaluate de o
      if isCallable dv then do
        let r ← call env dv [v] []
        if r.truthy then pure () else raise (errOther "ValueError")
      else if isContainer dv then
        match pyIn v dv with
        | some true => pure ()
        | some false => raise (errOther "ValueError")
        | Option.none => raise (errOther "TypeError")
      else emit (.warn "invalid domain")
  let domOp (op' : Op) : M V :=
    match dom with
    | Option.none => pure (.set [])
    | some de => run op' de o
  let templateOp (op' : Op) (raw : V) : M V := do
    let vs ← mapM' (fun (p : String × Nat) => run op' (.template (tid id (8 + p.2)) p.1 []) o)
      (templatedStrings raw).zipIdx
    pure (unionAll vs)
  match op with
  | .evaluate => do
    let v ← (do
      match ← readKey key o with
      | .found raw => resolveM n id raw o true
      | .keyErr =>
        match dflt with
        | Option.none => raise [keyNotFound id key]
        | some d => run .evaluate d o
      | .typeErr => raise (errOther "TypeError"))
    emit (.typeCheck id)
    enforceDomain v
    pure v
  | .validate => do
    if ← existsKey key o then do
      let _ ← run .evaluate self o
      pure .none
    else match dflt with
      | some d => do
        let _ ← run .validate d o
        match dom with
        | some de => do let _ ← run .validate de o; pure .none
        | Option.none => pure .none
      | Option.none => raise [keyNotFound id key]
  | .keys => do
    let dk ← domOp .keys
    if ← existsKey key o then do
      let raw ← getKey key o
      let tk ← templateOp .keys raw
      pure (unionV (unionV (keySet [key]) dk) tk)
    else match dflt with
      | some d => do
        let k ← run .keys d o
        pure (unionV k dk)
      | Option.none => raise [keyNotFound id key]
  | .explain => do
    let dk ← domOp .explain
    if ← existsKey key o then do
      let raw ← getKey key o
      let tk ← templateOp .explain raw
      pure (unionV (unionV (keySet [key]) dk) tk)
    else match dflt with
      | some d => do
        let k ← run .explain d o
        pure (unionV k dk)
      | Option.none => pure (unionV (keySet [key]) dk)

/-! #### Bind (and the transient Bind of CaseWhen) -/

def bindOp (run : Run) (id : Nat) (x : Expr) (continuation : V → M Expr) (op : Op) (o : V) : M V :=
  match op with
  | .evaluate => do
    let v ← run .evaluate x o
    let e' ← continuation v
    run .evaluate e' o
  | .validate => do
    let _ ← run .validate x o
    let v ← run .evaluate x o
    let e' ← continuation v
    run .validate e' o
  | .keys => do
    let a ← run .keys x o
    let v ← run .evaluate x o
    let e' ← continuation v
    let b ← run .keys e' o
    pure (unionV a b)
  | .explain =>
    insufficientFrom id (do
      let a ← run .explain x o
      let v ← run .evaluate x o
      let e' ← continuation v
      let b ← run .explain e' o
      pure (unionV a b))

/-- nest `_DependsOn(result, condition)` for every evaluated condition (`CaseWhen._chosen`) -/
def wrapDeps (id : Nat) (r : Expr) : List Expr → Expr
  | [] => r
  | c :: cs => wrapDeps id (.dependsOn (tid id (2 + cs.length)) r c) cs

/-- `CaseWhen._evaluate(value, options)` -/
def chooseCase (env : Env) (run : Run) (id : Nat) (d : Expr) (dflt : Option Expr) (o v : V) :
    List Expr → List (Expr × Expr) → M Expr
  | seen, [] =>
    match dflt with
    | some df => pure (wrapDeps id df seen)
    | Option.none => raise [{ cls := .caseWhenErr, src := d.id }]
  | seen, (c, r) :: rest => do
    let cf ← run .evaluate c o
    let b ← call env cf [v] []
    if b.truthy then pure (wrapDeps id r (seen ++ [c])) else chooseCase env run id d dflt o v (seen ++ [c]) rest

/-! #### Switch -/

def switchLookup (run : Run) (id : Nat) (d : Expr) (lookup : List (V × Expr)) (dflt : Option Expr)
    (o : V) : M Expr := do
  -- `try: key = self._dispatch(options) except EvaluationError: default (bare) or re-raise`
  let r ← handle (do let key ← run .evaluate d o; pure (Sum.inl key)) fun err =>
    if err.isEvaluationError then
      match dflt with
      | Option.none => raise err
      | some df => pure (Sum.inr df)
    else raise err
  match r with
  | .inr df => pure df
  | .inl key =>
    if !hashable key then raise (errOther "TypeError") else
    match lookup.find? (fun p => pyEq p.1 key) with
    | some (_, br) => pure (.dependsOn (tid id 1) br d)
    | Option.none =>
      match dflt with
      | Option.none => raise [{ cls := .switchErr, src := d.id }]
      | some df => pure (.dependsOn (tid id 1) df d)

def switchOp (run : Run) (id : Nat) (d : Expr) (lookup : List (V × Expr)) (dflt : Option Expr)
    (op : Op) (o : V) : M V :=
  match op with
  | .explain => do
    let chosen ← insufficientFrom id (switchLookup run id d lookup dflt o)
    run .explain chosen o
  | op' => do
    let chosen ← switchLookup run id d lookup dflt o
    run op' chosen o

/-! #### Coalesce -/

def coalesceDelegate (run : Run) (op : Op) (o : V) : Option Err → List Expr → M V
  | last, [] =>
    match last with
    | some err => raise err
    | Option.none => raise (errOther "TypeError")
  | _, m :: rest =>
    handle (do
      let _ ← run .validate m o
      run op m o)
    fun err =>
      if err.isEvaluationError then coalesceDelegate run op o (some err) rest else raise err

def coalesceOp (run : Run) (ms : List Expr) (op : Op) (o : V) : M V :=
  match op with
  | .explain =>
    handle (coalesceDelegate run .explain o Option.none ms) fun err =>
      if err.isEvaluationError then
        match ms.getLast? with
        | some m => run .explain m o
        | Option.none => raise err
      else raise err
  | op' => coalesceDelegate run op' o Option.none ms

/-! #### Map -/

/-- `Map._iterate_over_options`: evaluate the iterables, take the product -/
def mapAssignments (run : Run) (its : List (String × Expr)) (o : V) : M (List (List (String × V))) := do
  -- `itertools.product(*(it.evaluate(options) for it in …))`: every iterable is evaluated before
  -- `product` looks at any of them
  let vals ← mapM' (fun (p : String × Expr) => run .evaluate p.2 o) its
  let cols ← mapM' (fun v =>
    match iterElems v with
    | some xs => pure xs
    | Option.none => raise (errOther "TypeError")) vals
  pure ((product cols).map fun row => (its.map Prod.fst).zip row)

def mapElement (id : Nat) (x : Expr) (a : List (String × V)) : M Expr :=
  match optionSet a with
  | some d => pure (.withOptions (tid id 2) x (.dict d) true)
  | Option.none => raise (errOther "TypeError")

/-- consumption of the generator a `Map` evaluates to: one `(assignment, value)` per element.
    element = Apply(Iter(Apply(Iter(pairs), dict), WithOptions(x, a)), tuple): a failure of the
    `WithOptions` surfaces inside that Apply's evaluate -/
def mapRows (run : Run) (id : Nat) (x : Expr) (o : V) (asg : List (List (String × V))) : M V := do
  let rows ← mapM' (fun a => do
    let w ← mapElement id x a
    let r ← pseudo .evaluate (tid id 1) (run .evaluate w o)
    pure (V.tuple [.dict a, r])) asg
  pure (.list rows)

def mapOp (run : Run) (id : Nat) (x : Expr) (its : List (String × Expr)) (op : Op) (o : V) : M V :=
  let itsOp (op' : Op) : M V := do
    let vs ← mapM' (fun (p : String × Expr) => run op' p.2 o) its
    pure (unionAll vs)
  match op with
  | .evaluate => do
    -- eager stand-in for the generator (see `nodeOp` for the lazy reading under `apply`)
    let asg ← mapAssignments run its o
    mapRows run id x o asg
  | .validate => do
    let asg ← mapAssignments run its o
    forM' (fun a => do let w ← mapElement id x a; let _ ← run .validate w o; pure ()) asg
    pure .none
  | .keys => do
    let asg ← mapAssignments run its o
    let ks ← mapM' (fun a => do let w ← mapElement id x a; run .keys w o) asg
    let ik ← itsOp .keys
    pure (unionV (unionAll ks) ik)
  | .explain =>
    handle (do
      let asg ← mapAssignments run its o
      let ks ← mapM' (fun a => do let w ← mapElement id x a; run .explain w o) asg
      let ik ← itsOp .explain
      pure (unionV (unionAll ks) ik))
    fun err =>
      if err.isEvaluationError then do
        let xk ← run .explain x o
        let names := its.map Prod.fst
        let ik ← itsOp .explain
        pure (unionV (.set (xk.setElems.filter fun k => match k with
          | .str s => !names.contains s
          | _ => true)) ik)
      else raise err

/-! #### Template -/

def templateOp (run : Run) (n : Nat) (id : Nat) (t : String) (params : List (String × Expr))
    (op : Op) (o : V) : M V :=
  let plainKeys := (findKeys t).filter fun k => !isParamKey k
  let keyOp (op' : Op) : M V := do
    let pk ← mapM' (fun (p : String × Expr) => run op' p.2 o) params
    let ks ← mapM' (fun (p : String × Nat) =>
      handle (run op' (.option (tid id (8 + p.2)) p.1 Option.none Option.none) o) fun err =>
        match err with
        | f :: _ =>
          if err.isKeyNotFound then raise (keyNotFound id f.key :: err) else raise err
        | [] => raise err)
      plainKeys.zipIdx
    pure (unionV (unionAll pk) (unionAll ks))
  -- `Template.__init__` rejects a template whose `{:name:}` parameters are not all supplied; for the
  -- transient templates built from option values (`Option.keys/explain`) this happens here
  let required := (findKeys t).filter isParamKey
  if required.any (fun k => !(params.any fun p => ":" ++ p.1 ++ ":" == k)) then raise (errOther "ValueError") else
  match op with
  | .evaluate => do
    let ps ← mapM' (fun (p : String × Expr) => do
      let v ← run .evaluate p.2 o
      pure (":" ++ p.1 ++ ":", v)) params
    let v ← resolveM n id (.str t) (mix o (.dict ps)) false
    pure (.str (pyStr v))
  | .validate => do
    let _ ← keyOp .validate
    pure .none
  | op' => keyOp op'

/-! #### WithOptions -/

def withOptionsOp (run : Run) (x : Expr) (p : V) (force : Bool) (op : Op) (o : V) : M V :=
  let mixed := if force then mix o p else mix p o
  -- `WithOptions._provides`
  let provides (key : String) : M Bool := do
    if !(← existsKey key p) then pure false
    else if !force then do
      let ex ← existsKey key o
      pure (!ex)
    else do
      let pv ← getKey key p
      if !pv.isDict then pure true else
      if !(← existsKey key o) then pure true else do
      let ov ← getKey key o
      pure (!ov.isDict)
  let filtered (ks : V) : M V := do
    let kept ← filterM' (fun k =>
      match k with
      | .str s => do let b ← provides s; pure (!b)
      | _ => pure true) ks.setElems
    pure (.set kept)
  match op with
  | .evaluate => run .evaluate x mixed
  | .validate => run .validate x mixed
  | .keys => do let ks ← run .keys x mixed; filtered ks
  | .explain => do let ks ← run .explain x mixed; filtered ks

/-! #### Cached -/

/-- `_cache_disabled(request)`: the context manager, else the two option spellings -/
def cacheDisabled (env : Env) (run : Run) (o : V) : M Bool :=
  if env.cacheCtxOff then pure true else do
    let v ← run .evaluate cacheDisabledOption o
    pure v.truthy

/-- the pure part of `Cacheable.fingerprint`: `[{k: get_dotted_key(k, o)} for k in sorted(keys)]` -/
def fpItems (o : V) : List String → M (List V)
  | [] => pure []
  | k :: ks => do
    let v ← getKey k o
    let rest ← fpItems o ks
    pure (V.dict [(k, v)] :: rest)

/-- `Cacheable.fingerprint(options)` of node `x` -/
def fingerprintOf (run : Run) (x : Expr) (o : V) : M V := do
  let ks ← run .keys x o
  let items ← fpItems o (sortStrings (keyStrings ks))
  pure (.list items)

def lookupStore (c : Nat) (fp : V) (what : String) : M (Option V) := do
  let s ← getSt
  match entryLookup fp (s.cacheEntries c) with
  | some v => do emit (.cacheOp c what fp "hit"); pure (some v)
  | Option.none => do emit (.cacheOp c what fp "miss"); pure Option.none

def forgetEntry (c : Nat) (fp : V) : M Unit :=
  modifySt fun s => s.setCacheEntries c (entryErase fp (s.cacheEntries c))

def storeEntry (c : Nat) (fp v : V) : M Unit := do
  modifySt fun s => s.setCacheEntries c (entryInsert fp v (s.cacheEntries c))
  emit (.cacheOp c "set" fp "stored")

/-- `cache.get(evaluatable, options)` of the backend kinds -/
def backendGet (env : Env) (run : Run) (x : Expr) (c : Nat) (o : V) : M V :=
  match env.cacheKind c with
  | .nocache => raise cacheGetFailure
  | .memory => do
    let fp ← fingerprintOf run x o
    match ← lookupStore c fp "get" with
    | some v => pure v
    | Option.none => raise cacheGetFailure
  | .scripted => do
    if ← blindFault c then do emit (.cacheOp c "get" .none "blind"); raise cacheGetFailure
    else do
    let fp ← fingerprintOf run x o
    let f ← nextFault c
    match f with
    | .miss | .failGet => do emit (.cacheOp c "get" fp "fault"); raise cacheGetFailure
    | .forget => do forgetEntry c fp; emit (.cacheOp c "get" fp "fault"); raise cacheGetFailure
    | _ =>
      match ← lookupStore c fp "get" with
      | some v => pure v
      | Option.none => raise cacheGetFailure

def backendExists (env : Env) (run : Run) (x : Expr) (c : Nat) (o : V) : M Bool :=
  match env.cacheKind c with
  | .nocache => pure false
  | .memory => do
    let fp ← fingerprintOf run x o
    let r ← lookupStore c fp "exists"
    pure r.isSome
  | .scripted => do
    if ← blindFault c then do emit (.cacheOp c "exists" .none "blind"); pure true
    else do
    let fp ← fingerprintOf run x o
    let f ← nextFault c
    match f with
    | .miss => do emit (.cacheOp c "exists" fp "fault"); pure false
    | .lieExists => do emit (.cacheOp c "exists" fp "fault"); pure true
    | .forget => do forgetEntry c fp; emit (.cacheOp c "exists" fp "fault"); pure false
    | _ => do
      let r ← lookupStore c fp "exists"
      pure r.isSome

def backendSet (env : Env) (run : Run) (x : Expr) (c : Nat) (o : V) (v : V) : M Unit :=
  match env.cacheKind c with
  | .nocache => pure ()
  | .memory => do
    let fp ← fingerprintOf run x o
    storeEntry c fp v
  | .scripted => do
    let fp ← fingerprintOf run x o
    let f ← nextFault c
    match f with
    | .miss | .forget => emit (.cacheOp c "set" fp "fault")
    | _ => storeEntry c fp v

/-- the three request handlers of `labrea.cache` -/
def existsReq (env : Env) (run : Run) (x : Expr) (c : Nat) (o : V) : M Bool := do
  emit (.req "cache_exists" x.id)
  if ← cacheDisabled env run o then pure false else backendExists env run x c o

def getReq (env : Env) (run : Run) (x : Expr) (c : Nat) (o : V) : M V := do
  emit (.req "cache_get" x.id)
  if ← cacheDisabled env run o then raise cacheGetFailure else backendGet env run x c o

def setReq (env : Env) (run : Run) (x : Expr) (c : Nat) (o : V) (v : V) : M V := do
  emit (.req "cache_set" x.id)
  if ← cacheDisabled env run o then pure v else do
    backendSet env run x c o v
    handle (backendGet env run x c o) fun err => if err = cacheGetFailure then pure v else raise err

/-- the lookup phase of `Cached.evaluate`: `exists` then `get`; a `CacheGetFailure` falls through -/
def cacheLookup (env : Env) (run : Run) (x : Expr) (c : Nat) (o : V) : M (Option V) := do
  if ← existsReq env run x c o then
    handle (do let v ← getReq env run x c o; pure (some v)) fun err =>
      if err = cacheGetFailure then pure Option.none else raise err
  else pure Option.none

def cachedOp (env : Env) (run : Run) (x : Expr) (c : Nat) (op : Op) (o : V) : M V :=
  match op with
  | .evaluate => do
    let hit ← cacheLookup env run x c o
    match hit with
    | some v => pure v
    | Option.none => do
      let v ← run .evaluate x o
      setReq env run x c o v
  | .validate => do
    if ← existsReq env run x c o then pure .none else run .validate x o
  | .keys => run .keys x o
  | .explain => run .explain x o

/-! #### Computation -/

def computationOp (env : Env) (run : Run) (x : Expr) (effects : List Expr) (op : Op) (o : V) : M V :=
  let off : M Bool := do
    let v ← run .evaluate effectsDisabledOption o
    pure v.truthy
  match op with
  | .evaluate => do
    let v ← run .evaluate x o
    if ← off then pure v else do
      forM' (fun cb => do
        let f ← run .evaluate cb o
        let _ ← call env f [v] []
        pure ()) effects
      pure v
  | .validate => do
    let _ ← run .validate x o
    if ← off then pure .none else do
      forM' (fun cb => do let _ ← run .validate cb o; pure ()) effects
      pure .none
  | .keys => run .keys x o
  | .explain => do
    -- Python evaluates the switch first (conditional expression)
    if ← off then run .explain x o else do
      let a ← run .explain x o
      let bs ← mapM' (fun cb => run .explain cb o) effects
      pure (unionV a (unionAll bs))

/-! #### FunctionApplication / PartialApplication over their `EvaluatableArguments` objects -/

def applicationOp (env : Env) (run : Run) (id : Nat) (f : Expr) (args : List Expr)
    (kw : List (String × Expr)) (partial_ : Bool) (op : Op) (o : V) : M V :=
  match op with
  | .evaluate => do
    let fv ← run .evaluate f o
    let (as, ks) ← pseudo op (tid id 1) (do
      let as ← pseudo op (tid id 2) (mapM' (fun x => run .evaluate x o) args)
      let ks ← pseudo op (tid id 3) (mapM' (fun (p : String × Expr) => do
        let v ← run .evaluate p.2 o
        pure (p.1, v)) kw)
      pure (as, ks))
    if partial_ then
      match mkPartial fv as ks with
      | some p => pure p
      | Option.none => raise (errOther "TypeError")
    else call env fv as ks
  | .validate => do
    let _ ← run .validate f o
    pseudo op (tid id 1) (do
      pseudo op (tid id 2) (forM' (fun x => do let _ ← run .validate x o; pure ()) args)
      pseudo op (tid id 3) (forM' (fun (p : String × Expr) => do let _ ← run .validate p.2 o; pure ()) kw))
    pure .none
  | op' => do
    let a ← run op' f o
    let b ← pseudo op (tid id 1) (do
      let x ← pseudo op (tid id 2) (unionOver run op' args o)
      let y ← pseudo op (tid id 3) (unionOver run op' (kw.map Prod.snd) o)
      pure (unionV x y))
    pure (unionV a b)

/-! #### Namespace -/

/-- `Namespace._populate` (fuel bounds the nesting depth of namespaces) -/
def populate (run : Run) (o : V) : Nat → V → List (String × Expr) → M V
  | _, acc, [] => pure acc
  | 0, _, _ => outOfFuel
  | d + 1, acc, (_, m) :: rest =>
    match m with
    | .option _ k _ _ => do
      let v ← run .evaluate m o
      match setPath (splitKey k) v [] with
      | some new => populate run o (d + 1) (mix acc (.dict new)) rest
      | Option.none => raise (errOther "TypeError")
    | .namespace _ _ sub => do
      let acc' ← populate run o d acc sub
      populate run o (d + 1) acc' rest
    | _ => populate run o (d + 1) acc rest
termination_by d _ l => (d, l.length)

def namespaceOp (run : Run) (n : Nat) (id : Nat) (key : String) (members : List (String × Expr))
    (op : Op) (o : V) : M V :=
  match op with
  | .evaluate => do
    let r ← populate run o n (.dict []) members
    -- `get_dotted_key(self.key, populated)`: a dotted lookup like any other (in the populated dictionary)
    emit (.read key)
    match getDotted key r with
    | .found v => pure v
    | .keyErr => raise (errOther "KeyError")
    | .typeErr => raise (errOther "TypeError")
  | .validate => do
    forM' (fun (p : String × Expr) => do let _ ← run .validate p.2 o; pure ()) members
    let sect ← run .evaluate (.option (tid id 1) key (some (.value (tid id 2) (.dict []))) Option.none) o
    match iterElems sect with
    | some _ => pure .none
    | Option.none => raise (errOther "TypeError")
  | op' => unionOver run op' (members.map Prod.snd) o

/-- consumption of the generator an `Iter` evaluates to.  A member that is itself an `Iter`
    (the pairs of `evaluatable_dict`) yields a generator in turn, consumed in place by the
    consumer (`dict`): same order, but outside any request of the inner `Iter`.
    Fuel bounds the nesting depth. -/
def consumeIter (run : Run) (o : V) : Nat → List Expr → M (List V)
  | _, [] => pure []
  | 0, _ => outOfFuel
  | d + 1, y :: rest => do
    let v ← (match y with
      | .iter yid ys => do
        emit (.req "evaluate" yid)
        let vs ← consumeIter run o d ys
        pure (V.list vs)
      | _ => run .evaluate y o)
    let vs ← consumeIter run o (d + 1) rest
    pure (v :: vs)
termination_by d l => (d, l.length)

/-! #### The interpreter proper -/

/-- one node's own operation (`__labrea_evaluate__` etc.), children through `run` -/
def nodeOp (env : Env) (run : Run) (n : Nat) (op : Op) (e : Expr) (o : V) : M V :=
  match e with
  | .value _ v =>
    match op with
    | .evaluate => pure v
    | .validate => pure .none
    | _ => pure (.set [])
  | .option id key dflt dom => optionOp env run n e id key dflt dom op o
  | .apply _ x f =>
    match op with
    | .evaluate =>
      -- `Iter` / `Map` evaluate to *generators*: their members run when the applied function
      -- consumes them, i.e. after the function expression was evaluated and outside the
      -- Iter's / Map's own request
      match x with
      | .iter xid es => do
        emit (.req "evaluate" xid)
        let fn ← run .evaluate f o
        let vs ← consumeIter run o n es
        call env fn [.list vs] []
      | .map xid y its => do
        let asg ← pseudo .evaluate xid (mapAssignments run its o)
        let fn ← run .evaluate f o
        let rows ← mapRows run xid y o asg
        call env fn [rows] []
      | _ => do
        let v ← run .evaluate x o
        let fn ← run .evaluate f o
        call env fn [v] []
    | .validate => do
      let _ ← run .validate x o
      let _ ← run .validate f o
      pure .none
    | op' => do
      let a ← run op' x o
      let b ← run op' f o
      pure (unionV a b)
  | .bind id x k =>
    bindOp run id x (fun v => match env.binds k v with
      | .ok e' => pure e'
      | .error cls => raise (errOther cls)) op o
  | .switch id d lookup dflt => switchOp run id d lookup dflt op o
  | .dependsOn _ x d =>
    match op with
    | .evaluate => run .evaluate x o
    | .validate => run .validate x o
    | op' => do
      let a ← run op' x o
      let b ← run op' d o
      pure (unionV a b)
  | .caseWhen id d cases dflt =>
    -- `self.dispatch.bind(partial(self._evaluate, options=options))`: a transient Bind
    pseudo op (tid id 1)
      (bindOp run (tid id 1) d (fun v => chooseCase env run id d dflt o v [] cases) op o)
  | .coalesce _ ms => coalesceOp run ms op o
  | .iter _ es =>
    match op with
    | .evaluate => do
      -- eager stand-in for the generator (consumed by the enclosing `apply`)
      let vs ← mapM' (fun x => run .evaluate x o) es
      pure (.list vs)
    | .validate => do
      forM' (fun x => do let _ ← run .validate x o; pure ()) es
      pure .none
    | op' => unionOver run op' es o
  | .map id x its => mapOp run id x its op o
  | .template id t params => templateOp run n id t params op o
  | .withOptions _ x p force => withOptionsOp run x p force op o
  | .allOptions id =>
    match op with
    | .evaluate => do
      emit .readAll
      match resolveR n o o with
      | Option.none => outOfFuel
      | some (.ok v, _) => pure v
      | some (.error (.key k), _) => raise (keyNotFound id k :: errOther "KeyError")
      | some (.error .type, _) => raise (errOther "TypeError")
    | .validate => do let _ ← run .evaluate e o; pure .none
    | _ => do
      emit .readAll
      match o with
      | .dict kvs => pure (keySet (akeys kvs))
      | _ => pure (.set [])
  | .cached _ x c => cachedOp env run x c op o
  | .logged _ x msg =>
    match op with
    | .evaluate => do
      emit (.req "log" x.id)
      if env.logCtxOff then pure ()
      else do
        let v ← run .evaluate loggingDisabledOption o
        emit (.log msg (!v.truthy))
      run .evaluate x o
    | op' => run op' x o
  | .computation _ x effects => computationOp env run x effects op o
  | .funApp id f args kw => applicationOp env run id f args kw false op o
  | .partialApp id f args kw => applicationOp env run id f args kw true op o
  | .pipelineStep _ step => run op step o
  | .pipeline _ tail rest =>
    match op with
    | .evaluate => do
      let t ← run .evaluate tail o
      match rest with
      | some r => do
        let rv ← run .evaluate r o
        pure (.comp [rv, t])
      | Option.none => pure (.comp [t])
    | .validate => do
      let _ ← run .validate tail o
      match rest with
      | some r => run .validate r o
      | Option.none => pure .none
    | op' => do
      let a ← run op' tail o
      match rest with
      | some r => do let b ← run op' r o; pure (unionV a b)
      | Option.none => pure a
  | .overloaded id ov =>
    -- `Overloaded.switch`: a fresh Switch over the *current* table
    let r := env.ov ov
    run op (.switch (tid id 1) r.dispatch r.table r.dflt) o
  | .dataset id ds =>
    -- `Dataset._composed`, rebuilt at every use
    let r := env.ds ds
    let calculation := Expr.apply (tid id 1) (.overloaded (tid id 7) r.ov) r.callback
    let base := if r.effectsDisabled then calculation else .computation (tid id 2) calculation r.effects
    run op
      (.withOptions (tid id 6)
        (.withOptions (tid id 5)
          (.cached (tid id 4) (.logged (tid id 3) base r.msg) r.cache)
          r.options true)
        r.defaultOptions false) o
  | .namespace id key members => namespaceOp run n id key members op o

/-- the interpreter: one request = one unit of fuel -/
def ev (env : Env) : Nat → Op → Expr → V → M V
  | 0, _, _, _ => outOfFuel
  | n + 1, op, e, o => do
    emit (.req op.name e.id)
    match op with
    | .evaluate =>
      match env.subst with
      | some (sid, v) =>
        if sid == e.id && sid != 0 then pure v
        else wrapEvaluate e.id (nodeOp env (ev env n) n op e o)
      | Option.none => wrapEvaluate e.id (nodeOp env (ev env n) n op e o)
    | _ => nodeOp env (ev env n) n op e o

end Labrea

/-
  Store-free computations: `U m r` = "from EVERY state, `m` terminates with outcome `r` and leaves caches and fault
  scripts alone" (it may append events).  Closed under the monad operations; one lemma per node kind that a dataset's
  composition uses, given the same fact about the children.  Used to discharge the hypotheses of
  `FingerprintSound` (CacheTransparency.lean) for datasets under the real interpreter.
-/
import LabreaModel.CacheTransparency
namespace Labrea

def SameCS (s s' : St) : Prop := s'.caches = s.caches ∧ s'.scripts = s.scripts

structure U {α} (m : M α) (r : Except Err α) : Prop where
  run : ∀ s, ∃ s', m s = some (r, s') ∧ SameCS s s'

theorem SameCS.refl (s : St) : SameCS s s := ⟨rfl, rfl⟩
theorem SameCS.trans {a b c : St} (h1 : SameCS a b) (h2 : SameCS b c) : SameCS a c :=
  ⟨h2.1.trans h1.1, h2.2.trans h1.2⟩

theorem U.E {α} {m : M α} {r} (h : U m r) (c : Nat) (s : St) : ∃ s', m s = some (r, s') ∧ s'.E c = s.E c := by
  obtain ⟨s', h1, h2⟩ := h.run s
  exact ⟨s', h1, by simp [St.E, St.cacheEntries, h2.1]⟩

theorem u_pure {α} (a : α) : U (pure a : M α) (.ok a) := ⟨fun s => ⟨s, by simp [pure_run], SameCS.refl s⟩⟩

theorem u_raise {α} (e : Err) : U (raise e : M α) (.error e) := ⟨fun s => ⟨s, by simp [raise_run], SameCS.refl s⟩⟩

theorem u_emit (e : Event) : U (emit e) (.ok ()) :=
  ⟨fun s => ⟨{ s with events := e :: s.events }, by simp [emit_run], ⟨rfl, rfl⟩⟩⟩

theorem u_bind {α β} {m : M α} {f : α → M β} {a : α} {r : Except Err β} (hm : U m (.ok a)) (hf : U (f a) r) :
    U (m >>= f) r := by
  refine ⟨fun s => ?_⟩
  obtain ⟨s1, h1, c1⟩ := hm.run s
  obtain ⟨s2, h2, c2⟩ := hf.run s1
  exact ⟨s2, by simp [bind_run, h1, h2], c1.trans c2⟩

theorem u_bind_err {α β} {m : M α} {f : α → M β} {e : Err} (hm : U m (.error e)) : U (m >>= f) (.error e) := by
  refine ⟨fun s => ?_⟩
  obtain ⟨s1, h1, c1⟩ := hm.run s
  exact ⟨s1, by simp [bind_run, h1], c1⟩

theorem u_handle_ok {α} {m : M α} {k : Err → M α} {a : α} (hm : U m (.ok a)) : U (handle m k) (.ok a) := by
  refine ⟨fun s => ?_⟩
  obtain ⟨s1, h1, c1⟩ := hm.run s
  exact ⟨s1, by simp [handle, h1], c1⟩

theorem u_wrapEvaluate_ok {α} (id : Nat) {m : M α} {a : α} (hm : U m (.ok a)) : U (wrapEvaluate id m) (.ok a) :=
  u_handle_ok hm

theorem u_emitAll : ∀ evs : List Event, U (emitAll evs) (.ok ())
  | [] => by simpa [emitAll] using u_pure ()
  | e :: es => by simp only [emitAll]; exact u_bind (u_emit e) (u_emitAll es)

theorem u_congr {α} {m m' : M α} {r} (h : m = m') (hm : U m' r) : U m r := h ▸ hm

end Labrea

namespace Labrea

/-! ### the interpreter's request wrapper -/

theorem u_ev_evaluate {env : Env} (hsub : env.subst = Option.none) {n : Nat} {e : Expr} {o v : V}
    (h : U (nodeOp env (ev env n) n .evaluate e o) (.ok v)) : U (ev env (n + 1) .evaluate e o) (.ok v) := by
  unfold ev
  simp only [hsub]
  exact u_bind (u_emit _) (u_wrapEvaluate_ok _ h)

theorem u_ev_keys {env : Env} {n : Nat} {e : Expr} {o : V} {r : Except Err V}
    (h : U (nodeOp env (ev env n) n .keys e o) r) : U (ev env (n + 1) .keys e o) r := by
  unfold ev
  exact u_bind (u_emit _) h

/-! ### node kinds (evaluate), given the children -/

section
variable (env : Env) (run : Run) (n : Nat) (o : V)

theorem u_value_evaluate (id : Nat) (v : V) : U (nodeOp env run n .evaluate (.value id v) o) (.ok v) := by
  simp only [nodeOp]; exact u_pure v

theorem u_value_keys (id : Nat) (v : V) : U (nodeOp env run n .keys (.value id v) o) (.ok (.set [])) := by
  simp only [nodeOp]; exact u_pure _

theorem u_readKey (key : String) : U (readKey key o) (.ok (getDotted key o)) := by
  unfold readKey; exact u_bind (u_emit _) (u_pure _)

/-- a present integer option -/
theorem u_option_int (self : Expr) (id : Nat) (key : String) (i : Int) (h : getDotted key o = .found (.int i)) :
    U (optionOp env run (n + 1) self id key Option.none Option.none .evaluate o) (.ok (.int i)) := by
  refine ⟨fun s => ?_⟩
  simp [optionOp, readKey, bind_run, emit_run, pure_run, h, resolveM, resolveR, emitAll]
  exact ⟨rfl, rfl⟩

theorem u_option_int_keys (self : Expr) (id : Nat) (key : String) (i : Int) (h : getDotted key o = .found (.int i)) :
    U (optionOp env run n self id key Option.none Option.none .keys o) (.ok (keySet [key])) := by
  refine ⟨fun s => ?_⟩
  simp [optionOp, existsKey, getKey, readKey, bind_run, emit_run, pure_run, h, templatedStrings, mapM', unionAll, unionV,
    unionKeys, keySet, dedup, V.setElems]
  exact ⟨rfl, rfl⟩

/-- an absent option with a default -/
theorem u_option_default (self : Expr) (id : Nat) (key : String) (d : Expr) (v : V) (h : getDotted key o = .keyErr)
    (hd : U (run .evaluate d o) (.ok v)) :
    U (optionOp env run n self id key (some d) Option.none .evaluate o) (.ok v) := by
  unfold optionOp
  simp only []
  refine u_bind (a := v) (u_bind (u_readKey o key) ?_) (u_bind (u_emit _) (u_bind (u_pure ()) (u_pure v)))
  simp only [h]; exact hd

/-- `Logged.evaluate`: the log request, the option switch, then the inner evaluation -/
theorem u_logged (id : Nat) (x : Expr) (msg : String) (sw : V) (r : Except Err V) (hctx : env.logCtxOff = false)
    (hsw : U (run .evaluate loggingDisabledOption o) (.ok sw)) (hx : U (run .evaluate x o) r) :
    U (nodeOp env run n .evaluate (.logged id x msg) o) r := by
  simp only [nodeOp, hctx, Bool.false_eq_true, if_false]
  exact u_bind (u_emit _) (u_bind hsw (u_bind (u_emit _) hx))

theorem u_logged_keys (id : Nat) (x : Expr) (msg : String) (r : Except Err V) (hx : U (run .keys x o) r) :
    U (nodeOp env run n .keys (.logged id x msg) o) r := by
  simp only [nodeOp]; exact hx

/-- `Computation.evaluate` without effects -/
theorem u_computation_noeffects (id : Nat) (x : Expr) (v sw : V) (hx : U (run .evaluate x o) (.ok v))
    (hsw : U (run .evaluate effectsDisabledOption o) (.ok sw)) :
    U (nodeOp env run n .evaluate (.computation id x []) o) (.ok v) := by
  simp only [nodeOp, computationOp]
  refine u_bind hx (u_bind (u_bind hsw (u_pure _)) ?_)
  split
  · exact u_pure v
  · simp only [forM']; exact u_bind (u_pure ()) (u_pure v)

theorem u_computation_keys (id : Nat) (x : Expr) (effects : List Expr) (r : Except Err V) (hx : U (run .keys x o) r) :
    U (nodeOp env run n .keys (.computation id x effects) o) r := by
  simp only [nodeOp, computationOp]; exact hx

/-- a call whose callee runs no user code in `β`'s sense beyond returning `w` -/
theorem u_call (f : V) (a : List V) (k : List (String × V)) (w : V) (evs : List Event)
    (h : callV env.β f a k = (.ok w, evs)) : U (call env f a k) (.ok w) := by
  unfold call
  simp only [h]
  exact u_bind (u_emitAll evs) (u_pure w)

/-- `Apply.evaluate` (the applied expression is not an `Iter` / `Map`) -/
theorem u_apply (id : Nat) (x f : Expr) (v fn w : V) (evs : List Event)
    (hnotiter : ∀ i es, x ≠ .iter i es) (hnotmap : ∀ i y its, x ≠ .map i y its)
    (hx : U (run .evaluate x o) (.ok v)) (hf : U (run .evaluate f o) (.ok fn))
    (hc : callV env.β fn [v] [] = (.ok w, evs)) :
    U (nodeOp env run n .evaluate (.apply id x f) o) (.ok w) := by
  cases x <;> simp only [nodeOp] <;>
    first
    | exact u_bind hx (u_bind hf (u_call env fn [v] [] w evs hc))
    | exact absurd rfl (hnotiter _ _)
    | exact absurd rfl (hnotmap _ _ _)

theorem u_apply_keys (id : Nat) (x f : Expr) (a b : V) (hx : U (run .keys x o) (.ok a)) (hf : U (run .keys f o) (.ok b)) :
    U (nodeOp env run n .keys (.apply id x f) o) (.ok (unionV a b)) := by
  simp only [nodeOp]
  exact u_bind hx (u_bind hf (u_pure _))

/-- an `Overloaded` is a fresh `Switch` over the current table -/
theorem u_overloaded (op : Op) (id ov : Nat) (r : Except Err V)
    (h : U (run op (.switch (tid id 1) (env.ov ov).dispatch (env.ov ov).table (env.ov ov).dflt) o) r) :
    U (nodeOp env run n op (.overloaded id ov) o) r := by
  simp only [nodeOp]; exact h

/-- a `Switch` whose dispatch evaluates to a value outside the table, with a default: the default, depending on the
    dispatch -/
theorem u_switch_default (op : Op) (hop : op ≠ .explain) (id : Nat) (d : Expr) (lookup : List (V × Expr)) (df : Expr)
    (key : V) (r : Except Err V) (hd : U (run .evaluate d o) (.ok key)) (hh : hashable key = true)
    (hnone : lookup.find? (fun p => pyEq p.1 key) = Option.none)
    (hdf : U (run op (.dependsOn (tid id 1) df d) o) r) :
    U (nodeOp env run n op (.switch id d lookup (some df)) o) r := by
  have hl : U (switchLookup run id d lookup (some df) o) (.ok (.dependsOn (tid id 1) df d)) := by
    unfold switchLookup
    refine u_bind (u_handle_ok (u_bind hd (u_pure (Sum.inl key)))) ?_
    simp only [hh, Bool.not_true, Bool.false_eq_true, if_false, hnone]
    exact u_pure _
  cases op <;> simp only [nodeOp, switchOp] <;> first | exact u_bind hl hdf | exact absurd rfl hop

theorem u_dependsOn_evaluate (id : Nat) (x d : Expr) (r : Except Err V) (hx : U (run .evaluate x o) r) :
    U (nodeOp env run n .evaluate (.dependsOn id x d) o) r := by
  simp only [nodeOp]; exact hx

theorem u_dependsOn_keys (id : Nat) (x d : Expr) (a b : V) (hx : U (run .keys x o) (.ok a)) (hd : U (run .keys d o) (.ok b)) :
    U (nodeOp env run n .keys (.dependsOn id x d) o) (.ok (unionV a b)) := by
  simp only [nodeOp]; exact u_bind hx (u_bind hd (u_pure _))

theorem u_mapM' {α β} {f : α → M β} {g : α → β} : ∀ xs : List α, (∀ x ∈ xs, U (f x) (.ok (g x))) →
    U (mapM' f xs) (.ok (xs.map g))
  | [], _ => by simpa [mapM'] using u_pure ([] : List β)
  | x :: xs, h => by
    simp only [mapM', List.map_cons]
    exact u_bind (h x (by simp)) (u_bind (u_mapM' xs (fun y hy => h y (by simp [hy]))) (u_pure _))

theorem u_pseudo_evaluate_ok {α} (pid : Nat) {m : M α} {a : α} (hm : U m (.ok a)) : U (pseudo .evaluate pid m) (.ok a) := by
  unfold pseudo
  simp only [if_true]
  exact u_bind (u_emit _) (u_wrapEvaluate_ok pid hm)

theorem u_pseudo_keys {α} (pid : Nat) {m : M α} {r : Except Err α} (hm : U m r) : U (pseudo .keys pid m) r := by
  unfold pseudo
  simp only [reduceCtorEq, if_false]
  exact u_bind (u_emit _) hm

/-- `FunctionApplication.evaluate`: function, positional and keyword arguments, then the call -/
theorem u_funApp (id : Nat) (f : Expr) (args : List Expr) (kw : List (String × Expr)) (fv : V)
    (av : Expr → V) (kv : String × Expr → V) (w : V) (evs : List Event)
    (hf : U (run .evaluate f o) (.ok fv)) (ha : ∀ x ∈ args, U (run .evaluate x o) (.ok (av x)))
    (hk : ∀ p ∈ kw, U (run .evaluate p.2 o) (.ok (kv p)))
    (hc : callV env.β fv (args.map av) (kw.map fun p => (p.1, kv p)) = (.ok w, evs)) :
    U (nodeOp env run n .evaluate (.funApp id f args kw) o) (.ok w) := by
  simp only [nodeOp, applicationOp, Bool.false_eq_true, if_false]
  refine u_bind hf (u_bind (a := (args.map av, kw.map fun p => (p.1, kv p))) ?_ (u_call env fv _ _ w evs hc))
  refine u_pseudo_evaluate_ok _ (u_bind (u_pseudo_evaluate_ok _ (u_mapM' args ha)) (u_bind (u_pseudo_evaluate_ok _ ?_) (u_pure _)))
  have hkw : ∀ p ∈ kw, U (do let v ← run .evaluate p.2 o; pure (p.1, v) : M (String × V)) (.ok (p.1, kv p)) :=
    fun p hp => u_bind (hk p hp) (u_pure (p.1, kv p))
  exact u_mapM' (g := fun p => (p.1, kv p)) kw hkw

theorem u_funApp_keys (id : Nat) (f : Expr) (args : List Expr) (kw : List (String × Expr)) (fk : V)
    (ak : Expr → V) (hf : U (run .keys f o) (.ok fk)) (ha : ∀ x ∈ args, U (run .keys x o) (.ok (ak x)))
    (hk : ∀ x ∈ kw.map Prod.snd, U (run .keys x o) (.ok (ak x))) :
    U (nodeOp env run n .keys (.funApp id f args kw) o)
      (.ok (unionV fk (unionV (unionAll (args.map ak)) (unionAll ((kw.map Prod.snd).map ak))))) := by
  simp only [nodeOp, applicationOp, unionOver]
  refine u_bind hf (u_bind (u_pseudo_keys _ (u_bind (u_pseudo_keys _ (u_bind (u_mapM' args ha) (u_pure _)))
    (u_bind (u_pseudo_keys _ (u_bind (u_mapM' _ hk) (u_pure _))) (u_pure _)))) (u_pure _))

/-- the identity callback of a dataset: `Pipeline()` over one identity step -/
theorem u_pipeline_single (id : Nat) (tail : Expr) (t : V) (ht : U (run .evaluate tail o) (.ok t)) :
    U (nodeOp env run n .evaluate (.pipeline id tail Option.none) o) (.ok (.comp [t])) := by
  simp only [nodeOp]; exact u_bind ht (u_pure _)

theorem u_pipeline_single_keys (id : Nat) (tail : Expr) (r : Except Err V) (ht : U (run .keys tail o) r) :
    U (nodeOp env run n .keys (.pipeline id tail Option.none) o) r := by
  simp only [nodeOp]
  cases r with
  | error e => exact u_bind_err ht
  | ok a => exact u_bind ht (u_pure a)

theorem u_pipelineStep (op : Op) (id : Nat) (step : Expr) (r : Except Err V) (h : U (run op step o) r) :
    U (nodeOp env run n op (.pipelineStep id step) o) r := by
  simp only [nodeOp]; exact h

end
end Labrea

/-
  Threads — the `RuntimeSM` state under an arbitrary interleaving of per-thread programs, plus the
  two other pieces of shared state the property C15 speaks of:

    * `Overloaded.register`  : `with self._lock: self.lookup = {**self.lookup, key: value}` as ONE
      atomic read-modify-write of a shared table, and the two-step (read; write) variant that the
      code would be without the lock;
    * `MemoryCache`          : `exists / get / set` as atomic dict operations keyed by fingerprint,
      driven by the control flow of `Cached.evaluate` + the default cache handlers.

  An interleaving is simply a list of `(thread, atomic step)`: any list is allowed, so there is no
  bound on the number of threads or on the length of their programs.  Atomic steps are the
  `with lock:` bodies of runtime.py (`RuntimeSM.step`).  No Mathlib.
-/
import LabreaModel.RuntimeSM

namespace Labrea.Threads
open Labrea.RuntimeSM

/-! ## Handler contexts -/

abbrev Sched := List (Thread × Op)

/-- run an interleaving; the trace records who obtained which result -/
def runSched : Sched → State → State × List (Thread × Res)
  | [], s => (s, [])
  | (t, o) :: rest, s =>
    let out := runSched rest (step s t o).1
    (out.1, (t, (step s t o).2) :: out.2)

/-- the observations of thread `t` in a trace -/
def obsOf (t : Thread) : List (Thread × Res) → List Res
  | [] => []
  | (t', r) :: rest => if t' = t then r :: obsOf t rest else obsOf t rest

/-- the part of the state that belongs to thread `t`: its slot, its saved-runtime stacks on every
    object, its allocation counter -/
structure Slice where
  cur : Option Id
  entered : Id → List (Option Id)
  next : Nat

def slice (s : State) (t : Thread) : Slice := ⟨s.cur t, fun r => (s.objs r).entered t, s.next t⟩

/-- what a step may read outside the thread's slice: the live defaults and the handler tables of
    runtime objects (immutable once created, `RuntimeSM.step_handlers`) -/
structure Shared where
  defaults : Table
  handlers : Id → Table

def shared (s : State) : Shared := ⟨s.defaults, fun r => (s.objs r).handlers⟩

/-- a thread's own step, with `inherit p` resolved to the value read from the parent's slot -/
inductive LOp
  | op (o : Op)
  | adopt (x : Option Id)
  deriving Repr

def toLOp (s : State) : Op → LOp
  | .inherit p => .adopt (s.cur p)
  | o => .op o

/-- the local semantics of one step of thread `t`: a function of the thread's slice and the
    shared read-only data alone -/
def lstep (t : Thread) (e : Shared) : LOp → Slice → Slice × Res
  | .adopt (some r), sl => ({ sl with cur := some r }, .unit)
  | .adopt none, sl => ({ sl with cur := some (t, sl.next), next := sl.next + 1 }, .unit)
  | .op .current, sl =>
      match sl.cur with
      | some r => (sl, .id r)
      | none => ({ sl with cur := some (t, sl.next), next := sl.next + 1 }, .id (t, sl.next))
  | .op (.new _), sl => ({ sl with next := sl.next + 1 }, .id (t, sl.next))
  | .op (.derive _ _), sl => ({ sl with next := sl.next + 1 }, .id (t, sl.next))
  | .op (.handleCur _), sl =>
      match sl.cur with
      | some _ => ({ sl with next := sl.next + 1 }, .id (t, sl.next))
      | none => ({ sl with cur := some (t, sl.next), next := sl.next + 2 }, .id (t, sl.next + 1))
  | .op (.enter r), sl =>
      ({ sl with cur := some r, entered := upd sl.entered r (sl.cur :: sl.entered r) }, .unit)
  | .op (.exit r), sl =>
      match sl.entered r with
      | [] => (sl, .notEntered)
      | prev :: rest => ({ sl with cur := prev, entered := upd sl.entered r rest }, .unit)
  | .op (.registerDefault _ _), sl => (sl, .unit)
  | .op (.run ty), sl =>
      match sl.cur with
      | some r => (sl, serve e.defaults (e.handlers r) ty)
      | none => ({ sl with cur := some (t, sl.next), next := sl.next + 1 },
                 serve e.defaults e.defaults ty)
  | .op (.inherit _), sl => (sl, .unit)      -- never produced by `toLOp`

/-- thread `t`'s view of an interleaving: its own steps, each with the shared data at that moment -/
def localView (t : Thread) : Sched → State → List (Shared × LOp)
  | [], _ => []
  | (t', o) :: rest, s =>
    if t' = t then (shared s, toLOp s o) :: localView t rest (step s t' o).1
    else localView t rest (step s t' o).1

def lrun (t : Thread) : List (Shared × LOp) → Slice → Slice × List Res
  | [], sl => (sl, [])
  | (e, o) :: rest, sl =>
    let out := lrun t rest (lstep t e o sl).1
    (out.1, (lstep t e o sl).2 :: out.2)

/-! ## `Overloaded.register` -/

abbrev Key := Nat
abbrev Val := Nat
abbrev RTable := List (Key × Val)

/-- the locked body: `self.lookup = {**self.lookup, key: value}` -/
def regAtomic (tb : RTable) (k : Key) (v : Val) : RTable := (k, v) :: tb

def runReg : List (Thread × Key × Val) → RTable → RTable
  | [], tb => tb
  | (_, k, v) :: rest, tb => runReg rest (regAtomic tb k v)

/-- without the lock the body is two steps: read the table into a local, write local + entry -/
inductive RStep
  | read
  | write (k : Key) (v : Val)
  deriving DecidableEq, Repr

structure RState where
  table : RTable
  loc : Thread → RTable

def rstep (s : RState) (t : Thread) : RStep → RState
  | .read => { s with loc := upd s.loc t s.table }
  | .write k v => { s with table := (k, v) :: s.loc t }

def runReg2 : List (Thread × RStep) → RState → RState
  | [], s => s
  | (t, st) :: rest, s => runReg2 rest (rstep s t st)

/-! ## `MemoryCache` under concurrent `Cached.evaluate` -/

abbrev Fp := Nat

/-- control state of one thread evaluating the cached dataset with options of fingerprint `fp t` -/
inductive Pc
  | start                -- about to run CacheExistsRequest
  | sawExists            -- exists returned True: about to run CacheGetRequest
  | needSet              -- computed its value: about to `cache.set`
  | afterSet             -- the set handler re-reads: `cache.get`
  | done (v : Val)
  deriving DecidableEq, Repr

structure CState where
  store : Fp → Option Val
  pc : Thread → Pc

/-- one atomic dict operation of thread `t`; `val f` is the value the dataset computes from options
    with fingerprint `f`, `fp t` the fingerprint of thread `t`'s options -/
def cstep (val : Fp → Val) (fp : Thread → Fp) (s : CState) (t : Thread) : CState :=
  match s.pc t with
  | .start =>
      if (s.store (fp t)).isSome then { s with pc := upd s.pc t .sawExists }
      else { s with pc := upd s.pc t .needSet }
  | .sawExists =>
      match s.store (fp t) with
      | some v => { s with pc := upd s.pc t (.done v) }
      | none => { s with pc := upd s.pc t .needSet }
  | .needSet => { store := upd s.store (fp t) (some (val (fp t))), pc := upd s.pc t .afterSet }
  | .afterSet =>
      match s.store (fp t) with
      | some v => { s with pc := upd s.pc t (.done v) }
      | none => { s with pc := upd s.pc t (.done (val (fp t))) }
  | .done _ => s

def runCache (val : Fp → Val) (fp : Thread → Fp) : List Thread → CState → CState
  | [], s => s
  | t :: rest, s => runCache val fp rest (cstep val fp s t)

/-- store invariant: the entry under fingerprint `f` is `val f` -/
def Inv (val : Fp → Val) (store : Fp → Option Val) : Prop := ∀ f v, store f = some v → v = val f

/-! ## Lemmas -/

section lemmas

theorem current_slice_other (s : State) (t t' : Thread) (h : t' ≠ t) :
    slice (current s t).1 t' = slice s t' := by
  unfold current; split
  · rfl
  · simp [slice, h]

theorem alloc_slice_other (s : State) (t t' : Thread) (hs : Table) (h : t' ≠ t) :
    slice (alloc s t hs).1 t' = slice s t' := by
  simp [slice, h]

/-- Frame lemma: a step of another thread does not touch thread `t`'s slice. -/
theorem step_slice_other (s : State) (t t' : Thread) (o : Op) (h : t' ≠ t) :
    slice (step s t o).1 t' = slice s t' := by
  cases o with
  | current => exact current_slice_other s t t' h
  | new hs => exact alloc_slice_other s t t' _ h
  | derive r hs => exact alloc_slice_other s t t' _ h
  | handleCur hs =>
    simp only [step]
    rw [alloc_slice_other _ t t' _ h, current_slice_other s t t' h]
  | enter r =>
    simp only [slice, step, upd_ne _ _ h]
    congr 1
    funext r'
    by_cases e : r' = r
    · subst e; simp [h]
    · simp [e]
  | exit r =>
    simp only [step]
    split
    · rfl
    · simp only [slice, upd_ne _ _ h]
      congr 1
      funext r'
      by_cases e : r' = r
      · subst e; simp [h]
      · simp [e]
  | registerDefault ty hh => rfl
  | run ty => exact current_slice_other s t t' h
  | inherit p =>
    simp only [step]; split
    · simp [slice, h]
    · simp [slice, h]

theorem slice_ext {a b : Slice} (h1 : a.cur = b.cur) (h2 : a.entered = b.entered) (h3 : a.next = b.next) :
    a = b := by
  cases a; cases b; simp_all

/-- a thread's own step is its local step on its slice -/
theorem step_slice_own (s : State) (t : Thread) (o : Op) :
    slice (step s t o).1 t = (lstep t (shared s) (toLOp s o) (slice s t)).1 ∧
    (step s t o).2 = (lstep t (shared s) (toLOp s o) (slice s t)).2 := by
  cases o with
  | current =>
    simp only [step, toLOp, lstep, slice, current]
    cases h : s.cur t <;> simp [h]
  | new hs => simp [step, toLOp, lstep, slice]
  | derive r hs => simp [step, toLOp, lstep, slice]
  | handleCur hs =>
    simp only [step, toLOp, lstep, slice, current]
    cases h : s.cur t <;> simp [h]
  | enter r =>
    simp only [step, toLOp, lstep, slice]
    refine ⟨?_, by first | rfl | trivial⟩
    apply slice_ext
    · simp
    · funext r'
      by_cases e : r' = r
      · subst e; simp
      · simp [e]
    · rfl
  | exit r =>
    simp only [step, toLOp, lstep, slice]
    cases h : (s.objs r).entered t with
    | nil => simp
    | cons p rest =>
      refine ⟨?_, by first | rfl | trivial⟩
      apply slice_ext
      · simp
      · funext r'
        by_cases e : r' = r
        · subst e; simp
        · simp [e]
      · rfl
  | registerDefault ty hh => simp [step, toLOp, lstep, slice]
  | run ty =>
    simp only [step, toLOp, lstep, slice, current, shared]
    cases h : s.cur t <;> simp [h, alloc_handlers]
  | inherit p =>
    simp only [step, toLOp, lstep, slice]
    cases h : s.cur p <;> simp

theorem lrun_view (t : Thread) (sched : Sched) : ∀ (s : State),
    slice (runSched sched s).1 t = (lrun t (localView t sched s) (slice s t)).1 ∧
    obsOf t (runSched sched s).2 = (lrun t (localView t sched s) (slice s t)).2 := by
  induction sched with
  | nil => intro s; exact ⟨rfl, rfl⟩
  | cons hd rest ih =>
    intro s
    obtain ⟨t', o⟩ := hd
    have := ih (step s t' o).1
    by_cases e : t' = t
    · subst e
      have hs := step_slice_own s t' o
      simp only [runSched, localView, lrun, obsOf, if_true]
      rw [← hs.1, ← hs.2]
      exact ⟨this.1, by rw [this.2]⟩
    · have hs := step_slice_other s t' t o (fun h => e h.symm)
      simp only [runSched, localView, obsOf, if_neg e]
      rw [← hs]
      exact this

/-! ### register -/

theorem runReg_keeps (sched : List (Thread × Key × Val)) : ∀ (tb : RTable) (k : Key),
    (tb.lookup k).isSome → ((runReg sched tb).lookup k).isSome := by
  induction sched with
  | nil => intro tb k h; exact h
  | cons hd rest ih =>
    intro tb k h
    obtain ⟨t, k', v'⟩ := hd
    apply ih
    simp only [regAtomic, List.lookup_cons]
    split <;> simp [h]

/-! ### cache -/

theorem cstep_inv (val : Fp → Val) (fp : Thread → Fp) (s : CState) (t : Thread)
    (hI : Inv val s.store) (hD : ∀ t v, s.pc t = .done v → v = val (fp t)) :
    Inv val (cstep val fp s t).store ∧ ∀ t' v, (cstep val fp s t).pc t' = .done v → v = val (fp t') := by
  unfold cstep
  cases hp : s.pc t with
  | start =>
    simp only
    split
    all_goals
      refine ⟨hI, ?_⟩
      intro t' v h
      by_cases e : t' = t
      · subst e; simp at h
      · simp [e] at h; exact hD t' v h
  | sawExists =>
    simp only
    cases hs : s.store (fp t) with
    | some w =>
      refine ⟨hI, ?_⟩
      intro t' v h
      by_cases e : t' = t
      · subst e; simp at h; subst h; exact hI _ _ hs
      · simp [e] at h; exact hD t' v h
    | none =>
      refine ⟨hI, ?_⟩
      intro t' v h
      by_cases e : t' = t
      · subst e; simp at h
      · simp [e] at h; exact hD t' v h
  | needSet =>
    simp only
    refine ⟨?_, ?_⟩
    · intro f v h
      by_cases e : f = fp t
      · subst e; simp at h; exact h.symm
      · rw [upd_ne _ _ e] at h; exact hI f v h
    · intro t' v h
      by_cases e : t' = t
      · subst e; simp at h
      · simp [e] at h; exact hD t' v h
  | afterSet =>
    simp only
    cases hs : s.store (fp t) with
    | some w =>
      refine ⟨hI, ?_⟩
      intro t' v h
      by_cases e : t' = t
      · subst e; simp at h; subst h; exact hI _ _ hs
      · simp [e] at h; exact hD t' v h
    | none =>
      refine ⟨hI, ?_⟩
      intro t' v h
      by_cases e : t' = t
      · subst e; simp at h; exact h.symm
      · simp [e] at h; exact hD t' v h
  | done w => exact ⟨hI, hD⟩

end lemmas

end Labrea.Threads

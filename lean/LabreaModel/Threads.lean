/-
  Threads — the `RuntimeSM` state under an arbitrary interleaving of per-thread programs, plus the
  two other pieces of shared state the property C15 speaks of:

    * `Overloaded.register`  : `with self._lock: self.lookup = {**self.lookup, key: value}` as ONE
      atomic read-modify-write of a shared table, and the two-step (read; write) variant that the
      code would be without the lock;
    * `MemoryCache`          : `exists / get / set` as atomic dict operations keyed by fingerprint,
      driven by the control flow of `Cached.evaluate` + the default cache handlers.

  An interleaving is simply a list of `(thread, atomic step)`: any list is allowed, so there is no
  bound on the number of threads or on the length of their programs.  Atomic steps are the
  `with lock:` bodies of runtime.py (`RuntimeSM.step`).  No Mathlib.
-/
import LabreaModel.RuntimeSM

namespace Labrea.Threads
open Labrea.RuntimeSM

/-! ## Handler contexts -/

abbrev Sched := List (Thread × Op)

/-- run an interleaving; the trace records who obtained which result -/
def runSched : Sched → State → State × List (Thread × Res)
  | [], s => (s, [])
  | (t, o) :: rest, s =>
    let out := runSched rest (step s t o).1
    (out.1, (t, (step s t o).2) :: out.2)

/-- the observations of thread `t` in a trace -/
def obsOf (t : Thread) : List (Thread × Res) → List Res
  | [] => []
  | (t', r) :: rest => if t' = t then r :: obsOf t rest else obsOf t rest

/-- the part of the state that belongs to thread `t`: its slot, its saved-runtime stacks on every
    object, its allocation counter -/
structure Slice where
  cur : Option Id
  entered : Id → List (Option Id)
  next : Nat

def slice (s : State) (t : Thread) : Slice := ⟨s.cur t, fun r => (s.objs r).entered t, s.next t⟩

/-- what a step may read outside the thread's slice: the live defaults and the handler tables of
    runtime objects (immutable once created, `RuntimeSM.step_handlers`) -/
structure Shared where
  defaults : Table
  handlers : Id → Table

def shared (s : State) : Shared := ⟨s.defaults, fun r => (s.objs r).handlers⟩

/-- a thread's own step, with `inherit p` resolved to the value read from the parent's slot -/
inductive LOp
  | op (o : Op)
  | adopt (x : Option Id)
  deriving Repr

def toLOp (s : State) : Op → LOp
  | .inherit p => .adopt (s.cur p)
  | o => .op o

/-- the local semantics of one step of thread `t`: a function of the thread's slice and the
    shared read-only data alone -/
def lstep (t : Thread) (e : Shared) : LOp → Slice → Slice × Res
  | .adopt (some r), sl => ({ sl with cur := some r }, .unit)
  | .adopt none, sl => ({ sl with cur := some (t, sl.next), next := sl.next + 1 }, .unit)
  | .op .current, sl =>
      match sl.cur with
      | some r => (sl, .id r)
      | none => ({ sl with cur := some (t, sl.next), next := sl.next + 1 }, .id (t, sl.next))
  | .op (.new _), sl => ({ sl with next := sl.next + 1 }, .id (t, sl.next))
  | .op (.derive _ _), sl => ({ sl with next := sl.next + 1 }, .id (t, sl.next))
  | .op (.handleCur _), sl =>
      match sl.cur with
      | some _ => ({ sl with next := sl.next + 1 }, .id (t, sl.next))
      | none => ({ sl with cur := some (t, sl.next), next := sl.next + 2 }, .id (t, sl.next + 1))
  | .op (.enter r), sl =>
      ({ sl with cur := some r, entered := upd sl.entered r (sl.cur :: sl.entered r) }, .unit)
  | .op (.exit r), sl =>
      match sl.entered r with
      | [] => (sl, .notEntered)
      | prev :: rest => ({ sl with cur := prev, entered := upd sl.entered r rest }, .unit)
  | .op (.registerDefault _ _), sl => (sl, .unit)
  | .op (.run ty), sl =>
      match sl.cur with
      | some r => (sl, serve e.defaults (e.handlers r) ty)
      | none => ({ sl with cur := some (t, sl.next), next := sl.next + 1 },
                 serve e.defaults e.defaults ty)
  | .op (.inherit _), sl => (sl, .unit)      -- never produced by `toLOp`

/-- thread `t`'s view of an interleaving: its own steps, each with the shared data at that moment -/
def localView (t : Thread) : Sched → State → List (Shared × LOp)
  | [], _ => []
  | (t', o) :: rest, s =>
    if t' = t then (shared s, toLOp s o) :: localView t rest (step s t' o).1
    else localView t rest (step s t' o).1

def lrun (t : Thread) : List (Shared × LOp) → Slice → Slice × List Res
  | [], sl => (sl, [])
  | (e, o) :: rest, sl =>
    let out := lrun t rest (lstep t e o sl).1
    (out.1, (lstep t e o sl).2 :: out.2)

/-! ## `Overloaded.register` -/

abbrev Key := Nat
abbrev Val := Nat
abbrev RTable := List (Key × Val)

/-- the locked body: `self.lookup = {**self.lookup, key: value}` -/
def regAtomic (tb : RTable) (k : Key) (v : Val) : RTable := (k, v) :: tb

def runReg : List (Thread × Key × Val) → RTable → RTable
  | [], tb => tb
  | (_, k, v) :: rest, tb => runReg rest (regAtomic tb k v)

/-- without the lock the body is two steps: read the table into a local, write local + entry -/
inductive RStep
  | read
  | write (k : Key) (v : Val)
  deriving DecidableEq, Repr

structure RState where
  table : RTable
  loc : Thread → RTable

def rstep (s : RState) (t : Thread) : RStep → RState
  | .read => { s with loc := upd s.loc t s.table }
  | .write k v => { s with table := (k, v) :: s.loc t }

def runReg2 : List (Thread × RStep) → RState → RState
  | [], s => s
  | (t, st) :: rest, s => runReg2 rest (rstep s t st)

/-! ## `MemoryCache` under concurrent `Cached.evaluate` -/

abbrev Fp := Nat

/-- control state of one thread evaluating the cached dataset with options of fingerprint `fp t` -/
inductive Pc
  | start                -- about to run CacheExistsRequest
  | sawExists            -- exists returned True: about to run CacheGetRequest
  | needSet              -- computed its value: about to `cache.set`
  | afterSet             -- the set handler re-reads: `cache.get`
  | done (v : Val)
  deriving DecidableEq, Repr

structure CState where
  store : Fp → Option Val
  pc : Thread → Pc

/-- one atomic dict operation of thread `t`; `val f` is the value the dataset computes from options
    with fingerprint `f`, `fp t` the fingerprint of thread `t`'s options -/
def cstep (val : Fp → Val) (fp : Thread → Fp) (s : CState) (t : Thread) : CState :=
  match s.pc t with
  | .start =>
      if (s.store (fp t)).isSome then { s with pc := upd s.pc t .sawExists }
      else { s with pc := upd s.pc t .needSet }
  | .sawExists =>
      match s.store (fp t) with
      | some v => { s with pc := upd s.pc t (.done v) }
      | none => { s with pc := upd s.pc t .needSet }
  | .needSet => { store := upd s.store (fp t) (some (val (fp t))), pc := upd s.pc t .afterSet }
  | .afterSet =>
      match s.store (fp t) with
      | some v => { s with pc := upd s.pc t (.done v) }
      | none => { s with pc := upd s.pc t (.done (val (fp t))) }
  | .done _ => s

def runCache (val : Fp → Val) (fp : Thread → Fp) : List Thread → CState → CState
  | [], s => s
  | t :: rest, s => runCache val fp rest (cstep val fp s t)

/-- what the environment of the threads may do between two of their atomic operations: a thread
    takes its next step, or the backend drops the entry under a fingerprint (a bounded / expiring /
    shared backend; for the thread between its `exists` and its `get` this is indistinguishable from
    another thread's `del`) -/
inductive CEv
  | step (t : Thread)
  | evict (f : Fp)
  deriving DecidableEq, Repr

def evict (s : CState) (f : Fp) : CState := { s with store := upd s.store f none }

def runCacheEv (val : Fp → Val) (fp : Thread → Fp) : List CEv → CState → CState
  | [], s => s
  | .step t :: rest, s => runCacheEv val fp rest (cstep val fp s t)
  | .evict f :: rest, s => runCacheEv val fp rest (evict s f)

/-- the same thread step WITHOUT the fall-through of `Cached.evaluate` (`except CacheGetFailure:
    pass`): a `get` that misses after `exists` said True propagates its failure — `none` -/
def cstepStrict (val : Fp → Val) (fp : Thread → Fp) (s : CState) (t : Thread) : Option CState :=
  match s.pc t, s.store (fp t) with
  | .sawExists, none => none
  | _, _ => some (cstep val fp s t)

def runStrictEv (val : Fp → Val) (fp : Thread → Fp) : List CEv → CState → Option CState
  | [], s => some s
  | .step t :: rest, s => (cstepStrict val fp s t).bind (runStrictEv val fp rest)
  | .evict f :: rest, s => runStrictEv val fp rest (evict s f)

/-- store invariant: the entry under fingerprint `f` is `val f` -/
def Inv (val : Fp → Val) (store : Fp → Option Val) : Prop := ∀ f v, store f = some v → v = val f

/-! ## Lemmas -/

section lemmas

theorem current_slice_other (s : State) (t t' : Thread) (h : t' ≠ t) :
    slice (current s t).1 t' = slice s t' := by
  unfold current; split
  · rfl
  · simp [slice, h]

theorem alloc_slice_other (s : State) (t t' : Thread) (hs : Table) (h : t' ≠ t) :
    slice (alloc s t hs).1 t' = slice s t' := by
  simp [slice, h]

/-- Frame lemma: a step of another thread does not touch thread `t`'s slice. -/
theorem step_slice_other (s : State) (t t' : Thread) (o : Op) (h : t' ≠ t) :
    slice (step s t o).1 t' = slice s t' := by
  cases o with
  | current => exact current_slice_other s t t' h
  | new hs => exact alloc_slice_other s t t' _ h
  | derive r hs => exact alloc_slice_other s t t' _ h
  | handleCur hs =>
    simp only [step]
    rw [alloc_slice_other _ t t' _ h, current_slice_other s t t' h]
  | enter r =>
    simp only [slice, step, upd_ne _ _ h]
    congr 1
    funext r'
    by_cases e : r' = r
    · subst e; simp [h]
    · simp [e]
  | exit r =>
    simp only [step]
    split
    · rfl
    · simp only [slice, upd_ne _ _ h]
      congr 1
      funext r'
      by_cases e : r' = r
      · subst e; simp [h]
      · simp [e]
  | registerDefault ty hh => rfl
  | run ty => exact current_slice_other s t t' h
  | inherit p =>
    simp only [step]; split
    · simp [slice, h]
    · simp [slice, h]

theorem slice_ext {a b : Slice} (h1 : a.cur = b.cur) (h2 : a.entered = b.entered) (h3 : a.next = b.next) :
    a = b := by
  cases a; cases b; simp_all

/-- a thread's own step is its local step on its slice -/
theorem step_slice_own (s : State) (t : Thread) (o : Op) :
    slice (step s t o).1 t = (lstep t (shared s) (toLOp s o) (slice s t)).1 ∧
    (step s t o).2 = (lstep t (shared s) (toLOp s o) (slice s t)).2 := by
  cases o with
  | current =>
    simp only [step, toLOp, lstep, slice, current]
    cases h : s.cur t <;> simp [h]
  | new hs => simp [step, toLOp, lstep, slice]
  | derive r hs => simp [step, toLOp, lstep, slice]
  | handleCur hs =>
    simp only [step, toLOp, lstep, slice, current]
    cases h : s.cur t <;> simp [h]
  | enter r =>
    simp only [step, toLOp, lstep, slice]
    refine ⟨?_, by first | rfl | trivial⟩
    apply slice_ext
    · simp
    · funext r'
      by_cases e : r' = r
      · subst e; simp
      · simp [e]
    · rfl
  | exit r =>
    simp only [step, toLOp, lstep, slice]
    cases h : (s.objs r).entered t with
    | nil => simp
    | cons p rest =>
      refine ⟨?_, by first | rfl | trivial⟩
      apply slice_ext
      · simp
      · funext r'
        by_cases e : r' = r
        · subst e; simp
        · simp [e]
      · rfl
  | registerDefault ty hh => simp [step, toLOp, lstep, slice]
  | run ty =>
    simp only [step, toLOp, lstep, slice, current, shared]
    cases h : s.cur t <;> simp [h, alloc_handlers]
  | inherit p =>
    simp only [step, toLOp, lstep, slice]
    cases h : s.cur p <;> simp

theorem lrun_view (t : Thread) (sched : Sched) : ∀ (s : State),
    slice (runSched sched s).1 t = (lrun t (localView t sched s) (slice s t)).1 ∧
    obsOf t (runSched sched s).2 = (lrun t (localView t sched s) (slice s t)).2 := by
  induction sched with
  | nil => intro s; exact ⟨rfl, rfl⟩
  | cons hd rest ih =>
    intro s
    obtain ⟨t', o⟩ := hd
    have := ih (step s t' o).1
    by_cases e : t' = t
    · subst e
      have hs := step_slice_own s t' o
      simp only [runSched, localView, lrun, obsOf, if_true]
      rw [← hs.1, ← hs.2]
      exact ⟨this.1, by rw [this.2]⟩
    · have hs := step_slice_other s t' t o (fun h => e h.symm)
      simp only [runSched, localView, obsOf, if_neg e]
      rw [← hs]
      exact this

/-! ### register -/

theorem runReg_keeps (sched : List (Thread × Key × Val)) : ∀ (tb : RTable) (k : Key),
    (tb.lookup k).isSome → ((runReg sched tb).lookup k).isSome := by
  induction sched with
  | nil => intro tb k h; exact h
  | cons hd rest ih =>
    intro tb k h
    obtain ⟨t, k', v'⟩ := hd
    apply ih
    simp only [regAtomic, List.lookup_cons]
    split <;> simp [h]

/-! ### cache -/

theorem cstep_inv (val : Fp → Val) (fp : Thread → Fp) (s : CState) (t : Thread)
    (hI : Inv val s.store) (hD : ∀ t v, s.pc t = .done v → v = val (fp t)) :
    Inv val (cstep val fp s t).store ∧ ∀ t' v, (cstep val fp s t).pc t' = .done v → v = val (fp t') := by
  unfold cstep
  cases hp : s.pc t with
  | start =>
    simp only
    split
    all_goals
      refine ⟨hI, ?_⟩
      intro t' v h
      by_cases e : t' = t
      · subst e; simp at h
      · simp [e] at h; exact hD t' v h
  | sawExists =>
    simp only
    cases hs : s.store (fp t) with
    | some w =>
      refine ⟨hI, ?_⟩
      intro t' v h
      by_cases e : t' = t
      · subst e; simp at h; subst h; exact hI _ _ hs
      · simp [e] at h; exact hD t' v h
    | none =>
      refine ⟨hI, ?_⟩
      intro t' v h
      by_cases e : t' = t
      · subst e; simp at h
      · simp [e] at h; exact hD t' v h
  | needSet =>
    simp only
    refine ⟨?_, ?_⟩
    · intro f v h
      by_cases e : f = fp t
      · subst e; simp at h; exact h.symm
      · rw [upd_ne _ _ e] at h; exact hI f v h
    · intro t' v h
      by_cases e : t' = t
      · subst e; simp at h
      · simp [e] at h; exact hD t' v h
  | afterSet =>
    simp only
    cases hs : s.store (fp t) with
    | some w =>
      refine ⟨hI, ?_⟩
      intro t' v h
      by_cases e : t' = t
      · subst e; simp at h; subst h; exact hI _ _ hs
      · simp [e] at h; exact hD t' v h
    | none =>
      refine ⟨hI, ?_⟩
      intro t' v h
      by_cases e : t' = t
      · subst e; simp at h; exact h.symm
      · simp [e] at h; exact hD t' v h
  | done w => exact ⟨hI, hD⟩

theorem evict_inv (val : Fp → Val) (s : CState) (f : Fp) (hI : Inv val s.store) :
    Inv val (evict s f).store := by
  intro g v h
  unfold evict at h
  by_cases e : g = f
  · subst e; simp at h
  · simp only [upd_ne _ _ e] at h; exact hI g v h

/-- without evictions an entry a thread saw is still there when it reads it -/
def Seen (fp : Thread → Fp) (s : CState) : Prop := ∀ t, s.pc t = .sawExists → (s.store (fp t)).isSome = true

set_option linter.unusedSimpArgs false in
theorem cstep_seen (val : Fp → Val) (fp : Thread → Fp) (s : CState) (t : Thread) (h : Seen fp s) :
    Seen fp (cstep val fp s t) := by
  intro t' ht'
  unfold cstep at ht' ⊢
  cases hp : s.pc t with
  | start =>
    simp only [hp] at ht' ⊢
    split at ht' <;> rename_i hs <;> simp only [hs, if_true, if_false] <;>
    · by_cases e : t' = t
      · subst e; simp at ht' <;> simpa using hs
      · simp [e] at ht'; simpa using h t' ht'
  | sawExists =>
    simp only [hp] at ht' ⊢
    cases hs : s.store (fp t) with
    | some w =>
      simp only [hs] at ht' ⊢
      by_cases e : t' = t
      · subst e; simp at ht'
      · simp [e] at ht'; simpa using h t' ht'
    | none =>
      simp only [hs] at ht' ⊢
      by_cases e : t' = t
      · subst e; simp at ht'
      · simp [e] at ht'; simpa using h t' ht'
  | needSet =>
    simp only [hp] at ht' ⊢
    by_cases e : t' = t
    · subst e; simp at ht'
    · simp [e] at ht'
      by_cases e2 : fp t' = fp t
      · simp [e2]
      · simp [upd_ne _ _ e2]; simpa using h t' ht'
  | afterSet =>
    simp only [hp] at ht' ⊢
    cases hs : s.store (fp t) with
    | some w =>
      simp only [hs] at ht' ⊢
      by_cases e : t' = t
      · subst e; simp at ht'
      · simp [e] at ht'; simpa using h t' ht'
    | none =>
      simp only [hs] at ht' ⊢
      by_cases e : t' = t
      · subst e; simp at ht'
      · simp [e] at ht'; simpa using h t' ht'
  | done w => simp only [hp] at ht' ⊢; exact h t' ht'

theorem cstepStrict_of_seen (val : Fp → Val) (fp : Thread → Fp) (s : CState) (t : Thread) (h : Seen fp s) :
    cstepStrict val fp s t = some (cstep val fp s t) := by
  unfold cstepStrict
  split
  · rename_i hp hs
    have := h t hp
    simp [hs] at this
  · rfl

theorem runStrict_of_seen (val : Fp → Val) (fp : Thread → Fp) (sched : List Thread) (s : CState) (h : Seen fp s) :
    runStrictEv val fp (sched.map CEv.step) s = some (runCache val fp sched s) := by
  induction sched generalizing s with
  | nil => rfl
  | cons t rest ih =>
    simp only [List.map_cons, runStrictEv, runCache, cstepStrict_of_seen val fp s t h, Option.bind_some]
    exact ih _ (cstep_seen val fp s t h)

/-! ### a thread run alone -/

/-- runtime objects thread `t` can name independently of the other threads: its own creations and
    the objects that existed in the start state `s0` -/
def Own (s0 : State) (t : Thread) (r : Id) : Prop := r.1 = t ∨ r.2 < s0.next r.1

/-- the objects an operation names explicitly -/
def opIds : Op → List Id
  | .derive r _ => [r]
  | .enter r => [r]
  | .exit r => [r]
  | _ => []

/-- everything reachable from the slice (current runtime, saved runtimes) is `Own` -/
def ClosedSlice (s0 : State) (t : Thread) (sl : Slice) : Prop :=
  (∀ r, sl.cur = some r → Own s0 t r) ∧ (∀ r' r, some r ∈ sl.entered r' → Own s0 t r)

/-- relation between the interleaved run (`a`) and the run of `t` alone (`b`) -/
structure Rel (s0 : State) (t : Thread) (a b : State) : Prop where
  slice : Threads.slice a t = Threads.slice b t
  defaults : a.defaults = b.defaults
  handlers : ∀ r, Own s0 t r → (a.objs r).handlers = (b.objs r).handlers
  closed : ClosedSlice s0 t (Threads.slice a t)
  nextA : ∀ t', s0.next t' ≤ a.next t'

theorem step_defaults_of (s : State) (t : Thread) (o : Op) (h : ∀ ty hh, o ≠ .registerDefault ty hh) :
    (step s t o).1.defaults = s.defaults := by
  cases o with
  | registerDefault ty hh => exact absurd rfl (h ty hh)
  | exit r => simp only [step]; split <;> rfl
  | inherit p => simp only [step]; split <;> rfl
  | _ => simp [step]

theorem step_defaults_congr (a b : State) (t : Thread) (o : Op) (h : a.defaults = b.defaults) :
    (step a t o).1.defaults = (step b t o).1.defaults := by
  cases o with
  | registerDefault ty hh => simp [step, h]
  | exit r => simp only [step]; split <;> split <;> exact h
  | inherit p => simp only [step]; split <;> split <;> exact h
  | _ => simp [step, h]

theorem alloc_next_mono (s : State) (t : Thread) (hs : Table) (t' : Thread) :
    s.next t' ≤ (alloc s t hs).1.next t' := by
  simp only [alloc_next, upd_apply]; split
  · rename_i e; rw [e]; exact Nat.le_succ _
  · exact Nat.le_refl _

theorem current_next_mono (s : State) (t t' : Thread) : s.next t' ≤ (current s t).1.next t' := by
  unfold current; split
  · exact Nat.le_refl _
  · exact alloc_next_mono s t s.defaults t'

theorem step_next_mono (s : State) (t : Thread) (o : Op) (t' : Thread) :
    s.next t' ≤ (step s t o).1.next t' := by
  cases o with
  | current => exact current_next_mono s t t'
  | new hs => exact alloc_next_mono s t _ t'
  | derive r hs => exact alloc_next_mono s t _ t'
  | handleCur hs => exact Nat.le_trans (current_next_mono s t t') (alloc_next_mono _ t _ t')
  | enter r => exact Nat.le_refl _
  | exit r => simp only [step]; split <;> exact Nat.le_refl _
  | registerDefault ty hh => exact Nat.le_refl _
  | run ty => exact current_next_mono s t t'
  | inherit p =>
    simp only [step]; split
    · exact Nat.le_refl _
    · exact alloc_next_mono s t s.defaults t'

theorem alloc_handlers_of (s : State) (t : Thread) (hs : Table) (r : Id) (h : r.1 = t → r.2 < s.next t) :
    ((alloc s t hs).1.objs r).handlers = (s.objs r).handlers := by
  rw [alloc_handlers]
  split
  · rename_i e; subst e; exact absurd (h rfl) (Nat.lt_irrefl _)
  · rfl

theorem current_handlers_of (s : State) (t : Thread) (r : Id) (h : r.1 = t → r.2 < s.next t) :
    ((current s t).1.objs r).handlers = (s.objs r).handlers := by
  unfold current; split
  · rfl
  · exact alloc_handlers_of s t s.defaults r h

/-- a step of thread `t` leaves alone the handler table of every object that is not one of the
    names `t` is about to allocate -/
theorem step_handlers_of (s : State) (t : Thread) (o : Op) (r : Id) (h : r.1 = t → r.2 < s.next t) :
    ((step s t o).1.objs r).handlers = (s.objs r).handlers := by
  cases o with
  | current => exact current_handlers_of s t r h
  | new hs => exact alloc_handlers_of s t _ r h
  | derive r' hs => exact alloc_handlers_of s t _ r h
  | handleCur hs =>
    simp only [step]
    rw [alloc_handlers_of _ t _ r (fun e => Nat.lt_of_lt_of_le (h e) (current_next_mono s t t)),
        current_handlers_of s t r h]
  | enter r' =>
    by_cases e : r = r'
    · subst e; simp [step]
    · simp [step, e]
  | exit r' =>
    simp only [step]; split
    · rfl
    · by_cases e : r = r'
      · subst e; simp
      · simp [e]
  | registerDefault ty hh => rfl
  | run ty => exact current_handlers_of s t r h
  | inherit p =>
    simp only [step]; split
    · rfl
    · exact alloc_handlers_of s t s.defaults r h

/-- a step of another thread (not a registration of a default) keeps the relation -/
theorem rel_other (s0 : State) (t : Thread) (a b : State) (t' : Thread) (o : Op) (R : Rel s0 t a b)
    (hne : t' ≠ t) (hreg : ∀ ty hh, o ≠ .registerDefault ty hh) : Rel s0 t (step a t' o).1 b := by
  have hs := step_slice_other a t' t o (fun e => hne e.symm)
  refine ⟨by rw [hs]; exact R.slice, by rw [step_defaults_of a t' o hreg]; exact R.defaults, ?_,
          by rw [hs]; exact R.closed, fun t'' => Nat.le_trans (R.nextA t'') (step_next_mono a t' o t'')⟩
  intro r hr
  rw [step_handlers_of a t' o r ?_]
  · exact R.handlers r hr
  · intro e
    cases hr with
    | inl h1 => exact absurd (h1.symm.trans e) (fun x => hne x.symm)
    | inr h2 => rw [e] at h2; exact Nat.lt_of_lt_of_le h2 (R.nextA t')

theorem lstep_congr (t : Thread) (e1 e2 : Shared) (o : Op) (sl : Slice) (hd : e1.defaults = e2.defaults)
    (hh : ∀ r, sl.cur = some r → e1.handlers r = e2.handlers r) :
    lstep t e1 (.op o) sl = lstep t e2 (.op o) sl := by
  cases o with
  | run ty =>
    simp only [lstep]
    cases hc : sl.cur with
    | none => simp [hd]
    | some r => simp [hd, hh r hc]
  | _ => rfl

theorem own_of_self (s0 : State) (t : Thread) (n : Nat) : Own s0 t (t, n) := Or.inl rfl

theorem lstep_closed (s0 : State) (t : Thread) (e : Shared) (o : Op) (sl : Slice)
    (hc : ClosedSlice s0 t sl) (hids : ∀ r ∈ opIds o, Own s0 t r) :
    ClosedSlice s0 t (lstep t e (.op o) sl).1 := by
  obtain ⟨h1, h2⟩ := hc
  cases o with
  | current =>
    simp only [lstep]; split
    · exact ⟨h1, h2⟩
    · exact ⟨fun r hr => by simp at hr; subst hr; exact own_of_self s0 t _, h2⟩
  | new hs => exact ⟨h1, h2⟩
  | derive r hs => exact ⟨h1, h2⟩
  | handleCur hs =>
    simp only [lstep]; split
    · exact ⟨h1, h2⟩
    · exact ⟨fun r hr => by simp at hr; subst hr; exact own_of_self s0 t _, h2⟩
  | enter r =>
    simp only [lstep]
    refine ⟨fun r' hr => by simp at hr; subst hr; exact hids r (by simp [opIds]), ?_⟩
    intro r' x hx
    by_cases e : r' = r
    · subst e
      simp at hx
      cases hx with
      | inl h => exact h1 x h.symm
      | inr h => exact h2 r' x h
    · simp [e] at hx; exact h2 r' x hx
  | exit r =>
    simp only [lstep]
    cases hent : sl.entered r with
    | nil => exact ⟨h1, h2⟩
    | cons p rest =>
      simp only
      refine ⟨fun x hx => h2 r x (by simp at hx; rw [hent, hx]; simp), ?_⟩
      intro r' x hx
      by_cases e : r' = r
      · subst e
        simp at hx
        exact h2 r' x (by rw [hent]; simp [hx])
      · simp [e] at hx; exact h2 r' x hx
  | registerDefault ty hh => exact ⟨h1, h2⟩
  | run ty =>
    simp only [lstep]; split
    · exact ⟨h1, h2⟩
    · exact ⟨fun r hr => by simp at hr; subst hr; exact own_of_self s0 t _, h2⟩
  | inherit p => exact ⟨h1, h2⟩

theorem toLOp_of_not_inherit (s : State) (o : Op) (h : ∀ p, o ≠ .inherit p) : toLOp s o = .op o := by
  cases o with
  | inherit p => exact absurd rfl (h p)
  | _ => rfl

/-- after a step of `t` itself, the handler tables of `Own` objects agree in the two runs -/
theorem own_step_handlers (s0 : State) (t : Thread) (a b : State) (o : Op) (R : Rel s0 t a b)
    (hids : ∀ r ∈ opIds o, Own s0 t r) (hinh : ∀ p, o ≠ .inherit p) (r : Id) (hr : Own s0 t r) :
    ((step a t o).1.objs r).handlers = ((step b t o).1.objs r).handlers := by
  have hcur : a.cur t = b.cur t := congrArg Slice.cur R.slice
  have hnext : a.next t = b.next t := congrArg Slice.next R.slice
  have hd := R.defaults
  have hH := R.handlers
  have hcl : ∀ c, b.cur t = some c → Own s0 t c := fun c hc => R.closed.1 c (by simp [Threads.slice, hcur, hc])
  cases o with
  | inherit p => exact absurd rfl (hinh p)
  | current =>
    simp only [step, current, hcur]
    cases hc : b.cur t with
    | some c => exact hH r hr
    | none => simp only [alloc_handlers, hnext, hd, hH r hr]
  | new hs => simp only [step, alloc_handlers, hnext, hd, hH r hr]
  | derive r' hs =>
    simp only [step, alloc_handlers, hnext, hd, hH r hr, hH r' (hids r' (by simp [opIds]))]
  | handleCur hs =>
    simp only [step, current, hcur]
    cases hc : b.cur t with
    | some c => simp only [alloc_handlers, hnext, hd, hH r hr, hH c (hcl c hc)]
    | none =>
      simp only [alloc_handlers, alloc_next, alloc_defaults, upd_same, hnext, hd, hH r hr, if_true]
  | enter r' =>
    by_cases e : r = r'
    · subst e; simp [step, hH r hr]
    · simp [step, e, hH r hr]
  | exit r' =>
    have hent : (a.objs r').entered t = (b.objs r').entered t :=
      congrFun (congrArg Slice.entered R.slice) r'
    simp only [step, hent]
    cases (b.objs r').entered t with
    | nil => exact hH r hr
    | cons p rest =>
      by_cases e : r = r'
      · subst e; simp [hH r hr]
      · simp [e, hH r hr]
  | registerDefault ty hh => exact hH r hr
  | run ty =>
    simp only [step, current, hcur]
    cases hc : b.cur t with
    | some c => exact hH r hr
    | none => simp only [alloc_handlers, hnext, hd, hH r hr]

/-- a step of `t` itself keeps the relation and yields the same result in both runs -/
theorem rel_own (s0 : State) (t : Thread) (a b : State) (o : Op) (R : Rel s0 t a b)
    (hids : ∀ r ∈ opIds o, Own s0 t r) (hinh : ∀ p, o ≠ .inherit p) :
    Rel s0 t (step a t o).1 (step b t o).1 ∧ (step a t o).2 = (step b t o).2 := by
  have ha := step_slice_own a t o
  have hb := step_slice_own b t o
  rw [toLOp_of_not_inherit a o hinh] at ha
  rw [toLOp_of_not_inherit b o hinh] at hb
  have hl : lstep t (shared a) (.op o) (Threads.slice a t) = lstep t (shared b) (.op o) (Threads.slice b t) := by
    rw [← R.slice]
    exact lstep_congr t (shared a) (shared b) o _ R.defaults
      (fun r hr => R.handlers r (R.closed.1 r hr))
  refine ⟨⟨?_, step_defaults_congr a b t o R.defaults, own_step_handlers s0 t a b o R hids hinh, ?_,
           fun t' => Nat.le_trans (R.nextA t') (step_next_mono a t o t')⟩, ?_⟩
  · rw [ha.1, hb.1, hl]
  · rw [ha.1]; exact lstep_closed s0 t (shared a) o _ R.closed hids
  · rw [ha.2, hb.2, hl]

/-- Run alone: the steps of the other threads can be deleted from the interleaving without changing
    anything `t` observes. -/
theorem alone_view (s0 : State) (t : Thread) (sched : Sched) : ∀ (a b : State), Rel s0 t a b →
    (∀ t' o, (t', o) ∈ sched → t' ≠ t → ∀ ty hh, o ≠ .registerDefault ty hh) →
    (∀ o, (t, o) ∈ sched → (∀ p, o ≠ .inherit p) ∧ ∀ r ∈ opIds o, Own s0 t r) →
    obsOf t (runSched sched a).2 = obsOf t (runSched (sched.filter (fun st => st.1 == t)) b).2 := by
  induction sched with
  | nil => intro a b R h1 h2; rfl
  | cons hd rest ih =>
    intro a b R h1 h2
    obtain ⟨t', o⟩ := hd
    have h1' : ∀ t'' o', (t'', o') ∈ rest → t'' ≠ t → ∀ ty hh, o' ≠ .registerDefault ty hh :=
      fun t'' o' hm => h1 t'' o' (List.mem_cons_of_mem _ hm)
    have h2' : ∀ o', (t, o') ∈ rest → (∀ p, o' ≠ .inherit p) ∧ ∀ r ∈ opIds o', Own s0 t r :=
      fun o' hm => h2 o' (List.mem_cons_of_mem _ hm)
    by_cases e : t' = t
    · subst e
      have hh := h2 o (List.mem_cons_self)
      have R' := rel_own s0 t' a b o R hh.2 hh.1
      simp only [List.filter, beq_self_eq_true, runSched, obsOf, if_true]
      rw [R'.2, ih _ _ R'.1 h1' h2']
    · have R' := rel_other s0 t a b t' o R e (h1 t' o (List.mem_cons_self) e)
      have hf : (t' == t) = false := by simp [e]
      simp only [List.filter, hf, runSched, obsOf, if_neg e]
      exact ih _ _ R' h1' h2'

end lemmas

end Labrea.Threads

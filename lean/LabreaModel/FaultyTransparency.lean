/-
  C17 at full strength, reduced to fingerprint soundness: `Cached.evaluate` over an UNRELIABLE backend (the scripted
  cache: at every call it may report a miss, claim an entry that it then fails to retrieve, forget the entry, fail to
  store, or answer without even looking at the request) returns the uncached outcome after any history and under any
  fault script — a faulty backend costs recomputation, never a wrong value or a failure.
-/
import LabreaModel.CacheTransparency
namespace Labrea

/-- as `FingerprintSound`, for a scripted (faulty) backend -/
structure FingerprintSoundF (env : Env) (run : Run) (x : Expr) (c : Nat) (D : V → Prop)
    (fp : V → V) (den : V → Except Err V) : Prop where
  scripted : env.cacheKind c = .scripted
  enabled : ∀ o, D o → ∀ s, ∃ s', cacheDisabled env run o s = some (.ok false, s') ∧ s'.E c = s.E c
  fingerprint : ∀ o, D o → ∀ s, ∃ s', fingerprintOf run x o s = some (.ok (fp o), s') ∧ s'.E c = s.E c
  inner : ∀ o, D o → ∀ s, ∃ s', run .evaluate x o s = some (den o, s') ∧ s'.E c = s.E c
  sufficient : ∀ o o', D o → D o' → fp o = fp o' → den o = den o'

theorem entryErase_cons (fp k w : V) (rest : List (V × V)) :
    entryErase fp ((k, w) :: rest) = if k = fp then entryErase fp rest else (k, w) :: entryErase fp rest := by
  unfold entryErase
  by_cases h : k = fp <;> simp [List.filter_cons, h]

theorem entryLookup_erase_same (k : V) : ∀ es : List (V × V), entryLookup k (entryErase k es) = Option.none
  | [] => by simp [entryErase, entryLookup]
  | (k', w) :: rest => by
    rw [entryErase_cons]
    by_cases h : k' = k
    · simp only [h, if_true]; exact entryLookup_erase_same k rest
    · simp only [h, if_false, entryLookup]; exact entryLookup_erase_same k rest

theorem entryLookup_erase_other {f fp : V} (h : f ≠ fp) : ∀ es : List (V × V),
    entryLookup f (entryErase fp es) = entryLookup f es
  | [] => by simp [entryErase, entryLookup]
  | (k, w) :: rest => by
    rw [entryErase_cons]
    by_cases hk : k = fp
    · have hkf : k ≠ f := fun e => h (e ▸ hk)
      simp only [hk, if_true, entryLookup]
      rw [entryLookup_erase_other h rest]
      have : fp ≠ f := fun e => h e.symm
      simp [this]
    · simp only [hk, if_false, entryLookup]
      rw [entryLookup_erase_other h rest]

theorem entryLookup_erase {f fp v : V} {es : List (V × V)} (h : entryLookup f (entryErase fp es) = some v) :
    entryLookup f es = some v := by
  by_cases hf : f = fp
  · subst hf; rw [entryLookup_erase_same] at h; cases h
  · rwa [entryLookup_erase_other hf] at h

theorem nextFault_spec (c : Nat) (s : St) : ∃ f s', nextFault c s = some (.ok f, s') ∧ s'.E c = s.E c := by
  unfold nextFault
  split
  · exact ⟨_, _, rfl, rfl⟩
  · exact ⟨_, _, rfl, rfl⟩

theorem blindFault_spec (c : Nat) (s : St) : ∃ b s', blindFault c s = some (.ok b, s') ∧ s'.E c = s.E c := by
  unfold blindFault
  split
  · exact ⟨_, _, rfl, rfl⟩
  · exact ⟨_, _, rfl, rfl⟩

theorem forgetEntry_spec (c : Nat) (fp : V) (s : St) :
    ∃ s', forgetEntry c fp s = some (.ok (), s') ∧ s'.E c = entryErase fp (s.E c) := by
  refine ⟨s.setCacheEntries c (entryErase fp (s.cacheEntries c)), by simp [forgetEntry, modifySt], ?_⟩
  simp only [St.E]
  exact cacheEntries_set_same s c _

/-! ### a total-correctness triple relative to the store invariant -/

/-- from every state satisfying `I`, `m` terminates in a state satisfying `I` with an outcome satisfying `Q` -/
structure T (I : St → Prop) {α} (m : M α) (Q : Except Err α → Prop) : Prop where
  run : ∀ s, I s → ∃ r s', m s = some (r, s') ∧ I s' ∧ Q r

section
variable {I : St → Prop}

theorem t_pure {α} (a : α) {Q : Except Err α → Prop} (h : Q (.ok a)) : T I (pure a : M α) Q :=
  ⟨fun s hs => ⟨_, s, by simp [pure_run], hs, h⟩⟩

theorem t_raise {α} (e : Err) {Q : Except Err α → Prop} (h : Q (.error e)) : T I (raise e : M α) Q :=
  ⟨fun s hs => ⟨_, s, by simp [raise_run], hs, h⟩⟩

theorem t_weaken {α} {m : M α} {Q Q' : Except Err α → Prop} (h : ∀ r, Q r → Q' r) (t : T I m Q) : T I m Q' :=
  ⟨fun s hs => by obtain ⟨r, s', h1, h2, h3⟩ := t.run s hs; exact ⟨r, s', h1, h2, h r h3⟩⟩

theorem t_bind {α β} {m : M α} {f : α → M β} {Q1 : Except Err α → Prop} {Q : Except Err β → Prop}
    (hm : T I m Q1) (hf : ∀ a, Q1 (.ok a) → T I (f a) Q) (he : ∀ e, Q1 (.error e) → Q (.error e)) : T I (m >>= f) Q := by
  refine ⟨fun s hs => ?_⟩
  obtain ⟨r, s1, h1, i1, q1⟩ := hm.run s hs
  cases r with
  | error e => exact ⟨.error e, s1, by simp [bind_run, h1], i1, he e q1⟩
  | ok a =>
    obtain ⟨r2, s2, h2, i2, q2⟩ := (hf a q1).run s1 i1
    exact ⟨r2, s2, by simp [bind_run, h1, h2], i2, q2⟩

theorem t_handle {α} {m : M α} {k : Err → M α} {Q1 Q : Except Err α → Prop}
    (hm : T I m Q1) (hok : ∀ a, Q1 (.ok a) → Q (.ok a)) (hk : ∀ e, Q1 (.error e) → T I (k e) Q) : T I (handle m k) Q := by
  refine ⟨fun s hs => ?_⟩
  obtain ⟨r, s1, h1, i1, q1⟩ := hm.run s hs
  cases r with
  | ok a => exact ⟨.ok a, s1, by simp [handle, h1], i1, hok a q1⟩
  | error e =>
    obtain ⟨r2, s2, h2, i2, q2⟩ := (hk e q1).run s1 i1
    exact ⟨r2, s2, by simp [handle, h1, h2], i2, q2⟩

end

section
variable {env : Env} {run : Run} {x : Expr} {c : Nat} {D : V → Prop} {fp : V → V} {den : V → Except Err V}

/-- anything that leaves the entries of cache `c` alone keeps the store invariant -/
theorem t_of_E {α} {m : M α} {r : Except Err α} (h : ∀ s, ∃ s', m s = some (r, s') ∧ s'.E c = s.E c) :
    T (StoreInv c D fp den) m (· = r) := by
  refine ⟨fun s hs => ?_⟩
  obtain ⟨s', h1, h2⟩ := h s
  exact ⟨r, s', h1, by intro f v hv; rw [h2] at hv; exact hs f v hv, rfl⟩

theorem t_emit (e : Event) : T (StoreInv c D fp den) (emit e) (· = .ok ()) :=
  t_of_E (fun s => ⟨{ s with events := e :: s.events }, by simp [emit_run], rfl⟩)

theorem t_nextFault : T (StoreInv c D fp den) (nextFault c) (fun r => ∃ f, r = .ok f) := by
  refine ⟨fun s hs => ?_⟩
  obtain ⟨f, s', h1, h2⟩ := nextFault_spec c s
  exact ⟨.ok f, s', h1, by intro g v hv; rw [h2] at hv; exact hs g v hv, f, rfl⟩

theorem t_blindFault : T (StoreInv c D fp den) (blindFault c) (fun r => ∃ b, r = .ok b) := by
  refine ⟨fun s hs => ?_⟩
  obtain ⟨b, s', h1, h2⟩ := blindFault_spec c s
  exact ⟨.ok b, s', h1, by intro g v hv; rw [h2] at hv; exact hs g v hv, b, rfl⟩

theorem t_forget (f : V) : T (StoreInv c D fp den) (forgetEntry c f) (· = .ok ()) := by
  refine ⟨fun s hs => ?_⟩
  obtain ⟨s', h1, h2⟩ := forgetEntry_spec c f s
  exact ⟨.ok (), s', h1, by intro g v hv; rw [h2] at hv; exact hs g v (entryLookup_erase hv), rfl⟩

/-- a lookup answers with an entry the invariant vouches for -/
theorem t_lookupStore (o : V) (what : String) :
    T (StoreInv c D fp den) (lookupStore c (fp o) what)
      (fun r => ∃ res, r = .ok res ∧ ∀ v, res = some v → ∃ o', D o' ∧ fp o' = fp o ∧ den o' = .ok v) := by
  refine ⟨fun s hs => ?_⟩
  unfold lookupStore
  simp only [bind_run, getSt]
  cases h : entryLookup (fp o) (s.cacheEntries c) with
  | none =>
    exact ⟨.ok Option.none, { s with events := Event.cacheOp c what (fp o) "miss" :: s.events },
      by simp [bind_run, emit_run, pure_run], hs, Option.none, rfl, by intro v hv; cases hv⟩
  | some v =>
    exact ⟨.ok (some v), { s with events := Event.cacheOp c what (fp o) "hit" :: s.events },
      by simp [bind_run, emit_run, pure_run], hs, some v, rfl, by intro w hw; cases hw; exact hs _ _ h⟩

/-- storing the outcome of `o` under its fingerprint keeps the invariant -/
theorem t_store (o : V) (ho : D o) (v : V) (hv : den o = .ok v) :
    T (StoreInv c D fp den) (storeEntry c (fp o) v) (· = .ok ()) := by
  refine ⟨fun s hs => ?_⟩
  refine ⟨.ok (), { (s.setCacheEntries c (entryInsert (fp o) v (s.cacheEntries c))) with
      events := Event.cacheOp c "set" (fp o) "stored" :: (s.setCacheEntries c (entryInsert (fp o) v (s.cacheEntries c))).events },
    by simp [storeEntry, modifySt, bind_run, emit_run], ?_, rfl⟩
  intro f w hw
  have : entryLookup f (entryInsert (fp o) v (s.cacheEntries c)) = some w := by
    have e : ({ (s.setCacheEntries c (entryInsert (fp o) v (s.cacheEntries c))) with
        events := Event.cacheOp c "set" (fp o) "stored" :: (s.setCacheEntries c (entryInsert (fp o) v (s.cacheEntries c))).events } : St).E c
        = entryInsert (fp o) v (s.cacheEntries c) := by
      show (s.setCacheEntries c _).cacheEntries c = _
      exact cacheEntries_set_same s c _
    rw [e] at hw; exact hw
  by_cases hf : f = fp o
  · subst hf
    rw [entryLookup_insert_same] at this
    cases this
    exact ⟨o, ho, rfl, hv⟩
  · rw [entryLookup_insert_other hf] at this
    exact hs f w this

end

section
variable {env : Env} {run : Run} {x : Expr} {c : Nat} {D : V → Prop} {fp : V → V} {den : V → Except Err V}
variable (H : FingerprintSoundF env run x c D fp den)
include H

/-- `v` is the outcome of a dictionary of the history with `o`'s fingerprint -/
def Vouched (D : V → Prop) (fp : V → V) (den : V → Except Err V) (o v : V) : Prop :=
  ∃ o', D o' ∧ fp o' = fp o ∧ den o' = .ok v

omit H in
theorem vouched_eq (hs : ∀ o o', D o → D o' → fp o = fp o' → den o = den o') {o v : V} (ho : D o)
    (h : Vouched D fp den o v) : den o = .ok v := by
  obtain ⟨o', ho', hfp, hden⟩ := h
  rw [hs o o' ho ho' hfp.symm, hden]

theorem t_enabled (o : V) (ho : D o) : T (StoreInv c D fp den) (cacheDisabled env run o) (· = .ok false) :=
  t_of_E (H.enabled o ho)

theorem t_fingerprint (o : V) (ho : D o) : T (StoreInv c D fp den) (fingerprintOf run x o) (· = .ok (fp o)) :=
  t_of_E (H.fingerprint o ho)

theorem t_backendExists (o : V) (ho : D o) :
    T (StoreInv c D fp den) (backendExists env run x c o) (fun r => ∃ b, r = .ok b) := by
  simp only [backendExists, H.scripted]
  refine t_bind t_blindFault (fun b _ => ?_) (by rintro e ⟨_, h⟩; cases h)
  cases b
  · simp only [Bool.false_eq_true, if_false]
    refine t_bind (t_fingerprint H o ho) (fun f hf => ?_) (by intro e h; cases h)
    cases hf
    refine t_bind t_nextFault (fun flt _ => ?_) (by rintro e ⟨_, h⟩; cases h)
    cases flt
    case miss => exact t_bind (t_emit _) (fun _ _ => t_pure _ ⟨_, rfl⟩) (by intro e h; cases h)
    case lieExists => exact t_bind (t_emit _) (fun _ _ => t_pure _ ⟨_, rfl⟩) (by intro e h; cases h)
    case forget =>
      exact t_bind (t_forget _) (fun _ _ => t_bind (t_emit _) (fun _ _ => t_pure _ ⟨_, rfl⟩) (by intro e h; cases h))
        (by intro e h; cases h)
    all_goals
      exact t_bind (t_lookupStore o "exists") (fun res _ => t_pure _ ⟨_, rfl⟩) (by rintro e ⟨_, h, _⟩; cases h)
  · simp only [if_true]
    exact t_bind (t_emit _) (fun _ _ => t_pure _ ⟨_, rfl⟩) (by intro e h; cases h)

theorem t_backendGet (o : V) (ho : D o) :
    T (StoreInv c D fp den) (backendGet env run x c o)
      (fun r => (∃ v, r = .ok v ∧ Vouched D fp den o v) ∨ r = .error cacheGetFailure) := by
  simp only [backendGet, H.scripted]
  refine t_bind t_blindFault (fun b _ => ?_) (by rintro e ⟨_, h⟩; cases h)
  cases b
  · simp only [Bool.false_eq_true, if_false]
    refine t_bind (t_fingerprint H o ho) (fun f hf => ?_) (by intro e h; cases h)
    cases hf
    refine t_bind t_nextFault (fun flt _ => ?_) (by rintro e ⟨_, h⟩; cases h)
    cases flt
    case miss => exact t_bind (t_emit _) (fun _ _ => t_raise _ (Or.inr rfl)) (by intro e h; cases h)
    case failGet => exact t_bind (t_emit _) (fun _ _ => t_raise _ (Or.inr rfl)) (by intro e h; cases h)
    case forget =>
      exact t_bind (t_forget _) (fun _ _ => t_bind (t_emit _) (fun _ _ => t_raise _ (Or.inr rfl)) (by intro e h; cases h))
        (by intro e h; cases h)
    all_goals
      refine t_bind (t_lookupStore o "get") (fun res hres => ?_) (by rintro e ⟨_, h, _⟩; cases h)
      obtain ⟨res', hr, hv⟩ := hres
      cases hr
      cases res with
      | none => exact t_raise _ (Or.inr rfl)
      | some v => exact t_pure _ (Or.inl ⟨v, rfl, hv v rfl⟩)
  · simp only [if_true]
    exact t_bind (t_emit _) (fun _ _ => t_raise _ (Or.inr rfl)) (by intro e h; cases h)

theorem t_backendSet (o : V) (ho : D o) (v : V) (hv : den o = .ok v) :
    T (StoreInv c D fp den) (backendSet env run x c o v) (· = .ok ()) := by
  simp only [backendSet, H.scripted]
  refine t_bind (t_fingerprint H o ho) (fun f hf => ?_) (by intro e h; cases h)
  cases hf
  refine t_bind t_nextFault (fun flt _ => ?_) (by rintro e ⟨_, h⟩; cases h)
  cases flt
  case miss => exact t_emit _
  case forget => exact t_emit _
  all_goals exact t_store o ho v hv

theorem t_existsReq (o : V) (ho : D o) :
    T (StoreInv c D fp den) (existsReq env run x c o) (fun r => ∃ b, r = .ok b) := by
  unfold existsReq
  refine t_bind (t_emit _) (fun _ _ => t_bind (t_enabled H o ho) (fun b hb => ?_) (by intro e h; cases h)) (by intro e h; cases h)
  cases hb
  simp only [Bool.false_eq_true, if_false]
  exact t_backendExists H o ho

theorem t_getReq (o : V) (ho : D o) :
    T (StoreInv c D fp den) (getReq env run x c o)
      (fun r => (∃ v, r = .ok v ∧ Vouched D fp den o v) ∨ r = .error cacheGetFailure) := by
  unfold getReq
  refine t_bind (t_emit _) (fun _ _ => t_bind (t_enabled H o ho) (fun b hb => ?_) (by intro e h; cases h)) (by intro e h; cases h)
  cases hb
  simp only [Bool.false_eq_true, if_false]
  exact t_backendGet H o ho

theorem t_setReq (o : V) (ho : D o) (v : V) (hv : den o = .ok v) :
    T (StoreInv c D fp den) (setReq env run x c o v) (· = .ok v) := by
  unfold setReq
  refine t_bind (t_emit _) (fun _ _ => t_bind (t_enabled H o ho) (fun b hb => ?_) (by intro e h; cases h)) (by intro e h; cases h)
  cases hb
  simp only [Bool.false_eq_true, if_false]
  refine t_bind (t_backendSet H o ho v hv) (fun _ _ => ?_) (by intro e h; cases h)
  refine t_handle (t_backendGet H o ho) ?_ ?_
  · -- what is read back is vouched for, hence the value itself
    rintro w (⟨w', hw, hvw⟩ | h)
    · cases hw
      have := vouched_eq H.sufficient ho hvw
      rw [hv] at this
      cases this; rfl
    · cases h
  · rintro e (⟨_, h, _⟩ | h)
    · cases h
    · cases h
      simp only [if_true]
      exact t_pure _ rfl

/-- **one evaluation over a faulty backend**: the uncached outcome, and the invariant holds afterwards -/
theorem t_cached_evaluate (o : V) (ho : D o) :
    T (StoreInv c D fp den) (cachedOp env run x c .evaluate o) (· = den o) := by
  simp only [cachedOp]
  have hlookup : T (StoreInv c D fp den) (cacheLookup env run x c o)
      (fun r => (∃ v, r = .ok (some v) ∧ Vouched D fp den o v) ∨ r = .ok Option.none) := by
    unfold cacheLookup
    refine t_bind (t_existsReq H o ho) (fun b _ => ?_) (by rintro e ⟨_, h⟩; cases h)
    cases b
    · simp only [Bool.false_eq_true, if_false]; exact t_pure _ (Or.inr rfl)
    · simp only [if_true]
      refine t_handle (Q1 := fun r => (∃ v, r = .ok (some v) ∧ Vouched D fp den o v) ∨ r = .error cacheGetFailure) ?_ ?_ ?_
      · refine t_bind (t_getReq H o ho) (fun v hv => ?_) ?_
        · rcases hv with ⟨v', h, hvv⟩ | h
          · cases h; exact t_pure _ (Or.inl ⟨v, rfl, hvv⟩)
          · cases h
        · rintro e (⟨_, h, _⟩ | h)
          · cases h
          · cases h; exact Or.inr rfl
      · rintro a (h | h)
        · exact Or.inl h
        · cases h
      · rintro e (⟨_, h, _⟩ | h)
        · cases h
        · cases h
          simp only [if_true]
          exact t_pure _ (Or.inr rfl)
  refine t_bind hlookup (fun hit hh => ?_) (by rintro e (⟨_, h, _⟩ | h) <;> cases h)
  cases hit with
  | some v =>
    rcases hh with ⟨v', h, hv⟩ | h
    · cases h
      exact t_pure _ (vouched_eq H.sufficient ho hv).symm
    · cases h
  | none =>
    simp only []
    refine t_bind (Q1 := (· = den o)) (t_of_E (H.inner o ho)) (fun v hv => ?_) (fun e he => he)
    exact t_weaken (fun r hr => by rw [hr]; exact hv) (t_setReq H o ho v hv.symm)

/-- **any history, any fault script.** -/
theorem faulty_history_transparent : ∀ (hist : List V), (∀ o ∈ hist, D o) → ∀ (s : St), StoreInv c D fp den s →
    ∀ (o : V), D o → ∀ (s1 : St),
      (hist.foldl (fun (st : Option St) oi => st.bind fun t =>
        (cachedOp env run x c .evaluate oi t).map Prod.snd) (some s)) = some s1 →
      ∀ r s2, cachedOp env run x c .evaluate o s1 = some (r, s2) → r = den o
  | [], _, s, hinv, o, ho, s1, hs, r, s2, h => by
    simp only [List.foldl_nil, Option.some.injEq] at hs
    subst hs
    obtain ⟨r', s', h1, _, hq⟩ := (t_cached_evaluate H o ho).run s hinv
    rw [h] at h1; cases h1; exact hq
  | oi :: rest, hD, s, hinv, o, ho, s1, hs, r, s2, h => by
    simp only [List.foldl_cons, Option.bind_some] at hs
    obtain ⟨ri, si, hstep, hinv', _⟩ := (t_cached_evaluate H oi (hD oi (by simp))).run s hinv
    simp only [hstep, Option.map_some] at hs
    exact faulty_history_transparent rest (fun o' ho' => hD o' (by simp [ho'])) si hinv' o ho s1 hs r s2 h

end

/-! ### the reliable backend (`MemoryCache`): total correctness -/

section
variable {env : Env} {run : Run} {x : Expr} {c : Nat} {D : V → Prop} {fp : V → V} {den : V → Except Err V}
variable (H : FingerprintSound env run x c D fp den)
include H

theorem tm_existsReq (o : V) (ho : D o) :
    T (StoreInv c D fp den) (existsReq env run x c o) (fun r => ∃ b, r = .ok b) := by
  unfold existsReq
  refine t_bind (t_emit _) (fun _ _ => t_bind (t_of_E (H.enabled o ho)) (fun b hb => ?_) (by intro e h; cases h)) (by intro e h; cases h)
  cases hb
  simp only [Bool.false_eq_true, if_false, backendExists, H.memory]
  refine t_bind (t_of_E (H.fingerprint o ho)) (fun f hf => ?_) (by intro e h; cases h)
  cases hf
  exact t_bind (t_lookupStore o "exists") (fun res _ => t_pure _ ⟨_, rfl⟩) (by rintro e ⟨_, h, _⟩; cases h)

theorem tm_backendGet (o : V) (ho : D o) :
    T (StoreInv c D fp den) (backendGet env run x c o)
      (fun r => (∃ v, r = .ok v ∧ Vouched D fp den o v) ∨ r = .error cacheGetFailure) := by
  simp only [backendGet, H.memory]
  refine t_bind (t_of_E (H.fingerprint o ho)) (fun f hf => ?_) (by intro e h; cases h)
  cases hf
  refine t_bind (t_lookupStore o "get") (fun res hres => ?_) (by rintro e ⟨_, h, _⟩; cases h)
  obtain ⟨res', hr, hv⟩ := hres
  cases hr
  cases res with
  | none => exact t_raise _ (Or.inr rfl)
  | some v => exact t_pure _ (Or.inl ⟨v, rfl, hv v rfl⟩)

theorem tm_getReq (o : V) (ho : D o) :
    T (StoreInv c D fp den) (getReq env run x c o)
      (fun r => (∃ v, r = .ok v ∧ Vouched D fp den o v) ∨ r = .error cacheGetFailure) := by
  unfold getReq
  refine t_bind (t_emit _) (fun _ _ => t_bind (t_of_E (H.enabled o ho)) (fun b hb => ?_) (by intro e h; cases h)) (by intro e h; cases h)
  cases hb
  simp only [Bool.false_eq_true, if_false]
  exact tm_backendGet H o ho

theorem tm_setReq (o : V) (ho : D o) (v : V) (hv : den o = .ok v) :
    T (StoreInv c D fp den) (setReq env run x c o v) (· = .ok v) := by
  unfold setReq
  refine t_bind (t_emit _) (fun _ _ => t_bind (t_of_E (H.enabled o ho)) (fun b hb => ?_) (by intro e h; cases h)) (by intro e h; cases h)
  cases hb
  simp only [Bool.false_eq_true, if_false, backendSet, H.memory]
  refine t_bind (t_bind (t_of_E (H.fingerprint o ho)) (fun f hf => by cases hf; exact t_store o ho v hv) (by intro e h; cases h))
    (fun _ _ => ?_) (by intro e h; cases h)
  refine t_handle (tm_backendGet H o ho) ?_ ?_
  · rintro w (⟨w', hw, hvw⟩ | h)
    · cases hw
      have := vouched_eq H.sufficient ho hvw
      rw [hv] at this
      cases this; rfl
    · cases h
  · rintro e (⟨_, h, _⟩ | h)
    · cases h
    · cases h
      simp only [if_true]
      exact t_pure _ rfl

/-- **total correctness over the reliable backend**: from any store satisfying the invariant the evaluation terminates
    with the uncached outcome and re-establishes the invariant -/
theorem tm_cached_evaluate (o : V) (ho : D o) :
    T (StoreInv c D fp den) (cachedOp env run x c .evaluate o) (· = den o) := by
  simp only [cachedOp]
  have hlookup : T (StoreInv c D fp den) (cacheLookup env run x c o)
      (fun r => (∃ v, r = .ok (some v) ∧ Vouched D fp den o v) ∨ r = .ok Option.none) := by
    unfold cacheLookup
    refine t_bind (tm_existsReq H o ho) (fun b _ => ?_) (by rintro e ⟨_, h⟩; cases h)
    cases b
    · simp only [Bool.false_eq_true, if_false]; exact t_pure _ (Or.inr rfl)
    · simp only [if_true]
      refine t_handle (Q1 := fun r => (∃ v, r = .ok (some v) ∧ Vouched D fp den o v) ∨ r = .error cacheGetFailure) ?_ ?_ ?_
      · refine t_bind (tm_getReq H o ho) (fun v hv => ?_) ?_
        · rcases hv with ⟨v', h, hvv⟩ | h
          · cases h; exact t_pure _ (Or.inl ⟨v, rfl, hvv⟩)
          · cases h
        · rintro e (⟨_, h, _⟩ | h)
          · cases h
          · cases h; exact Or.inr rfl
      · rintro a (h | h)
        · exact Or.inl h
        · cases h
      · rintro e (⟨_, h, _⟩ | h)
        · cases h
        · cases h
          simp only [if_true]
          exact t_pure _ (Or.inr rfl)
  refine t_bind hlookup (fun hit hh => ?_) (by rintro e (⟨_, h, _⟩ | h) <;> cases h)
  cases hit with
  | some v =>
    rcases hh with ⟨v', h, hv⟩ | h
    · cases h
      exact t_pure _ (vouched_eq H.sufficient ho hv).symm
    · cases h
  | none =>
    simp only []
    refine t_bind (Q1 := (· = den o)) (t_of_E (H.inner o ho)) (fun v hv => ?_) (fun e he => he)
    exact t_weaken (fun r hr => by rw [hr]; exact hv) (tm_setReq H o ho v hv.symm)

end
end Labrea

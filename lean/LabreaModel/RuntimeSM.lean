/-
  RuntimeSM — executable state machine of `labrea/runtime.py` (as repaired: `Runtime._entered`
  is a per-thread stack of saved runtimes, `__exit__` pops it and removes the thread's slot when
  the thread had no runtime before, `Runtime.run` falls back to the live `_DEFAULT_HANDLERS`).

  State
    defaults : live default table            (`_DEFAULT_HANDLERS`, newest registration first)
    objs     : Id ↦ {handlers, entered}      (`Runtime` objects; `entered : Thread ↦ saved stack`,
                                               head = most recent `__enter__` of that thread)
    cur      : Thread ↦ Option Id            (`_RUNTIMES`; `none` = the thread has no slot)
    next     : Thread ↦ Nat                  allocation counter: the n-th object *created by thread t*
                                             is named `(t, n)` (a naming of Python's fresh identities)

  `Runtime.handle` builds its result with `Runtime({**self.handlers, **overrides})`, and
  `Runtime.__init__` puts a snapshot of the defaults underneath whatever it is given, so a derived
  runtime holds: overrides, else the receiver's handlers, else the defaults at derivation time.

  Every operation below is one `with lock:` body (or lock-free code that only reads immutable
  data / allocates), hence atomic.  What is abstracted away:
    * handler bodies (handlers are tags `H`; a served request returns the tag),
    * the informational field `Runtime.previous` (never read by the library),
    * the throw-away `Runtime()` that `setdefault(…, Runtime())` / `.get(parent, Runtime())`
      construct eagerly when the slot exists (unobservable),
    * `Runtime.__init__` setting `_entered = {}`: `alloc` keeps the (empty) entered stacks of the
      fresh name; on well-formed states (fresh names have empty stacks, `WF`) this is the same.
  No Mathlib.
-/
namespace Labrea.RuntimeSM

abbrev Ty := Nat
abbrev H := Nat
abbrev Thread := Nat
abbrev Id := Nat × Nat
abbrev Var := Nat
abbrev Table := List (Ty × H)

/-- function update -/
def upd {α : Type} {β : Type} [DecidableEq α] (f : α → β) (a : α) (b : β) : α → β :=
  fun x => if x = a then b else f x

@[simp] theorem upd_same {α β : Type} [DecidableEq α] (f : α → β) (a : α) (b : β) :
    upd f a b a = b := by simp [upd]

@[simp] theorem upd_ne {α β : Type} [DecidableEq α] (f : α → β) {a x : α} (b : β) (h : x ≠ a) :
    upd f a b x = f x := by simp [upd, h]

theorem upd_apply {α β : Type} [DecidableEq α] (f : α → β) (a x : α) (b : β) :
    upd f a b x = if x = a then b else f x := rfl

structure Obj where
  handlers : Table
  entered : Thread → List (Option Id)

structure State where
  defaults : Table
  objs : Id → Obj
  next : Thread → Nat
  cur : Thread → Option Id

/-- result of one atomic operation -/
inductive Res
  | unit
  | id (r : Id)
  | served (h : H)
  | typeError
  | notEntered          -- `__exit__` of an object the thread has not entered (KeyError); never in block trees
  deriving DecidableEq, Repr

/-- the atomic operations, objects given by identity -/
inductive Op
  | current
  | new (hs : Table)
  | derive (r : Id) (hs : Table)
  | handleCur (hs : Table)
  | enter (r : Id)
  | exit (r : Id)
  | registerDefault (ty : Ty) (h : H)
  | run (ty : Ty)
  | inherit (p : Thread)
  deriving DecidableEq, Repr

/-- `Runtime(handlers)` executed by thread `t`: a fresh object `(t, next t)` -/
def alloc (s : State) (t : Thread) (hs : Table) : State × Id :=
  ({ s with objs := upd s.objs (t, s.next t) { handlers := hs, entered := (s.objs (t, s.next t)).entered },
            next := upd s.next t (s.next t + 1) }, (t, s.next t))

/-- `current_runtime()`: `_RUNTIMES.setdefault(thread, Runtime())` -/
def current (s : State) (t : Thread) : State × Id :=
  match s.cur t with
  | some r => (s, r)
  | none => ({ (alloc s t s.defaults).1 with cur := upd s.cur t (some (t, s.next t)) }, (t, s.next t))

/-- `Runtime.run`: own handlers, else the live defaults, else TypeError -/
def serve (defaults : Table) (handlers : Table) (ty : Ty) : Res :=
  match handlers.lookup ty with
  | some h => .served h
  | none =>
    match defaults.lookup ty with
    | some h => .served h
    | none => .typeError

def step (s : State) (t : Thread) : Op → State × Res
  | .current => let c := current s t; (c.1, .id c.2)
  | .new hs => let a := alloc s t (hs ++ s.defaults); (a.1, .id a.2)
  | .derive r hs => let a := alloc s t (hs ++ (s.objs r).handlers ++ s.defaults); (a.1, .id a.2)
  | .handleCur hs =>
      let c := current s t
      let a := alloc c.1 t (hs ++ (c.1.objs c.2).handlers ++ c.1.defaults)
      (a.1, .id a.2)
  | .enter r =>
      ({ s with objs := upd s.objs r { handlers := (s.objs r).handlers,
                                        entered := upd (s.objs r).entered t (s.cur t :: (s.objs r).entered t) },
                cur := upd s.cur t (some r) }, .unit)
  | .exit r =>
      match (s.objs r).entered t with
      | [] => (s, .notEntered)
      | prev :: rest =>
        ({ s with objs := upd s.objs r { handlers := (s.objs r).handlers,
                                          entered := upd (s.objs r).entered t rest },
                  cur := upd s.cur t prev }, .unit)
  | .registerDefault ty h => ({ s with defaults := (ty, h) :: s.defaults }, .unit)
  | .run ty =>
      let c := current s t
      (c.1, serve c.1.defaults (c.1.objs c.2).handlers ty)
  | .inherit p =>
      match s.cur p with
      | some r => ({ s with cur := upd s.cur t (some r) }, .unit)
      | none => ({ (alloc s t s.defaults).1 with cur := upd s.cur t (some (t, s.next t)) }, .unit)

/-! ## Block trees (histories of one thread) -/

/-- non-scoping operations of a history; runtime objects are named by variables -/
inductive BOp
  | current (x : Var)                      -- x = current_runtime()
  | new (x : Var) (hs : Table)             -- x = Runtime(hs)
  | derive (x y : Var) (hs : Table)        -- x = y.handle(hs)
  | handleCur (x : Var) (hs : Table)       -- x = handle(hs)
  | registerDefault (ty : Ty) (h : H)
  | run (ty : Ty)
  | inherit (p : Thread)
  | probe                                  -- observe `_RUNTIMES.get(thread)` (no allocation)
  deriving DecidableEq, Repr

/-- `Block := op* | with r { Block } [raising]`, with `raise`/`try` to place the exception -/
inductive Block
  | done
  | op (o : BOp) (k : Block)
  | raise                                   -- raise an exception here (the continuation is skipped)
  | with_ (x : Var) (body : Block) (k : Block)
  | try_ (body : Block) (k : Block)         -- try: body / except: pass ; k
  deriving Repr

inductive Obs
  | bound (x : Var) (r : Id)
  | served (h : H)
  | typeError
  | cur (o : Option Id)
  deriving DecidableEq, Repr

abbrev Env := Var → Id

structure Out (σ : Type) where
  env : Env
  st : σ
  obs : List Obs
  raised : Bool

/-- the atomic operation a block op performs (probe performs none) -/
def BOp.toOp (env : Env) : BOp → Option Op
  | .current _ => some .current
  | .new _ hs => some (.new hs)
  | .derive _ y hs => some (.derive (env y) hs)
  | .handleCur _ hs => some (.handleCur hs)
  | .registerDefault ty h => some (.registerDefault ty h)
  | .run ty => some (.run ty)
  | .inherit p => some (.inherit p)
  | .probe => none

def BOp.target : BOp → Option Var
  | .current x => some x
  | .new x _ => some x
  | .derive x _ _ => some x
  | .handleCur x _ => some x
  | _ => none

def bindEnv (env : Env) (o : BOp) (r : Res) : Env :=
  match o.target, r with
  | some x, .id i => upd env x i
  | _, _ => env

def observe (o : BOp) (r : Res) : List Obs :=
  match o.target, r with
  | some x, .id i => [.bound x i]
  | _, .served h => [.served h]
  | _, .typeError => [.typeError]
  | _, _ => []

/-- a machine: atomic step + reading the current-runtime slot -/
structure Machine (σ : Type) where
  step : σ → Thread → Op → σ × Res
  cur : σ → Thread → Option Id

/-- execution of a block tree by thread `t`, generic in the machine -/
def execG {σ : Type} (m : Machine σ) (t : Thread) : Block → Env → σ → Out σ
  | .done, env, s => ⟨env, s, [], false⟩
  | .op o k, env, s =>
      match o.toOp env with
      | none =>
        let out := execG m t k env s
        { out with obs := .cur (m.cur s t) :: out.obs }
      | some a =>
        let r := m.step s t a
        let out := execG m t k (bindEnv env o r.2) r.1
        { out with obs := observe o r.2 ++ out.obs }
  | .raise, env, s => ⟨env, s, [], true⟩
  | .with_ x body k, env, s =>
      let b := execG m t body env (m.step s t (.enter (env x))).1
      let s2 := (m.step b.st t (.exit (env x))).1
      match b.raised with
      | true => ⟨b.env, s2, b.obs, true⟩
      | false =>
        let out := execG m t k b.env s2
        { out with obs := b.obs ++ out.obs }
  | .try_ body k, env, s =>
      let b := execG m t body env s
      let out := execG m t k b.env b.st
      { out with obs := b.obs ++ out.obs }

def machine : Machine State := ⟨step, fun s t => s.cur t⟩

@[simp] theorem machine_step : machine.step = step := rfl
@[simp] theorem machine_cur (s : State) (t : Thread) : machine.cur s t = s.cur t := rfl

def exec (t : Thread) (b : Block) (env : Env) (s : State) : Out State := execG machine t b env s

/-- the state right after leaving `with env x { body }` (normally or by exception) -/
def execWith (t : Thread) (x : Var) (body : Block) (env : Env) (s : State) : State :=
  (step (exec t body env (step s t (.enter (env x))).1).st t (.exit (env x))).1

/-! ## The abstract specification: one stack of frames per thread -/

structure AState where
  defaults : Table
  handlers : Id → Table
  next : Thread → Nat
  cur : Thread → Option Id
  /-- innermost first; a frame = (entered runtime, runtime that was current before) -/
  frames : Thread → List (Id × Option Id)

def aalloc (a : AState) (t : Thread) (hs : Table) : AState × Id :=
  ({ a with handlers := upd a.handlers (t, a.next t) hs, next := upd a.next t (a.next t + 1) },
   (t, a.next t))

def acurrent (a : AState) (t : Thread) : AState × Id :=
  match a.cur t with
  | some r => (a, r)
  | none => ({ (aalloc a t a.defaults).1 with cur := upd a.cur t (some (t, a.next t)) }, (t, a.next t))

def astep (a : AState) (t : Thread) : Op → AState × Res
  | .current => let c := acurrent a t; (c.1, .id c.2)
  | .new hs => let x := aalloc a t (hs ++ a.defaults); (x.1, .id x.2)
  | .derive r hs => let x := aalloc a t (hs ++ a.handlers r ++ a.defaults); (x.1, .id x.2)
  | .handleCur hs =>
      let c := acurrent a t
      let x := aalloc c.1 t (hs ++ c.1.handlers c.2 ++ c.1.defaults)
      (x.1, .id x.2)
  | .enter r =>
      ({ a with frames := upd a.frames t ((r, a.cur t) :: a.frames t), cur := upd a.cur t (some r) }, .unit)
  | .exit _ =>
      match a.frames t with
      | [] => (a, .notEntered)
      | f :: rest => ({ a with frames := upd a.frames t rest, cur := upd a.cur t f.2 }, .unit)
  | .registerDefault ty h => ({ a with defaults := (ty, h) :: a.defaults }, .unit)
  | .run ty =>
      let c := acurrent a t
      (c.1, serve c.1.defaults (c.1.handlers c.2) ty)
  | .inherit p =>
      match a.cur p with
      | some r => ({ a with cur := upd a.cur t (some r) }, .unit)
      | none => ({ (aalloc a t a.defaults).1 with cur := upd a.cur t (some (t, a.next t)) }, .unit)

def amachine : Machine AState := ⟨astep, fun a t => a.cur t⟩

@[simp] theorem amachine_step : amachine.step = astep := rfl
@[simp] theorem amachine_cur (a : AState) (t : Thread) : amachine.cur a t = a.cur t := rfl

def aexec (t : Thread) (b : Block) (env : Env) (a : AState) : Out AState := execG amachine t b env a

/-- the abstract state of a concrete state taken as the starting point (no frames yet) -/
def absInit (s : State) : AState :=
  ⟨s.defaults, fun r => (s.objs r).handlers, s.next, s.cur, fun _ => []⟩

/-- saved runtimes of the frames owned by object `r` -/
def owned (r : Id) (fs : List (Id × Option Id)) : List (Option Id) :=
  (fs.filter (fun f => f.1 == r)).map (·.2)

/-- refinement relation, relative to the concrete state `c0` in which the history started -/
structure Refines (c0 c : State) (a : AState) : Prop where
  defaults : a.defaults = c.defaults
  handlers : ∀ r, a.handlers r = (c.objs r).handlers
  next : a.next = c.next
  cur : a.cur = c.cur
  entered : ∀ r t, (c.objs r).entered t = owned r (a.frames t) ++ (c0.objs r).entered t

/-! ## The OLD behaviour (single `previous` field on the object), kept to document the repair -/

inductive Slot
  | unset
  | none          -- the value `None` stored in the thread's slot
  | some (r : Id)
  deriving DecidableEq, Repr

structure OldState where
  cur : Thread → Slot
  previous : Id → Option Id

/-- old `__enter__`: `self.previous = _RUNTIMES.get(thread); _RUNTIMES[thread] = self` -/
def enterOld (s : OldState) (t : Thread) (r : Id) : OldState :=
  { cur := upd s.cur t (.some r),
    previous := upd s.previous r (match s.cur t with | .some p => Option.some p | _ => Option.none) }

/-- old `__exit__`: `_RUNTIMES[thread] = self.previous; self.previous = None` -/
def exitOld (s : OldState) (t : Thread) (r : Id) : OldState :=
  { cur := upd s.cur t (match s.previous r with | Option.some p => .some p | Option.none => .none),
    previous := upd s.previous r Option.none }

/-! ## Lemmas -/

section lemmas

@[simp] theorem alloc_cur (s : State) (t : Thread) (hs : Table) : (alloc s t hs).1.cur = s.cur := rfl
@[simp] theorem alloc_defaults (s : State) (t : Thread) (hs : Table) :
    (alloc s t hs).1.defaults = s.defaults := rfl
@[simp] theorem alloc_id (s : State) (t : Thread) (hs : Table) : (alloc s t hs).2 = (t, s.next t) := rfl
@[simp] theorem alloc_next (s : State) (t : Thread) (hs : Table) :
    (alloc s t hs).1.next = upd s.next t (s.next t + 1) := rfl

@[simp] theorem alloc_entered (s : State) (t : Thread) (hs : Table) (r : Id) :
    ((alloc s t hs).1.objs r).entered = (s.objs r).entered := by
  by_cases h : r = (t, s.next t)
  · subst h; simp [alloc]
  · simp [alloc, h]

theorem alloc_handlers (s : State) (t : Thread) (hs : Table) (r : Id) :
    ((alloc s t hs).1.objs r).handlers = if r = (t, s.next t) then hs else (s.objs r).handlers := by
  by_cases h : r = (t, s.next t)
  · subst h; simp [alloc]
  · simp [alloc, h]

@[simp] theorem current_entered (s : State) (t : Thread) (r : Id) :
    ((current s t).1.objs r).entered = (s.objs r).entered := by
  unfold current; split <;> simp

@[simp] theorem current_defaults (s : State) (t : Thread) : (current s t).1.defaults = s.defaults := by
  unfold current; split <;> simp

theorem current_cur (s : State) (t : Thread) : (current s t).1.cur t = some (current s t).2 := by
  unfold current; split
  · assumption
  · simp

theorem current_cur_other (s : State) (t t' : Thread) (h : t' ≠ t) :
    (current s t).1.cur t' = s.cur t' := by
  unfold current; split <;> simp [h]

theorem current_of_some (s : State) (t : Thread) (r : Id) (h : s.cur t = some r) :
    current s t = (s, r) := by
  unfold current; rw [h]

/-- an op that is neither `enter` nor `exit` leaves every entered stack alone -/
theorem step_entered (s : State) (t : Thread) (o : Op) (hne : ∀ r, o ≠ .enter r) (hnx : ∀ r, o ≠ .exit r)
    (r : Id) : ((step s t o).1.objs r).entered = (s.objs r).entered := by
  cases o with
  | enter r' => exact absurd rfl (hne r')
  | exit r' => exact absurd rfl (hnx r')
  | inherit p => simp only [step]; split <;> simp
  | _ => simp [step]

theorem toOp_ne_enter (env : Env) (o : BOp) (a : Op) (h : o.toOp env = some a) (r : Id) : a ≠ .enter r := by
  cases o <;> simp [BOp.toOp] at h <;> subst h <;> simp

theorem toOp_ne_exit (env : Env) (o : BOp) (a : Op) (h : o.toOp env = some a) (r : Id) : a ≠ .exit r := by
  cases o <;> simp [BOp.toOp] at h <;> subst h <;> simp

theorem enter_entered (s : State) (t : Thread) (r r' : Id) (t' : Thread) :
    ((step s t (.enter r)).1.objs r').entered t' =
      if r' = r ∧ t' = t then s.cur t :: (s.objs r).entered t else (s.objs r').entered t' := by
  by_cases h : r' = r
  · subst h
    by_cases h2 : t' = t
    · subst h2; simp [step]
    · simp [step, h2]
  · simp [step, h]

theorem exit_of_cons (s : State) (t : Thread) (r : Id) (prev : Option Id) (rest : List (Option Id))
    (h : (s.objs r).entered t = prev :: rest) :
    step s t (.exit r) =
      ({ s with objs := upd s.objs r { handlers := (s.objs r).handlers,
                                        entered := upd (s.objs r).entered t rest },
                cur := upd s.cur t prev }, .unit) := by
  simp [step, h]

/-- Balance: a block tree leaves every entered stack of every object exactly as it found it. -/
theorem exec_entered (t : Thread) (b : Block) : ∀ (env : Env) (s : State) (r : Id) (t' : Thread),
    ((exec t b env s).st.objs r).entered t' = (s.objs r).entered t' := by
  induction b with
  | done => intro env s r t'; rfl
  | raise => intro env s r t'; rfl
  | op o k ih =>
    intro env s r t'
    simp only [exec, execG]
    split
    · exact ih env s r t'
    · rename_i a ha
      have := ih (bindEnv env o (machine.step s t a).2) (machine.step s t a).1 r t'
      simp only [exec] at this
      rw [this]
      exact congrFun (step_entered s t a (toOp_ne_enter env o a ha) (toOp_ne_exit env o a ha) r) t'
  | with_ x body k ihb ihk =>
    intro env s r t'
    have hb := ihb env (step s t (.enter (env x))).1
    -- the stack of the entered object after the body
    have htop : ((exec t body env (step s t (.enter (env x))).1).st.objs (env x)).entered t
        = s.cur t :: (s.objs (env x)).entered t := by
      rw [hb, enter_entered]; simp
    have hexit := exit_of_cons _ t (env x) _ _ htop
    have hafter : ∀ r t', ((step (exec t body env (step s t (.enter (env x))).1).st t (.exit (env x))).1.objs r).entered t'
        = (s.objs r).entered t' := by
      intro r t'
      rw [hexit]
      by_cases h : r = env x
      · subst h
        by_cases h2 : t' = t
        · subst h2; simp
        · simp [h2]; rw [hb, enter_entered]; simp [h2]
      · simp [h]; rw [hb, enter_entered]; simp [h]
    simp only [exec, execG]
    split
    · exact hafter r t'
    · have := ihk (exec t body env (step s t (.enter (env x))).1).env
        (step (exec t body env (step s t (.enter (env x))).1).st t (.exit (env x))).1 r t'
      simp only [exec] at this
      simp only [machine_step] at *
      rw [this]; exact hafter r t'
  | try_ body k ihb ihk =>
    intro env s r t'
    simp only [exec, execG]
    have h1 := ihb env s r t'
    have h2 := ihk (exec t body env s).env (exec t body env s).st r t'
    simp only [exec] at h1 h2
    rw [h2, h1]

/-! ### the abstract machine is balanced too -/

theorem astep_frames (a : AState) (t : Thread) (o : Op) (hne : ∀ r, o ≠ .enter r) (hnx : ∀ r, o ≠ .exit r) :
    (astep a t o).1.frames = a.frames := by
  cases o with
  | enter r' => exact absurd rfl (hne r')
  | exit r' => exact absurd rfl (hnx r')
  | inherit p => simp only [astep]; split <;> rfl
  | current => simp only [astep, acurrent]; split <;> rfl
  | run ty => simp only [astep, acurrent]; split <;> rfl
  | handleCur hs => simp only [astep, acurrent]; split <;> rfl
  | _ => rfl

theorem astep_exit_of_cons (a : AState) (t : Thread) (r : Id) (f : Id × Option Id)
    (rest : List (Id × Option Id)) (h : a.frames t = f :: rest) :
    astep a t (.exit r) = ({ a with frames := upd a.frames t rest, cur := upd a.cur t f.2 }, .unit) := by
  simp [astep, h]

theorem aexec_frames (t : Thread) (b : Block) : ∀ (env : Env) (a : AState),
    (aexec t b env a).st.frames = a.frames := by
  induction b with
  | done => intro env a; rfl
  | raise => intro env a; rfl
  | op o k ih =>
    intro env a
    simp only [aexec, execG]
    split
    · exact ih env a
    · rename_i x hx
      have := ih (bindEnv env o (amachine.step a t x).2) (amachine.step a t x).1
      simp only [aexec] at this
      rw [this]
      exact astep_frames a t x (toOp_ne_enter env o x hx) (toOp_ne_exit env o x hx)
  | with_ x body k ihb ihk =>
    intro env a
    have hb := ihb env (astep a t (.enter (env x))).1
    have hafter : (astep (aexec t body env (astep a t (.enter (env x))).1).st t (.exit (env x))).1.frames
        = a.frames := by
      have h1 : (aexec t body env (astep a t (.enter (env x))).1).st.frames t
          = (env x, a.cur t) :: a.frames t := by rw [hb]; simp [astep]
      rw [astep_exit_of_cons _ t _ _ _ h1]
      funext t'
      by_cases h : t' = t
      · subst h; simp
      · simp [h]; rw [hb]; simp [astep, h]
    simp only [aexec, execG]
    split
    · exact hafter
    · have := ihk (aexec t body env (astep a t (.enter (env x))).1).env
        (astep (aexec t body env (astep a t (.enter (env x))).1).st t (.exit (env x))).1
      simp only [aexec] at this
      simp only [amachine_step] at *
      rw [this]; exact hafter
  | try_ body k ihb ihk =>
    intro env a
    simp only [aexec, execG]
    have h1 := ihb env a
    have h2 := ihk (aexec t body env a).env (aexec t body env a).st
    simp only [aexec] at h1 h2
    rw [h2, h1]

/-! ### refinement, step by step -/

theorem owned_cons_same (r : Id) (p : Option Id) (fs : List (Id × Option Id)) :
    owned r ((r, p) :: fs) = p :: owned r fs := by simp [owned]

theorem owned_cons_ne (r r' : Id) (p : Option Id) (fs : List (Id × Option Id)) (h : r' ≠ r) :
    owned r' ((r, p) :: fs) = owned r' fs := by
  have : (r == r') = false := by simp; exact fun e => h e.symm
  simp [owned, List.filter, this]

theorem alloc_refines {c0 c : State} {a : AState} (h : Refines c0 c a) (t : Thread) (hs : Table) :
    Refines c0 (alloc c t hs).1 (aalloc a t hs).1 ∧ (aalloc a t hs).2 = (alloc c t hs).2 := by
  obtain ⟨hd, hh, hn, hc, he⟩ := h
  refine ⟨⟨hd, ?_, ?_, hc, ?_⟩, ?_⟩
  · intro r
    rw [alloc_handlers]
    simp only [aalloc, upd_apply, hn, hh]
  · simp [aalloc, hn]
  · intro r t'; rw [alloc_entered]; exact he r t'
  · simp [aalloc, hn]

theorem current_refines {c0 c : State} {a : AState} (h : Refines c0 c a) (t : Thread) :
    Refines c0 (current c t).1 (acurrent a t).1 ∧ (acurrent a t).2 = (current c t).2 := by
  have hcur : a.cur t = c.cur t := by rw [h.cur]
  unfold current acurrent
  rw [hcur]
  cases hct : c.cur t with
  | some r => exact ⟨h, rfl⟩
  | none =>
    simp only
    have ha := alloc_refines h t c.defaults
    rw [h.defaults]
    obtain ⟨⟨hd, hh, hn, hc, he⟩, hid⟩ := ha
    refine ⟨⟨hd, hh, hn, ?_, he⟩, ?_⟩
    · simp [h.cur, h.next]
    · simp [h.next]

theorem step_refines {c0 c : State} {a : AState} (h : Refines c0 c a) (t : Thread) (o : Op)
    (hnx : ∀ r, o ≠ .exit r) :
    Refines c0 (step c t o).1 (astep a t o).1 ∧ (astep a t o).2 = (step c t o).2 := by
  cases o with
  | exit r => exact absurd rfl (hnx r)
  | current =>
    have := current_refines h t
    exact ⟨this.1, by simp [step, astep, this.2]⟩
  | new hs =>
    have := alloc_refines h t (hs ++ c.defaults)
    simp only [step, astep, h.defaults]
    exact ⟨this.1, by rw [this.2]⟩
  | derive r hs =>
    have := alloc_refines h t (hs ++ (c.objs r).handlers ++ c.defaults)
    simp only [step, astep, h.handlers, h.defaults]
    exact ⟨this.1, by rw [this.2]⟩
  | handleCur hs =>
    have hc := current_refines h t
    have := alloc_refines hc.1 t (hs ++ ((current c t).1.objs (current c t).2).handlers ++ (current c t).1.defaults)
    simp only [step, astep, hc.1.handlers, hc.2, hc.1.defaults]
    exact ⟨this.1, by rw [this.2]⟩
  | enter r =>
    obtain ⟨hd, hh, hn, hc, he⟩ := h
    refine ⟨⟨hd, ?_, hn, ?_, ?_⟩, rfl⟩
    · intro r'
      by_cases e : r' = r
      · subst e; simp [step, astep, hh]
      · simp [step, astep, hh, e]
    · simp [step, astep, hc]
    · intro r' t'
      rw [enter_entered]
      by_cases e2 : t' = t
      · subst e2
        by_cases e : r' = r
        · subst e; simp [astep, owned_cons_same, he, hc]
        · simp [astep, e, owned_cons_ne _ _ _ _ e, he]
      · simp [astep, e2, he]
  | registerDefault ty hh' =>
    obtain ⟨hd, hh, hn, hc, he⟩ := h
    exact ⟨⟨by simp [step, astep, hd], hh, hn, hc, he⟩, rfl⟩
  | run ty =>
    have hc := current_refines h t
    simp only [step, astep, hc.1.handlers, hc.2, hc.1.defaults]
    exact ⟨hc.1, by first | rfl | trivial⟩
  | inherit p =>
    have hcur : a.cur p = c.cur p := by rw [h.cur]
    simp only [step, astep, hcur]
    cases hcp : c.cur p with
    | some r =>
      obtain ⟨hd, hh, hn, hc, he⟩ := h
      exact ⟨⟨hd, hh, hn, by simp [hc], he⟩, by first | rfl | trivial⟩
    | none =>
      simp only
      have ha := alloc_refines h t c.defaults
      rw [h.defaults]
      obtain ⟨⟨hd, hh, hn, hc, he⟩, hid⟩ := ha
      exact ⟨⟨hd, hh, hn, by simp [h.cur, h.next], he⟩, by first | rfl | trivial⟩

theorem exit_refines {c0 c : State} {a : AState} (h : Refines c0 c a) (t : Thread) (r : Id) (p : Option Id)
    (rest : List (Id × Option Id)) (hf : a.frames t = (r, p) :: rest) :
    Refines c0 (step c t (.exit r)).1 (astep a t (.exit r)).1 := by
  obtain ⟨hd, hh, hn, hc, he⟩ := h
  have htop : (c.objs r).entered t = p :: (owned r rest ++ (c0.objs r).entered t) := by
    rw [he, hf, owned_cons_same]; rfl
  rw [exit_of_cons c t r _ _ htop]
  simp only [astep, hf]
  refine ⟨hd, ?_, hn, by simp [hc], ?_⟩
  · intro r'
    by_cases e : r' = r
    · subst e; simp [hh]
    · simp [hh, e]
  · intro r' t'
    by_cases e2 : t' = t
    · subst e2
      by_cases e : r' = r
      · subst e; simp
      · simp [e]; rw [he, hf, owned_cons_ne _ _ _ _ e]
    · by_cases e : r' = r
      · subst e; simp [e2, he]
      · simp [e, e2, he]

/-- Refinement: a block tree run on the concrete machine and on the abstract per-thread stack
    machine, from related states, ends in related states with the same bindings, the same
    observations and the same pending exception. -/
theorem exec_refines (t : Thread) (b : Block) : ∀ (env : Env) (c0 c : State) (a : AState),
    Refines c0 c a →
      Refines c0 (exec t b env c).st (aexec t b env a).st ∧
      (aexec t b env a).obs = (exec t b env c).obs ∧
      (aexec t b env a).env = (exec t b env c).env ∧
      (aexec t b env a).raised = (exec t b env c).raised := by
  induction b with
  | done => intro env c0 c a h; exact ⟨h, rfl, rfl, rfl⟩
  | raise => intro env c0 c a h; exact ⟨h, rfl, rfl, rfl⟩
  | op o k ih =>
    intro env c0 c a h
    simp only [exec, aexec, execG]
    cases ho : o.toOp env with
    | none =>
      have := ih env c0 c a h
      simp only [exec, aexec] at this
      simp only [machine_cur, amachine_cur] at *
      refine ⟨this.1, ?_, this.2.2.1, this.2.2.2⟩
      simp [this.2.1, h.cur]
    | some x =>
      have hs := step_refines h t x (toOp_ne_exit env o x ho)
      simp only [machine_step, amachine_step]
      rw [hs.2]
      have := ih (bindEnv env o (step c t x).2) c0 (step c t x).1 (astep a t x).1 hs.1
      simp only [exec, aexec] at this
      exact ⟨this.1, by simp [this.2.1], this.2.2.1, this.2.2.2⟩
  | with_ x body k ihb ihk =>
    intro env c0 c a h
    have he := (step_refines h t (.enter (env x)) (by intro r; simp)).1
    have hb := ihb env c0 _ _ he
    have hfr : (aexec t body env (astep a t (.enter (env x))).1).st.frames t
        = (env x, a.cur t) :: a.frames t := by
      rw [aexec_frames]; simp [astep]
    have hx := exit_refines hb.1 t (env x) _ _ hfr
    simp only [exec, aexec, execG]
    simp only [exec, aexec, machine_step, amachine_step] at hb hx ihk ⊢
    rw [hb.2.2.2]
    split
    · exact ⟨hx, hb.2.1, hb.2.2.1, rfl⟩
    · rw [hb.2.2.1]
      have := ihk (execG machine t body env (step c t (Op.enter (env x))).fst).env c0 _ _ hx
      exact ⟨this.1, by simp [this.2.1, hb.2.1], this.2.2.1, this.2.2.2⟩
  | try_ body k ihb ihk =>
    intro env c0 c a h
    have hb := ihb env c0 c a h
    simp only [exec, aexec, execG]
    simp only [exec, aexec] at hb ihk ⊢
    rw [hb.2.2.1]
    have := ihk (execG machine t body env c).env c0 _ _ hb.1
    exact ⟨this.1, by simp [this.2.1, hb.2.1], this.2.2.1, this.2.2.2⟩

theorem refines_init (s : State) : Refines s s (absInit s) :=
  ⟨rfl, fun _ => rfl, rfl, rfl, fun _ _ => by simp [absInit, owned]⟩

/-! ### heap facts -/

/-- `r` names an object that has been created -/
def Allocated (s : State) (r : Id) : Prop := r.2 < s.next r.1

theorem alloc_objs_of_allocated (s : State) (t : Thread) (hs : Table) (r : Id) (h : Allocated s r) :
    (alloc s t hs).1.objs r = s.objs r := by
  have : r ≠ (t, s.next t) := by
    intro e; subst e; exact Nat.lt_irrefl _ h
  simp [alloc, this]

theorem current_objs_of_allocated (s : State) (t : Thread) (r : Id) (h : Allocated s r) :
    (current s t).1.objs r = s.objs r := by
  unfold current; split
  · rfl
  · exact alloc_objs_of_allocated s t s.defaults r h

theorem alloc_allocated (s : State) (t : Thread) (hs : Table) (r : Id) (h : Allocated s r) :
    Allocated (alloc s t hs).1 r := by
  unfold Allocated at *
  simp only [alloc_next, upd_apply]
  split
  · rename_i e; rw [e] at h; exact Nat.lt_succ_of_lt h
  · exact h

theorem current_allocated (s : State) (t : Thread) (r : Id) (h : Allocated s r) :
    Allocated (current s t).1 r := by
  unfold current; split
  · exact h
  · exact alloc_allocated s t s.defaults r h

/-- every atomic step leaves the handler table of every existing object unchanged -/
theorem step_handlers (s : State) (t : Thread) (o : Op) (r : Id) (h : Allocated s r) :
    ((step s t o).1.objs r).handlers = (s.objs r).handlers := by
  cases o with
  | current => simp [step, current_objs_of_allocated s t r h]
  | new hs => simp [step, alloc_objs_of_allocated s t _ r h]
  | derive r' hs => simp [step, alloc_objs_of_allocated s t _ r h]
  | handleCur hs =>
    simp only [step]
    rw [alloc_objs_of_allocated _ t _ r (current_allocated s t r h), current_objs_of_allocated s t r h]
  | enter r' =>
    by_cases e : r = r'
    · subst e; simp [step]
    · simp [step, e]
  | exit r' =>
    simp only [step]; split
    · rfl
    · by_cases e : r = r'
      · subst e; simp
      · simp [e]
  | registerDefault ty hh => rfl
  | run ty => simp [step, current_objs_of_allocated s t r h]
  | inherit p =>
    simp only [step]; split
    · rfl
    · exact congrArg Obj.handlers (alloc_objs_of_allocated s t s.defaults r h)

theorem step_allocated (s : State) (t : Thread) (o : Op) (r : Id) (h : Allocated s r) :
    Allocated (step s t o).1 r := by
  cases o with
  | current => exact current_allocated s t r h
  | new hs => exact alloc_allocated s t _ r h
  | derive r' hs => exact alloc_allocated s t _ r h
  | handleCur hs => exact alloc_allocated _ t _ r (current_allocated s t r h)
  | enter r' => exact h
  | exit r' => simp only [step]; split <;> exact h
  | registerDefault ty hh => exact h
  | run ty => exact current_allocated s t r h
  | inherit p => simp only [step]; split; exact h; exact alloc_allocated s t s.defaults r h

/-! ### leaving a block -/

/-- what `with env x { body }` does to the state, in one equation: the body's final state with the
    thread's slot put back to what it was and the entered object's stack popped -/
theorem execWith_cur (t : Thread) (x : Var) (body : Block) (env : Env) (s : State) :
    (execWith t x body env s).cur t = s.cur t := by
  have htop : ((exec t body env (step s t (.enter (env x))).1).st.objs (env x)).entered t
      = s.cur t :: (s.objs (env x)).entered t := by
    rw [exec_entered, enter_entered]; simp
  unfold execWith
  rw [exit_of_cons _ t (env x) _ _ htop]
  simp

theorem execWith_entered (t : Thread) (x : Var) (body : Block) (env : Env) (s : State) (r : Id) (t' : Thread) :
    ((execWith t x body env s).objs r).entered t' = (s.objs r).entered t' := by
  have h := exec_entered t (.with_ x body .done) env s r t'
  simp only [exec, execG, machine_step] at h
  unfold execWith exec
  revert h
  split <;> exact id

/-- the state in which the continuation of a `with` block starts is `execWith` -/
theorem exec_with_done (t : Thread) (x : Var) (body : Block) (env : Env) (s : State) :
    (exec t (.with_ x body .done) env s).st = execWith t x body env s := by
  simp only [exec, execG, machine_step, execWith]
  split <;> rfl

theorem step_cur_isSome (s : State) (t : Thread) (o : Op) (hnx : ∀ r, o ≠ .exit r)
    (h : (s.cur t).isSome) : ((step s t o).1.cur t).isSome := by
  cases o with
  | exit r => exact absurd rfl (hnx r)
  | current => simp [step, current_cur]
  | new hs => simpa [step] using h
  | derive r hs => simpa [step] using h
  | handleCur hs => simp [step, current_cur]
  | enter r => simp [step]
  | registerDefault ty hh => simpa [step] using h
  | run ty => simp [step, current_cur]
  | inherit p => simp only [step]; split <;> simp

/-- Inside a block the thread has a runtime, so `current_runtime()` never allocates there:
    a history that starts with the slot set keeps it set. -/
theorem exec_cur_isSome (t : Thread) (b : Block) : ∀ (env : Env) (s : State),
    (s.cur t).isSome → ((exec t b env s).st.cur t).isSome := by
  induction b with
  | done => intro env s h; exact h
  | raise => intro env s h; exact h
  | op o k ih =>
    intro env s h
    simp only [exec, execG]
    split
    · exact ih env s h
    · rename_i a ha
      exact ih _ _ (step_cur_isSome s t a (toOp_ne_exit env o a ha) h)
  | with_ x body k ihb ihk =>
    intro env s h
    have hw : ((execWith t x body env s).cur t).isSome := by rw [execWith_cur]; exact h
    simp only [exec, execG, machine_step]
    split
    · exact hw
    · exact ihk _ _ hw
  | try_ body k ihb ihk =>
    intro env s h
    simp only [exec, execG]
    exact ihk _ _ (ihb env s h)

/-- a history never changes the handler table of an object that existed when it started -/
theorem exec_handlers (t : Thread) (b : Block) : ∀ (env : Env) (s : State) (r : Id), Allocated s r →
    ((exec t b env s).st.objs r).handlers = (s.objs r).handlers ∧ Allocated (exec t b env s).st r := by
  induction b with
  | done => intro env s r h; exact ⟨rfl, h⟩
  | raise => intro env s r h; exact ⟨rfl, h⟩
  | op o k ih =>
    intro env s r h
    simp only [exec, execG]
    split
    · exact ih env s r h
    · rename_i a ha
      have := ih (bindEnv env o (step s t a).2) (step s t a).1 r (step_allocated s t a r h)
      simp only [exec] at this
      simp only [machine_step]
      exact ⟨this.1.trans (step_handlers s t a r h), this.2⟩
  | with_ x body k ihb ihk =>
    intro env s r h
    have h1 := step_allocated s t (.enter (env x)) r h
    have hb := ihb env _ r h1
    have h2 := step_allocated _ t (.exit (env x)) r hb.2
    have hw : ((execWith t x body env s).objs r).handlers = (s.objs r).handlers := by
      unfold execWith
      rw [step_handlers _ t _ r hb.2, hb.1, step_handlers s t _ r h]
    simp only [exec, execG, machine_step]
    split
    · exact ⟨hw, h2⟩
    · have := ihk (exec t body env (step s t (.enter (env x))).1).env (execWith t x body env s) r h2
      exact ⟨this.1.trans hw, this.2⟩
  | try_ body k ihb ihk =>
    intro env s r h
    simp only [exec, execG]
    have hb := ihb env s r h
    have := ihk (exec t body env s).env (exec t body env s).st r hb.2
    simp only [exec] at this hb
    exact ⟨this.1.trans hb.1, this.2⟩

/-! ### `Runtime.__init__` sets `_entered = {}` -/

/-- well-formed states: a name that has not been allocated has empty saved stacks -/
def WF (s : State) : Prop := ∀ r, ¬ Allocated s r → ∀ t, (s.objs r).entered t = []

/-- on a well-formed state a freshly created object has empty saved stacks, as `__init__` makes them -/
theorem alloc_fresh_entered (s : State) (t : Thread) (hs : Table) (h : WF s) :
    ((alloc s t hs).1.objs (t, s.next t)).entered = fun _ => [] := by
  funext t'
  rw [alloc_entered]
  exact h (t, s.next t) (by simp [Allocated]) t'

theorem alloc_wf (s : State) (t : Thread) (hs : Table) (h : WF s) : WF (alloc s t hs).1 := by
  intro r hr t'
  rw [alloc_entered]
  exact h r (fun ha => hr (alloc_allocated s t hs r ha)) t'

theorem current_wf (s : State) (t : Thread) (h : WF s) : WF (current s t).1 := by
  unfold current; split
  · exact h
  · exact alloc_wf s t s.defaults h

/-- well-formedness is preserved by every step that enters only existing objects (a program can
    only hold references to objects that were created) -/
theorem step_wf (s : State) (t : Thread) (o : Op) (h : WF s) (hen : ∀ r, o = .enter r → Allocated s r) :
    WF (step s t o).1 := by
  cases o with
  | current => exact current_wf s t h
  | new hs => exact alloc_wf s t _ h
  | derive r hs => exact alloc_wf s t _ h
  | handleCur hs => exact alloc_wf _ t _ (current_wf s t h)
  | registerDefault ty hh => exact h
  | run ty => exact current_wf s t h
  | inherit p =>
    simp only [step]; split
    · exact h
    · exact alloc_wf s t s.defaults h
  | enter r =>
    intro r' hr' t'
    have hne : r' ≠ r := fun e => hr' (by subst e; exact hen r' rfl)
    rw [enter_entered]; simp [hne]
    exact h r' hr' t'
  | exit r =>
    intro r' hr' t'
    simp only [step] at hr' ⊢
    split
    · rename_i he; simp only [he] at hr'; exact h r' hr' t'
    · rename_i p rest he
      simp only [he] at hr'
      have hr0 : ¬ Allocated s r' := hr'
      by_cases e : r' = r
      · subst e
        have := h r' hr0 t
        rw [this] at he; cases he
      · simp [e]; exact h r' hr0 t'

end lemmas

end Labrea.RuntimeSM

/-
  Cache transparency reduced to fingerprint soundness.

  `Cached.evaluate` over a `MemoryCache`, with caching switched on, for a node `x` whose
    * fingerprint under a dictionary `o` of the history is `fp o` (its `keys()` succeed),
    * uncached outcome under `o` is `den o` (a value or a failure), whatever the state,
    * sub-computations (the switch lookup, `keys()`, the inner evaluation) leave the entries of cache `c` alone,
  returns `den o` after ANY history of such evaluations — provided equal fingerprints imply equal outcomes
  (`sufficient`).  That hypothesis is exactly what the known findings F18 / F19 / F22 violate; everything else the
  full statement of C01 needs is proved here for all histories by an invariant on the store.
-/
import LabreaModel.CacheLemmas
import LabreaModel.MonadLemmas
namespace Labrea

/-- the entries of cache `c` -/
abbrev St.E (s : St) (c : Nat) : List (V × V) := s.cacheEntries c

/-- what the reduction assumes about the node, for the dictionaries `D` of the history -/
structure FingerprintSound (env : Env) (run : Run) (x : Expr) (c : Nat) (D : V → Prop)
    (fp : V → V) (den : V → Except Err V) : Prop where
  memory : env.cacheKind c = .memory
  /-- caching is on for these dictionaries; consulting the switch does not touch the store -/
  enabled : ∀ o, D o → ∀ s, ∃ s', cacheDisabled env run o s = some (.ok false, s') ∧ s'.E c = s.E c
  /-- `keys()` succeeds and yields the fingerprint `fp o`, from any state, without touching the store -/
  fingerprint : ∀ o, D o → ∀ s, ∃ s', fingerprintOf run x o s = some (.ok (fp o), s') ∧ s'.E c = s.E c
  /-- the inner evaluation has a state-independent outcome and does not touch the entries of this cache -/
  inner : ∀ o, D o → ∀ s, ∃ s', run .evaluate x o s = some (den o, s') ∧ s'.E c = s.E c
  /-- **fingerprint soundness**: dictionaries with equal fingerprints have equal outcomes -/
  sufficient : ∀ o o', D o → D o' → fp o = fp o' → den o = den o'

/-- the store invariant: every entry is the outcome of some dictionary with that fingerprint -/
def StoreInv (c : Nat) (D : V → Prop) (fp : V → V) (den : V → Except Err V) (s : St) : Prop :=
  ∀ f v, entryLookup f (s.E c) = some v → ∃ o', D o' ∧ fp o' = f ∧ den o' = .ok v

section
variable {env : Env} {run : Run} {x : Expr} {c : Nat} {D : V → Prop} {fp : V → V} {den : V → Except Err V}
variable (H : FingerprintSound env run x c D fp den)
include H

theorem fs_lookupStore (o : V) (what : String) (s : St) :
    ∃ s', lookupStore c (fp o) what s = some (.ok (entryLookup (fp o) (s.E c)), s') ∧ s'.E c = s.E c := by
  unfold lookupStore
  simp only [bind_run, getSt]
  cases h : entryLookup (fp o) (s.cacheEntries c) with
  | none =>
    exact ⟨{ s with events := Event.cacheOp c what (fp o) "miss" :: s.events }, by simp [bind_run, emit_run, pure_run], rfl⟩
  | some v =>
    exact ⟨{ s with events := Event.cacheOp c what (fp o) "hit" :: s.events }, by simp [bind_run, emit_run, pure_run], rfl⟩

theorem fs_exists (o : V) (ho : D o) (s : St) :
    ∃ s', existsReq env run x c o s = some (.ok (entryLookup (fp o) (s.E c)).isSome, s') ∧ s'.E c = s.E c := by
  obtain ⟨s1, h1, e1⟩ := H.enabled o ho { s with events := Event.req "cache_exists" x.id :: s.events }
  obtain ⟨s2, h2, e2⟩ := H.fingerprint o ho s1
  obtain ⟨s3, h3, e3⟩ := fs_lookupStore H o "exists" s2
  refine ⟨s3, ?_, by rw [e3, e2, e1]; rfl⟩
  have eE : s2.E c = s.E c := by rw [e2, e1]; rfl
  simp only [existsReq, bind_run, emit_run, h1, Bool.false_eq_true, if_false, backendExists, H.memory, h2, h3, pure_run, eE]

theorem fs_get (o : V) (ho : D o) (s : St) :
    ∃ s', getReq env run x c o s = some ((match entryLookup (fp o) (s.E c) with
        | some v => Except.ok v
        | Option.none => Except.error cacheGetFailure), s') ∧ s'.E c = s.E c := by
  obtain ⟨s1, h1, e1⟩ := H.enabled o ho { s with events := Event.req "cache_get" x.id :: s.events }
  obtain ⟨s2, h2, e2⟩ := H.fingerprint o ho s1
  obtain ⟨s3, h3, e3⟩ := fs_lookupStore H o "get" s2
  refine ⟨s3, ?_, by rw [e3, e2, e1]; rfl⟩
  have eE : s2.E c = s.E c := by rw [e2, e1]; rfl
  simp only [getReq, bind_run, emit_run, h1, Bool.false_eq_true, if_false, backendGet, H.memory, h2, h3, eE]
  cases entryLookup (fp o) (s.E c) <;> simp [pure_run, raise_run]

theorem fs_set (o : V) (ho : D o) (v : V) (s : St) :
    ∃ s', setReq env run x c o v s = some (.ok v, s') ∧ s'.E c = entryInsert (fp o) v (s.E c) := by
  obtain ⟨s1, h1, e1⟩ := H.enabled o ho { s with events := Event.req "cache_set" x.id :: s.events }
  obtain ⟨s2, h2, e2⟩ := H.fingerprint o ho s1
  -- the store
  let s3 : St := { (s2.setCacheEntries c (entryInsert (fp o) v (s2.cacheEntries c))) with
    events := Event.cacheOp c "set" (fp o) "stored" :: (s2.setCacheEntries c (entryInsert (fp o) v (s2.cacheEntries c))).events }
  have e3 : s3.E c = entryInsert (fp o) v (s.E c) := by
    have : s3.E c = (s2.setCacheEntries c (entryInsert (fp o) v (s2.cacheEntries c))).cacheEntries c := rfl
    rw [this, cacheEntries_set_same]
    have : s2.cacheEntries c = s.E c := by
      have := e2; rw [e1] at this; exact this
    rw [this]
  have hstore : storeEntry c (fp o) v s2 = some (.ok (), s3) := by
    simp [storeEntry, modifySt, bind_run, emit_run, s3]
  -- the read-back
  obtain ⟨s4, h4, e4⟩ := H.fingerprint o ho s3
  obtain ⟨s5, h5, e5⟩ := fs_lookupStore H o "get" s4
  have hfound : entryLookup (fp o) (s4.E c) = some v := by
    rw [e4, e3]; exact entryLookup_insert_same _ _ _
  refine ⟨s5, ?_, by rw [e5, e4, e3]⟩
  simp only [setReq, bind_run, emit_run, h1, Bool.false_eq_true, if_false, backendSet, H.memory, h2, hstore, handle,
    backendGet, h4, h5, hfound, pure_run]

/-- **one evaluation.** From a store that satisfies the invariant, `Cached.evaluate` on a dictionary of the history
    returns the uncached outcome `den o`, and the invariant holds afterwards. -/
theorem cached_evaluate_transparent (o : V) (ho : D o) (s : St) (hinv : StoreInv c D fp den s)
    (r : Except Err V) (s' : St) (h : cachedOp env run x c .evaluate o s = some (r, s')) :
    r = den o ∧ StoreInv c D fp den s' := by
  obtain ⟨s1, h1, e1⟩ := fs_exists H o ho s
  simp only [cachedOp, cacheLookup, bind_run, h1] at h
  cases hl : entryLookup (fp o) (s.E c) with
  | some v =>
    -- a hit: the stored entry is the outcome of a dictionary with the same fingerprint
    obtain ⟨s2, h2, e2⟩ := fs_get H o ho s1
    have hl1 : entryLookup (fp o) (s1.E c) = some v := by rw [e1]; exact hl
    simp only [hl, Option.isSome_some, if_true, handle, bind_run, h2, hl1, pure_run] at h
    simp only [Option.some.injEq, Prod.mk.injEq] at h
    obtain ⟨rfl, rfl⟩ := h
    obtain ⟨o', ho', hfp, hden⟩ := hinv _ _ hl
    refine ⟨?_, ?_⟩
    · rw [H.sufficient o o' ho ho' hfp.symm, hden]
    · intro f w hw
      rw [e2, e1] at hw
      exact hinv f w hw
  | none =>
    -- a miss: the inner expression is evaluated; a value is stored under `fp o`
    simp only [hl, Option.isSome_none, Bool.false_eq_true, if_false, pure_run, bind_run] at h
    obtain ⟨s2, h2, e2⟩ := H.inner o ho s1
    simp only [h2] at h
    cases hd : den o with
    | error err =>
      simp only [hd, Option.some.injEq, Prod.mk.injEq] at h
      obtain ⟨rfl, rfl⟩ := h
      refine ⟨rfl, ?_⟩
      intro f w hw
      rw [e2, e1] at hw
      exact hinv f w hw
    | ok v =>
      obtain ⟨s3, h3, e3⟩ := fs_set H o ho v s2
      simp only [hd, h3, Option.some.injEq, Prod.mk.injEq] at h
      obtain ⟨rfl, rfl⟩ := h
      refine ⟨rfl, ?_⟩
      intro f w hw
      rw [e3, e2, e1] at hw
      by_cases hf : f = fp o
      · subst hf
        rw [entryLookup_insert_same] at hw
        cases hw
        exact ⟨o, ho, rfl, hd⟩
      · rw [entryLookup_insert_other hf] at hw
        exact hinv f w hw

/-- **a failed evaluation stores nothing.** When the uncached outcome of `o` is a failure, the evaluation of the cached
    node returns that failure and the entries of its cache are exactly what they were — after any history. -/
theorem cached_failure_leaves_store (o : V) (ho : D o) (s : St) (hinv : StoreInv c D fp den s) (err : Err)
    (hd : den o = .error err) (r : Except Err V) (s' : St) (h : cachedOp env run x c .evaluate o s = some (r, s')) :
    r = .error err ∧ s'.E c = s.E c := by
  obtain ⟨s1, h1, e1⟩ := fs_exists H o ho s
  simp only [cachedOp, cacheLookup, bind_run, h1] at h
  cases hl : entryLookup (fp o) (s.E c) with
  | some w =>
    -- impossible: an entry under `o`'s fingerprint would be a successful outcome of `o`
    obtain ⟨o', ho', hfp, hden⟩ := hinv _ _ hl
    rw [H.sufficient o o' ho ho' hfp.symm, hden] at hd
    cases hd
  | none =>
    simp only [hl, Option.isSome_none, Bool.false_eq_true, if_false, pure_run, bind_run] at h
    obtain ⟨s2, h2, e2⟩ := H.inner o ho s1
    simp only [h2, hd, Option.some.injEq, Prod.mk.injEq] at h
    obtain ⟨rfl, rfl⟩ := h
    exact ⟨rfl, by rw [e2, e1]⟩

/-- **memoization is effective (1).** After a successful evaluation on `o` the store holds `o`'s outcome under `o`'s
    fingerprint. -/
theorem cached_evaluate_stores (o : V) (ho : D o) (s : St) (hinv : StoreInv c D fp den s) (v : V) (hv : den o = .ok v)
    (r : Except Err V) (s' : St) (h : cachedOp env run x c .evaluate o s = some (r, s')) :
    entryLookup (fp o) (s'.E c) = some v := by
  obtain ⟨s1, h1, e1⟩ := fs_exists H o ho s
  simp only [cachedOp, cacheLookup, bind_run, h1] at h
  cases hl : entryLookup (fp o) (s.E c) with
  | some w =>
    obtain ⟨s2, h2, e2⟩ := fs_get H o ho s1
    have hl1 : entryLookup (fp o) (s1.E c) = some w := by rw [e1]; exact hl
    simp only [hl, Option.isSome_some, if_true, handle, bind_run, h2, hl1, pure_run] at h
    simp only [Option.some.injEq, Prod.mk.injEq] at h
    obtain ⟨_, rfl⟩ := h
    obtain ⟨o', ho', hfp, hden⟩ := hinv _ _ hl
    have : den o = .ok w := by rw [H.sufficient o o' ho ho' hfp.symm, hden]
    rw [hv] at this; cases this
    rw [e2, e1]; exact hl
  | none =>
    simp only [hl, Option.isSome_none, Bool.false_eq_true, if_false, pure_run, bind_run] at h
    obtain ⟨s2, h2, e2⟩ := H.inner o ho s1
    obtain ⟨s3, h3, e3⟩ := fs_set H o ho v s2
    simp only [h2, hv, h3, Option.some.injEq, Prod.mk.injEq] at h
    obtain ⟨_, rfl⟩ := h
    rw [e3]; exact entryLookup_insert_same _ _ _

/-- **memoization is effective (2).** With an entry under the fingerprint, an evaluation on ANY dictionary with that
    fingerprint consists of the existence request and the get request — the inner expression does not occur: no
    body, no effect, no nested evaluation runs. -/
theorem cached_hit_runs_nothing (o : V) (ho : D o) (t : St) (v : V) (hent : entryLookup (fp o) (t.E c) = some v) :
    cachedOp env run x c .evaluate o t = (existsReq env run x c o >>= fun _ => getReq env run x c o) t := by
  obtain ⟨s1, h1, e1⟩ := fs_exists H o ho t
  obtain ⟨s2, h2, e2⟩ := fs_get H o ho s1
  have hl1 : entryLookup (fp o) (s1.E c) = some v := by rw [e1]; exact hent
  simp only [cachedOp, cacheLookup, bind_run, h1, hent, Option.isSome_some, if_true, handle, h2, hl1, pure_run]

/-- **any history.** Evaluate the node on `o₁ … oₖ` (dictionaries of `D`) one after the other on one long-lived
    state, in any order, with repetitions: every evaluation returns the uncached outcome of its dictionary. -/
theorem cached_history_transparent : ∀ (hist : List V), (∀ o ∈ hist, D o) → ∀ (s : St), StoreInv c D fp den s →
    ∀ (o : V), D o → ∀ (s1 : St),
      (hist.foldl (fun (st : Option St) oi => st.bind fun t =>
        (cachedOp env run x c .evaluate oi t).map Prod.snd) (some s)) = some s1 →
      ∀ r s2, cachedOp env run x c .evaluate o s1 = some (r, s2) → r = den o
  | [], _, s, hinv, o, ho, s1, hs, r, s2, h => by
    simp only [List.foldl_nil, Option.some.injEq] at hs
    subst hs
    exact (cached_evaluate_transparent H o ho s hinv r s2 h).1
  | oi :: rest, hD, s, hinv, o, ho, s1, hs, r, s2, h => by
    simp only [List.foldl_cons, Option.bind_some] at hs
    cases hstep : cachedOp env run x c .evaluate oi s with
    | none =>
      simp only [hstep, Option.map_none] at hs
      have : ∀ l : List V, l.foldl (fun (st : Option St) oi => st.bind fun t =>
          (cachedOp env run x c .evaluate oi t).map Prod.snd) Option.none = Option.none := by
        intro l; induction l with
        | nil => rfl
        | cons a l ih => simpa using ih
      rw [this] at hs; cases hs
    | some p =>
      obtain ⟨ri, si⟩ := p
      simp only [hstep, Option.map_some] at hs
      have hinv' := (cached_evaluate_transparent H oi (hD oi (by simp)) s hinv ri si hstep).2
      exact cached_history_transparent rest (fun o' ho' => hD o' (by simp [ho'])) si hinv' o ho s1 hs r s2 h

end

/-- the empty store satisfies the invariant -/
theorem storeInv_empty (c : Nat) (D : V → Prop) (fp : V → V) (den : V → Except Err V) (s : St)
    (h : s.cacheEntries c = []) : StoreInv c D fp den s := by
  intro f v hv
  simp [St.E, h, entryLookup] at hv

end Labrea

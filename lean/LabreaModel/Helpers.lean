/-
  C13 — the helper steps of `labrea/functions.py`.

  1. `Tm`/`Row`: a small term language in which one *row* describes one public helper: how it is
     defined, its parameters, which of them may be given as an Evaluatable (option-capable), and
     the value its step computes from the input.  `harness/translate_functions.py` generates the
     table `Labrea.Generated.helperTable` in this language from the current source; `helperSpec`
     below is the hand-written table, one row per helper, written from the docstrings
     (documented operation and operand order).  `LabreaProps/C13Helpers.lean` checks that the
     two tables are equal.
  2. `PV`/`eval`: Python values and an interpreter for `Tm` (total, fuel-bounded), i.e. the
     meaning of "the corresponding Python operation".  Operands may be *free symbols*
     (`PV.sym`): an operation on a symbol builds a term, so operand order is a syntactic fact.
     Where Python's semantics is not modelled the interpreter answers `ModelLimit`; the
     harness never generates such cases.
  3. `helperStep`: a helper applied to parameter bindings, as a `Step` of the pipeline model —
     a `PartialApplication` whose parameters are evaluated under the options at evaluate time.
  No Mathlib.
-/
import LabreaModel.PipelineLL
namespace Labrea.Helpers
open Labrea.PipelineLL

/-! ## 1. syntax -/

mutual
inductive Tm where
  /-- the value flowing through the pipeline -/
  | input
  /-- the value of a helper parameter: evaluated under the options when the parameter is
      option-capable, as given otherwise; for `*p` the tuple, for `**p` the dict -/
  | param (n : String)
  /-- a helper parameter captured as given by a closure — never evaluated (not used by the spec) -/
  | rawParam (n : String)
  /-- bound variable: lambda formal, generator variable, `except … as` name -/
  | var (n : String)
  /-- global name after import resolution, e.g. "builtins.map", "itertools.chain.from_iterable" -/
  | glob (n : String)
  | none
  | bool (b : Bool)
  | int (i : Int)
  | str (s : String)
  /-- `labrea._missing.MISSING` -/
  | missing
  /-- `a op b`; op ∈ add sub mult div floordiv mod bitand bitor bitxor eq noteq lt lte gt gte is isnot in notin -/
  | binop (op : String) (a b : Tm)
  /-- `op a`; op ∈ usub not -/
  | unop (op : String) (a : Tm)
  | call (f : Tm) (args : Args)
  | attr (o : Tm) (n : String)
  | index (o i : Tm)
  | lam (ps : List String) (body : Tm)
  | ite (c t e : Tm)
  | tuple (xs : Args)
  /-- `{**a, **b}` -/
  | dictOf (xs : Args)
  /-- `(elt for v in it)` -/
  | gen (elt : Tm) (v : String) (it : Tm)
  /-- `try: return b  except (excs) as n: h` -/
  | tryExcept (b : Tm) (excs : List String) (asName : String) (h : Tm)
  | raise (e : Tm)
  /-- `assert c, m; rest` -/
  | assertThen (c m rest : Tm)
  /-- the step function of helper `h` applied to `args` -/
  | stepOf (h : String) (args : Args)
  /-- the function of the pipeline `a + b + …` (left to right) -/
  | compose (fs : Args)
  /-- `partial(f, …)` used as a function value -/
  | partialOf (f : Tm) (args : Args)
  /-- an f-string (only the default message of `ensure`) -/
  | fstring
  /-- a construct the translator did not recognise -/
  | unknown (why : String)
  deriving DecidableEq, Repr
inductive Args where
  | nil
  | pos (a : Tm) (rest : Args)
  | kw (k : String) (a : Tm) (rest : Args)
  | star (a : Tm) (rest : Args)
  | dstar (a : Tm) (rest : Args)
  deriving DecidableEq, Repr
end

inductive PKind where
  | plain | star | dstar
  deriving DecidableEq, Repr

structure PDecl where
  name : String
  kind : PKind
  default : Option Tm
  deriving DecidableEq, Repr

inductive DefKind where
  /-- `def h(…): return PipelineStep(partial(FN, *pos, **kw), name)` -/
  | partialStep
  /-- `def h(…): return PipelineStep(<call of another helper>, name)` -/
  | wrapper
  /-- `def h(…): return PipelineStep(<a + b + …>, name)` -/
  | composition
  /-- `def h(…): @pipeline_step def inner(x, p=…): …; return PipelineStep(inner, name)` -/
  | decorated
  /-- `NAME = PipelineStep(Evaluatable.ensure(FN), name)` -/
  | constStep
  /-- `NAME = helper(<constants>)` -/
  | instance
  /-- `def partial(f, *args, **kwargs): return PartialApplication(f, *args, **kwargs)` -/
  | rawPartial
  | unknown
  deriving DecidableEq, Repr

structure Row where
  name : String
  kind : DefKind
  params : List PDecl
  /-- the option-capable parameters -/
  capable : List String
  body : Tm
  deriving DecidableEq, Repr

/-! ## 2. values and the interpreter -/

inductive PV where
  | none
  | bool (b : Bool)
  | int (i : Int)
  | str (s : String)
  | list (xs : List PV)
  | tuple (xs : List PV)
  /-- a set, elements in first-insertion order without duplicates (observations sort them) -/
  | set (xs : List PV)
  /-- a dict / mappingproxy in insertion order -/
  | dict (kvs : List (PV × PV))
  /-- a free symbolic operand (`args = []`) or a term built by an operation on one -/
  | sym (op : String) (args : List PV) (kw : List (String × PV))
  /-- the inert record returned by a free (uninterpreted) function `f(*args, **kw)` -/
  | record (f : String) (args : List PV) (kw : List (String × PV))
  /-- a named callable with bound arguments (`functools.partial` of it) -/
  | fn (name : String) (pos : List PV) (kw : List (String × PV))
  /-- a lambda closure -/
  | clo (ps : List String) (body : Tm) (env : List (String × PV))
  /-- the function of a pipeline: the members applied left to right -/
  | comp (fs : List PV)
  | missing
  /-- a class usable with `isinstance` / as a constructor -/
  | type (n : String)
  /-- a caught exception object -/
  | exc (cls : String)
  deriving Inhabited

abbrev Env := List (String × PV)

def limit {α : Type} : Except Err α := .error (.raised "ModelLimit")
def outOfFuel {α : Type} : Except Err α := .error (.raised "ModelFuel")
def raiseCls {α : Type} (cls : String) : Except Err α := .error (.raised cls)

def lookupE (k : String) : Env → Except Err PV
  | [] => limit
  | (k', v) :: rest => if k' = k then .ok v else lookupE k rest

def lookup? (k : String) : List (String × PV) → Option PV
  | [] => Option.none
  | (k', v) :: rest => if k' = k then some v else lookup? k rest

def PV.isSym : PV → Bool
  | .sym _ _ _ => true
  | _ => false

/-- `int(x)` for the numeric tower modelled: `bool ⊂ int` -/
def PV.asInt : PV → Option Int
  | .int i => some i
  | .bool b => some (if b then 1 else 0)
  | _ => Option.none

mutual
/-- `a == b` for non-symbolic values (never raises); structural on the first argument -/
def pyEq : PV → PV → Bool
  | .none, b => (match b with | .none => true | _ => false)
  | .bool a, b => (match b with
      | .bool c => a == c
      | .int c => (if a then 1 else 0) == c
      | _ => false)
  | .int a, b => (match b with
      | .int c => a == c
      | .bool c => a == (if c then 1 else 0)
      | _ => false)
  | .str a, b => (match b with | .str c => a == c | _ => false)
  | .list a, b => (match b with | .list c => pyEqList a c | _ => false)
  | .tuple a, b => (match b with | .tuple c => pyEqList a c | _ => false)
  | .set a, b => (match b with | .set c => pyEqList a c | _ => false)
  | .dict a, b => (match b with | .dict c => pyEqDict a c | _ => false)
  | .record f a k, b => (match b with | .record g c l => f == g && pyEqList a c && pyEqKw k l | _ => false)
  | .fn f a k, b => (match b with | .fn g c l => f == g && pyEqList a c && pyEqKw k l | _ => false)
  | .missing, b => (match b with | .missing => true | _ => false)
  | .type a, b => (match b with | .type c => a == c | _ => false)
  | .sym _ _ _, _ => false
  | .clo _ _ _, _ => false
  | .comp _, _ => false
  | .exc _, _ => false
termination_by structural a => a
def pyEqList : List PV → List PV → Bool
  | [], ys => ys.isEmpty
  | x :: xs, ys => (match ys with | y :: ys' => pyEq x y && pyEqList xs ys' | [] => false)
termination_by structural a => a
def pyEqKw : List (String × PV) → List (String × PV) → Bool
  | [], ys => ys.isEmpty
  | (k, x) :: xs, ys => (match ys with | (k', y) :: ys' => k == k' && pyEq x y && pyEqKw xs ys' | [] => false)
termination_by structural a => a
def pyEqDict : List (PV × PV) → List (PV × PV) → Bool
  | [], ys => ys.isEmpty
  | (k, x) :: xs, ys => (match ys with | (k', y) :: ys' => pyEq k k' && pyEq x y && pyEqDict xs ys' | [] => false)
termination_by structural a => a
end

def memPV (x : PV) (xs : List PV) : Bool := xs.any (fun y => pyEq x y)

def dedupPV : List PV → List PV
  | [] => []
  | x :: xs => let r := dedupPV xs; x :: r.filter (fun y => !pyEq x y)

def dictGet (k : PV) : List (PV × PV) → Option PV
  | [] => Option.none
  | (k', v) :: rest => if pyEq k k' then some v else dictGet k rest

/-- `d[k] = v` -/
def dictSet (k v : PV) : List (PV × PV) → List (PV × PV)
  | [] => [(k, v)]
  | (k', v') :: rest => if pyEq k k' then (k', v) :: rest else (k', v') :: dictSet k v rest

/-- `bool(x)` -/
def truthy : PV → Except Err Bool
  | .none => .ok false
  | .bool b => .ok b
  | .int i => .ok (i != 0)
  | .str s => .ok (s != "")
  | .list xs => .ok (!xs.isEmpty)
  | .tuple xs => .ok (!xs.isEmpty)
  | .set xs => .ok (!xs.isEmpty)
  | .dict kvs => .ok (!kvs.isEmpty)
  | .sym _ _ _ => limit
  | _ => .ok true

/-- `iter(x)` drained -/
def iterOf : PV → Except Err (List PV)
  | .list xs => .ok xs
  | .tuple xs => .ok xs
  | .set xs => .ok xs
  | .dict kvs => .ok (kvs.map Prod.fst)
  | .str s => .ok (s.toList.map fun c => .str (String.singleton c))
  | .sym _ _ _ => limit
  | _ => raiseCls "TypeError"

def replicateList {α : Type} (n : Int) (xs : List α) : List α :=
  (List.replicate n.toNat xs).flatten

def replicateStr (n : Int) (s : String) : String :=
  String.join (List.replicate n.toNat s)

def pyIs : PV → PV → Bool
  | .none, .none => true
  | .missing, .missing => true
  | .bool a, .bool b => a == b
  | .type a, .type b => a == b
  | _, _ => false

/-- `xs` occurs as a contiguous block of `ys` (`a in b` for strings) -/
def isInfixChars (xs : List Char) : List Char → Bool
  | [] => xs.isEmpty
  | y :: ys => xs.isPrefixOf (y :: ys) || isInfixChars xs ys

def cmpInt (op : String) (a b : Int) : Bool :=
  if op == "lt" then a < b else if op == "lte" then a ≤ b else if op == "gt" then a > b else a ≥ b

def cmpStr (op : String) (a b : String) : Bool :=
  if op == "lt" then a < b else if op == "lte" then a ≤ b else if op == "gt" then a > b else a ≥ b

/-- ordering of two non-container values -/
def cmpScalar (op : String) (a b : PV) : Except Err PV :=
  match a.asInt, b.asInt with
  | some x, some y => .ok (.bool (cmpInt op x y))
  | _, _ =>
    match a, b with
    | .str x, .str y => .ok (.bool (cmpStr op x y))
    | .list _, .list _ => limit
    | .tuple _, .tuple _ => limit
    | .set _, .set _ => limit
    | .sym _ _ _, _ => limit
    | _, .sym _ _ _ => limit
    | _, _ => raiseCls "TypeError"

/-- ordering of two lists / tuples: the first pair of unequal members decides, else the lengths
    (members that are themselves containers are outside the model) -/
def cmpSeq (op : String) : List PV → List PV → Except Err PV
  | x :: xs, y :: ys => if pyEq x y then cmpSeq op xs ys else cmpScalar op x y
  | xs, ys => .ok (.bool (cmpInt op xs.length ys.length))

/-- `a op b` -/
def pyBinop (op : String) (a b : PV) : Except Err PV :=
  if op == "is" then .ok (.bool (pyIs a b))
  else if op == "isnot" then .ok (.bool (!pyIs a b))
  else if a.isSym || b.isSym then
    (if op == "in" || op == "notin" then limit else .ok (.sym op [a, b] []))
  else if op == "eq" then .ok (.bool (pyEq a b))
  else if op == "noteq" then .ok (.bool (!pyEq a b))
  else if op == "in" || op == "notin" then
    let neg := op == "notin"
    match b with
    | .list xs => .ok (.bool (memPV a xs != neg))
    | .tuple xs => .ok (.bool (memPV a xs != neg))
    | .set xs => .ok (.bool (memPV a xs != neg))
    | .dict kvs => .ok (.bool ((dictGet a kvs).isSome != neg))
    | .str t => (match a with
      | .str u => .ok (.bool (isInfixChars u.toList t.toList != neg))
      | _ => raiseCls "TypeError")
    | _ => raiseCls "TypeError"
  else if op == "lt" || op == "lte" || op == "gt" || op == "gte" then
    match a, b with
    | .list x, .list y => cmpSeq op x y
    | .tuple x, .tuple y => cmpSeq op x y
    | .set _, .set _ => limit
    | _, _ => cmpScalar op a b
  else
    match a.asInt, b.asInt with
    | some x, some y =>
      if op == "add" then .ok (.int (x + y))
      else if op == "sub" then .ok (.int (x - y))
      else if op == "mult" then .ok (.int (x * y))
      else if op == "floordiv" then (if y == 0 then raiseCls "ZeroDivisionError" else .ok (.int (Int.fdiv x y)))
      else if op == "mod" then (if y == 0 then raiseCls "ZeroDivisionError" else .ok (.int (Int.fmod x y)))
      else if op == "div" then (if y == 0 then raiseCls "ZeroDivisionError" else limit)
      else limit
    | _, _ =>
      if op == "add" then
        match a, b with
        | .str x, .str y => .ok (.str (x ++ y))
        | .list x, .list y => .ok (.list (x ++ y))
        | .tuple x, .tuple y => .ok (.tuple (x ++ y))
        | _, _ => raiseCls "TypeError"
      else if op == "mult" then
        match a, b.asInt, a.asInt, b with
        | .str s, some n, _, _ => .ok (.str (replicateStr n s))
        | .list xs, some n, _, _ => .ok (.list (replicateList n xs))
        | .tuple xs, some n, _, _ => .ok (.tuple (replicateList n xs))
        | _, _, some n, .str s => .ok (.str (replicateStr n s))
        | _, _, some n, .list xs => .ok (.list (replicateList n xs))
        | _, _, some n, .tuple xs => .ok (.tuple (replicateList n xs))
        | _, _, _, _ => raiseCls "TypeError"
      else if op == "sub" then
        match a, b with
        | .set x, .set y => .ok (.set (x.filter fun e => !memPV e y))
        | _, _ => raiseCls "TypeError"
      else if op == "bitand" then
        match a, b with
        | .set x, .set y => .ok (.set (x.filter fun e => memPV e y))
        | _, _ => raiseCls "TypeError"
      else if op == "bitor" then
        match a, b with
        | .set x, .set y => .ok (.set (dedupPV (x ++ y)))
        | _, _ => raiseCls "TypeError"
      else if op == "bitxor" then
        match a, b with
        | .set x, .set y => .ok (.set ((x.filter fun e => !memPV e y) ++ (y.filter fun e => !memPV e x)))
        | _, _ => raiseCls "TypeError"
      else if op == "mod" then
        match a with
        | .str _ => limit
        | _ => raiseCls "TypeError"
      else if op == "div" || op == "floordiv" then raiseCls "TypeError"
      else limit

def pyUnop (op : String) (a : PV) : Except Err PV :=
  if op == "usub" then
    match a with
    | .sym _ _ _ => .ok (.sym "usub" [a] [])
    | _ => match a.asInt with
      | some x => .ok (.int (-x))
      | Option.none => raiseCls "TypeError"
  else if op == "not" then do
    let b ← truthy a
    pure (.bool (!b))
  else limit

def listIndex (xs : List PV) (i : Int) : Except Err PV :=
  let n : Int := xs.length
  let j := if i < 0 then i + n else i
  if j < 0 || j ≥ n then raiseCls "IndexError"
  else match xs[j.toNat]? with
    | some v => .ok v
    | Option.none => raiseCls "IndexError"

/-- `o[i]` -/
def pyGetItem (o i : PV) : Except Err PV :=
  match o with
  | .sym _ _ _ => .ok (.sym "getitem" [o, i] [])
  | .list xs => (match i.asInt with | some j => listIndex xs j | Option.none => if i.isSym then limit else raiseCls "TypeError")
  | .tuple xs => (match i.asInt with | some j => listIndex xs j | Option.none => if i.isSym then limit else raiseCls "TypeError")
  | .str s => (match i.asInt with
      | some j => listIndex (s.toList.map fun c => .str (String.singleton c)) j
      | Option.none => if i.isSym then limit else raiseCls "TypeError")
  | .dict kvs => if i.isSym then limit else
      (match dictGet i kvs with | some v => .ok v | Option.none => raiseCls "KeyError")
  | _ => raiseCls "TypeError"

def typeName : PV → String
  | .none => "NoneType"
  | .bool _ => "bool"
  | .int _ => "int"
  | .str _ => "str"
  | .list _ => "list"
  | .tuple _ => "tuple"
  | .set _ => "set"
  | .dict _ => "dict"
  | .sym _ _ _ => "Sym"
  | .record _ _ _ => "Rec"
  | _ => "object"

/-- `isinstance(x, cls)` for one class -/
def isInstance1 (x : PV) (cls : String) : Bool :=
  let t := typeName x
  cls == "object" || t == cls || (t == "bool" && cls == "int") || (t == "dict" && cls == "Mapping")

def globValue (n : String) : PV :=
  if n == "builtins.dict" then .type "dict"
  else if n == "builtins.bool" then .type "bool"
  else if n == "builtins.set" then .type "set"
  else if n == "builtins.list" then .type "list"
  else if n == "builtins.tuple" then .type "tuple"
  else if n == "builtins.int" then .type "int"
  else if n == "builtins.str" then .type "str"
  else if n == "typing.Mapping" then .type "Mapping"
  else if n == "types.MappingProxyType" then .type "mappingproxy"
  else .fn ("glob:" ++ n) [] []

def strKeys : List (PV × PV) → Except Err (List (String × PV))
  | [] => .ok []
  | (.str k, v) :: rest => do
    let r ← strKeys rest
    pure ((k, v) :: r)
  | _ => raiseCls "TypeError"

def pairsToDict : List PV → List (PV × PV) → Except Err (List (PV × PV))
  | [], acc => .ok acc
  | .tuple [k, v] :: rest, acc => pairsToDict rest (dictSet k v acc)
  | .list [k, v] :: rest, acc => pairsToDict rest (dictSet k v acc)
  | _, _ => raiseCls "TypeError"

/-- calling a class -/
def callType (n : String) (pos : List PV) : Except Err PV :=
  match n, pos with
  | "dict", [] => .ok (.dict [])
  | "dict", [.dict kvs] => .ok (.dict kvs)
  | "dict", [x] => do
    let xs ← iterOf x
    let d ← pairsToDict xs []
    pure (.dict d)
  | "mappingproxy", [.dict kvs] => .ok (.dict kvs)
  | "mappingproxy", [_] => raiseCls "TypeError"
  | "bool", [x] => do
    let b ← truthy x
    pure (.bool b)
  | "set", [x] => do
    let xs ← iterOf x
    pure (.set (dedupPV xs))
  | "list", [x] => do
    let xs ← iterOf x
    pure (.list xs)
  | "tuple", [x] => do
    let xs ← iterOf x
    pure (.tuple xs)
  | _, _ => limit

/-- bind the formals of a lambda: positionally, then by keyword -/
def bindFormals : List String → List PV → List (String × PV) → Except Err Env
  | [], [], [] => .ok []
  | [], _ :: _, _ => raiseCls "TypeError"
  | [], [], _ :: _ => raiseCls "TypeError"
  | p :: ps, v :: vs, kw =>
    if (lookup? p kw).isSome then raiseCls "TypeError" else do
      let r ← bindFormals ps vs kw
      pure (("v:" ++ p, v) :: r)
  | p :: ps, [], kw =>
    match lookup? p kw with
    | some v => do
      let r ← bindFormals ps [] (kw.filter fun e => e.1 != p)
      pure (("v:" ++ p, v) :: r)
    | Option.none => raiseCls "TypeError"

/-- `s` without the prefix `pre`, when it has it -/
def stripPrefix? (pre s : String) : Option String :=
  let cs := s.toList
  let ps := pre.toList
  if ps.isPrefixOf cs then some (String.ofList (cs.drop ps.length)) else Option.none

def findRow (table : List Row) (h : String) : Option Row := table.find? (fun r => r.name == h)

/-- The interpreter. `table` is the table of helper rows used for `.stepOf`; `prims` are named
    Python functions of the harness (name ↦ formals, body). -/
structure Ctx where
  table : List Row
  prims : List (String × List String × Tm)

mutual
/-- value of a term -/
def eval (cx : Ctx) : Nat → Env → Tm → Except Err PV
  | 0, _, _ => outOfFuel
  | fuel + 1, env, t =>
    match t with
    | .input => lookupE "%in" env
    | .param n => lookupE ("p:" ++ n) env
    | .rawParam _ => limit
    | .var n => lookupE ("v:" ++ n) env
    | .glob n => .ok (globValue n)
    | .none => .ok .none
    | .bool b => .ok (.bool b)
    | .int i => .ok (.int i)
    | .str s => .ok (.str s)
    | .missing => .ok .missing
    | .binop op a b => do
      let va ← eval cx fuel env a
      let vb ← eval cx fuel env b
      pyBinop op va vb
    | .unop op a => do
      let va ← eval cx fuel env a
      pyUnop op va
    | .call (.glob "builtins.all") (.pos (.gen elt v it) .nil) => do
      let vi ← eval cx fuel env it
      let xs ← iterOf vi
      genAll cx fuel env elt v xs true
    | .call (.glob "builtins.any") (.pos (.gen elt v it) .nil) => do
      let vi ← eval cx fuel env it
      let xs ← iterOf vi
      genAll cx fuel env elt v xs false
    | .call f args => do
      let vf ← eval cx fuel env f
      let (pos, kw) ← evalArgs cx fuel env args
      callV cx fuel vf pos kw
    | .attr o n => do
      let vo ← eval cx fuel env o
      getAttr vo n
    | .index o i => do
      let vo ← eval cx fuel env o
      let vi ← eval cx fuel env i
      pyGetItem vo vi
    | .lam ps body => .ok (.clo ps body env)
    | .ite c a b => do
      let vc ← eval cx fuel env c
      let bc ← truthy vc
      if bc then eval cx fuel env a else eval cx fuel env b
    | .tuple xs => do
      let (pos, _) ← evalArgs cx fuel env xs
      pure (.tuple pos)
    | .dictOf xs => do
      let (_, kw) ← evalArgs cx fuel env xs
      pure (.dict (kw.foldl (fun acc e => dictSet (.str e.1) e.2 acc) []))
    | .gen elt v it => do
      let vi ← eval cx fuel env it
      let xs ← iterOf vi
      let ys ← genList cx fuel env elt v xs
      pure (.list ys)
    | .tryExcept b excs asName h =>
      match eval cx fuel env b with
      | .ok v => .ok v
      | .error (.raised cls) =>
        if excs.contains cls then eval cx fuel (("v:" ++ asName, .exc cls) :: env) h
        else .error (.raised cls)
      | .error e => .error e
    | .raise e => do
      let ve ← eval cx fuel env e
      match ve with
      | .exc cls => raiseCls cls
      | _ => limit
    | .assertThen c _ rest => do
      let vc ← eval cx fuel env c
      let bc ← truthy vc
      if bc then eval cx fuel env rest else raiseCls "AssertionError"
    | .stepOf h args => do
      let (pos, kw) ← evalArgs cx fuel env args
      pure (.fn ("helper:" ++ h) pos kw)
    | .compose fs => do
      let (pos, _) ← evalArgs cx fuel env fs
      pure (.comp pos)
    | .partialOf f args => do
      let vf ← eval cx fuel env f
      let (pos, kw) ← evalArgs cx fuel env args
      pure (.fn "%partial" (vf :: pos) kw)
    | .fstring => .ok (.str "<fstring>")
    | .unknown _ => limit

/-- `getattr(o, n)` -/
def getAttr (o : PV) (n : String) : Except Err PV :=
  match o with
  | .sym _ _ _ => .ok (.sym "getattr" [o, .str n] [])
  | .dict _ => if n == "items" then .ok (.fn "method:items" [o] []) else limit
  | _ => limit

/-- arguments of a call: positional values and keyword values (`*`/`**` expanded) -/
def evalArgs (cx : Ctx) : Nat → Env → Args → Except Err (List PV × List (String × PV))
  | 0, _, _ => outOfFuel
  | fuel + 1, env, a =>
    match a with
    | .nil => .ok ([], [])
    | .pos t r => do
      let v ← eval cx fuel env t
      let (p, k) ← evalArgs cx fuel env r
      pure (v :: p, k)
    | .kw n t r => do
      let v ← eval cx fuel env t
      let (p, k) ← evalArgs cx fuel env r
      pure (p, (n, v) :: k)
    | .star t r => do
      let v ← eval cx fuel env t
      let xs ← iterOf v
      let (p, k) ← evalArgs cx fuel env r
      pure (xs ++ p, k)
    | .dstar t r => do
      let v ← eval cx fuel env t
      let kvs ← (match v with
        | .dict kvs => strKeys kvs
        | .sym _ _ _ => limit
        | _ => raiseCls "TypeError")
      let (p, k) ← evalArgs cx fuel env r
      pure (p, kvs ++ k)

/-- `[elt for v in xs]` -/
def genList (cx : Ctx) : Nat → Env → Tm → String → List PV → Except Err (List PV)
  | 0, _, _, _, _ => outOfFuel
  | _ + 1, _, _, _, [] => .ok []
  | fuel + 1, env, elt, v, x :: xs => do
    let y ← eval cx fuel (("v:" ++ v, x) :: env) elt
    let ys ← genList cx fuel env elt v xs
    pure (y :: ys)

/-- `all(elt for v in xs)` (`isAll`) / `any(…)`, short-circuiting like the builtins -/
def genAll (cx : Ctx) : Nat → Env → Tm → String → List PV → Bool → Except Err PV
  | 0, _, _, _, _, _ => outOfFuel
  | _ + 1, _, _, _, [], isAll => .ok (.bool isAll)
  | fuel + 1, env, elt, v, x :: xs, isAll => do
    let y ← eval cx fuel (("v:" ++ v, x) :: env) elt
    let b ← truthy y
    if b == isAll then genAll cx fuel env elt v xs isAll else pure (.bool (!isAll))

/-- `f(*pos, **kw)` -/
def callV (cx : Ctx) : Nat → PV → List PV → List (String × PV) → Except Err PV
  | 0, _, _, _ => outOfFuel
  | fuel + 1, f, pos, kw =>
    match f with
    | .clo ps body cenv => do
      let b ← bindFormals ps pos kw
      eval cx fuel (b ++ cenv) body
    | .fn "%partial" (g :: bpos) bkw => callV cx fuel g (bpos ++ pos) (bkw ++ kw)
    | .fn name bpos bkw =>
      match cx.table.find? (fun r => "helper:" ++ r.name == name) with
      | some row =>
        (match pos, kw with
         | [x], [] => callHelper cx fuel row.name bpos bkw x
         | _, _ => raiseCls "TypeError")
      | Option.none => callNamed cx fuel name (bpos ++ pos) (bkw ++ kw)
    | .comp fs => (match pos, kw with
      | [x], [] => callComp cx fuel fs x
      | _, _ => raiseCls "TypeError")
    | .sym _ _ _ => .ok (.sym "call" (f :: pos) kw)
    | .type n => (match kw with
      | [] => callType n pos
      | _ => limit)
    | _ => raiseCls "TypeError"

/-- the members of a pipeline function, left to right -/
def callComp (cx : Ctx) : Nat → List PV → PV → Except Err PV
  | 0, _, _ => outOfFuel
  | _ + 1, [], x => .ok x
  | fuel + 1, f :: fs, x => do
    let y ← callV cx fuel f [x] []
    callComp cx fuel fs y

/-- the step of helper `h` built with arguments `(hpos, hkw)`, applied to `x` -/
def callHelper (cx : Ctx) : Nat → String → List PV → List (String × PV) → PV → Except Err PV
  | 0, _, _, _, _ => outOfFuel
  | fuel + 1, h, hpos, hkw, x =>
    match findRow cx.table h with
    | Option.none => limit
    | some row => do
      let b ← bindParams cx fuel row.params hpos hkw
      eval cx fuel (("%in", x) :: b) row.body

/-- Python's argument binding for a helper's parameters (defaults evaluated in the empty scope) -/
def bindParams (cx : Ctx) : Nat → List PDecl → List PV → List (String × PV) → Except Err Env
  | 0, _, _, _ => outOfFuel
  | _ + 1, [], [], [] => .ok []
  | _ + 1, [], _ :: _, _ => raiseCls "TypeError"
  | _ + 1, [], [], _ :: _ => raiseCls "TypeError"
  | fuel + 1, d :: ds, pos, kw =>
    match d.kind with
    | .star => do
      let r ← bindParams cx fuel ds [] kw
      pure (("p:" ++ d.name, .tuple pos) :: r)
    | .dstar => do
      let r ← bindParams cx fuel ds pos []
      pure (("p:" ++ d.name, .dict (kw.map fun e => (.str e.1, e.2))) :: r)
    | .plain =>
      match pos with
      | v :: vs =>
        if (lookup? d.name kw).isSome then raiseCls "TypeError" else do
          let r ← bindParams cx fuel ds vs kw
          pure (("p:" ++ d.name, v) :: r)
      | [] =>
        match lookup? d.name kw with
        | some v => do
          let r ← bindParams cx fuel ds [] (kw.filter fun e => e.1 != d.name)
          pure (("p:" ++ d.name, v) :: r)
        | Option.none =>
          match d.default with
          | some t => do
            let v ← eval cx fuel [] t
            let r ← bindParams cx fuel ds [] kw
            pure (("p:" ++ d.name, v) :: r)
          | Option.none => raiseCls "TypeError"

/-- `[f(x) for x in xs]` -/
def mapCall (cx : Ctx) : Nat → PV → List PV → Except Err (List PV)
  | 0, _, _ => outOfFuel
  | _ + 1, _, [] => .ok []
  | fuel + 1, f, x :: xs => do
    let y ← callV cx fuel f [x] []
    let ys ← mapCall cx fuel f xs
    pure (y :: ys)

/-- `[x for x in xs if f(x)]` (`f = None`: truthiness of `x`) -/
def filterCall (cx : Ctx) : Nat → PV → List PV → Except Err (List PV)
  | 0, _, _ => outOfFuel
  | _ + 1, _, [] => .ok []
  | fuel + 1, f, x :: xs => do
    let y ← (match f with
      | .none => pure x
      | _ => callV cx fuel f [x] [])
    let b ← truthy y
    let ys ← filterCall cx fuel f xs
    pure (if b then x :: ys else ys)

/-- `functools.reduce(f, xs, acc)` -/
def reduceCall (cx : Ctx) : Nat → PV → PV → List PV → Except Err PV
  | 0, _, _, _ => outOfFuel
  | _ + 1, _, acc, [] => .ok acc
  | fuel + 1, f, acc, x :: xs => do
    let a ← callV cx fuel f [acc, x] []
    reduceCall cx fuel f a xs

/-- `all(xs)` / `any(xs)` over already-computed values -/
def allValues : List PV → Bool → Except Err PV
  | [], isAll => .ok (.bool isAll)
  | x :: xs, isAll => do
    let b ← truthy x
    if b == isAll then allValues xs isAll else pure (.bool (!isAll))

/-- a named callable: global / builtin, free function, harness primitive, bound method -/
def callNamed (cx : Ctx) : Nat → String → List PV → List (String × PV) → Except Err PV
  | 0, _, _, _ => outOfFuel
  | fuel + 1, name, pos, kw =>
    match cx.prims.find? (fun p => "prim:" ++ p.1 == name), stripPrefix? "free:" name with
    | some (_, ps, body), _ => do
      let b ← bindFormals ps pos kw
      eval cx fuel b body
    | _, some f => .ok (.record f pos kw)
    | _, _ =>
    match name, pos, kw with
    | "method:items", [.dict kvs], [] => .ok (.list (kvs.map fun e => .tuple [e.1, e.2]))
    | "glob:builtins.len", [x], [] =>
      (match x with
       | .str s => .ok (.int s.length)
       | .list xs => .ok (.int xs.length)
       | .tuple xs => .ok (.int xs.length)
       | .set xs => .ok (.int xs.length)
       | .dict kvs => .ok (.int kvs.length)
       | .sym _ _ _ => limit
       | _ => raiseCls "TypeError")
    | "glob:builtins.isinstance", [x, c], [] =>
      (match c with
       | .type n => .ok (.bool (isInstance1 x n))
       | .tuple cs => .ok (.bool (cs.any fun c => match c with | .type n => isInstance1 x n | _ => false))
       | _ => raiseCls "TypeError")
    | "glob:builtins.getattr", [o, .str n], [] => getAttr o n
    | "glob:builtins.getattr", [o, n], [] =>
      (match o, n with
       | .sym _ _ _, .sym _ _ _ => .ok (.sym "getattr" [o, n] [])
       | _, _ => limit)
    | "glob:builtins.map", [f, it], [] => do
      let xs ← iterOf it
      let ys ← mapCall cx fuel f xs
      pure (.list ys)
    | "glob:builtins.filter", [f, it], [] => do
      let xs ← iterOf it
      let ys ← filterCall cx fuel f xs
      pure (.list ys)
    | "glob:functools.reduce", [f, it], [] => do
      let xs ← iterOf it
      (match xs with
       | [] => raiseCls "TypeError"
       | x :: rest => reduceCall cx fuel f x rest)
    | "glob:functools.reduce", [f, it, init], [] => do
      let xs ← iterOf it
      reduceCall cx fuel f init xs
    | "glob:itertools.chain", [a, b], [] => do
      let xs ← iterOf a
      let ys ← iterOf b
      pure (.list (xs ++ ys))
    | "glob:itertools.chain.from_iterable", [it], [] => do
      let xss ← iterOf it
      let yss ← xss.mapM iterOf
      pure (.list yss.flatten)
    | "glob:builtins.all", [it], [] => do
      let xs ← iterOf it
      allValues xs true
    | "glob:builtins.any", [it], [] => do
      let xs ← iterOf it
      allValues xs false
    | _, _, _ => limit
end

/-- fuel used by the driver and by the `Step`s below -/
def FUEL : Nat := 4000

/-! ## 3. helpers as steps of the pipeline model -/

abbrev Opts := List (String × PV)

/-- a parameter binding as written by the user: a constant or `Option(key[, default])` -/
inductive BParam where
  | const (v : PV)
  | opt (key : String) (default : Option PV)

def BParam.toParam : BParam → Param Opts PV
  | .const v => Param.const v
  | .opt key d =>
    { eval := fun o => match lookup? key o with
        | some v => some v
        | Option.none => d
      keys := fun o => match lookup? key o, d with
        | some _, _ => .ok [key]
        | Option.none, some _ => .ok []
        | Option.none, Option.none => .error .keyNotFound
      explain := fun o => match lookup? key o, d with
        | some _, _ => .ok [key]
        | Option.none, some _ => .ok []
        | Option.none, Option.none => .ok [key] }

def evalMany (o : Opts) : List (Param Opts PV) → Option (List PV)
  | [] => some []
  | p :: ps => do
    let v ← p.eval o
    let vs ← evalMany o ps
    pure (v :: vs)

def evalManyKw (o : Opts) : List (String × Param Opts PV) → Option (List (PV × PV))
  | [] => some []
  | (k, p) :: ps => do
    let v ← p.eval o
    let vs ← evalManyKw o ps
    pure ((.str k, v) :: vs)

/-- what is bound to one helper parameter -/
inductive Binding where
  /-- a plain parameter -/
  | one (p : BParam)
  /-- `*p`: each member may be an Evaluatable (`evaluatable_tuple(*map(Evaluatable.ensure, p))`) -/
  | many (ps : List BParam)
  /-- `**p` -/
  | dict (ps : List (String × BParam))

def Binding.toParam : Binding → Param Opts PV
  | .one p => p.toParam
  | .many ps =>
    let qs := ps.map BParam.toParam
    { eval := fun o => (evalMany o qs).map PV.tuple
      keys := fun o => seqUnion (qs.map fun q => q.keys o)
      explain := fun o => seqUnion (qs.map fun q => q.explain o) }
  | .dict ps =>
    let qs := ps.map fun e => (e.1, e.2.toParam)
    { eval := fun o => (evalManyKw o qs).map PV.dict
      keys := fun o => seqUnion (qs.map fun q => q.2.keys o)
      explain := fun o => seqUnion (qs.map fun q => q.2.explain o) }

/-- the value a helper's step computes: its row's body under the evaluated parameters
    (parameters not bound take their default) -/
def runHelper (cx : Ctx) (fuel : Nat) (h : String) (vals : List (String × PV)) (x : PV) : Except Err PV :=
  match findRow cx.table h with
  | Option.none => limit
  | some row => do
    let ds ← row.params.mapM (fun d => match lookup? d.name vals with
      | some v => pure (("p:" ++ d.name, v) : String × PV)
      | Option.none => match d.kind, d.default with
        | .star, _ => pure ("p:" ++ d.name, PV.tuple [])
        | .dstar, _ => pure ("p:" ++ d.name, PV.dict [])
        | .plain, some t => do
          let v ← eval cx fuel [] t
          pure ("p:" ++ d.name, v)
        | .plain, Option.none => raiseCls "TypeError")
    eval cx fuel (("%in", x) :: ds) row.body

/-- the function of a helper's `PartialApplication`: the documented operation applied to the
    input (the one positional argument) and the evaluated bindings (by name) -/
def helperPrim (cx : Ctx) (h : String) : List PV → List (String × PV) → Except Err PV :=
  fun pos kw => match pos with
    | [x] => runHelper cx FUEL h kw x
    | _ => raiseCls "TypeError"

/-- `helper(**bindings)` as a step: a `PartialApplication` whose keyword parameters are the
    helper's bindings and whose function is the helper's documented operation -/
def helperStep (cx : Ctx) (tag : Nat) (h : String) (bs : List (String × Binding)) : Step Opts PV :=
  .partialApp tag (helperPrim cx h) [] (bs.map fun b => (b.1, b.2.toParam))

/-! ## 4. the hand-written specification: one row per public helper, from the docstrings -/

namespace Spec

def p (n : String) : PDecl := ⟨n, .plain, Option.none⟩
def pd (n : String) (d : Tm) : PDecl := ⟨n, .plain, some d⟩
def ps (n : String) : PDecl := ⟨n, .star, Option.none⟩
def pds (n : String) : PDecl := ⟨n, .dstar, Option.none⟩

def a1 (t : Tm) : Args := .pos t .nil
def a2 (t u : Tm) : Args := .pos t (.pos u .nil)
def a3 (t u v : Tm) : Args := .pos t (.pos u (.pos v .nil))
def g (n : String) (args : Args) : Tm := .call (.glob n) args
/-- the step of helper `h` (built with `args`) applied to the input -/
def via (h : String) (args : Args) : Tm := .call (.stepOf h args) (a1 .input)
def pipe (fs : Args) : Tm := .call (.compose fs) (a1 .input)

/-- `input op x`: the input is the LEFT operand -/
def opRight (name op x : String) : Row :=
  ⟨name, .partialStep, [p x], [x], .binop op .input (.param x)⟩
/-- `x op input`: the input is the RIGHT operand ("from the left", "reverses the operand order") -/
def opLeft (name op x : String) : Row :=
  ⟨name, .partialStep, [p x], [x], .binop op (.param x) .input⟩
/-- `set(input) op set(collection)` -/
def setOp (name op : String) : Row :=
  ⟨name, .partialStep, [p "collection"], ["collection"],
    .binop op (g "builtins.set" (a1 .input)) (g "builtins.set" (a1 (.param "collection")))⟩
/-- `invert(h(x))`: the negation of another helper -/
def negationOf (name h x : String) : Row :=
  ⟨name, .wrapper, [p x], [x], via "invert" (a1 (.stepOf h (a1 (.param x))))⟩

/-- `container[key]`, falling back to `default` (when given) on KeyError / IndexError -/
def getBody (container key : Tm) : Tm :=
  .tryExcept (.index container key) ["KeyError", "IndexError"] "e"
    (.ite (.binop "is" (.param "default") .missing) (.raise (.var "e")) (.param "default"))

/-- the items of the input mapping → `how(items)` → dict → read-only mapping -/
def overItems (how : Tm) : Tm :=
  pipe (.pos (.lam ["m"] (.call (.attr (.var "m") "items") .nil))
       (.pos how (.pos (.glob "builtins.dict") (.pos (.glob "types.MappingProxyType") .nil))))

/-- `partial(lambda k, v, f: body, f=func)`: a function of an item `(k, v)` -/
def itemFn (body : Tm) : Tm := .partialOf (.lam ["k", "v", "f"] body) (.kw "f" (.param "func") .nil)
def fOf (x : String) : Tm := .call (.var "f") (a1 (.var x))

end Spec

open Spec in
def helperSpec : List Row := [
  -- partial(f, *args, **kwargs): f(*args, <input>, **kwargs); f and every argument may be an Evaluatable
  ⟨"partial", .rawPartial, [p "__func", ps "args", pds "kwargs"], ["__func", "args", "kwargs"],
    .call (.param "__func") (.star (.param "args") (.pos .input (.dstar (.param "kwargs") .nil)))⟩,
  -- map(func): builtins.map(func, input)
  ⟨"map", .partialStep, [p "func"], ["func"], g "builtins.map" (a2 (.param "func") .input)⟩,
  ⟨"filter", .partialStep, [p "func"], ["func"], g "builtins.filter" (a2 (.param "func") .input)⟩,
  -- reduce(func[, initial]): functools.reduce(func, input[, initial])
  ⟨"reduce", .partialStep, [p "func", pd "initial" .missing], ["func", "initial"],
    .ite (.binop "is" (.param "initial") .missing)
      (g "functools.reduce" (a2 (.param "func") .input))
      (g "functools.reduce" (a3 (.param "func") .input (.param "initial")))⟩,
  -- into(func): func(**input) for a mapping, func(*input) otherwise
  ⟨"into", .decorated, [p "func"], ["func"],
    .ite (g "builtins.isinstance" (a2 .input (.glob "typing.Mapping")))
      (.call (.param "func") (.dstar .input .nil))
      (.call (.param "func") (.star .input .nil))⟩,
  ⟨"flatten", .constStep, [], [], g "itertools.chain.from_iterable" (a1 .input)⟩,
  -- flatmap(func) = map(func), then flatten
  ⟨"flatmap", .composition, [p "func"], ["func"],
    pipe (.pos (.stepOf "map" (a1 (.param "func"))) (.pos (.glob "itertools.chain.from_iterable") .nil))⟩,
  ⟨"map_items", .composition, [p "func"], ["func"],
    overItems (.stepOf "map" (a1 (.stepOf "into" (a1 (.param "func")))))⟩,
  ⟨"map_keys", .wrapper, [p "func"], ["func"],
    via "map_items" (a1 (itemFn (.tuple (a2 (fOf "k") (.var "v")))))⟩,
  ⟨"map_values", .wrapper, [p "func"], ["func"],
    via "map_items" (a1 (itemFn (.tuple (a2 (.var "k") (fOf "v")))))⟩,
  ⟨"filter_items", .composition, [p "func"], ["func"],
    overItems (.stepOf "filter" (a1 (.stepOf "into" (a1 (.param "func")))))⟩,
  ⟨"filter_keys", .wrapper, [p "func"], ["func"], via "filter_items" (a1 (itemFn (fOf "k")))⟩,
  ⟨"filter_values", .wrapper, [p "func"], ["func"], via "filter_items" (a1 (itemFn (fOf "v")))⟩,
  -- concat(iterable): the input, then the iterable
  ⟨"concat", .partialStep, [p "iterable"], ["iterable"], g "itertools.chain" (a2 .input (.param "iterable"))⟩,
  -- append(item) = concat((item,))
  ⟨"append", .wrapper, [p "item"], ["item"], via "concat" (a1 (.tuple (a1 (.param "item"))))⟩,
  setOp "intersect" "bitand",
  setOp "union" "bitor",
  setOp "difference" "sub",
  setOp "symmetric_difference" "bitxor",
  -- get(x[, default]): input[x];  get_from(x[, default]): x[input]
  ⟨"get", .partialStep, [p "__x", pd "default" .missing], ["__x", "default"], getBody .input (.param "__x")⟩,
  ⟨"get_from", .partialStep, [p "__x", pd "default" .missing], ["__x", "default"], getBody (.param "__x") .input⟩,
  opRight "add" "add" "__x",
  opRight "subtract" "sub" "__x",
  opRight "multiply" "mult" "__x",
  opLeft "left_multiply" "mult" "__x",
  opRight "divide_by" "div" "__x",
  opLeft "divide_into" "div" "__x",
  ⟨"negate", .constStep, [], [], .unop "usub" .input⟩,
  opRight "modulo" "mod" "__x",
  -- merge(mapping): {**input, **mapping}
  ⟨"merge", .partialStep, [p "mapping"], ["mapping"], .dictOf (.dstar .input (.dstar (.param "mapping") .nil))⟩,
  ⟨"length", .constStep, [], [], g "builtins.len" (a1 .input)⟩,
  ⟨"instance_of", .partialStep, [ps "types"], ["types"], g "builtins.isinstance" (a2 .input (.param "types"))⟩,
  ⟨"all", .partialStep, [ps "funcs"], ["funcs"],
    g "builtins.all" (a1 (.gen (.call (.var "f") (a1 .input)) "f" (.param "funcs")))⟩,
  ⟨"any", .partialStep, [ps "funcs"], ["funcs"],
    g "builtins.any" (a1 (.gen (.call (.var "f") (a1 .input)) "f" (.param "funcs")))⟩,
  -- invert(func = identity): not func(input)
  ⟨"invert", .partialStep, [pd "func" (.lam ["_"] (.var "_"))], ["func"],
    .unop "not" (.call (.param "func") (a1 .input))⟩,
  opRight "eq" "eq" "value",
  opRight "ne" "noteq" "value",
  opRight "gt" "gt" "value",
  opRight "ge" "gte" "value",
  opRight "lt" "lt" "value",
  opRight "le" "lte" "value",
  -- has_remainder(divisor, reminder): input % divisor == reminder
  ⟨"has_remainder", .partialStep, [p "divisor", p "reminder"], ["divisor", "reminder"],
    .binop "eq" (.binop "mod" .input (.param "divisor")) (.param "reminder")⟩,
  ⟨"positive", .instance, [], [], via "gt" (a1 (.int 0))⟩,
  ⟨"negative", .instance, [], [], via "lt" (a1 (.int 0))⟩,
  ⟨"non_positive", .instance, [], [], via "le" (a1 (.int 0))⟩,
  ⟨"non_negative", .instance, [], [], via "ge" (a1 (.int 0))⟩,
  ⟨"even", .instance, [], [], via "has_remainder" (a2 (.int 2) (.int 0))⟩,
  ⟨"odd", .instance, [], [], via "has_remainder" (a2 (.int 2) (.int 1))⟩,
  ⟨"is_none", .constStep, [], [], .binop "is" .input .none⟩,
  ⟨"is_not_none", .wrapper, [], [], via "invert" (a1 (.stepOf "is_none" .nil))⟩,
  opRight "is_in" "in" "container",
  negationOf "is_not_in" "is_in" "container",
  ⟨"one_of", .partialStep, [ps "items"], ["items"], .binop "in" .input (.param "items")⟩,
  ⟨"none_of", .wrapper, [ps "items"], ["items"],
    via "invert" (a1 (.stepOf "one_of" (.star (.param "items") .nil)))⟩,
  -- contains(value): value in input
  opLeft "contains" "in" "value",
  negationOf "does_not_contain" "contains" "value",
  -- intersects(iterable) = intersect(iterable), then bool
  ⟨"intersects", .composition, [p "iterable"], ["iterable"],
    pipe (.pos (.stepOf "intersect" (a1 (.param "iterable"))) (.pos (.glob "builtins.bool") .nil))⟩,
  negationOf "disjoint_from" "intersects" "iterable",
  -- ensure(predicate[, msg]): assert predicate(input), msg; the input is returned
  ⟨"ensure", .partialStep, [p "__predicate", pd "__msg" .missing], ["__predicate", "__msg"],
    .assertThen (.call (.param "__predicate") (a1 .input))
      (.ite (.binop "isnot" (.param "__msg") .missing) (.param "__msg") .fstring)
      .input⟩,
  ⟨"get_attribute", .partialStep, [p "__name"], ["__name"], g "builtins.getattr" (a2 .input (.param "__name"))⟩,
  -- call_method(name, *args, **kwargs): getattr(input, name)(*args, **kwargs); args/kwargs are constants
  ⟨"call_method", .partialStep, [p "__name", ps "args", pds "kwargs"], ["__name"],
    .call (g "builtins.getattr" (a2 .input (.param "__name")))
      (.star (.param "args") (.dstar (.param "kwargs") .nil))⟩
]

/-- the interpreter context of the specification (no harness primitives) -/
def specCtx (prims : List (String × List String × Tm)) : Ctx := { table := helperSpec, prims := prims }

end Labrea.Helpers

/-
  C19 — `labrea.datasetclass`: executable model.

  A dataset class is a name plus its members `(attribute name, member)` in the order in which
  the code visits them: `dir(cls)`, i.e. sorted by attribute name (the driver sorts; no theorem
  depends on the order being sorted, it only decides which failure is met first).  Names that
  start with `__` are skipped by the code (`hidden`).  A member is a plain constant or an
  *abstract evaluatable*: four functions of the options dictionary.  Concrete member kinds
  (what the driver can be told to build) are `MemberSpec`: `Option(key[, default])`, a constant,
  and a `@dataset` whose arguments are options and whose body returns the list of its arguments.

  Keys are *paths* (`List String` = `dotted.split('.')`); `dotted` joins them again and the
  model sorts reported keys by that dotted string (Python: `sorted(cls.keys(options))` sorts
  `str`s, and `'A-B' < 'A.X'` although `['A','X'] < ['A-B']` as lists).

  Python dict equality (`_repr_options == other._repr_options`) is order-insensitive at every
  depth and order-sensitive on lists: `dictEqv` below.  Not modelled: `True == 1` (the generator
  keeps ints away from 0/1), template strings in option values (no `{`), aliasing (`deepcopy`;
  values are immutable here, the harness checks independence from later writes separately).
-/
import LabreaModel.Dotted
namespace Labrea.DatasetClass
open Labrea

abbrev Path := List String

/-- the dotted key string of a path -/
def dotted (p : Path) : String := ".".intercalate p

/-- canonical exceptions -/
inductive Err where
  /-- `labrea.exceptions.KeyNotFoundError(key)` -/
  | keyNotFound (k : Path)
  /-- a raw `TypeError` (or `AttributeError`) out of confectioner -/
  | rawType
  /-- a raw `KeyError` out of `get_dotted_key` inside `__init__` -/
  | rawKey (k : Path)
  /-- `EvaluationError("Error during evaluation …")` whose root cause is `root` -/
  | wrapped (root : Err)
  /-- any other exception of an abstract member -/
  | other (tag : String)
  deriving Repr, DecidableEq, Inhabited

/-- root cause of a chain of `EvaluationError`s -/
def Err.root : Err → Err
  | .wrapped e => e.root
  | e => e

/-- what `_evaluate_request` does to an exception raised below an evaluatable that is not its
    own `EvaluationError` -/
def Err.wrap (e : Err) : Err := .wrapped e.root

/-- an abstract `Evaluatable`: the four methods as functions of the options -/
structure Evaluatable where
  evaluate : V → Except Err V
  validate : V → Except Err Unit
  keys : V → Except Err (List Path)
  explain : V → Except Err (List Path)

inductive Member where
  | const (v : V)
  | ev (e : Evaluatable)

structure DsClass where
  name : String
  members : List (String × Member)

/-- `key.startswith("__")` -/
def hidden (n : String) : Bool :=
  match n.toList with
  | '_' :: '_' :: _ => true
  | _ => false

/-! ### concrete members -/

structure OptSpec where
  key : Path
  /-- a constant, template-free default (`Option(key, default=d)`) -/
  dflt : Option V

def OptSpec.evaluate (s : OptSpec) (o : V) : Except Err V :=
  match walk s.key o with
  | .found v => .ok v
  | .keyErr => match s.dflt with
    | some d => .ok d
    | Option.none => .error (.keyNotFound s.key)
  | .typeErr => .error (.wrapped .rawType)

def OptSpec.validate (s : OptSpec) (o : V) : Except Err Unit :=
  match walk s.key o with
  | .found _ => .ok ()
  | .keyErr => match s.dflt with
    | some _ => .ok ()
    | Option.none => .error (.keyNotFound s.key)
  | .typeErr => .error .rawType

def OptSpec.keys (s : OptSpec) (o : V) : Except Err (List Path) :=
  match walk s.key o with
  | .found _ => .ok [s.key]
  | .keyErr => match s.dflt with
    | some _ => .ok []
    | Option.none => .error (.keyNotFound s.key)
  | .typeErr => .error .rawType

def OptSpec.explain (s : OptSpec) (o : V) : Except Err (List Path) :=
  match walk s.key o with
  | .found _ => .ok [s.key]
  | .keyErr => match s.dflt with
    | some _ => .ok []
    | Option.none => .ok [s.key]
  | .typeErr => .error .rawType

def OptSpec.toEv (s : OptSpec) : Evaluatable :=
  ⟨s.evaluate, s.validate, s.keys, s.explain⟩

/-- arguments of a `@dataset` evaluated left to right; the first failure is re-raised wrapped -/
def dsEvalArgs (o : V) : List OptSpec → Except Err (List V)
  | [] => .ok []
  | a :: as => match a.evaluate o with
    | .error e => .error e.wrap
    | .ok v => match dsEvalArgs o as with
      | .error e => .error e
      | .ok vs => .ok (v :: vs)

def dsValidateArgs (o : V) : List OptSpec → Except Err Unit
  | [] => .ok ()
  | a :: as => match a.validate o with
    | .error e => .error e
    | .ok _ => dsValidateArgs o as

def dsCollect (f : OptSpec → Except Err (List Path)) : List OptSpec → Except Err (List Path)
  | [] => .ok []
  | a :: as => match f a with
    | .error e => .error e
    | .ok k => match dsCollect f as with
      | .error e => .error e
      | .ok ks => .ok (k ++ ks)

/-- `@dataset def d(a0=Option(..), a1=Option(..), …): return [a0, a1, …]` -/
def dsEv (args : List OptSpec) : Evaluatable where
  evaluate o := (dsEvalArgs o args).map V.list
  validate o := dsValidateArgs o args
  keys o := dsCollect (·.keys o) args
  explain o := dsCollect (·.explain o) args

inductive MemberSpec where
  | const (v : V)
  | opt (s : OptSpec)
  | ds (args : List OptSpec)

def MemberSpec.toMember : MemberSpec → Member
  | .const v => .const v
  | .opt s => .ev s.toEv
  | .ds args => .ev (dsEv args)

/-! ### `__init__`: members -/

inductive Attr where
  | val (v : V)
  /-- a `__`-prefixed evaluatable is left as it is -/
  | unevaluated
  deriving Repr, DecidableEq, Inhabited

def evalMember (o : V) : String × Member → Except Err (String × Attr)
  | (n, .const v) => .ok (n, .val v)
  | (n, .ev e) =>
    if hidden n then .ok (n, .unevaluated)
    else match e.evaluate o with
      | .ok v => .ok (n, .val v)
      | .error x => .error x

/-- members are evaluated in `dir` order; the first failure propagates -/
def evalMembers (o : V) : List (String × Member) → Except Err (List (String × Attr))
  | [] => .ok []
  | m :: ms => match evalMember o m with
    | .error x => .error x
    | .ok a => match evalMembers o ms with
      | .error x => .error x
      | .ok as => .ok (a :: as)

/-! ### the metaclass: `validate`, `keys`, `explain` -/

/-- the members the metaclass methods (and `__init__`) look at, in order -/
def evs : List (String × Member) → List Evaluatable
  | [] => []
  | (n, .ev e) :: ms => if hidden n then evs ms else e :: evs ms
  | (_, .const _) :: ms => evs ms

def collect (f : Evaluatable → Except Err (List Path)) : List Evaluatable → Except Err (List Path)
  | [] => .ok []
  | e :: es => match f e with
    | .error x => .error x
    | .ok a => match collect f es with
      | .error x => .error x
      | .ok b => .ok (a ++ b)

def validateAll (o : V) : List Evaluatable → Except Err Unit
  | [] => .ok ()
  | e :: es => match e.validate o with
    | .error x => .error x
    | .ok _ => validateAll o es

/-- `cls.keys(options)` as a list (Python: the set of its elements) -/
def classKeys (c : DsClass) (o : V) : Except Err (List Path) := collect (·.keys o) (evs c.members)
def classExplain (c : DsClass) (o : V) : Except Err (List Path) := collect (·.explain o) (evs c.members)
def classValidate (c : DsClass) (o : V) : Except Err Unit := validateAll o (evs c.members)

/-! ### `_repr_options` -/

/-- insert into a list sorted by dotted string, dropping duplicates -/
def insertKey (k : Path) : List Path → List Path
  | [] => [k]
  | x :: xs =>
    if k = x then x :: xs
    else if dotted k < dotted x then k :: x :: xs
    else x :: insertKey k xs

/-- `sorted(set_of_keys)` -/
def sortKeys : List Path → List Path
  | [] => []
  | k :: ks => insertKey k (sortKeys ks)

/-- `for key in keys: set_dotted_key(key, deepcopy(get_dotted_key(key, options)), acc)` -/
def reprOptions (o : V) : List Path → List (String × V) → Except Err (List (String × V))
  | [], acc => .ok acc
  | k :: ks, acc =>
    match walk k o with
    | .found v => match setPath k v acc with
      | some acc' => reprOptions o ks acc'
      | Option.none => .error .rawType
    | .keyErr => .error (.rawKey k)
    | .typeErr => .error .rawType

/-- the code before the repair: `set_dotted_key(key, options.get(key), acc)` — a *flat* lookup of
    the dotted string -/
def reprOptionsOld (o : V) : List Path → List (String × V) → Except Err (List (String × V))
  | [], acc => .ok acc
  | k :: ks, acc =>
    let v := match o with
      | .dict kvs => (alookup (dotted k) kvs).getD .none
      | _ => .none
    match setPath k v acc with
    | some acc' => reprOptionsOld o ks acc'
    | Option.none => .error .rawType

structure Inst where
  cls : String
  attrs : List (String × Attr)
  reprOpts : List (String × V)

/-- `cls(options)` -/
def instantiate (c : DsClass) (o : V) : Except Err Inst :=
  match evalMembers o c.members with
  | .error x => .error x
  | .ok attrs => match classKeys c o with
    | .error x => .error x
    | .ok K => match reprOptions o (sortKeys K) [] with
      | .error x => .error x
      | .ok R => .ok ⟨c.name, attrs, R⟩

def instantiateOld (c : DsClass) (o : V) : Except Err Inst :=
  match evalMembers o c.members with
  | .error x => .error x
  | .ok attrs => match classKeys c o with
    | .error x => .error x
    | .ok K => match reprOptionsOld o (sortKeys K) [] with
      | .error x => .error x
      | .ok R => .ok ⟨c.name, attrs, R⟩

/-! ### Python `==` on JSON values -/

mutual
/-- hereditary inclusion: every key `a` binds is bound in `b` to a value that includes it; lists
    position by position; anything else by equality.  (`seen` makes a shadowed duplicate entry of an
    association list invisible, as it is to every lookup; Python dicts have none.) -/
def V.le : V → V → Bool
  | .dict a, b => match b with
    | .dict b' => leKvs [] a b'
    | _ => false
  | .list a, b => match b with
    | .list b' => leList a b'
    | _ => false
  | a, b => a == b
def leKvs (seen : List String) : List (String × V) → List (String × V) → Bool
  | [], _ => true
  | (k, v) :: rest, b =>
    (seen.contains k || (match alookup k b with
      | some w => V.le v w
      | Option.none => false)) && leKvs (k :: seen) rest b
def leList : List V → List V → Bool
  | [], [] => true
  | x :: xs, y :: ys => V.le x y && leList xs ys
  | _, _ => false
end

/-- `a == b` in Python for JSON values without `bool`/`int` mixing -/
def dictEqv (a b : V) : Bool := V.le a b && V.le b a

/-- `_DatasetClassMixin.__eq__` between instances (`isinstance` is modelled as "same class") -/
def instEq (i j : Inst) : Bool :=
  i.cls == j.cls && dictEqv (.dict i.reprOpts) (.dict j.reprOpts)

/-! ### `repr` (JSON values over an alphabet without quotes, backslashes, control characters) -/

mutual
def pyRepr : V → String
  | .none => "None"
  | .bool b => if b then "True" else "False"
  | .int i => toString i
  | .str s => "'" ++ s ++ "'"
  | .list xs => "[" ++ ", ".intercalate (pyReprList xs) ++ "]"
  | .dict kvs => "{" ++ ", ".intercalate (pyReprKvs kvs) ++ "}"
  | _ => "<?>"
def pyReprList : List V → List String
  | [] => []
  | x :: xs => pyRepr x :: pyReprList xs
def pyReprKvs : List (String × V) → List String
  | [] => []
  | (k, v) :: rest => ("'" ++ k ++ "': " ++ pyRepr v) :: pyReprKvs rest
end

/-- `_DatasetClassMixin.__repr__` -/
def reprInst (i : Inst) : String := i.cls ++ "(" ++ pyRepr (.dict i.reprOpts) ++ ")"

/-! ### vocabulary of the theorems -/

/-- nested dictionary lookup that never reads a segment as an index: what `set_dotted_key` sees -/
def dget : Path → V → Option V
  | [], v => some v
  | a :: p, .dict d => match alookup a d with
    | some x => dget p x
    | Option.none => Option.none
  | _ :: _, _ => Option.none

/-- no segment of the key is an index (`int(seg)` fails for each) -/
def NoIdx (p : Path) : Prop := ∀ s ∈ p, segIndex? s = Option.none

instance (p : Path) : Decidable (NoIdx p) := by unfold NoIdx; exact inferInstance

/-- the side condition of the restriction lemma: every reported key is non-empty, index-free and
    present in the options (the `Cacheable.keys` contract) -/
def Present (o : V) (K : List Path) : Prop :=
  ∀ k ∈ K, k ≠ [] ∧ NoIdx k ∧ ∃ v, walk k o = .found v

/-- `a ⊑ b` on lookup outcomes: if `a` found a value, `b` found one that includes it -/
def LookLe (a b : Lk V) : Prop := ∀ v, a = .found v → ∃ w, b = .found w ∧ V.le v w = true

/-- both lookups succeed-or-not together, with Python-equal values -/
def LookEqv (a b : Lk V) : Prop := LookLe a b ∧ LookLe b a

/-- every key of `K` lies on or under a key of `K'` -/
def Covers (K' K : List Path) : Prop := ∀ k ∈ K, ∃ k' ∈ K', k' <+: k

/-- `R` is the options `o` restricted to the keys `K`: it holds each key with its value, and holds
    nothing that is not on the way to, at, or under a key -/
structure IsRestrict (o : V) (K : List Path) (R : List (String × V)) : Prop where
  lookup : ∀ k ∈ K, walk k (.dict R) = walk k o
  exact : ∀ p v, p ≠ [] → dget p (.dict R) = some v → (∃ k ∈ K, k <+: p) ∨ (∃ k ∈ K, p <+: k)

/-- two lists related position by position (core Lean has no `List.Forall₂`) -/
inductive AllPairs {α β : Type} (P : α → β → Prop) : List α → List β → Prop where
  | nil : AllPairs P [] []
  | cons {a b as bs} : P a b → AllPairs P as bs → AllPairs P (a :: as) (b :: bs)

/-- what attribute `m.1` must hold after `cls(o)` succeeded -/
def AttrOK (o : V) (m : String × Member) (a : String × Attr) : Prop :=
  a.1 = m.1 ∧ match m.2 with
    | .const v => a.2 = .val v
    | .ev e => if hidden m.1 then a.2 = .unevaluated
               else ∃ v, e.evaluate o = .ok v ∧ a.2 = .val v

/-- the exception of an outcome (for `decide` witnesses; `Except` has no `DecidableEq`) -/
def errOf {α : Type} : Except Err α → Option Err
  | .ok _ => Option.none
  | .error e => some e

/-- the keys of a concrete member are non-empty and index-free -/
def MemberSpec.KeysOK : MemberSpec → Prop
  | .const _ => True
  | .opt s => s.key ≠ [] ∧ NoIdx s.key
  | .ds args => ∀ a ∈ args, a.key ≠ [] ∧ NoIdx a.key

/-- the class built from concrete member descriptions -/
def concreteClass (name : String) (ms : List (String × MemberSpec)) : DsClass :=
  ⟨name, ms.map fun m => (m.1, m.2.toMember)⟩

end Labrea.DatasetClass

/-
  `resolve` depends on the options only through the keys it reads (its read log).
-/
import LabreaModel.Resolve
namespace Labrea

abbrev RFun := V → Option (Except RErr V × List String)

theorem resolveKvs_congr (A : String → Prop) (f f' : RFun)
    (hf : ∀ v r rd, f v = some (r, rd) → (∀ k ∈ rd, A k) → f' v = some (r, rd)) :
    ∀ (kvs : List (String × V)) r rd, resolveKvs f kvs = some (r, rd) → (∀ k ∈ rd, A k) → resolveKvs f' kvs = some (r, rd)
  | [], r, rd, h, _ => by simpa [resolveKvs] using h
  | (k, v) :: rest, r, rd, h, ha => by
    simp only [resolveKvs] at h ⊢
    cases hv : f v with
    | none => simp [hv] at h
    | some p =>
      obtain ⟨r1, rd1⟩ := p
      cases r1 with
      | error e =>
        simp only [hv, Option.some.injEq, Prod.mk.injEq] at h
        obtain ⟨rfl, rfl⟩ := h
        rw [hf v _ _ hv ha]
      | ok v' =>
        simp only [hv] at h
        cases hr : resolveKvs f rest with
        | none => simp [hr] at h
        | some q =>
          obtain ⟨r2, rd2⟩ := q
          have hsplit : rd = rd1 ++ rd2 := by cases r2 <;> simp [hr] at h <;> exact h.2.symm
          have ha1 : ∀ k ∈ rd1, A k := fun k hk => ha k (by rw [hsplit]; exact List.mem_append_left _ hk)
          have ha2 : ∀ k ∈ rd2, A k := fun k hk => ha k (by rw [hsplit]; exact List.mem_append_right _ hk)
          rw [hf v _ _ hv ha1, resolveKvs_congr A f f' hf rest r2 rd2 hr ha2]
          simpa [hr] using h

theorem resolveList_congr (A : String → Prop) (f f' : RFun)
    (hf : ∀ v r rd, f v = some (r, rd) → (∀ k ∈ rd, A k) → f' v = some (r, rd)) :
    ∀ (xs : List V) r rd, resolveList f xs = some (r, rd) → (∀ k ∈ rd, A k) → resolveList f' xs = some (r, rd)
  | [], r, rd, h, _ => by simpa [resolveList] using h
  | v :: rest, r, rd, h, ha => by
    simp only [resolveList] at h ⊢
    cases hv : f v with
    | none => simp [hv] at h
    | some p =>
      obtain ⟨r1, rd1⟩ := p
      cases r1 with
      | error e =>
        simp only [hv, Option.some.injEq, Prod.mk.injEq] at h
        obtain ⟨rfl, rfl⟩ := h
        rw [hf v _ _ hv ha]
      | ok v' =>
        simp only [hv] at h
        cases hr : resolveList f rest with
        | none => simp [hr] at h
        | some q =>
          obtain ⟨r2, rd2⟩ := q
          have hsplit : rd = rd1 ++ rd2 := by cases r2 <;> simp [hr] at h <;> exact h.2.symm
          have ha1 : ∀ k ∈ rd1, A k := fun k hk => ha k (by rw [hsplit]; exact List.mem_append_left _ hk)
          have ha2 : ∀ k ∈ rd2, A k := fun k hk => ha k (by rw [hsplit]; exact List.mem_append_right _ hk)
          rw [hf v _ _ hv ha1, resolveList_congr A f f' hf rest r2 rd2 hr ha2]
          simpa [hr] using h

/-- the keys `substKeys` has read so far are a prefix of its final read log -/
theorem substKeys_acc (o : V) : ∀ (ks : List String) (s : String) (acc : List String) r rd,
    substKeys o ks s acc = (r, rd) → ∃ more, rd = acc ++ more
  | [], s, acc, r, rd, h => by simp only [substKeys, Prod.mk.injEq] at h; exact ⟨[], by simp [h.2]⟩
  | k :: ks, s, acc, r, rd, h => by
    simp only [substKeys] at h
    split at h
    · obtain ⟨m, hm⟩ := substKeys_acc o ks _ _ r rd h
      exact ⟨k :: m, by simp [hm]⟩
    · simp only [Prod.mk.injEq] at h; exact ⟨[k], h.2.symm⟩
    · simp only [Prod.mk.injEq] at h; exact ⟨[k], h.2.symm⟩

theorem substKeys_congr (o o' : V) : ∀ (ks : List String) (s : String) (acc : List String) r rd,
    substKeys o ks s acc = (r, rd) → (∀ k ∈ rd, getDotted k o' = getDotted k o) → substKeys o' ks s acc = (r, rd)
  | [], s, acc, r, rd, h, _ => by simpa [substKeys] using h
  | k :: ks, s, acc, r, rd, h, ha => by
    have hk : k ∈ rd := by
      simp only [substKeys] at h
      split at h
      · obtain ⟨m, hm⟩ := substKeys_acc o ks _ _ r rd h
        rw [hm]; simp
      · simp only [Prod.mk.injEq] at h; rw [← h.2]; simp
      · simp only [Prod.mk.injEq] at h; rw [← h.2]; simp
    simp only [substKeys, ha k hk] at h ⊢
    cases hg : getDotted k o with
    | found v =>
      simp only [hg] at h ⊢
      exact substKeys_congr o o' ks _ _ r rd h ha
    | keyErr => simpa [hg] using h
    | typeErr => simpa [hg] using h

/-- **reads determine the result.** If `o'` answers every lookup of the read log as `o` does, resolving
    under `o'` gives the same result and the same read log. -/
theorem resolveR_congr (o o' : V) : ∀ (n : Nat) (x : V) r rd, resolveR n x o = some (r, rd) →
    (∀ k ∈ rd, getDotted k o' = getDotted k o) → resolveR n x o' = some (r, rd)
  | 0, x, r, rd, h, _ => by simp [resolveR] at h
  | n + 1, x, r, rd, h, ha => by
    have ih := resolveR_congr o o' n
    cases x with
    | dict kvs =>
      simp only [resolveR] at h ⊢
      cases hk : resolveKvs (fun v => resolveR n v o) kvs with
      | none => simp [hk] at h
      | some p =>
        obtain ⟨r1, rd1⟩ := p
        have hrd : rd1 = rd := by cases r1 <;> simp [hk] at h <;> exact h.2
        subst hrd
        rw [resolveKvs_congr (fun k => getDotted k o' = getDotted k o) _ (fun v => resolveR n v o')
          (fun v r rd h ha => ih v r rd h ha) kvs r1 rd1 hk ha]
        simpa [hk] using h
    | list xs =>
      simp only [resolveR] at h ⊢
      cases hk : resolveList (fun v => resolveR n v o) xs with
      | none => simp [hk] at h
      | some p =>
        obtain ⟨r1, rd1⟩ := p
        have hrd : rd1 = rd := by cases r1 <;> simp [hk] at h <;> exact h.2
        subst hrd
        rw [resolveList_congr (fun k => getDotted k o' = getDotted k o) _ (fun v => resolveR n v o')
          (fun v r rd h ha => ih v r rd h ha) xs r1 rd1 hk ha]
        simpa [hk] using h
    | str s =>
      simp only [resolveR] at h ⊢
      cases hf : findKeys s with
      | nil => simpa [hf] using h
      | cons k ks =>
        simp only [hf] at h ⊢
        by_cases hc : ks = [] ∧ s = "{" ++ k ++ "}"
        · simp only [hc, and_self, if_true] at h ⊢
          cases hg : getDotted k o with
          | found v =>
            simp only [hg] at h
            cases hr : resolveR n v o with
            | none => simp [hr] at h
            | some p =>
              obtain ⟨r1, rd1⟩ := p
              simp only [hr, Option.some.injEq, Prod.mk.injEq] at h
              obtain ⟨rfl, rfl⟩ := h
              have hk' : getDotted k o' = .found v := by rw [ha k (by simp), hg]
              simp only [hk', ih v r1 rd1 hr (fun k' hk'' => ha k' (by simp [hk'']))]
          | keyErr =>
            simp only [hg, Option.some.injEq, Prod.mk.injEq] at h
            obtain ⟨rfl, rfl⟩ := h
            have hk' : getDotted k o' = .keyErr := by rw [ha k (by simp), hg]
            simp [hk']
          | typeErr =>
            simp only [hg, Option.some.injEq, Prod.mk.injEq] at h
            obtain ⟨rfl, rfl⟩ := h
            have hk' : getDotted k o' = .typeErr := by rw [ha k (by simp), hg]
            simp [hk']
        · simp only [hc, if_false] at h ⊢
          cases hs : substKeys o (k :: ks) s [] with
          | mk r1 rd1 =>
            cases r1 with
            | error e =>
              simp only [hs, Option.some.injEq, Prod.mk.injEq] at h
              obtain ⟨rfl, rfl⟩ := h
              rw [substKeys_congr o o' _ _ _ _ _ hs ha]
            | ok s' =>
              simp only [hs] at h
              cases hr : resolveR n (.str s') o with
              | none => simp [hr] at h
              | some p =>
                obtain ⟨r2, rd2⟩ := p
                simp only [hr, Option.some.injEq, Prod.mk.injEq] at h
                obtain ⟨rfl, rfl⟩ := h
                rw [substKeys_congr o o' _ _ _ _ _ hs (fun k' hk' => ha k' (List.mem_append_left _ hk'))]
                simp only [ih _ r2 rd2 hr (fun k' hk' => ha k' (List.mem_append_right _ hk'))]
    | none => simpa [resolveR] using h
    | bool b => simpa [resolveR] using h
    | int i => simpa [resolveR] using h
    | tuple xs => simpa [resolveR] using h
    | set xs => simpa [resolveR] using h
    | app f a k => simpa [resolveR] using h
    | fn f a k => simpa [resolveR] using h
    | comp fs => simpa [resolveR] using h
    | missing => simpa [resolveR] using h

end Labrea

/-
  A logic for *results*: `Tri Q m` = "`m` only appends to the event log, and every value a run of `m`
  returns satisfies `Q` — unless the run consulted the whole dictionary (`AllOptions`, event `readAll`)".
  Used for the whole-interpreter theorem behind C03's "present-only": every key `keys(o)` reports is
  present in `o` (`keys_present_only` in `LabreaProps/C03.lean`).
-/
import LabreaModel.EvalLemmas
import LabreaModel.MixLemmas
import LabreaModel.MonadLemmas
namespace Labrea

/-- the event log only grows -/
def Ext (s s' : St) : Prop := ∃ l, s'.events = l ++ s.events

theorem ext_rel : CacheRel Ext where
  refl := fun _ => ⟨[], rfl⟩
  trans := fun ⟨l1, h1⟩ ⟨l2, h2⟩ => ⟨l2 ++ l1, by rw [h2, h1, List.append_assoc]⟩
  emit := fun _ ev _ => ⟨[ev], rfl⟩
  setCache := fun s c es => ⟨[], by unfold St.setCacheEntries; split <;> rfl⟩
  setScripts := fun _ _ => ⟨[], rfl⟩

theorem ext_log (env : Env) : LogOk env Ext := Or.inr fun _ m b => ⟨[Event.log m b], rfl⟩

/-- no `AllOptions` node has looked at the whole dictionary so far -/
def Quiet (s : St) : Prop := ∀ e ∈ s.events, e.isReadAll = false

theorem quiet_of_ext {s s' : St} (h : Ext s s') (q : Quiet s') : Quiet s := by
  obtain ⟨l, hl⟩ := h
  intro e he
  exact q e (by rw [hl]; exact List.mem_append_right _ he)

abbrev ESpec {α} (m : M α) : Prop := Spec Ext (fun _ => True) m

structure Tri {α} (Q : α → Prop) (m : M α) : Prop where
  ext : ESpec m
  post : ∀ s a s', m s = some (.ok a, s') → Quiet s' → Q a

theorem tri_of_spec {α} {m : M α} (h : ESpec m) : Tri (fun _ => True) m := ⟨h, fun _ _ _ _ _ => trivial⟩

theorem tri_weaken {α} {Q Q' : α → Prop} {m : M α} (h : ∀ a, Q a → Q' a) (t : Tri Q m) : Tri Q' m :=
  ⟨t.ext, fun s a s' hr q => h a (t.post s a s' hr q)⟩

theorem tri_pure {α} {Q : α → Prop} {a : α} (h : Q a) : Tri Q (pure a : M α) :=
  ⟨pres_pure ext_rel.toStRel truePred a, fun s b s' hr _ => by
    simp only [pure_run, Option.some.injEq, Prod.mk.injEq, Except.ok.injEq] at hr; exact hr.1 ▸ h⟩

theorem tri_raise {α} {Q : α → Prop} (e : Err) : Tri Q (raise e : M α) :=
  ⟨pres_raise ext_rel.toStRel truePred trivial, fun s a s' hr _ => by simp [raise_run] at hr⟩

theorem tri_outOfFuel {α} {Q : α → Prop} : Tri Q (outOfFuel : M α) :=
  ⟨pres_outOfFuel ext_rel.toStRel truePred, fun s a s' hr _ => by simp [outOfFuel] at hr⟩

theorem tri_bind {α β} {Q1 : α → Prop} {Q : β → Prop} {m : M α} {f : α → M β}
    (hm : Tri Q1 m) (hf : ∀ a, Tri (fun b => Q1 a → Q b) (f a)) : Tri Q (m >>= f) := by
  refine ⟨pres_bind ext_rel.toStRel truePred hm.ext (fun a => (hf a).ext), fun s b s' hr q => ?_⟩
  simp only [bind_run] at hr
  cases hm1 : m s with
  | none => simp [hm1] at hr
  | some p =>
    obtain ⟨r, s1⟩ := p
    cases r with
    | error e => simp [hm1] at hr
    | ok a =>
      simp only [hm1] at hr
      have hext := ((hf a).ext.run s1 _ s' hr).1
      exact (hf a).post s1 b s' hr q (hm.post s a s1 hm1 (quiet_of_ext hext q))

theorem tri_handle {α} {Q : α → Prop} {m : M α} {k : Err → M α} (hm : Tri Q m) (hk : ∀ e, Tri Q (k e)) :
    Tri Q (handle m k) := by
  refine ⟨pres_handle ext_rel.toStRel truePred hm.ext (fun e _ => (hk e).ext), fun s a s' hr q => ?_⟩
  unfold handle at hr
  split at hr
  · exact (hk _).post _ a s' hr q
  · exact hm.post s a s' hr q

theorem tri_mapM' {α β} {Q : β → Prop} {f : α → M β} (hf : ∀ x, Tri Q (f x)) :
    ∀ xs, Tri (fun l => ∀ a ∈ l, Q a) (mapM' f xs)
  | [] => by unfold mapM'; exact tri_pure (by simp)
  | x :: xs => by
    unfold mapM'
    refine tri_bind (hf x) (fun y => tri_bind (tri_mapM' hf xs) (fun ys => tri_pure ?_))
    intro hys hy a ha
    rcases List.mem_cons.mp ha with rfl | h
    · exact hy
    · exact hys a h

theorem tri_filterM' {α} {Qf : α → Prop} {f : α → M Bool} (hf : ∀ x, Tri (fun b => b = true → Qf x) (f x)) :
    ∀ xs, Tri (fun l => ∀ a ∈ l, a ∈ xs ∧ Qf a) (filterM' f xs)
  | [] => by unfold filterM'; exact tri_pure (by simp)
  | x :: xs => by
    unfold filterM'
    refine tri_bind (hf x) (fun b => tri_bind (tri_filterM' hf xs) (fun ys => tri_pure ?_))
    intro hys hb a ha
    by_cases hbt : b = true
    · simp only [hbt, if_true] at ha
      rcases List.mem_cons.mp ha with rfl | h
      · exact ⟨by simp, hb hbt⟩
      · exact ⟨List.mem_cons_of_mem _ (hys a h).1, (hys a h).2⟩
    · simp only [hbt] at ha
      exact ⟨List.mem_cons_of_mem _ (hys a ha).1, (hys a ha).2⟩

/-- a whole-dictionary read ends the obligation -/
theorem tri_readAll {Q : Unit → Prop} : Tri Q (emit Event.readAll) :=
  ⟨pres_emit ext_rel.toStRel truePred _ rfl, fun s a s' hr q => by
    simp only [emit_run, Option.some.injEq, Prod.mk.injEq] at hr
    have := q Event.readAll (by rw [← hr.2]; simp)
    simp [Event.isReadAll] at this⟩

/-! ### key sets -/

/-- every element of the set is a string naming a key that is present in `o` -/
def KeysOk (o : V) (v : V) : Prop := ∀ k ∈ v.setElems, ∃ s w, k = V.str s ∧ getDotted s o = Lk.found w

theorem keysOk_empty (o : V) : KeysOk o (.set []) := by intro k hk; simp [V.setElems] at hk

theorem keysOk_unionV {o a b : V} (ha : KeysOk o a) (hb : KeysOk o b) : KeysOk o (unionV a b) := by
  intro k hk
  simp only [unionV, V.setElems, unionKeys, List.mem_append, List.mem_filter] at hk
  rcases hk with h | ⟨h, _⟩
  · exact ha k h
  · exact hb k h

theorem keysOk_foldl {o : V} : ∀ (vs : List V) (acc : V), KeysOk o acc → (∀ v ∈ vs, KeysOk o v) →
    KeysOk o (vs.foldl unionV acc)
  | [], acc, h, _ => h
  | v :: vs, acc, h, hv => by
    simp only [List.foldl_cons]
    exact keysOk_foldl vs _ (keysOk_unionV h (hv v (by simp))) (fun w hw => hv w (by simp [hw]))

theorem keysOk_unionAll {o : V} {vs : List V} (h : ∀ v ∈ vs, KeysOk o v) : KeysOk o (unionAll vs) :=
  keysOk_foldl vs _ (keysOk_empty o) h

theorem keysOk_single {o : V} {key : String} {w : V} (h : getDotted key o = .found w) : KeysOk o (keySet [key]) := by
  intro k hk
  simp [keySet, dedup, V.setElems] at hk
  exact ⟨key, w, hk, h⟩

theorem keysOk_subset {o : V} {v : V} {l : List V} (h : KeysOk o v) (hl : ∀ k ∈ l, k ∈ v.setElems) : KeysOk o (.set l) := by
  intro k hk
  exact h k (hl k (by simpa [V.setElems] using hk))

/-! ### the small option helpers -/

theorem tri_existsKey (key : String) (o : V) :
    Tri (fun b => (b = true → ∃ w, getDotted key o = .found w) ∧ (b = false → getDotted key o = .keyErr)) (existsKey key o) := by
  refine ⟨pres_existsKey ext_rel.toStRel truePred key o, fun s b s' hr _ => ?_⟩
  simp only [existsKey, readKey, bind_run, emit_run, pure_run] at hr
  cases hg : getDotted key o with
  | found w => simp [hg, pure_run] at hr; simp [← hr.1]
  | keyErr => simp [hg, pure_run] at hr; simp [← hr.1]
  | typeErr => simp [hg, raise_run] at hr

theorem tri_getKey (key : String) (o : V) : Tri (fun v => getDotted key o = .found v) (getKey key o) := by
  refine ⟨pres_getKey ext_rel.toStRel truePred key o, fun s v s' hr _ => ?_⟩
  simp only [getKey, readKey, bind_run, emit_run, pure_run] at hr
  cases hg : getDotted key o with
  | found w => simp [hg, pure_run] at hr; simp [← hr.1]
  | keyErr => simp [hg, raise_run] at hr
  | typeErr => simp [hg, raise_run] at hr

/-! ### node by node: `keys` of every node kind, given `keys` of its children -/

/-- what a child run guarantees: for `keys`, a set of present keys; nothing about the other operations -/
def QK (op : Op) (o : V) (v : V) : Prop := op = .keys → KeysOk o v

section
variable {run : Run} (hrun : ∀ op e o, Tri (QK op o) (run op e o))
include hrun

theorem hk (e : Expr) (o : V) : Tri (KeysOk o) (run .keys e o) := tri_weaken (fun _ h => h rfl) (hrun .keys e o)

theorem hE (op : Op) (e : Expr) (o : V) : ESpec (run op e o) := (hrun op e o).ext

theorem hany (op : Op) (e : Expr) (o : V) : Tri (fun _ => True) (run op e o) := tri_of_spec (hE hrun op e o)

theorem tri_unionOver_keys (xs : List Expr) (o : V) : Tri (KeysOk o) (unionOver run .keys xs o) := by
  unfold unionOver
  exact tri_bind (tri_mapM' (fun x => hk hrun x o) xs) (fun vs => tri_pure (fun h => keysOk_unionAll h))

theorem tri_optionOp_keys (env : Env) (n : Nat) (self : Expr) (id : Nat) (key : String) (dflt dom : Option Expr) (o : V) :
    Tri (KeysOk o) (optionOp env run n self id key dflt dom .keys o) := by
  unfold optionOp
  simp only []
  have hdom : Tri (KeysOk o) (match dom with
      | Option.none => pure (.set [])
      | some de => run .keys de o) := by
    cases dom with
    | none => exact tri_pure (keysOk_empty o)
    | some de => exact hk hrun de o
  refine tri_bind hdom (fun dk => tri_bind (tri_existsKey key o) (fun b => ?_))
  split
  · refine tri_bind (tri_getKey key o) (fun raw => tri_bind
      (tri_bind (tri_mapM' (fun p => hk hrun _ o) _) (fun vs => tri_pure (fun h => keysOk_unionAll h)))
      (fun tk => tri_pure ?_))
    intro htk hraw _ hdk
    exact keysOk_unionV (keysOk_unionV (keysOk_single hraw) hdk) htk
  · cases dflt with
    | none => exact tri_raise _
    | some d =>
      refine tri_bind (hk hrun d o) (fun k => tri_pure ?_)
      intro hkd _ hdk
      exact keysOk_unionV hkd hdk

omit hrun in
theorem tri_pseudo_keys {α} {Q : α → Prop} (pid : Nat) {m : M α} (hm : Tri Q m) : Tri Q (pseudo .keys pid m) := by
  unfold pseudo
  refine tri_bind (tri_of_spec (pres_emit ext_rel.toStRel truePred _ rfl)) (fun _ => ?_)
  simp only [reduceCtorEq, if_false]
  exact tri_weaken (fun _ h _ => h) hm

theorem tri_bindOp_keys (id : Nat) (x : Expr) {k : V → M Expr} (hcont : ∀ v, ESpec (k v)) (o : V) :
    Tri (KeysOk o) (bindOp run id x k .keys o) := by
  unfold bindOp
  simp only []
  refine tri_bind (hk hrun x o) (fun a => tri_bind (hany hrun .evaluate x o) (fun v =>
    tri_bind (tri_of_spec (hcont v)) (fun e' => tri_bind (hk hrun e' o) (fun b => tri_pure ?_))))
  intro hb _ _ ha
  exact keysOk_unionV ha hb

theorem tri_switchOp_keys (id : Nat) (d : Expr) (lookup : List (V × Expr)) (dflt : Option Expr) (o : V) :
    Tri (KeysOk o) (switchOp run id d lookup dflt .keys o) := by
  unfold switchOp
  simp only []
  exact tri_bind (tri_of_spec (pres_switchLookup ext_rel.toStRel truePred (hE hrun) id d lookup dflt o))
    (fun chosen => tri_weaken (fun _ h _ => h) (hk hrun chosen o))

theorem tri_coalesceDelegate_keys (o : V) : ∀ (last : Option Err) (ms : List Expr),
    Tri (KeysOk o) (coalesceDelegate run .keys o last ms)
  | last, [] => by
    unfold coalesceDelegate
    cases last <;> exact tri_raise _
  | last, m :: rest => by
    unfold coalesceDelegate
    refine tri_handle (tri_bind (hany hrun .validate m o) (fun _ => tri_weaken (fun _ h _ => h) (hk hrun m o))) (fun err => ?_)
    split
    · exact tri_coalesceDelegate_keys o _ rest
    · exact tri_raise _

theorem tri_mapOp_keys (id : Nat) (x : Expr) (its : List (String × Expr)) (o : V) :
    Tri (KeysOk o) (mapOp run id x its .keys o) := by
  unfold mapOp
  simp only []
  refine tri_bind (tri_of_spec (pres_mapAssignments ext_rel.toStRel truePred (hE hrun) its o)) (fun asg => ?_)
  refine tri_bind (tri_mapM' (Q := KeysOk o) (fun a => tri_bind
      (tri_of_spec (pres_mapElement ext_rel.toStRel truePred (hE hrun) id x a)) (fun w => tri_weaken (fun _ h _ => h) (hk hrun w o))) asg)
    (fun ks => ?_)
  refine tri_bind (tri_bind (tri_mapM' (Q := KeysOk o) (fun p => hk hrun p.2 o) its)
    (fun vs => tri_pure (fun h => keysOk_unionAll h))) (fun ik => tri_pure ?_)
  intro hik hks _
  exact keysOk_unionV (keysOk_unionAll hks) hik

theorem tri_templateOp_keys (n id : Nat) (t : String) (params : List (String × Expr)) (o : V) :
    Tri (KeysOk o) (templateOp run n id t params .keys o) := by
  unfold templateOp
  simp only []
  split
  · exact tri_raise _
  · refine tri_bind (tri_mapM' (Q := KeysOk o) (fun p => hk hrun p.2 o) params) (fun pk => ?_)
    refine tri_bind (tri_mapM' (Q := KeysOk o) (fun p => tri_handle (hk hrun _ o) (fun err => ?_)) _) (fun ks => tri_pure ?_)
    · split
      · split <;> exact tri_raise _
      · exact tri_raise _
    · intro hks hpk
      exact keysOk_unionV (keysOk_unionAll hpk) (keysOk_unionAll hks)

omit hrun in
/-- a key found in the merged options that the pre-set options do not have is the caller's own -/
theorem found_of_mixed {s : String} {o p : V} {force : Bool} {w : V}
    (hm : getDotted s (if force then mix o p else mix p o) = .found w) (hp : getDotted s p = .keyErr) :
    ∃ w', getDotted s o = .found w' := by
  unfold getDotted at *
  cases force with
  | true =>
    simp only [if_true] at hm
    rcases walk_mix_found _ _ _ _ hm with h | ⟨w', h⟩
    · exact h
    · rw [hp] at h; cases h
  | false =>
    simp only [Bool.false_eq_true, if_false] at hm
    rcases walk_mix_found _ _ _ _ hm with ⟨w', h⟩ | h
    · rw [hp] at h; cases h
    · exact h

theorem tri_withOptionsOp_keys (x : Expr) (p : V) (force : Bool) (o : V) :
    Tri (KeysOk o) (withOptionsOp run x p force .keys o) := by
  unfold withOptionsOp
  simp only []
  obtain ⟨mixed, hmx⟩ : ∃ m, m = (if force = true then mix o p else mix p o) := ⟨_, rfl⟩
  rw [← hmx]
  have hfound : ∀ {s : String} {w : V}, getDotted s mixed = .found w → getDotted s p = .keyErr →
      ∃ w', getDotted s o = .found w' := fun hm hp => found_of_mixed (hmx ▸ hm) hp
  refine tri_bind (hk hrun x _) (fun ks => ?_)
  -- an element survives the filter only if the caller's options have it
  refine tri_bind (tri_filterM' (Qf := fun k => ∀ s, k = V.str s →
      (∃ w, getDotted s mixed = .found w) → ∃ w, getDotted s o = .found w)
    (fun k => ?_) ks.setElems) (fun kept => tri_pure ?_)
  · cases k with
    | str s =>
      simp only []
      refine tri_bind (Q1 := fun b => b = false → (∃ w, getDotted s mixed = .found w) → ∃ w, getDotted s o = .found w) ?_
        (fun b => tri_pure (fun hb hbt s' hs' => by cases hs'; exact hb (by simpa using hbt)))
      -- `_provides(s)`
      refine tri_bind (tri_existsKey s p) (fun ep => ?_)
      by_cases hep : ep = true
      · simp only [hep, Bool.not_true, Bool.false_eq_true, if_false]
        cases force with
        | false =>
          simp only [Bool.not_false, if_true]
          refine tri_bind (tri_existsKey s o) (fun ex => ?_)
          apply tri_pure
          intro hex _ hres _
          have : ex = true := by simpa using hres
          exact hex.1 this
        | true =>
          simp only [Bool.not_true, Bool.false_eq_true, if_false]
          refine tri_bind (tri_getKey s p) (fun pv => ?_)
          by_cases hpv : (!pv.isDict) = true
          · simp only [hpv, if_true]
            apply tri_pure
            intro _ _ h; cases h
          · simp only [hpv, if_false]
            refine tri_bind (tri_existsKey s o) (fun ex => ?_)
            by_cases hex : (!ex) = true
            · simp only [hex, if_true]
              apply tri_pure
              intro _ _ _ h; cases h
            · simp only [hex, if_false]
              refine tri_bind (tri_getKey s o) (fun ov => ?_)
              apply tri_pure
              intro hov _ _ _ _ _
              exact ⟨ov, hov⟩
      · have hepf : ep = false := by simpa using hep
        simp only [hepf, Bool.not_false, if_true]
        apply tri_pure
        intro hE' _ hfnd
        obtain ⟨w, hw⟩ := hfnd
        exact hfound hw (hE'.2 trivial)
    | _ => exact tri_pure (fun _ s hs => by cases hs)
  · intro hkept hks k hk
    simp only [V.setElems] at hk
    obtain ⟨hmem, hq⟩ := hkept k hk
    obtain ⟨s, w, rfl, hw⟩ := hks k hmem
    obtain ⟨w', hw'⟩ := hq s rfl ⟨w, hw⟩
    exact ⟨s, w', rfl, hw'⟩

theorem tri_applicationOp_keys (env : Env) (id : Nat) (f : Expr) (args : List Expr) (kw : List (String × Expr))
    (partial_ : Bool) (o : V) : Tri (KeysOk o) (applicationOp env run id f args kw partial_ .keys o) := by
  unfold applicationOp
  simp only []
  have hargs : Tri (KeysOk o) (pseudo .keys (tid id 1) (do
      let x ← pseudo .keys (tid id 2) (unionOver run .keys args o)
      let y ← pseudo .keys (tid id 3) (unionOver run .keys (kw.map Prod.snd) o)
      pure (unionV x y))) := by
    apply tri_pseudo_keys
    refine tri_bind (tri_pseudo_keys _ (tri_unionOver_keys hrun args o)) (fun x =>
      tri_bind (tri_pseudo_keys _ (tri_unionOver_keys hrun _ o)) (fun y => tri_pure ?_))
    intro hy hx; exact keysOk_unionV hx hy
  refine tri_bind (hk hrun f o) (fun a => tri_bind hargs (fun b => tri_pure ?_))
  intro hb ha; exact keysOk_unionV ha hb

/-- **one step.** `keys` of any node reports present keys only, provided `keys` of whatever it runs does (and no
    `AllOptions` is consulted) -/
theorem tri_nodeOp_keys (env : Env) (n : Nat) (e : Expr) (o : V) : Tri (KeysOk o) (nodeOp env run n .keys e o) := by
  have hpair : ∀ x y : Expr, Tri (KeysOk o) (do let a ← run .keys x o; let b ← run .keys y o; pure (unionV a b)) :=
    fun x y => tri_bind (hk hrun x o) (fun a => tri_bind (hk hrun y o) (fun b =>
      tri_pure (fun hb ha => keysOk_unionV ha hb)))
  cases e <;> unfold nodeOp <;> simp only []
  case value => exact tri_pure (keysOk_empty o)
  case option => exact tri_optionOp_keys hrun ..
  case apply => exact hpair _ _
  case bind =>
    apply tri_bindOp_keys hrun
    intro v; split
    · exact pres_pure ext_rel.toStRel truePred _
    · exact pres_raise ext_rel.toStRel truePred trivial
  case switch => exact tri_switchOp_keys hrun ..
  case dependsOn => exact hpair _ _
  case caseWhen =>
    apply tri_pseudo_keys
    apply tri_bindOp_keys hrun
    intro v; exact pres_chooseCase ext_rel.toStRel truePred (hE hrun) ..
  case coalesce => unfold coalesceOp; simp only []; exact tri_coalesceDelegate_keys hrun ..
  case iter => exact tri_unionOver_keys hrun ..
  case map => exact tri_mapOp_keys hrun ..
  case template => exact tri_templateOp_keys hrun ..
  case withOptions => exact tri_withOptionsOp_keys hrun ..
  case allOptions =>
    refine tri_bind (Q1 := fun _ => False) tri_readAll (fun _ => tri_weaken (fun _ _ h => h.elim) (tri_of_spec ?_))
    split <;> exact pres_pure ext_rel.toStRel truePred _
  case cached => unfold cachedOp; simp only []; exact hk hrun ..
  case logged => exact hk hrun ..
  case computation => unfold computationOp; simp only []; exact hk hrun ..
  case funApp => exact tri_applicationOp_keys hrun ..
  case partialApp => exact tri_applicationOp_keys hrun ..
  case pipelineStep => exact hk hrun ..
  case pipeline =>
    refine tri_bind (hk hrun _ o) (fun a => ?_)
    split
    · exact tri_bind (hk hrun _ o) (fun b => tri_pure (fun hb ha => keysOk_unionV ha hb))
    · exact tri_pure (fun ha => ha)
  case overloaded => exact hk hrun ..
  case dataset => exact hk hrun ..
  case «namespace» => unfold namespaceOp; simp only []; exact tri_unionOver_keys hrun ..

end

/-- the interpreter: every operation extends the log; `keys` returns present keys -/
theorem tri_ev (env : Env) : ∀ (n : Nat) (op : Op) (e : Expr) (o : V), Tri (QK op o) (ev env n op e o)
  | 0, op, e, o => by unfold ev; exact tri_outOfFuel
  | n + 1, op, e, o => by
    have hspec : ESpec (ev env (n + 1) op e o) := spec_ev ext_rel truePred env (ext_log env) (n + 1) op e o
    cases op
    case keys =>
      unfold ev
      simp only []
      refine tri_bind (tri_of_spec (pres_emit ext_rel.toStRel truePred _ rfl)) (fun _ => ?_)
      exact tri_weaken (fun _ h _ _ => h) (tri_nodeOp_keys (tri_ev env n) env n e o)
    all_goals exact tri_weaken (fun _ _ h => by cases h) (tri_of_spec hspec)

end Labrea

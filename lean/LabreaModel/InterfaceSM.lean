/-
  InterfaceSM — overload tables, dispatch, per-dataset caches and interfaces as a state machine
  over *histories* (property C07).

  What is modelled (labrea/overload.py, dataset.py, interface.py, conditional.py):

  * a dataset = `Overloaded(dispatch, lookup, default)` + callback + `MemoryCache`;
    `Overloaded.switch` is rebuilt from the current `dispatch/lookup/default` at every use,
    so `select` reads the *current* table;
  * `Switch._lookup`: dispatch evaluated; failure -> default (no `_DependsOn`), else the failure;
    unregistered value -> `_DependsOn(default, dispatch)` or `SwitchError`;
    registered -> `_DependsOn(lookup[key], dispatch)`;
  * `_DependsOn.keys = impl.keys | dispatch.keys`; the dataset's cache key is the fingerprint
    (sorted `(key, value)` pairs) of those keys; hit -> stored value, miss -> callback applied to
    the chosen implementation's value, stored;
  * `Dataset.register / overload (list aliases, stacked decorators) / set_dispatch` (the new
    `Overloaded` gets a copy of the table, the dataset keeps its cache);
  * `Interface.__init__` (one dispatch set on every member), `Implementation.__init__`
    (`defineImpl`, the repaired order: unknown member -> TypeError, abstract member without
    overload -> TypeError, only then registrations) and the pre-repair loop (`defineImplOld`).

  Implementations, dispatch datasets and callbacks are *parameters* (`Env`): an implementation
  is any deterministic evaluatable given by its value and key functions.  Python's hash equality
  of aliases (`1 == True`) is modelled by normalising aliases (`Alias.norm`).

  Not modelled: `with_options` derivatives (the only other holders of a reference to a
  dataset's `Overloaded`; without them the identity of the object replaced by `set_dispatch`
  is unobservable), effects, logging, non-memory caches, unhashable dispatch values beyond
  reporting `unhashable`.
-/
import LabreaModel.Value
namespace Labrea.Iface

abbrev Opts := List (String × V)
abbrev DsId := Nat
abbrev IfId := Nat
abbrev ImplId := Nat
abbrev CbId := Nat
abbrev DispId := Nat

/-! ## aliases (Python hashables) -/

inductive Atom where
  | nil
  | bool (b : Bool)
  | int (i : Int)
  | str (s : String)
  | missing
  deriving DecidableEq, Repr, Inhabited

inductive Alias where
  | atom (a : Atom)
  | tuple (xs : List Atom)
  deriving DecidableEq, Repr, Inhabited

/-- `True == 1`, `False == 0` (and equal hashes): the dict key an atom denotes -/
def Atom.norm : Atom → Atom
  | .bool b => .int (if b then 1 else 0)
  | a => a

def Alias.norm : Alias → Alias
  | .atom a => .atom a.norm
  | .tuple xs => .tuple (xs.map Atom.norm)

theorem Atom.norm_idem (a : Atom) : a.norm.norm = a.norm := by
  cases a <;> simp [Atom.norm]

theorem Alias.norm_idem (a : Alias) : a.norm.norm = a.norm := by
  cases a with
  | atom a => simp [Alias.norm, Atom.norm_idem]
  | tuple xs => simp [Alias.norm, Atom.norm_idem]

/-- Python `a == b` on aliases -/
def pyEq (a b : Alias) : Prop := a.norm = b.norm

instance (a b : Alias) : Decidable (pyEq a b) := by unfold pyEq; exact inferInstance

def atomOf : V → Option Atom
  | .none => some .nil
  | .bool b => some (.bool b)
  | .int i => some (.int i)
  | .str s => some (.str s)
  | .missing => some .missing
  | _ => Option.none

def atomsOf : List V → Option (List Atom)
  | [] => some []
  | x :: xs => match atomOf x, atomsOf xs with
    | some a, some as => some (a :: as)
    | _, _ => Option.none

/-- the hashable a dispatch value denotes; `none` = unhashable (list / dict / …) -/
def aliasOf : V → Option Alias
  | .tuple xs => (atomsOf xs).map Alias.tuple
  | v => (atomOf v).map Alias.atom

/-! ## generic association lists (Python dict: replace in place or append) -/

def aget {κ β : Type} [DecidableEq κ] (k : κ) : List (κ × β) → Option β
  | [] => Option.none
  | (k', v) :: rest => if k' = k then some v else aget k rest

def aput {κ β : Type} [DecidableEq κ] (k : κ) (v : β) : List (κ × β) → List (κ × β)
  | [] => [(k, v)]
  | (k', v') :: rest => if k' = k then (k, v) :: rest else (k', v') :: aput k v rest

theorem aget_aput_same {κ β : Type} [DecidableEq κ] (k : κ) (v : β) (l : List (κ × β)) :
    aget k (aput k v l) = some v := by
  induction l with
  | nil => simp [aput, aget]
  | cons p rest ih =>
    obtain ⟨k', v'⟩ := p
    by_cases h : k' = k <;> simp [aput, aget, h, ih]

theorem aget_aput_other {κ β : Type} [DecidableEq κ] {k k' : κ} (h : k ≠ k') (v : β)
    (l : List (κ × β)) : aget k' (aput k v l) = aget k' l := by
  induction l with
  | nil => simp [aput, aget, h]
  | cons p rest ih =>
    obtain ⟨k'', v''⟩ := p
    by_cases h2 : k'' = k
    · subst h2; simp [aput, aget, h]
    · by_cases h3 : k'' = k'
      · subst h3
        have h4 : ¬ k = k'' := fun e => h2 e.symm
        simp [aput, aget, h2]
      · simp [aput, aget, h2, h3, ih]

theorem mem_aput {κ β : Type} [DecidableEq κ] {k : κ} {v : β} {l : List (κ × β)} {e : κ × β}
    (h : e ∈ aput k v l) : e = (k, v) ∨ e ∈ l := by
  induction l with
  | nil => simp [aput] at h; exact Or.inl h
  | cons p rest ih =>
    obtain ⟨k', v'⟩ := p
    by_cases h2 : k' = k
    · simp [aput, h2] at h
      rcases h with h | h
      · exact Or.inl h
      · exact Or.inr (List.mem_cons_of_mem _ h)
    · simp [aput, h2] at h
      rcases h with h | h
      · exact Or.inr (by rw [h]; exact List.mem_cons_self)
      · rcases ih h with h | h
        · exact Or.inl h
        · exact Or.inr (List.mem_cons_of_mem _ h)

theorem aget_some_mem {κ β : Type} [DecidableEq κ] {k : κ} {v : β} {l : List (κ × β)}
    (h : aget k l = some v) : (k, v) ∈ l := by
  induction l with
  | nil => simp [aget] at h
  | cons p rest ih =>
    obtain ⟨k', v'⟩ := p
    by_cases h2 : k' = k
    · simp [aget, h2] at h; subst h2; subst h; exact List.mem_cons_self
    · simp [aget, h2] at h; exact List.mem_cons_of_mem _ (ih h)

/-! ## overload tables: keys are stored normalised, lookups normalise -/

abbrev Table := List (Alias × ImplId)

/-- `key in lookup` / `lookup[key]` with Python equality -/
def tlookup (a : Alias) (t : Table) : Option ImplId := aget a.norm t

/-- `{**lookup, key: value}` -/
def tinsert (a : Alias) (i : ImplId) (t : Table) : Table := aput a.norm i t

theorem tlookup_tinsert_eq {a b : Alias} (h : pyEq a b) (i : ImplId) (t : Table) :
    tlookup b (tinsert a i t) = some i := by
  unfold tlookup tinsert; unfold pyEq at h; rw [h]; exact aget_aput_same _ _ _

theorem tlookup_tinsert_ne {a b : Alias} (h : ¬ pyEq a b) (i : ImplId) (t : Table) :
    tlookup b (tinsert a i t) = tlookup b t := by
  unfold tlookup tinsert; exact aget_aput_other h _ _

/-! ## fingerprints -/

abbrev Fingerprint := List (String × Option V)

def insKey (k : String) : List String → List String
  | [] => [k]
  | x :: xs => if k < x then k :: x :: xs else if k = x then x :: xs else x :: insKey k xs

/-- `sorted(set(keys))` -/
def sortKeys (ks : List String) : List String := ks.foldr insKey []

/-- `[{key: get_dotted_key(key, options)} for key in sorted(keys)]` on flat dictionaries -/
def fpOf (ks : List String) (o : Opts) : Fingerprint := (sortKeys ks).map fun k => (k, alookup k o)

theorem mem_insKey {k y : String} {xs : List String} : y ∈ insKey k xs ↔ y = k ∨ y ∈ xs := by
  induction xs with
  | nil => simp [insKey]
  | cons x xs ih =>
    unfold insKey
    by_cases h1 : k < x
    · simp [h1]
    · by_cases h2 : k = x
      · subst h2; simp [h1]
      · simp [h1, h2, ih]
        constructor
        · rintro (h | h | h)
          · exact Or.inr (Or.inl h)
          · exact Or.inl h
          · exact Or.inr (Or.inr h)
        · rintro (h | h | h)
          · exact Or.inr (Or.inl h)
          · exact Or.inl h
          · exact Or.inr (Or.inr h)

theorem mem_sortKeys {y : String} {ks : List String} : y ∈ sortKeys ks ↔ y ∈ ks := by
  induction ks with
  | nil => simp [sortKeys]
  | cons k ks ih =>
    have : sortKeys (k :: ks) = insKey k (sortKeys ks) := rfl
    rw [this, mem_insKey, ih]; simp

/-- equal fingerprints: every fingerprinted key of one side is a key of the other with the same
    value -/
theorem fpOf_eq_agree {ks ks' : List String} {o o' : Opts} (h : fpOf ks o = fpOf ks' o')
    {k : String} (hk : k ∈ ks) : k ∈ ks' ∧ alookup k o = alookup k o' := by
  have h1 : (k, alookup k o) ∈ fpOf ks o :=
    List.mem_map.mpr ⟨k, mem_sortKeys.mpr hk, rfl⟩
  rw [h] at h1
  obtain ⟨k', hk', he⟩ := List.mem_map.mp h1
  simp at he
  obtain ⟨he1, he2⟩ := he
  subst he1
  exact ⟨mem_sortKeys.mp hk', he2.symm⟩

/-! ## errors, dispatch expressions, the environment of opaque evaluatables -/

inductive Err where
  | keyNotFound (k : String)
  | switchError (a : Alias)
  | unhashable
  | other (tag : String)
  deriving DecidableEq, Repr, Inhabited

inductive Dispatch where
  /-- `Value(MISSING)`: a dataset created without `dispatch=` -/
  | missing
  /-- `dispatch='K'` / `Option('K')` -/
  | key (k : String)
  /-- `Option('K', v)` -/
  | keyDefault (k : String) (v : V)
  /-- an opaque evaluatable (a dataset) -/
  | dataset (dd : DispId)
  deriving DecidableEq, Repr, Inhabited

/-- the opaque evaluatables: implementation bodies (value and keys under an options dictionary),
    dispatch datasets, callbacks -/
structure Env where
  implVal : ImplId → Opts → Except Err V
  implKeys : ImplId → Opts → Except Err (List String)
  dispVal : DispId → Opts → Except Err V
  dispKeys : DispId → Opts → Except Err (List String)
  cb : CbId → V → V

def Dispatch.eval (env : Env) : Dispatch → Opts → Except Err V
  | .missing, _ => .ok .missing
  | .key k, o => match alookup k o with
    | some v => .ok v
    | Option.none => .error (.keyNotFound k)
  | .keyDefault k v, o => match alookup k o with
    | some w => .ok w
    | Option.none => .ok v
  | .dataset dd, o => env.dispVal dd o

def Dispatch.keys (env : Env) : Dispatch → Opts → Except Err (List String)
  | .missing, _ => .ok []
  | .key k, o => match alookup k o with
    | some _ => .ok [k]
    | Option.none => .error (.keyNotFound k)
  | .keyDefault k _, o => match alookup k o with
    | some _ => .ok [k]
    | Option.none => .ok []
  | .dataset dd, o => env.dispKeys dd o

def Dispatch.isMissing : Dispatch → Bool
  | .missing => true
  | _ => false

/-! ## datasets -/

/-- everything of a dataset except its cache -/
structure Cfg where
  dispatch : Dispatch
  table : Table
  default : Option ImplId
  callback : Option CbId
  deriving DecidableEq, Repr

structure DsRec extends Cfg where
  cache : List (Fingerprint × V)
  deriving DecidableEq, Repr

structure IfRec where
  dispatch : Dispatch
  members : List (String × DsId)
  deriving DecidableEq, Repr

structure St where
  ds : DsId → Option DsRec
  ifs : IfId → Option IfRec

def St.init : St := { ds := fun _ => Option.none, ifs := fun _ => Option.none }

def St.setDs (s : St) (d : DsId) (r : DsRec) : St :=
  { s with ds := fun x => if x = d then some r else s.ds x }

def St.modDs (s : St) (d : DsId) (f : DsRec → DsRec) : St :=
  match s.ds d with
  | Option.none => s
  | some r => s.setDs d (f r)

/-! ## selection (`Switch._lookup`) -/

inductive Choice where
  /-- the dispatch evaluated to `a`, which is registered -/
  | hit (a : Alias) (i : ImplId)
  /-- the dispatch evaluated to `a`, unregistered: default, still depending on the dispatch -/
  | dflt (a : Alias) (i : ImplId)
  /-- the dispatch could not be evaluated: default, no dependency on the dispatch -/
  | fallback (i : ImplId)
  deriving DecidableEq, Repr

def Choice.impl : Choice → ImplId
  | .hit _ i => i
  | .dflt _ i => i
  | .fallback i => i

def Choice.alias? : Choice → Option Alias
  | .hit a _ => some a
  | .dflt a _ => some a
  | .fallback _ => Option.none

def select (env : Env) (c : Cfg) (o : Opts) : Except Err Choice :=
  match c.dispatch.eval env o with
  | .error e => match c.default with
    | some i => .ok (.fallback i)
    | Option.none => .error e
  | .ok v => match aliasOf v with
    | Option.none => .error .unhashable
    | some a => match tlookup a c.table with
      | some i => .ok (.hit a i)
      | Option.none => match c.default with
        | some i => .ok (.dflt a i)
        | Option.none => .error (.switchError a)

/-- `impl.keys(o) | dispatch.keys(o)` -/
def withDispatchKeys (env : Env) (c : Cfg) (o : Opts) (i : ImplId) : Except Err (List String) :=
  match env.implKeys i o with
  | .error e => .error e
  | .ok ik => match c.dispatch.keys env o with
    | .error e => .error e
    | .ok dk => .ok (ik ++ dk)

/-- `Switch.keys`: `_DependsOn(impl, dispatch).keys`, or the bare default's keys -/
def chosenKeys (env : Env) (c : Cfg) (o : Opts) : Choice → Except Err (List String)
  | .hit _ i => withDispatchKeys env c o i
  | .dflt _ i => withDispatchKeys env c o i
  | .fallback i => env.implKeys i o

def fingerprint (env : Env) (c : Cfg) (o : Opts) : Except Err Fingerprint :=
  match select env c o with
  | .error e => .error e
  | .ok ch => match chosenKeys env c o ch with
    | .error e => .error e
    | .ok ks => .ok (fpOf ks o)

def applyCb (env : Env) : Option CbId → V → V
  | Option.none, v => v
  | some f, v => env.cb f v

/-- the cold (cache-free) evaluation of a dataset with configuration `c` -/
def den (env : Env) (c : Cfg) (o : Opts) : Except Err V :=
  match select env c o with
  | .error e => .error e
  | .ok ch => match chosenKeys env c o ch with
    | .error e => .error e
    | .ok _ => match env.implVal ch.impl o with
      | .error e => .error e
      | .ok v => .ok (applyCb env c.callback v)

instance {ε α : Type} [DecidableEq ε] [DecidableEq α] : DecidableEq (Except ε α) := fun a b =>
  match a, b with
  | .ok x, .ok y => if h : x = y then isTrue (by rw [h]) else isFalse (fun e => h (by cases e; rfl))
  | .error x, .error y =>
    if h : x = y then isTrue (by rw [h]) else isFalse (fun e => h (by cases e; rfl))
  | .ok _, .error _ => isFalse (fun e => by cases e)
  | .error _, .ok _ => isFalse (fun e => by cases e)

structure Outcome where
  res : Except Err V
  hit : Bool
  fp : Option Fingerprint
  deriving DecidableEq, Repr

/-- `Dataset.evaluate` through `Cached`: fingerprint, hit -> stored value, miss -> compute + store -/
def evalDs (env : Env) (s : St) (d : DsId) (o : Opts) : Outcome × St :=
  match s.ds d with
  | Option.none => (⟨.error (.other "no such dataset"), false, Option.none⟩, s)
  | some r => match fingerprint env r.toCfg o with
    | .error e => (⟨.error e, false, Option.none⟩, s)
    | .ok fp => match aget fp r.cache with
      | some v => (⟨.ok v, true, some fp⟩, s)
      | Option.none => match den env r.toCfg o with
        | .error e => (⟨.error e, false, some fp⟩, s)
        | .ok w => (⟨.ok w, false, some fp⟩, s.setDs d { r with cache := aput fp w r.cache })

/-! ## operations -/

inductive TypeErr where
  | unknownMember (n : String)
  | missingAbstract (n : String)
  deriving DecidableEq, Repr

inductive Op where
  /-- `@dataset(dispatch=…, callback=…)` / `@abstractdataset(dispatch=…)` (fresh cache) -/
  | newDs (d : DsId) (disp : Dispatch) (dflt : Option ImplId) (cb : Option CbId)
  /-- `d.register(alias, impl)` -/
  | register (d : DsId) (a : Alias) (i : ImplId)
  /-- `@d1.overload(as1) @d2.overload(as2) … def impl` — targets in *application* order
      (innermost decorator first); one target = a plain `.overload(alias | [aliases])` -/
  | overload (targets : List (DsId × List Alias)) (i : ImplId)
  /-- `d.set_dispatch(disp)` -/
  | setDispatch (d : DsId) (disp : Dispatch)
  /-- `@interface(disp) class I: members` (member datasets exist already) -/
  | defineInterface (I : IfId) (disp : Dispatch) (members : List (String × DsId))
  /-- `@implements(*ifaces, alias=aliases) class C: provided` -/
  | defineImpl (ifaces : List IfId) (aliases : List Alias) (provided : List (String × ImplId))
  | evaluate (d : DsId) (o : Opts)

inductive Obs where
  | done
  | valueError
  | typeError (e : TypeErr)
  | eval (out : Outcome)
  deriving DecidableEq, Repr

def regDs (s : St) (d : DsId) (a : Alias) (i : ImplId) : St :=
  s.modDs d fun r => { r with table := tinsert a i r.table }

abbrev Reg := DsId × Alias × ImplId

def applyRegs (s : St) (regs : List Reg) : St :=
  regs.foldl (fun s x => regDs s x.1 x.2.1 x.2.2) s

def hasDispatch (s : St) (d : DsId) : Bool :=
  match s.ds d with
  | some r => !r.dispatch.isMissing
  | Option.none => false

def overloadRegs (targets : List (DsId × List Alias)) (i : ImplId) : List Reg :=
  targets.flatMap fun t => t.2.map fun a => (t.1, a, i)

/-- every `.overload(alias)` call checks for a dispatch (ValueError) before any decorator runs -/
def doOverload (s : St) (targets : List (DsId × List Alias)) (i : ImplId) : St × Obs :=
  if targets.all (fun t => hasDispatch s t.1) then (applyRegs s (overloadRegs targets i), .done)
  else (s, .valueError)

/-- `set_dispatch`: new `Overloaded(dispatch, lookup.copy(), default)`; the cache stays -/
def setDisp (s : St) (d : DsId) (disp : Dispatch) : St :=
  s.modDs d fun r => { r with dispatch := disp }

def defIface (s : St) (I : IfId) (disp : Dispatch) (ms : List (String × DsId)) : St :=
  let s1 := ms.foldl (fun s m => setDisp s m.2 disp) s
  { s1 with ifs := fun x => if x = I then some ⟨disp, ms⟩ else s1.ifs x }

/-- `_get_members`, flattened: `(name, member)` in interface order -/
def flatMembers (s : St) (ifaces : List IfId) : List (String × DsId) :=
  ifaces.flatMap fun I => match s.ifs I with
    | some ir => ir.members
    | Option.none => []

def isAbstract (s : St) (d : DsId) : Bool :=
  match s.ds d with
  | some r => r.default.isNone
  | Option.none => false

/-- first-occurrence order of distinct elements (the key order of the `members` dict) -/
def dedupF {α : Type} [DecidableEq α] : List α → List α
  | [] => []
  | x :: xs => x :: (dedupF xs).filter (fun y => decide (y ≠ x))

theorem mem_dedupF {α : Type} [DecidableEq α] {y : α} {l : List α} : y ∈ dedupF l ↔ y ∈ l := by
  induction l with
  | nil => simp [dedupF]
  | cons x xs ih =>
    simp [dedupF, ih]
    by_cases h : y = x <;> simp [h]

def memberNames (flat : List (String × DsId)) : List String := dedupF (flat.map Prod.fst)

def regsFor (flat : List (String × DsId)) (aliases : List Alias) (n : String) (i : ImplId) :
    List Reg :=
  (flat.filter fun m => m.1 = n).flatMap fun m => aliases.map fun a => (m.2, a, i)

/-- the registrations of a complete implementation: every provided member, on every interface
    that has a member of that name, under every alias -/
def implRegs (flat : List (String × DsId)) (aliases : List Alias)
    (provided : List (String × ImplId)) : List Reg :=
  (memberNames flat).flatMap fun n => match aget n provided with
    | Option.none => []
    | some i => regsFor flat aliases n i

def unknownCheck (flat : List (String × DsId)) (provided : List (String × ImplId)) :
    Option (String × ImplId) :=
  provided.find? fun p => !(memberNames flat).contains p.1

def abstractCheck (s : St) (flat : List (String × DsId)) (provided : List (String × ImplId)) :
    Option String :=
  (memberNames flat).find? fun n =>
    (aget n provided).isNone && flat.any fun m => m.1 == n && isAbstract s m.2

/-- `Implementation.__init__` (repaired): the state after the statement and the TypeError raised,
    if any -/
def defineImpl (s : St) (ifaces : List IfId) (aliases : List Alias)
    (provided : List (String × ImplId)) : St × Option TypeErr :=
  let flat := flatMembers s ifaces
  match unknownCheck flat provided with
  | some p => (s, some (.unknownMember p.1))
  | Option.none => match abstractCheck s flat provided with
    | some n => (s, some (.missingAbstract n))
    | Option.none => (applyRegs s (implRegs flat aliases provided), Option.none)

/-- the loop before the repair: check and register member name by member name -/
def oldLoop (flat : List (String × DsId)) (aliases : List Alias)
    (provided : List (String × ImplId)) : List String → St → St × Option TypeErr
  | [], s => (s, Option.none)
  | n :: ns, s =>
    match aget n provided with
    | Option.none =>
      if (flat.filter fun m => m.1 = n).any (fun m => isAbstract s m.2) then
        (s, some (.missingAbstract n))
      else oldLoop flat aliases provided ns s
    | some i => oldLoop flat aliases provided ns (applyRegs s (regsFor flat aliases n i))

def defineImplOld (s : St) (ifaces : List IfId) (aliases : List Alias)
    (provided : List (String × ImplId)) : St × Option TypeErr :=
  let flat := flatMembers s ifaces
  match unknownCheck flat provided with
  | some p => (s, some (.unknownMember p.1))
  | Option.none => oldLoop flat aliases provided (memberNames flat) s

def step (env : Env) (s : St) : Op → St × Obs
  | .newDs d disp dflt cb => (s.setDs d ⟨⟨disp, [], dflt, cb⟩, []⟩, .done)
  | .register d a i => (regDs s d a i, .done)
  | .overload ts i => doOverload s ts i
  | .setDispatch d disp => (setDisp s d disp, .done)
  | .defineInterface I disp ms => (defIface s I disp ms, .done)
  | .defineImpl ifs as pr =>
    match defineImpl s ifs as pr with
    | (s', Option.none) => (s', .done)
    | (s', some e) => (s', .typeError e)
  | .evaluate d o => ((evalDs env s d o).2, .eval (evalDs env s d o).1)

def run (env : Env) : St → List Op → St
  | s, [] => s
  | s, op :: h => run env (step env s op).1 h

def runObs (env : Env) : St → List Op → List Obs
  | _, [] => []
  | s, op :: h => (step env s op).2 :: runObs env (step env s op).1 h

end Labrea.Iface

/-
  Layer 1 — the expression graph: one constructor per labrea node class, with the same
  children as the class's attributes.  Every node carries an `id` (0 for objects the program
  description does not declare); nodes that the code creates at evaluation time ("transient":
  `_DependsOn`, the `Switch` of an `Overloaded`, a dataset's `_composed` chain, `Map`'s `Iter`
  tree, the `Template`/`Option` helpers inside `Option.keys` / `Template.validate`, the
  feature-switch options) get ids derived from their creator with `tid`.
-/
import LabreaModel.Resolve
namespace Labrea

inductive Expr where
  | value (id : Nat) (v : V)
  | option (id : Nat) (key : String) (dflt : Option Expr) (dom : Option Expr)
  | apply (id : Nat) (e f : Expr)
  /-- `Bind`: the continuation is entry `k` of the environment's table -/
  | bind (id : Nat) (e : Expr) (k : Nat)
  | switch (id : Nat) (d : Expr) (lookup : List (V × Expr)) (dflt : Option Expr)
  | dependsOn (id : Nat) (e d : Expr)
  | caseWhen (id : Nat) (d : Expr) (cases : List (Expr × Expr)) (dflt : Option Expr)
  | coalesce (id : Nat) (ms : List Expr)
  | iter (id : Nat) (es : List Expr)
  | map (id : Nat) (e : Expr) (its : List (String × Expr))
  | template (id : Nat) (t : String) (params : List (String × Expr))
  | withOptions (id : Nat) (e : Expr) (p : V) (force : Bool)
  | allOptions (id : Nat)
  | cached (id : Nat) (e : Expr) (cache : Nat)
  | logged (id : Nat) (e : Expr) (msg : String)
  /-- `Computation` with a `ChainedEffect` of `CallbackEffect`s (their callback expressions) -/
  | computation (id : Nat) (e : Expr) (effects : List Expr)
  | funApp (id : Nat) (f : Expr) (args : List Expr) (kw : List (String × Expr))
  | partialApp (id : Nat) (f : Expr) (args : List Expr) (kw : List (String × Expr))
  | pipelineStep (id : Nat) (step : Expr)
  | pipeline (id : Nat) (tail : Expr) (rest : Option Expr)
  /-- an `Overloaded` object: dispatch / table / default live in the environment (mutable by
      `register`) -/
  | overloaded (id : Nat) (ov : Nat)
  /-- a `Dataset` object: its record lives in the environment -/
  | dataset (id : Nat) (ds : Nat)
  | namespace (id : Nat) (key : String) (members : List (String × Expr))
  deriving Inhabited

def Expr.id : Expr → Nat
  | .value i _ | .option i _ _ _ | .apply i _ _ | .bind i _ _ | .switch i _ _ _
  | .dependsOn i _ _ | .caseWhen i _ _ _ | .coalesce i _ | .iter i _ | .map i _ _
  | .template i _ _ | .withOptions i _ _ _ | .allOptions i | .cached i _ _ | .logged i _ _
  | .computation i _ _ | .funApp i _ _ _ | .partialApp i _ _ _ | .pipelineStep i _
  | .pipeline i _ _ | .overloaded i _ | .dataset i _ | .namespace i _ _ => i

/-- id of the `k`-th transient object created by node `parent` -/
def tid (parent k : Nat) : Nat := 1000000 + parent * 64 + k

/-! ### Errors: the exception together with its `__cause__` chain -/

inductive ErrCls where
  | evaluation | keyNotFound | switchErr | caseWhenErr | insufficient
  /-- any exception class that is not an `EvaluationError` (by class name) -/
  | other (cls : String)
  deriving DecidableEq, Repr, Inhabited

structure Frame where
  cls : ErrCls
  /-- `EvaluationError.source` (node id; 0 = undeclared object or no source) -/
  src : Nat := 0
  /-- `KeyNotFoundError.key` -/
  key : String := ""
  deriving DecidableEq, Repr, Inhabited

/-- outermost exception first, then its `__cause__`, … -/
abbrev Err := List Frame

def Err.isEvaluationError : Err → Bool
  | [] => false
  | f :: _ => match f.cls with
    | .other _ => false
    | _ => true

def Err.isKeyNotFound : Err → Bool
  | [] => false
  | f :: _ => f.cls = .keyNotFound

def errOther (cls : String) : Err := [{ cls := .other cls }]

/-! ### Environment (read-only during evaluation) and state -/

inductive Op where
  | evaluate | validate | keys | explain
  deriving DecidableEq, Repr, Inhabited

def Op.name : Op → String
  | .evaluate => "evaluate" | .validate => "validate" | .keys => "keys" | .explain => "explain"

structure OvRec where
  dispatch : Expr
  table : List (V × Expr)
  dflt : Option Expr
  deriving Inhabited

structure DsRec where
  /-- the dataset's `Overloaded` object -/
  ov : Nat
  effects : List Expr
  cache : Nat
  options : V
  defaultOptions : V
  callback : Expr
  effectsDisabled : Bool
  /-- text of the log request -/
  msg : String
  deriving Inhabited

inductive CacheKind where
  | memory | nocache | scripted
  deriving DecidableEq, Repr, Inhabited

inductive Fault where
  | behave | miss | lieExists | failGet | forget
  /-- answers (exists: yes; get: failure) without even looking at the request: no fingerprint is computed -/
  | lieBlind
  deriving DecidableEq, Repr, Inhabited

structure Env where
  /-- user callables (bodies, steps, callbacks, predicates, factories): total, deterministic;
      `error cls` = raises an exception of class `cls` -/
  β : String → List V → List (String × V) → Except String V
  /-- `Bind` continuations; `error cls` = the continuation raises -/
  binds : Nat → V → Except String Expr
  ov : Nat → OvRec
  ds : Nat → DsRec
  cacheKind : Nat → CacheKind
  /-- `with labrea.cache.disabled():` is active -/
  cacheCtxOff : Bool := false
  /-- `with labrea.logging.disabled():` is active -/
  logCtxOff : Bool := false
  /-- an `EvaluateRequest` handler that answers for one node with a fixed value -/
  subst : Option (Nat × V) := Option.none

inductive Event where
  /-- execution of a user callable -/
  | call (f : String) (args : List V) (kw : List (String × V))
  /-- a dotted-key lookup in the options a node was given -/
  | read (key : String)
  /-- `options.keys()` / `resolve(options)` of the whole dictionary -/
  | readAll
  /-- a cache *backend* call -/
  | cacheOp (cache : Nat) (op : String) (fp : V) (res : String)
  | log (msg : String) (emitted : Bool)
  | req (op : String) (node : Nat)
  | typeCheck (node : Nat)
  | warn (what : String)
  deriving Inhabited

/-- a log record (emitted or suppressed by the option switch) -/
def Event.isLog : Event → Bool
  | .log _ _ => true
  | _ => false

/-- the whole-dictionary read of an `AllOptions` node -/
def Event.isReadAll : Event → Bool
  | .readAll => true
  | _ => false

structure St where
  /-- cache id ↦ (fingerprint ↦ value) -/
  caches : List (Nat × List (V × V)) := []
  /-- remaining fault script of each scripted cache (one entry per backend call) -/
  scripts : List (Nat × List Fault) := []
  /-- newest first -/
  events : List Event := []
  deriving Inhabited

end Labrea

/-
  C13 — `labrea/pipeline.py` as a `(tail, rest)` linked list.

  What is modelled (line numbers of labrea/pipeline.py at the pinned commit):

  * `PipelineStep(step)`                                   (l. 29-90)   → `Step`
      - `Identity = PipelineStep(Value(_identity))`         (l. 93-97)   → `Step.identity`
        (`PipelineStep.__eq__` compares the wrapped `step`s, so *every* `PipelineStep(Value(_identity))`
         is `== Identity`; the model has one constructor for all of them)
      - `PipelineStep(PartialApplication(prim, *pos, **kw))` (application.py l. 164-214; what
        `pipeline_step`/`PartialApplication.lift` and the helpers of `labrea.functions` build)
                                                                          → `Step.partialApp`
      - `PipelineStep(e)` for any other Evaluatable `e` (a `Value(callable)`, an `Option` holding a
        callable, a nested `Pipeline`)                                   → `Step.opaque`
  * `Pipeline(tail=Identity, rest=None)`, `__init__` dropping an empty `rest`   (l. 138-147) → `Pipeline.init`
  * `empty`                                                (l. 199-201) → `Pipeline.empty`
  * `__add__` (three cases, the third recursive), `PipelineStep.__add__`  (l. 183-192, 83-85) → `Pipeline.add`, `addOperand`
  * `__iter__`                                             (l. 194-197) → `Pipeline.iter`
  * `evaluate` (`lambda x: tail(rest(x))`), `transform`, `keys`, `explain`  (l. 149-176)
  * `Apply.evaluate` for `e >> p`                          (types.py l. 433-436) → `applyEval`

  Exceptions.  Every `evaluate` goes through an `EvaluateRequest` whose default handler re-raises
  whatever happens inside as `labrea.exceptions.EvaluationError` (types.py `_evaluate_request`), so
  the *parameter phase* of a pipeline has a single failure outcome (`none`, reported as
  `Err.evaluation`).  The function returned by `evaluate` runs outside any request: an exception
  raised by a step body escapes unchanged (`Err.raised cls`).  `keys`/`explain` requests do not
  re-wrap: a `KeyNotFoundError` of a parameter escapes unchanged (`Err.keyNotFound`).

  Values `α` and options `Ω` are parameters of the model; step bodies are total functions
  `… → Except Err α` (pure: no side effects, which is what the property speaks about).
  Key sets are lists (`a | b` is `a ++ b`); the theorems speak about membership.
  No Mathlib.
-/
namespace Labrea.PipelineLL

inductive Err where
  /-- `labrea.exceptions.EvaluationError` as re-raised by an `evaluate` request -/
  | evaluation
  /-- `KeyNotFoundError` escaping from `keys()` -/
  | keyNotFound
  /-- `InsufficientInformationError` escaping from `explain()` -/
  | insufficient
  /-- exception of class `cls` raised by the body of a step while it transforms a value -/
  | raised (cls : String)
  deriving DecidableEq, Repr, Inhabited

abbrev Keys := List String

/-- A parameter expression of a step (the `Evaluatable` bound to a keyword / position of a
    `PartialApplication`): evaluated under the options at evaluate time, with a key set. -/
structure Param (Ω α : Type) where
  /-- `evaluate(options)`; `none` = it raises (re-raised as EvaluationError by the enclosing request) -/
  eval : Ω → Option α
  keys : Ω → Except Err Keys
  explain : Ω → Except Err Keys

/-- `Value(v)`: a constant parameter -/
def Param.const {Ω α : Type} (v : α) : Param Ω α :=
  { eval := fun _ => some v, keys := fun _ => .ok [], explain := fun _ => .ok [] }

/-- union of key sets computed left to right; the first failure escapes (`a | b | …`) -/
def seqUnion : List (Except Err Keys) → Except Err Keys
  | [] => .ok []
  | r :: rs => do
    let a ← r
    let b ← seqUnion rs
    pure (a ++ b)

/-- `EvaluatableArgs.evaluate`: the positional parameters, left to right -/
def evalPos {Ω α : Type} (o : Ω) : List (Param Ω α) → Option (List α)
  | [] => some []
  | p :: ps => do
    let v ← p.eval o
    let vs ← evalPos o ps
    pure (v :: vs)

/-- `EvaluatableKwargs.evaluate`: the keyword parameters, in dict order -/
def evalKw {Ω α : Type} (o : Ω) : List (String × Param Ω α) → Option (List (String × α))
  | [] => some []
  | (k, p) :: ps => do
    let v ← p.eval o
    let vs ← evalKw o ps
    pure ((k, v) :: vs)

/-- A pipeline step, `PipelineStep(step)`. `tag` is the identity of the Python object. -/
inductive Step (Ω α : Type) where
  /-- any `PipelineStep` that is `== Identity`, i.e. wraps `Value(_identity)` -/
  | identity
  /-- `PipelineStep(e)` for an arbitrary Evaluatable `e` yielding a callable -/
  | opaque (tag : Nat) (ev : Ω → Option (α → Except Err α))
      (keys : Ω → Except Err Keys) (explain : Ω → Except Err Keys)
  /-- `PipelineStep(PartialApplication(prim, *pos, **kw))`; `prim` receives the positional
      arguments (bound ones first, then the transformed value) and the keyword arguments -/
  | partialApp (tag : Nat) (prim : List α → List (String × α) → Except Err α)
      (pos : List (Param Ω α)) (kw : List (String × Param Ω α))

namespace Step
variable {Ω α : Type}

/-- `step == Identity` -/
def isIdentity : Step Ω α → Bool
  | .identity => true
  | _ => false

def tag? : Step Ω α → Option Nat
  | .identity => none
  | .opaque t _ _ _ => some t
  | .partialApp t _ _ _ => some t

/-- `PipelineStep.evaluate(options)`; for a `PartialApplication` this is
    `functools.partial(func, *args, **kwargs)`, a callable taking the remaining (first free)
    positional argument -/
def evaluate : Step Ω α → Ω → Option (α → Except Err α)
  | .identity, _ => some Except.ok
  | .opaque _ ev _ _, o => ev o
  | .partialApp _ prim pos kw, o => do
    let ps ← evalPos o pos
    let ks ← evalKw o kw
    pure (fun x => prim (ps ++ [x]) ks)

/-- `PipelineStep.keys(options)`: `func.keys | args.keys | kwargs.keys` (func is a `Value`) -/
def keys : Step Ω α → Ω → Except Err Keys
  | .identity, _ => .ok []
  | .opaque _ _ ks _, o => ks o
  | .partialApp _ _ pos kw, o =>
    seqUnion (pos.map (fun p => p.keys o) ++ kw.map (fun p => p.2.keys o))

def explain : Step Ω α → Ω → Except Err Keys
  | .identity, _ => .ok []
  | .opaque _ _ _ ex, o => ex o
  | .partialApp _ _ pos kw, o =>
    seqUnion (pos.map (fun p => p.explain o) ++ kw.map (fun p => p.2.explain o))

/-- `PipelineStep.transform(value, options)` = `self(options)(value)` -/
def transform (s : Step Ω α) (x : α) (o : Ω) : Except Err α :=
  match s.evaluate o with
  | none => .error .evaluation
  | some f => f x

end Step

/-- `Pipeline`: `single t` is `(tail = t, rest = None)`, `cons t r` is `(tail = t, rest = r)`. -/
inductive Pipeline (Ω α : Type) where
  | single (tail : Step Ω α)
  | cons (tail : Step Ω α) (rest : Pipeline Ω α)

namespace Pipeline
variable {Ω α : Type}

/-- `self.tail == Identity and self.rest is None` -/
def empty : Pipeline Ω α → Bool
  | .single t => t.isIdentity
  | .cons _ _ => false

/-- `Pipeline.__init__(tail, rest)`: an empty `rest` is dropped -/
def init (tail : Step Ω α) : Option (Pipeline Ω α) → Pipeline Ω α
  | none => .single tail
  | some r => if r.empty then .single tail else .cons tail r

/-- `Pipeline()` -/
def new : Pipeline Ω α := init .identity none

/-- `Pipeline.__add__(self, other)` for `other` a `PipelineStep` (first case) or anything that is
    neither a step nor a pipeline (last case; the caller wraps it in a `PipelineStep`) -/
def addStep (self : Pipeline Ω α) (s : Step Ω α) : Pipeline Ω α := init s (some self)

/-- `Pipeline.__add__(self, other)` for `other` a `Pipeline` (second case):
    ```
    if other.empty: return self
    elif other.rest is None: return Pipeline(other.tail, self)
    return (self + other.rest) + other.tail
    ```
    The recursion is on the right operand, as in the code. -/
def add (self : Pipeline Ω α) : Pipeline Ω α → Pipeline Ω α
  | .single t => if (Pipeline.single t).empty then self else init t (some self)
  | .cons t r => addStep (add self r) t

instance : Add (Pipeline Ω α) := ⟨add⟩

/-- `__iter__`: `yield from self.rest` (when not None), then `yield self.tail` -/
def iter : Pipeline Ω α → List (Step Ω α)
  | .single t => [t]
  | .cons t r => iter r ++ [t]

/-- the steps of a pipeline: what `__iter__` yields, except that the empty pipeline (whose
    `__iter__` yields its placeholder `Identity`) has none -/
def steps (p : Pipeline Ω α) : List (Step Ω α) := if p.empty then [] else p.iter

/-- `Pipeline.evaluate(options)`:
    ```
    tail = self.tail.evaluate(options)
    rest = self.rest.evaluate(options) if self.rest else lambda x: x
    return lambda x: tail(rest(x))
    ``` -/
def evaluate : Pipeline Ω α → Ω → Option (α → Except Err α)
  | .single t, o => do
    let f ← t.evaluate o
    pure (fun x => Except.ok x >>= f)
  | .cons t r, o => do
    let f ← t.evaluate o
    let g ← evaluate r o
    pure (fun x => g x >>= f)

/-- `Pipeline.transform(value, options)` = `self(options)(value)` -/
def transform (p : Pipeline Ω α) (x : α) (o : Ω) : Except Err α :=
  match p.evaluate o with
  | none => .error .evaluation
  | some f => f x

/-- `Pipeline.keys(options)`: `tail.keys | (rest.keys if rest else set())` -/
def keys : Pipeline Ω α → Ω → Except Err Keys
  | .single t, o => do
    let a ← t.keys o
    pure (a ++ [])
  | .cons t r, o => do
    let a ← t.keys o
    let b ← keys r o
    pure (a ++ b)

def explain : Pipeline Ω α → Ω → Except Err Keys
  | .single t, o => do
    let a ← t.explain o
    pure (a ++ [])
  | .cons t r, o => do
    let a ← t.explain o
    let b ← explain r o
    pure (a ++ b)

/-- the invariant `Pipeline.__init__` establishes: a `rest` is never an empty pipeline -/
def WF : Pipeline Ω α → Prop
  | .single _ => True
  | .cons _ r => r.empty = false ∧ WF r

/-- a nested pipeline used as one step: `PipelineStep(q)` -/
def asStep (tag : Nat) (q : Pipeline Ω α) : Step Ω α :=
  .opaque tag (fun o => q.evaluate o) (fun o => q.keys o) (fun o => q.explain o)

end Pipeline

/-- what may stand on the right of `+` -/
inductive Operand (Ω α : Type) where
  /-- a `PipelineStep` object -/
  | step (s : Step Ω α)
  /-- a `Pipeline` object -/
  | pipeline (q : Pipeline Ω α)
  /-- anything else (a plain callable, an Evaluatable yielding a callable); `s` is the
      `PipelineStep(Evaluatable.ensure(other))` that `__add__` builds from it -/
  | other (s : Step Ω α)

/-- `Pipeline.__add__(self, other)`, all cases -/
def Pipeline.addOperand {Ω α : Type} (self : Pipeline Ω α) : Operand Ω α → Pipeline Ω α
  | .step s => self.addStep s
  | .pipeline q => self + q
  | .other s => self.addStep s

/-- `PipelineStep.__add__(self, other)`: `Pipeline(self) + other` -/
def Step.addOperand {Ω α : Type} (self : Step Ω α) (other : Operand Ω α) : Pipeline Ω α :=
  (Pipeline.init self none).addOperand other

/-- The source of `e >> p`: any Evaluatable. -/
abbrev Source (Ω α : Type) := Param Ω α

/-- sequential composition of step functions in list order (application order) -/
def composeSteps {Ω α : Type} : List (Step Ω α) → Ω → Option (α → Except Err α)
  | [], _ => some Except.ok
  | s :: ss, o =>
    match s.evaluate o, composeSteps ss o with
    | some f, some g => some (fun x => f x >>= g)
    | _, _ => none

/-- everything raised inside an `evaluate` request comes out as `EvaluationError` -/
def wrapEval {α : Type} : Except Err α → Except Err α
  | .ok v => .ok v
  | .error _ => .error .evaluation

/-- `Apply(e, p).evaluate(options)`, i.e. `(e >> p)(options)`:
    `value = e(options); return p(options)(value)`, all inside one evaluate request -/
def applyEval {Ω α : Type} (e : Source Ω α) (p : Pipeline Ω α) (o : Ω) : Except Err α :=
  match e.eval o with
  | none => .error .evaluation
  | some v =>
    match p.evaluate o with
    | none => .error .evaluation
    | some f => wrapEval (f v)

/-- `Apply.keys`: `e.keys | p.keys` -/
def applyKeys {Ω α : Type} (e : Source Ω α) (p : Pipeline Ω α) (o : Ω) : Except Err Keys := do
  let a ← e.keys o
  let b ← p.keys o
  pure (a ++ b)

def applyExplain {Ω α : Type} (e : Source Ω α) (p : Pipeline Ω α) (o : Ω) : Except Err Keys := do
  let a ← e.explain o
  let b ← p.explain o
  pure (a ++ b)

end Labrea.PipelineLL

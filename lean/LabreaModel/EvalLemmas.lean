/-
  A small Hoare-style logic for the evaluation monad `M` and the first structural facts about the
  interpreter: state relations preserved by every run (`Pres`), and the shape of failures produced
  by the `EvaluateRequest` wrapper.
-/
import LabreaModel.Eval
namespace Labrea

/-- every terminating run of `m` from `s` ends in a state related to `s` by `R` -/
structure Spec {α} (R : St → St → Prop) (P : Err → Prop) (m : M α) : Prop where
  run : ∀ s r s', m s = some (r, s') → R s s' ∧ ∀ err, r = .error err → P err

/-- a predicate on failures that every failure the interpreter raises itself satisfies and that the
    library's re-raising (`raise X(...) from err`: a new outermost frame) preserves -/
structure ErrPred (P : Err → Prop) : Prop where
  other : ∀ c, P (errOther c)
  cons : ∀ f e, P e → P (f :: e)
  single : ∀ f : Frame, f.cls ≠ .evaluation → P [f]
  /-- nothing is raised with an empty chain (for a `P` that allows it, anything goes) -/
  ofNil : P [] → ∀ e, P e

/-- a reflexive, transitive relation on states that tolerates every event other than a log record
    (whether log records are tolerated is a separate hypothesis of the interpreter lemmas: `LogOk`) -/
structure StRel (R : St → St → Prop) : Prop where
  refl : ∀ s, R s s
  trans : ∀ {a b c}, R a b → R b c → R a c
  emit : ∀ s ev, ev.isLog = false → R s { s with events := ev :: s.events }

/-- either logging is switched off by the context manager, or `R` tolerates log records -/
def LogOk (env : Env) (R : St → St → Prop) : Prop :=
  env.logCtxOff = true ∨ ∀ s m b, R s { s with events := Event.log m b :: s.events }

section
variable {R : St → St → Prop} {P : Err → Prop} (hR : StRel R) (hP : ErrPred P)
include hR hP

theorem pres_pure {α} (a : α) : Spec R P (pure a : M α) := by
  refine ⟨fun s r s' h => ?_⟩
  simp only [pure, M.ret] at h
  cases h; exact ⟨hR.refl _, fun _ h => by cases h⟩

theorem pres_raise {α} {e : Err} (he : P e) : Spec R P (raise e : M α) := by
  refine ⟨fun s r s' h => ?_⟩
  simp only [raise] at h
  cases h; exact ⟨hR.refl _, fun _ h => by cases h; exact he⟩

theorem pres_outOfFuel {α} : Spec R P (outOfFuel : M α) := by
  refine ⟨fun s r s' h => ?_⟩; simp [outOfFuel] at h

theorem pres_emit (ev : Event) (hq : ev.isLog = false) : Spec R P (emit ev) := by
  refine ⟨fun s r s' h => ?_⟩
  simp only [emit] at h
  cases h; exact ⟨hR.emit _ _ hq, fun _ h => by cases h⟩

theorem pres_getSt : Spec R P getSt := by
  refine ⟨fun s r s' h => ?_⟩
  simp only [getSt] at h
  cases h; exact ⟨hR.refl _, fun _ h => by cases h⟩

theorem pres_bind {α β} {m : M α} {f : α → M β} (hm : Spec R P m) (hf : ∀ a, Spec R P (f a)) :
    Spec R P (m >>= f) := by
  refine ⟨fun s r s' h => ?_⟩
  simp only [bind, M.bnd] at h
  split at h
  · simp at h
  · cases h
    have := hm.run _ _ _ ‹_›
    exact ⟨this.1, fun err h => by cases h; exact this.2 _ rfl⟩
  · have h1 := hm.run _ _ _ ‹_›
    have h2 := (hf _).run _ _ _ h
    exact ⟨hR.trans h1.1 h2.1, h2.2⟩

/-- `try m except err: k err` — the handler may rely on `P err` -/
theorem pres_handle {α} {m : M α} {k : Err → M α} (hm : Spec R P m) (hk : ∀ e, P e → Spec R P (k e)) :
    Spec R P (handle m k) := by
  refine ⟨fun s r s' h => ?_⟩
  simp only [handle] at h
  split at h
  · have h1 := hm.run _ _ _ ‹_›
    have h2 := (hk _ (h1.2 _ rfl)).run _ _ _ h
    exact ⟨hR.trans h1.1 h2.1, h2.2⟩
  · exact hm.run _ _ _ h

theorem pres_mapM' {α β} {f : α → M β} (hf : ∀ a, Spec R P (f a)) : ∀ xs, Spec R P (mapM' f xs)
  | [] => by simpa [mapM'] using pres_pure hR hP _
  | x :: xs => by
    simp only [mapM']
    exact pres_bind hR hP (hf x) fun _ => pres_bind hR hP (pres_mapM' hf xs) fun _ => pres_pure hR hP _

theorem pres_forM' {α} {f : α → M Unit} (hf : ∀ a, Spec R P (f a)) : ∀ xs, Spec R P (forM' f xs)
  | [] => by simpa [forM'] using pres_pure hR hP _
  | x :: xs => by
    simp only [forM']
    exact pres_bind hR hP (hf x) fun _ => pres_forM' hf xs

theorem pres_filterM' {α} {f : α → M Bool} (hf : ∀ a, Spec R P (f a)) : ∀ xs, Spec R P (filterM' f xs)
  | [] => by simpa [filterM'] using pres_pure hR hP _
  | x :: xs => by
    simp only [filterM']
    exact pres_bind hR hP (hf x) fun _ => pres_bind hR hP (pres_filterM' hf xs) fun _ => pres_pure hR hP _

theorem pres_emitAll : ∀ evs, (∀ e ∈ evs, e.isLog = false) → Spec R P (emitAll evs)
  | [], _ => by simpa [emitAll] using pres_pure hR hP _
  | e :: es, h => by
    simp only [emitAll]
    exact pres_bind hR hP (pres_emit hR hP e (h e (by simp))) fun _ => pres_emitAll es (fun x hx => h x (by simp [hx]))

end
end Labrea

namespace Labrea

/-- discharge `P e` for the failures the interpreter raises -/
syntax "err_ok" term:max : tactic
macro_rules
  | `(tactic| err_ok $hP) => `(tactic|
    first
      | assumption
      | exact ErrPred.other $hP _
      | exact ErrPred.cons $hP _ _ (by assumption)
      | exact ErrPred.cons $hP _ _ (ErrPred.other $hP _)
      | exact ErrPred.single $hP _ (by simp [keyNotFound]))

/-- decompose a `Spec` goal along the structure of a `do` block; `with t` supplies a tactic that is
    tried first on every subgoal (lemmas about helper definitions, which `apply` would otherwise unfold) -/
syntax "pres_auto" term:max term:max term:max ("with" tactic)? : tactic
macro_rules
  | `(tactic| pres_auto $hR $hP $hrun with $t:tactic) => `(tactic|
    repeat' (first
      | ($t:tactic)
      | exact pres_pure $hR $hP _
      | exact pres_raise $hR $hP (by err_ok $hP)
      | exact pres_emit $hR $hP _ rfl
      | exact pres_outOfFuel $hR $hP
      | exact pres_getSt $hR $hP
      | exact $hrun _ _ _
      | assumption
      | apply pres_bind $hR $hP
      | apply pres_handle $hR $hP
      | apply pres_mapM' $hR $hP
      | apply pres_forM' $hR $hP
      | apply pres_filterM' $hR $hP
      | split
      | intro _))
  | `(tactic| pres_auto $hR $hP $hrun) => `(tactic| pres_auto $hR $hP $hrun with fail)

section
variable {R : St → St → Prop} {P : Err → Prop} (hR : StRel R) (hP : ErrPred P)
include hR hP

omit hR hP in
mutual
/-- user callables produce `call` events only -/
theorem callV_quiet (β : String → List V → List (String × V) → Except String V) :
    ∀ (f : V) (a : List V) (k : List (String × V)), ∀ e ∈ (callV β f a k).2, e.isLog = false
  | .fn f pos kw0, args, kw => by
    intro e he
    simp only [callV] at he
    cases hb : builtin f (pos ++ args) <;> simp [hb] at he
    subst he; rfl
  | .comp fs, [x], [] => by
    intro e he
    unfold callV at he
    exact callChain_quiet β fs x e he
  | .none, _, _ | .bool _, _, _ | .int _, _, _ | .str _, _, _ | .list _, _, _ | .tuple _, _, _ | .set _, _, _
  | .dict _, _, _ | .app _ _ _, _, _ | .missing, _, _ => by
    intro e he; simp [callV] at he
  | .comp _, [], _ | .comp _, _ :: _ :: _, _ | .comp _, [_], _ :: _ => by
    intro e he; simp [callV] at he
theorem callChain_quiet (β : String → List V → List (String × V) → Except String V) :
    ∀ (fs : List V) (x : V), ∀ e ∈ (callChain β fs x).2, e.isLog = false
  | [], x => by intro e he; simp [callChain] at he
  | f :: fs, x => by
    intro e he
    unfold callChain at he
    have h1 := callV_quiet β f [x] []
    split at he
    · rename_i y evs heq
      have h2 := callChain_quiet β fs y
      rw [heq] at h1
      simp only [List.mem_append] at he
      rcases he with he | he
      · exact h1 e he
      · exact h2 e he
    · rename_i err evs heq
      rw [heq] at h1
      exact h1 e he
end

theorem pres_call (env : Env) (f : V) (a : List V) (k : List (String × V)) : Spec R P (call env f a k) := by
  unfold call
  have h := pres_emitAll hR hP _ (callV_quiet env.β f a k)
  pres_auto hR hP hR with (exact h)

theorem pres_readKey (key : String) (o : V) : Spec R P (readKey key o) := by
  unfold readKey
  pres_auto hR hP hR

theorem pres_existsKey (key : String) (o : V) : Spec R P (existsKey key o) := by
  unfold existsKey
  apply pres_bind hR hP (pres_readKey hR hP _ _)
  pres_auto hR hP hR

theorem pres_getKey (key : String) (o : V) : Spec R P (getKey key o) := by
  unfold getKey
  apply pres_bind hR hP (pres_readKey hR hP _ _)
  pres_auto hR hP hR

theorem pres_resolveM (n id : Nat) (x o : V) (b : Bool) : Spec R P (resolveM n id x o b) := by
  unfold resolveM
  have h : ∀ ks : List String, Spec R P (emitAll (ks.map Event.read)) :=
    fun ks => pres_emitAll hR hP _ (by simp [Event.isLog])
  pres_auto hR hP hR with (exact h _)

theorem pres_wrapEvaluate {α} (id : Nat) {m : M α} (hm : Spec R P m) : Spec R P (wrapEvaluate id m) := by
  unfold wrapEvaluate
  apply pres_handle hR hP hm
  intro e he
  split
  · split
    · exact pres_raise hR hP he
    · exact pres_raise hR hP (hP.cons _ _ he)
  · exact pres_raise hR hP (hP.ofNil he _)

theorem pres_pseudo {α} (op : Op) (pid : Nat) {m : M α} (hm : Spec R P m) : Spec R P (pseudo op pid m) := by
  unfold pseudo
  apply pres_bind hR hP (pres_emit hR hP _ rfl)
  intro _
  split
  · exact pres_wrapEvaluate hR hP _ hm
  · exact hm

theorem pres_insufficientFrom {α} (id : Nat) {m : M α} (hm : Spec R P m) : Spec R P (insufficientFrom id m) := by
  unfold insufficientFrom
  apply pres_handle hR hP hm
  pres_auto hR hP hR

variable {run : Run} (hrun : ∀ op e o, Spec R P (run op e o))
include hrun

theorem pres_unionOver (op : Op) (xs : List Expr) (o : V) : Spec R P (unionOver run op xs o) := by
  unfold unionOver
  pres_auto hR hP hrun

theorem pres_optionOp (env : Env) (n : Nat) (self : Expr) (id : Nat) (key : String) (dflt dom : Option Expr)
    (op : Op) (o : V) : Spec R P (optionOp env run n self id key dflt dom op o) := by
  unfold optionOp
  have h1 := pres_call (R := R) (P := P) hR hP
  have h2 := pres_readKey (R := R) (P := P) hR hP
  have h3 := pres_existsKey (R := R) (P := P) hR hP
  have h4 := pres_getKey (R := R) (P := P) hR hP
  have h5 := pres_resolveM (R := R) (P := P) hR hP
  cases op <;> simp only [] <;>
    pres_auto hR hP hrun with (first | exact h1 _ _ _ _ | exact h2 _ _ | exact h3 _ _ | exact h4 _ _ | exact h5 _ _ _ _ _)

theorem pres_bindOp (id : Nat) (x : Expr) {k : V → M Expr} (hk : ∀ v, Spec R P (k v)) (op : Op) (o : V) :
    Spec R P (bindOp run id x k op o) := by
  unfold bindOp
  cases op <;> simp only []
  · pres_auto hR hP hrun with (exact hk _)
  · pres_auto hR hP hrun with (exact hk _)
  · pres_auto hR hP hrun with (exact hk _)
  · apply pres_insufficientFrom hR hP
    pres_auto hR hP hrun with (exact hk _)

theorem pres_chooseCase (env : Env) (id : Nat) (d : Expr) (dflt : Option Expr) (o v : V) :
    ∀ (seen : List Expr) (cases : List (Expr × Expr)), Spec R P (chooseCase env run id d dflt o v seen cases)
  | seen, [] => by
    unfold chooseCase
    pres_auto hR hP hrun
  | seen, (c, r) :: rest => by
    unfold chooseCase
    have h1 := pres_call (R := R) (P := P) hR hP
    have ih := pres_chooseCase env id d dflt o v (seen ++ [c]) rest
    pres_auto hR hP hrun with (first | exact h1 _ _ _ _ | exact ih)

theorem pres_switchLookup (id : Nat) (d : Expr) (lookup : List (V × Expr)) (dflt : Option Expr) (o : V) :
    Spec R P (switchLookup run id d lookup dflt o) := by
  unfold switchLookup
  pres_auto hR hP hrun

theorem pres_switchOp (id : Nat) (d : Expr) (lookup : List (V × Expr)) (dflt : Option Expr) (op : Op) (o : V) :
    Spec R P (switchOp run id d lookup dflt op o) := by
  unfold switchOp
  have h1 := pres_switchLookup hR hP hrun id d lookup dflt o
  have h2 := pres_insufficientFrom hR hP id h1
  cases op <;> simp only [] <;> pres_auto hR hP hrun

theorem pres_coalesceDelegate (op : Op) (o : V) :
    ∀ (last : Option Err) (ms : List Expr), (∀ e, last = some e → P e) → Spec R P (coalesceDelegate run op o last ms)
  | last, [], hl => by
    unfold coalesceDelegate
    split
    · exact pres_raise hR hP (hl _ rfl)
    · exact pres_raise hR hP (hP.other _)
  | last, m :: rest, hl => by
    unfold coalesceDelegate
    apply pres_handle hR hP
    · pres_auto hR hP hrun
    · intro e he
      split
      · exact pres_coalesceDelegate op o (some e) rest (fun e' h => by cases h; exact he)
      · exact pres_raise hR hP he

theorem pres_coalesceOp (ms : List Expr) (op : Op) (o : V) : Spec R P (coalesceOp run ms op o) := by
  unfold coalesceOp
  have h := fun op' => pres_coalesceDelegate hR hP hrun op' o Option.none ms (fun _ h => by cases h)
  cases op <;> simp only [] <;> first | exact h _ | skip
  apply pres_handle hR hP (h _)
  intro e he
  pres_auto hR hP hrun

theorem pres_mapAssignments (its : List (String × Expr)) (o : V) : Spec R P (mapAssignments run its o) := by
  unfold mapAssignments
  pres_auto hR hP hrun

theorem pres_mapElement (id : Nat) (x : Expr) (a : List (String × V)) : Spec R P (mapElement id x a) := by
  unfold mapElement
  pres_auto hR hP hR

theorem pres_mapRows (id : Nat) (x : Expr) (o : V) (asg : List (List (String × V))) :
    Spec R P (mapRows run id x o asg) := by
  unfold mapRows
  have h1 := pres_mapElement (R := R) (P := P) hR hP hrun id x
  have h2 : ∀ w, Spec R P (pseudo .evaluate (tid id 1) (run .evaluate w o)) := fun w => pres_pseudo hR hP _ _ (hrun _ _ _)
  pres_auto hR hP hrun with (first | exact h1 _ | exact h2 _)

theorem pres_mapOp (id : Nat) (x : Expr) (its : List (String × Expr)) (op : Op) (o : V) :
    Spec R P (mapOp run id x its op o) := by
  unfold mapOp
  have h1 := pres_mapElement (R := R) (P := P) hR hP hrun id x
  have h2 := pres_mapAssignments hR hP hrun its o
  have h3 := pres_mapRows hR hP hrun id x o
  cases op <;> simp only [] <;> pres_auto hR hP hrun with (first | exact h1 _ | exact h3 _)

theorem pres_templateOp (n id : Nat) (t : String) (params : List (String × Expr)) (op : Op) (o : V) :
    Spec R P (templateOp run n id t params op o) := by
  unfold templateOp
  have h5 := pres_resolveM (R := R) (P := P) hR hP
  simp only []
  split
  · exact pres_raise hR hP (by err_ok hP)
  · cases op <;> simp only [] <;> pres_auto hR hP hrun with (exact h5 _ _ _ _ _)

theorem pres_withOptionsOp (x : Expr) (p : V) (force : Bool) (op : Op) (o : V) :
    Spec R P (withOptionsOp run x p force op o) := by
  unfold withOptionsOp
  have h3 := pres_existsKey (R := R) (P := P) hR hP
  have h4 := pres_getKey (R := R) (P := P) hR hP
  cases op <;> simp only [] <;> pres_auto hR hP hrun with (first | exact h3 _ _ | exact h4 _ _)

theorem pres_computationOp (env : Env) (x : Expr) (effects : List Expr) (op : Op) (o : V) :
    Spec R P (computationOp env run x effects op o) := by
  unfold computationOp
  have h1 := pres_call (R := R) (P := P) hR hP
  cases op <;> simp only [] <;> pres_auto hR hP hrun with (exact h1 _ _ _ _)

theorem pres_applicationOp (env : Env) (id : Nat) (f : Expr) (args : List Expr) (kw : List (String × Expr))
    (partial_ : Bool) (op : Op) (o : V) : Spec R P (applicationOp env run id f args kw partial_ op o) := by
  unfold applicationOp
  have h1 := pres_call (R := R) (P := P) hR hP
  have hu := pres_unionOver (R := R) (P := P) hR hP hrun
  cases op <;> simp only []
  · apply pres_bind hR hP (hrun _ _ _); intro _
    apply pres_bind hR hP
    · apply pres_pseudo hR hP
      apply pres_bind hR hP
      · apply pres_pseudo hR hP; pres_auto hR hP hrun
      · intro _
        apply pres_bind hR hP
        · apply pres_pseudo hR hP; pres_auto hR hP hrun
        · intro _; exact pres_pure hR hP _
    · intro _
      pres_auto hR hP hrun with (exact h1 _ _ _ _)
  · apply pres_bind hR hP (hrun _ _ _); intro _
    apply pres_bind hR hP
    · apply pres_pseudo hR hP
      apply pres_bind hR hP
      · apply pres_pseudo hR hP; pres_auto hR hP hrun
      · intro _; apply pres_pseudo hR hP; pres_auto hR hP hrun
    · intro _; exact pres_pure hR hP _
  all_goals
    apply pres_bind hR hP (hrun _ _ _); intro _
    apply pres_bind hR hP
    · apply pres_pseudo hR hP
      apply pres_bind hR hP
      · apply pres_pseudo hR hP; exact hu _ _ _
      · intro _
        apply pres_bind hR hP
        · apply pres_pseudo hR hP; exact hu _ _ _
        · intro _; exact pres_pure hR hP _
    · intro _; exact pres_pure hR hP _

theorem pres_populate (o : V) : ∀ (d : Nat) (acc : V) (ms : List (String × Expr)), Spec R P (populate run o d acc ms)
  | _, acc, [] => by
    unfold populate
    exact pres_pure hR hP _
  | 0, acc, m :: rest => by
    unfold populate
    exact pres_outOfFuel hR hP
  | d + 1, acc, (nm, m) :: rest => by
    unfold populate
    have ih1 := fun a => pres_populate o (d + 1) a rest
    have ih2 := fun a l => pres_populate o d a l
    pres_auto hR hP hrun with (first | exact ih1 _ | exact ih2 _ _)
termination_by d _ l => (d, l.length)

theorem pres_namespaceOp (n id : Nat) (key : String) (members : List (String × Expr)) (op : Op) (o : V) :
    Spec R P (namespaceOp run n id key members op o) := by
  unfold namespaceOp
  have h1 := pres_populate hR hP hrun o
  have hu := pres_unionOver (R := R) (P := P) hR hP hrun
  cases op <;> simp only [] <;> pres_auto hR hP hrun with (first | exact h1 _ _ _ | exact hu _ _ _)

theorem pres_consumeIter (o : V) : ∀ (d : Nat) (es : List Expr), Spec R P (consumeIter run o d es)
  | _, [] => by
    unfold consumeIter
    exact pres_pure hR hP _
  | 0, y :: rest => by
    unfold consumeIter
    exact pres_outOfFuel hR hP
  | d + 1, y :: rest => by
    unfold consumeIter
    have ih1 := pres_consumeIter o (d + 1) rest
    have ih2 := fun l => pres_consumeIter o d l
    pres_auto hR hP hrun with (first | exact ih1 | exact ih2 _)
termination_by d l => (d, l.length)

/-- everything except `Cached`, whose backend operations do change the state, preserves any `StRel` -/
theorem pres_nodeOp (env : Env) (hlog : LogOk env R) (n : Nat) (hcached : ∀ x c op o, Spec R P (cachedOp env run x c op o))
    (op : Op) (e : Expr) (o : V) : Spec R P (nodeOp env run n op e o) := by
  have h1 := pres_call (R := R) (P := P) hR hP
  cases e <;> unfold nodeOp <;> simp only []
  case value => cases op <;> simp only [] <;> exact pres_pure hR hP _
  case option => exact pres_optionOp hR hP hrun ..
  case apply i x f =>
    have hc := pres_consumeIter hR hP hrun o
    have ha := pres_mapAssignments (R := R) (P := P) hR hP hrun
    have hr := pres_mapRows (R := R) (P := P) hR hP hrun
    cases op <;> simp only []
    · split
      · pres_auto hR hP hrun with (first | exact h1 _ _ _ _ | exact hc _ _)
      · apply pres_bind hR hP
        · exact pres_pseudo hR hP _ _ (ha _ _)
        · intro _
          apply pres_bind hR hP (hrun _ _ _); intro _
          apply pres_bind hR hP (hr _ _ _ _); intro _
          exact h1 _ _ _ _
      · pres_auto hR hP hrun with (exact h1 _ _ _ _)
    all_goals pres_auto hR hP hrun
  case bind =>
    apply pres_bindOp hR hP hrun
    intro v; split <;> first | exact pres_pure hR hP _ | exact pres_raise hR hP (by err_ok hP)
  case switch => exact pres_switchOp hR hP hrun ..
  case dependsOn => cases op <;> simp only [] <;> pres_auto hR hP hrun
  case caseWhen =>
    apply pres_pseudo hR hP
    apply pres_bindOp hR hP hrun
    intro v; exact pres_chooseCase hR hP hrun ..
  case coalesce => exact pres_coalesceOp hR hP hrun ..
  case iter => cases op <;> simp only [] <;> first | exact pres_unionOver hR hP hrun .. | pres_auto hR hP hrun
  case map => exact pres_mapOp hR hP hrun ..
  case template => exact pres_templateOp hR hP hrun ..
  case withOptions => exact pres_withOptionsOp hR hP hrun ..
  case allOptions => cases op <;> simp only [] <;> pres_auto hR hP hrun
  case cached => exact hcached ..
  case logged =>
    cases op <;> simp only []
    · rcases hlog with hoff | hl
      · simp only [hoff, if_true]; pres_auto hR hP hrun
      · have hle : ∀ m b, Spec R P (emit (Event.log m b)) := fun m b =>
          ⟨fun s r s' h => by simp only [emit] at h; cases h; exact ⟨hl _ _ _, fun _ h => by cases h⟩⟩
        pres_auto hR hP hrun with (exact hle _ _)
    all_goals pres_auto hR hP hrun
  case computation => exact pres_computationOp hR hP hrun ..
  case funApp => exact pres_applicationOp hR hP hrun ..
  case partialApp => exact pres_applicationOp hR hP hrun ..
  case pipelineStep => exact hrun _ _ _
  case pipeline => cases op <;> simp only [] <;> pres_auto hR hP hrun
  case overloaded => exact hrun _ _ _
  case dataset => exact hrun _ _ _
  case «namespace» => exact pres_namespaceOp hR hP hrun ..

omit hrun in
/-- the interpreter preserves `R` as soon as `Cached` does (for every `run` that does) -/
theorem pres_ev (env : Env) (hlog : LogOk env R)
    (hc : ∀ run : Run, (∀ op e o, Spec R P (run op e o)) → ∀ x c op o, Spec R P (cachedOp env run x c op o)) :
    ∀ (n : Nat) (op : Op) (e : Expr) (o : V), Spec R P (ev env n op e o)
  | 0, op, e, o => by
    unfold ev
    exact pres_outOfFuel hR hP
  | n + 1, op, e, o => by
    unfold ev
    have ih := pres_ev env hlog hc n
    have hn := pres_nodeOp hR hP ih env hlog n (hc _ ih) op e o
    apply pres_bind hR hP (pres_emit hR hP _ rfl)
    intro _
    cases op <;> simp only []
    · split
      · split
        · exact pres_pure hR hP _
        · exact pres_wrapEvaluate hR hP _ hn
      · exact pres_wrapEvaluate hR hP _ hn
    all_goals exact hn

end
end Labrea

namespace Labrea

/-! ### Caching switched off by the context manager: the store is never touched -/

/-- caches and fault scripts are unchanged -/
def SameStore (s s' : St) : Prop := s'.caches = s.caches ∧ s'.scripts = s.scripts

theorem sameStore_rel : StRel SameStore where
  refl _ := ⟨rfl, rfl⟩
  trans h1 h2 := ⟨h2.1.trans h1.1, h2.2.trans h1.2⟩
  emit _ _ _ := ⟨rfl, rfl⟩

theorem truePred : ErrPred (fun _ => True) where
  other _ := trivial
  cons _ _ _ := trivial
  single _ _ := trivial
  ofNil _ _ := trivial

theorem pres_cachedOp_ctxOff {P : Err → Prop} (hP : ErrPred P) {env : Env} (hoff : env.cacheCtxOff = true) {run : Run}
    (hrun : ∀ op e o, Spec SameStore P (run op e o)) (x : Expr) (c : Nat) (op : Op) (o : V) :
    Spec SameStore P (cachedOp env run x c op o) := by
  have hR := sameStore_rel
  unfold cachedOp cacheLookup existsReq getReq setReq cacheDisabled
  simp only [hoff, if_true]
  cases op <;> simp only [] <;> pres_auto hR hP hrun

/-- **C16, `cache_off_no_io`.** Under `with labrea.cache.disabled():` no operation of any expression,
    on any options, from any state, reads or writes a cache entry or consumes a backend call:
    the store after the run is the store before it. -/
theorem ev_ctxOff_sameStore {env : Env} (hoff : env.cacheCtxOff = true) (n : Nat) (op : Op) (e : Expr) (o : V)
    (s : St) (r : Except Err V) (s' : St) (h : ev env n op e o s = some (r, s')) :
    s'.caches = s.caches ∧ s'.scripts = s.scripts :=
  ((pres_ev sameStore_rel truePred env (Or.inr fun _ _ _ => ⟨rfl, rfl⟩) (fun _ hrun => pres_cachedOp_ctxOff truePred hoff hrun) n op e o).run s r s' h).1


/-! ### Any relation closed under store updates: the interpreter with caching on -/

/-- a state relation that also tolerates the cache backend's own updates -/
structure CacheRel (R : St → St → Prop) : Prop extends StRel R where
  setCache : ∀ s c es, R s (s.setCacheEntries c es)
  setScripts : ∀ s sc, R s { s with scripts := sc }

section
variable {R : St → St → Prop} {P : Err → Prop} (hC : CacheRel R) (hP : ErrPred P)
include hC hP

theorem pres_nextFault (c : Nat) : Spec R P (nextFault c) := by
  refine ⟨fun s r s' h => ?_⟩
  unfold nextFault at h
  split at h
  · cases h; exact ⟨hC.setScripts _ _, fun _ h => by cases h⟩
  · cases h; exact ⟨hC.refl _, fun _ h => by cases h⟩

theorem pres_blindFault (c : Nat) : Spec R P (blindFault c) := by
  refine ⟨fun s r s' h => ?_⟩
  unfold blindFault at h
  split at h
  · cases h; exact ⟨hC.setScripts _ _, fun _ h => by cases h⟩
  · cases h; exact ⟨hC.refl _, fun _ h => by cases h⟩

theorem pres_forgetEntry (c : Nat) (fp : V) : Spec R P (forgetEntry c fp) := by
  refine ⟨fun s r s' h => ?_⟩
  simp only [forgetEntry, modifySt] at h
  cases h; exact ⟨hC.setCache _ _ _, fun _ h => by cases h⟩

theorem pres_storeEntry (c : Nat) (fp v : V) : Spec R P (storeEntry c fp v) := by
  unfold storeEntry
  apply pres_bind hC.toStRel hP
  · refine ⟨fun s r s' h => ?_⟩
    simp only [modifySt] at h
    cases h; exact ⟨hC.setCache _ _ _, fun _ h => by cases h⟩
  · intro _; exact pres_emit hC.toStRel hP _ rfl

theorem pres_lookupStore (c : Nat) (fp : V) (what : String) : Spec R P (lookupStore c fp what) := by
  unfold lookupStore
  pres_auto hC.toStRel hP hC.toStRel

theorem pres_fpItems (o : V) : ∀ ks, Spec R P (fpItems o ks)
  | [] => by unfold fpItems; exact pres_pure hC.toStRel hP _
  | k :: ks => by
    unfold fpItems
    have h4 := pres_getKey (R := R) (P := P) hC.toStRel hP
    have ih := pres_fpItems o ks
    pres_auto hC.toStRel hP hC.toStRel <;> exact h4 _ _

variable {run : Run} (hrun : ∀ op e o, Spec R P (run op e o))
include hrun

theorem pres_fingerprintOf (x : Expr) (o : V) : Spec R P (fingerprintOf run x o) := by
  unfold fingerprintOf
  have h := pres_fpItems (R := R) (P := P) hC hP o
  pres_auto hC.toStRel hP hrun with (exact h _)

theorem pres_cacheDisabled (env : Env) (o : V) : Spec R P (cacheDisabled env run o) := by
  unfold cacheDisabled
  pres_auto hC.toStRel hP hrun

theorem pres_backendGet (env : Env) (x : Expr) (c : Nat) (o : V) : Spec R P (backendGet env run x c o) := by
  unfold backendGet
  have h1 := pres_fingerprintOf hC hP hrun x o
  have h2 := pres_lookupStore (R := R) (P := P) hC hP c
  have h3 := pres_nextFault (R := R) (P := P) hC hP c
  have h4 := pres_forgetEntry (R := R) (P := P) hC hP c
  have h6 := pres_blindFault (R := R) (P := P) hC hP c
  pres_auto hC.toStRel hP hrun with (first | exact h2 _ _ | exact h4 _ | exact pres_raise hC.toStRel hP (hP.other _))

theorem pres_backendExists (env : Env) (x : Expr) (c : Nat) (o : V) : Spec R P (backendExists env run x c o) := by
  unfold backendExists
  have h1 := pres_fingerprintOf hC hP hrun x o
  have h2 := pres_lookupStore (R := R) (P := P) hC hP c
  have h3 := pres_nextFault (R := R) (P := P) hC hP c
  have h4 := pres_forgetEntry (R := R) (P := P) hC hP c
  have h6 := pres_blindFault (R := R) (P := P) hC hP c
  pres_auto hC.toStRel hP hrun with (first | exact h2 _ _ | exact h4 _)

theorem pres_backendSet (env : Env) (x : Expr) (c : Nat) (o v : V) : Spec R P (backendSet env run x c o v) := by
  unfold backendSet
  have h1 := pres_fingerprintOf hC hP hrun x o
  have h3 := pres_nextFault (R := R) (P := P) hC hP c
  have h5 := pres_storeEntry (R := R) (P := P) hC hP c
  pres_auto hC.toStRel hP hrun with (exact h5 _ _)

theorem pres_cachedOp (env : Env) (x : Expr) (c : Nat) (op : Op) (o : V) : Spec R P (cachedOp env run x c op o) := by
  have hd := pres_cacheDisabled hC hP hrun env o
  have hg := pres_backendGet hC hP hrun env x c o
  have he := pres_backendExists hC hP hrun env x c o
  have hs := pres_backendSet hC hP hrun env x c o
  have hex : Spec R P (existsReq env run x c o) := by
    unfold existsReq; pres_auto hC.toStRel hP hrun
  have hget : Spec R P (getReq env run x c o) := by
    unfold getReq; pres_auto hC.toStRel hP hrun with (exact pres_raise hC.toStRel hP (hP.other _))
  have hset : ∀ v, Spec R P (setReq env run x c o v) := by
    intro v; unfold setReq; pres_auto hC.toStRel hP hrun with (exact hs _)
  unfold cachedOp cacheLookup
  cases op <;> simp only [] <;> pres_auto hC.toStRel hP hrun with (exact hset _)

omit hrun in
/-- every run of the interpreter satisfies `R` / `P`, caching on or off -/
theorem spec_ev (env : Env) (hlog : LogOk env R) (n : Nat) (op : Op) (e : Expr) (o : V) : Spec R P (ev env n op e o) :=
  pres_ev hC.toStRel hP env hlog (fun _ hrun => pres_cachedOp hC hP hrun env) n op e o

end

end Labrea

/-
  The cache discipline of `Cached.evaluate` (memory, nocache and scripted backends).
-/
import LabreaModel.MonadLemmas
namespace Labrea

theorem entryLookup_insert_same (fp v : V) : ∀ es, entryLookup fp (entryInsert fp v es) = some v
  | [] => by simp [entryInsert, entryLookup]
  | (k, w) :: rest => by
    by_cases h : k = fp
    · simp [entryInsert, entryLookup, h]
    · simp [entryInsert, entryLookup, h, entryLookup_insert_same fp v rest]

theorem entryLookup_insert_other {fp fp' : V} (h : fp' ≠ fp) (v : V) : ∀ es, entryLookup fp' (entryInsert fp v es) = entryLookup fp' es
  | [] => by simp [entryInsert, entryLookup, Ne.symm h]
  | (k, w) :: rest => by
    by_cases hk : k = fp
    · subst hk; simp [entryInsert, entryLookup, Ne.symm h]
    · by_cases hk' : k = fp'
      · subst hk'; simp [entryInsert, entryLookup, h]
      · simp [entryInsert, entryLookup, hk, hk', entryLookup_insert_other h v rest]

theorem find_map_set (c : Nat) (es : List (V × V)) : ∀ (l : List (Nat × List (V × V))),
    l.any (fun p => p.1 == c) = true →
    (l.map fun p => if p.1 == c then (c, es) else p).find? (fun p => p.1 == c) = some (c, es)
  | [], h => by simp at h
  | p :: ps, h => by
    by_cases hp : p.1 = c
    · simp only [List.map_cons, beq_iff_eq, hp, if_true]
      rw [List.find?_cons_of_pos] ; simp
    · have h' : ps.any (fun p => p.1 == c) = true := by
        simpa [List.any_cons, hp] using h
      simp only [List.map_cons, beq_iff_eq, hp, if_false]
      rw [List.find?_cons_of_neg (by simpa using hp)]
      simpa using find_map_set c es ps h'

theorem cacheEntries_set_same (s : St) (c : Nat) (es : List (V × V)) : (s.setCacheEntries c es).cacheEntries c = es := by
  unfold St.setCacheEntries St.cacheEntries
  by_cases h : s.caches.any (fun p => p.1 == c) = true
  · simp only [h, if_true]
    rw [find_map_set c es s.caches h]
  · simp only [h, Bool.false_eq_true, if_false]
    have : s.caches.find? (fun p => p.1 == c) = Option.none := by
      rw [List.find?_eq_none]; intro p hp hc
      exact h (List.any_eq_true.mpr ⟨p, hp, hc⟩)
    simp [List.find?_append, this]

/-- a stored value is what a later lookup under the same fingerprint finds (one entry per fingerprint) -/
theorem store_then_lookup (s : St) (c : Nat) (fp v : V) :
    entryLookup fp ((s.setCacheEntries c (entryInsert fp v (s.cacheEntries c))).cacheEntries c) = some v := by
  rw [cacheEntries_set_same]; exact entryLookup_insert_same fp v _

/-- entries under other fingerprints of the same cache are untouched by a store -/
theorem store_keeps_others (s : St) (c : Nat) {fp fp' : V} (h : fp' ≠ fp) (v : V) :
    entryLookup fp' ((s.setCacheEntries c (entryInsert fp v (s.cacheEntries c))).cacheEntries c) =
      entryLookup fp' (s.cacheEntries c) := by
  rw [cacheEntries_set_same]; exact entryLookup_insert_other h v _

variable (env : Env) (run : Run) (x : Expr) (c : Nat) (o : V)

/-- **hit.** When the existence request says yes and the get request answers `v`, `Cached.evaluate` returns `v`:
    the inner expression is not evaluated (it does not occur on the right-hand side). -/
theorem cached_hit (s s1 s2 : St) (v : V) (he : existsReq env run x c o s = some (.ok true, s1))
    (hg : getReq env run x c o s1 = some (.ok v, s2)) :
    cachedOp env run x c .evaluate o s = some (.ok v, s2) := by
  simp [cachedOp, cacheLookup, bind_run, he, handle, hg]

/-- **miss.** When the existence request says no, the inner expression is evaluated and its value goes through
    the set request. -/
theorem cached_miss (s s1 : St) (he : existsReq env run x c o s = some (.ok false, s1)) :
    cachedOp env run x c .evaluate o s = (do let v ← run .evaluate x o; setReq env run x c o v) s1 := by
  simp [cachedOp, cacheLookup, bind_run, he]

/-- **lie-exists / fail-get.** An entry that is claimed to exist but cannot be retrieved costs a recomputation. -/
theorem cached_get_failure_recomputes (s s1 s2 : St) (he : existsReq env run x c o s = some (.ok true, s1))
    (hg : getReq env run x c o s1 = some (.error cacheGetFailure, s2)) :
    cachedOp env run x c .evaluate o s = (do let v ← run .evaluate x o; setReq env run x c o v) s2 := by
  simp [cachedOp, cacheLookup, bind_run, he, handle, hg]

/-- a failure of the inner evaluation is the failure of `Cached.evaluate`, and nothing is stored by this node:
    the set request is never issued -/
theorem cached_failure_stores_nothing (s s1 s2 : St) (err : Err) (he : existsReq env run x c o s = some (.ok false, s1))
    (hx : run .evaluate x o s1 = some (.error err, s2)) :
    cachedOp env run x c .evaluate o s = some (.error err, s2) := by
  rw [cached_miss env run x c o s s1 he]; simp [bind_run, hx]

/-- **read-back.** The set request returns the value just computed, or what the backend reads back for it;
    a backend that cannot read back what was stored costs nothing: the computed value is returned. -/
theorem setReq_value (s s' : St) (v w : V) (h : setReq env run x c o v s = some (.ok w, s')) :
    w = v ∨ ∃ s1 s2, backendGet env run x c o s1 = some (.ok w, s2) := by
  simp only [setReq, bind_run, emit_run] at h
  cases hd : cacheDisabled env run o { s with events := Event.req "cache_set" x.id :: s.events } with
  | none => simp [hd] at h
  | some p =>
    obtain ⟨r, s1⟩ := p
    cases r with
    | error e => simp [hd] at h
    | ok b =>
      simp only [hd] at h
      cases b with
      | true => simp at h; exact Or.inl h.1.symm
      | false =>
        simp only [Bool.false_eq_true, if_false, bind_run] at h
        cases hs : backendSet env run x c o v s1 with
        | none => simp [hs] at h
        | some q =>
          obtain ⟨r2, s2⟩ := q
          cases r2 with
          | error e => simp [hs] at h
          | ok u =>
            simp only [hs, handle] at h
            cases hg : backendGet env run x c o s2 with
            | none => simp [hg] at h
            | some q3 =>
              obtain ⟨r3, s3⟩ := q3
              cases r3 with
              | ok w' =>
                simp only [hg, Option.some.injEq, Prod.mk.injEq, Except.ok.injEq] at h
                exact Or.inr ⟨s2, s3, by rw [hg, h.1]⟩
              | error e =>
                simp only [hg] at h
                by_cases hc : e = cacheGetFailure
                · simp [hc] at h; exact Or.inl h.1.symm
                · simp [hc] at h

/-- the memory backend answers a `get` only with a stored entry under the node's fingerprint -/
theorem memory_get_from_store (hk : env.cacheKind c = .memory) (s s' : St) (v : V)
    (h : backendGet env run x c o s = some (.ok v, s')) :
    ∃ (fp : V) (s1 : St), fingerprintOf run x o s = some (.ok fp, s1) ∧ entryLookup fp (s1.cacheEntries c) = some v := by
  simp only [backendGet, hk, bind_run] at h
  cases hf : fingerprintOf run x o s with
  | none => simp [hf] at h
  | some p =>
    obtain ⟨r, s1⟩ := p
    cases r with
    | error e => simp [hf] at h
    | ok fp =>
      refine ⟨fp, s1, rfl, ?_⟩
      simp only [hf, lookupStore, bind_run, getSt] at h
      cases hl : entryLookup fp (s1.cacheEntries c) with
      | none => simp [hl, bind_run] at h
      | some w =>
        simp [hl, bind_run] at h
        rw [h.1]

/-- the scripted (unreliable) backend never fabricates a value either: a successful `get` is a stored entry
    under the node's fingerprint, whatever the fault script says -/
theorem scripted_get_from_store (hk : env.cacheKind c = .scripted) (s s' : St) (v : V)
    (h : backendGet env run x c o s = some (.ok v, s')) :
    ∃ (fp : V) (s1 s2 : St), fingerprintOf run x o s = some (.ok fp, s1) ∧ entryLookup fp (s2.cacheEntries c) = some v ∧
      s2.caches = s1.caches := by
  simp only [backendGet, hk, bind_run] at h
  -- a blind fault fails the retrieval; otherwise the script is untouched so far
  have hb : blindFault c s = some (.ok false, s) := by
    unfold blindFault
    split
    · rename_i heq
      unfold blindFault at h
      simp only [heq, emit_run, raise_run, if_true, bind_run] at h
      simp at h
    · rfl
  simp only [hb, Bool.false_eq_true, if_false, bind_run] at h
  cases hf : fingerprintOf run x o s with
  | none => simp [hf] at h
  | some p =>
    obtain ⟨r, s1⟩ := p
    cases r with
    | error e => simp [hf] at h
    | ok fp =>
      simp only [hf] at h
      cases hn : nextFault c s1 with
      | none => simp [hn] at h
      | some q =>
        obtain ⟨r2, s2⟩ := q
        have hs2 : s2.caches = s1.caches := by
          unfold nextFault at hn
          split at hn <;> cases hn <;> rfl
        cases r2 with
        | error e => simp [hn] at h
        | ok f =>
          refine ⟨fp, s1, s2, rfl, ?_, hs2⟩
          simp only [hn] at h
          cases f <;> simp only [bind_run, emit_run, raise_run, forgetEntry, modifySt] at h <;> try (simp at h)
          all_goals
            simp only [lookupStore, bind_run, getSt] at h
            cases hl : entryLookup fp (s2.cacheEntries c) with
            | none => simp [hl, bind_run] at h
            | some w => simp [hl, bind_run] at h; rw [h.1]

end Labrea

/-
  Driver for C19 (dataset classes).  One JSON case per input line:

    {"name": "C", "members": [[attr, spec], …], "o1": val, "o2": val}
    spec ::= {"k":"const","v":val} | {"k":"opt","key":"A.X"[,"d":val]} | {"k":"ds","args":[{"key":…[,"d":val]},…]}
    val  ::= null | true | false | int | "str" | {"l":[val,…]} | {"d":[[key,val],…]}   (dicts keep their order)

  Members may come in any order: the driver sorts them by attribute name (code-point order, as
  `dir(cls)` does).  Dotted keys are split at '.' here; reported keys are printed sorted by their
  dotted string.  One JSON observation per line.
-/
import Lean.Data.Json
import LabreaModel.DatasetClass
open Lean Labrea Labrea.DatasetClass

partial def decV (j : Json) : Except String V :=
  match j with
  | .null => .ok .none
  | .bool b => .ok (.bool b)
  | .num n => match j.getInt? with
    | .ok i => .ok (.int i)
    | .error e => .error s!"not an int: {n} {e}"
  | .str s => .ok (.str s)
  | .obj _ =>
    match j.getObjVal? "l" with
    | .ok (.arr xs) => do
      let vs ← xs.toList.mapM decV
      pure (.list vs)
    | _ => match j.getObjVal? "d" with
      | .ok (.arr kvs) => do
        let ps ← kvs.toList.mapM fun kv => match kv with
          | .arr #[.str k, v] => do pure (k, ← decV v)
          | _ => .error "bad dict entry"
        -- build with `ainsert`, as Python does: no duplicate keys
        pure (.dict (ps.foldl (fun acc (k, v) => ainsert k v acc) []))
      | _ => .error "bad object"
  | .arr _ => .error "bare array"

partial def encV : V → Json
  | .none => .null
  | .bool b => .bool b
  | .int i => Json.num (JsonNumber.fromInt i)
  | .str s => .str s
  | .list xs => Json.mkObj [("l", .arr (xs.map encV).toArray)]
  | .dict kvs => Json.mkObj [("d", .arr (kvs.map fun (k, v) => Json.arr #[.str k, encV v]).toArray)]
  | _ => .str "<?>"

def splitKey (s : String) : Path := s.splitOn "."

def decOpt (j : Json) : Except String OptSpec := do
  let key ← j.getObjValAs? String "key"
  let d ← match j.getObjVal? "d" with
    | .ok dj => do pure (some (← decV dj))
    | .error _ => pure Option.none
  pure ⟨splitKey key, d⟩

def decSpec (j : Json) : Except String MemberSpec := do
  let k ← j.getObjValAs? String "k"
  match k with
  | "const" => do pure (.const (← decV (← j.getObjVal? "v")))
  | "opt" => do pure (.opt (← decOpt j))
  | "ds" => do
    let args ← j.getObjValAs? (Array Json) "args"
    pure (.ds (← args.toList.mapM decOpt))
  | _ => .error s!"unknown member kind {k}"

def insertMember (m : String × MemberSpec) : List (String × MemberSpec) → List (String × MemberSpec)
  | [] => [m]
  | x :: xs => if m.1 < x.1 then m :: x :: xs else x :: insertMember m xs

def sortMembers (ms : List (String × MemberSpec)) : List (String × MemberSpec) :=
  ms.foldr insertMember []

partial def errStr : Err → String
  | .keyNotFound k => "KeyNotFoundError:" ++ dotted k
  | .rawType => "RawTypeError"
  | .rawKey k => "KeyError:" ++ dotted k
  | .wrapped e => "EvaluationError<" ++ errStr e ++ ">"
  | .other t => "Other:" ++ t

def errJ (e : Err) : Json := Json.mkObj [("err", .str (errStr e))]

def keysJ (r : Except Err (List Path)) : Json :=
  match r with
  | .ok K => .arr ((sortKeys K).map fun k => Json.str (dotted k)).toArray
  | .error e => errJ e

def instJ (r : Except Err Inst) : Json :=
  match r with
  | .error e => errJ e
  | .ok i => Json.mkObj [
      ("attrs", .arr (i.attrs.map fun (n, a) => Json.arr #[.str n, match a with
        | .val v => encV v
        | .unevaluated => Json.mkObj [("unevaluated", .bool true)]]).toArray),
      ("repr", .str (reprInst i))]

def runCase (line : String) : Except String Json := do
  let j ← Json.parse line
  let name ← j.getObjValAs? String "name"
  let msJ ← j.getObjValAs? (Array Json) "members"
  let ms ← msJ.toList.mapM fun m => match m with
    | .arr #[.str n, s] => do pure (n, ← decSpec s)
    | _ => .error "bad member"
  let o1 ← decV (← j.getObjVal? "o1")
  let o2 ← decV (← j.getObjVal? "o2")
  let c := concreteClass name (sortMembers ms)
  let twin := concreteClass (name ++ "Twin") (sortMembers ms)
  let i1 := instantiate c o1
  let i2 := instantiate c o2
  let eq : Json := match i1, i2 with
    | .ok a, .ok b => .bool (instEq a b)
    | _, _ => .null
  let xeq : Json := match i1, instantiate twin o1 with
    | .ok a, .ok b => .bool (instEq a b)
    | _, _ => .null
  let val (o : V) : Json := match classValidate c o with
    | .ok _ => .str "ok"
    | .error e => errJ e
  pure (Json.mkObj [
    ("i1", instJ i1), ("i2", instJ i2), ("eq", eq), ("xeq", xeq),
    ("keys1", keysJ (classKeys c o1)), ("keys2", keysJ (classKeys c o2)),
    ("explain1", keysJ (classExplain c o1)), ("explain2", keysJ (classExplain c o2)),
    ("validate1", val o1), ("validate2", val o2)])

partial def loop (h : IO.FS.Stream) (out : IO.FS.Stream) : IO Unit := do
  let line ← h.getLine
  if line.isEmpty then return
  let l := line.trimAscii.toString
  if !l.isEmpty then
    match runCase l with
    | .ok j => out.putStrLn j.compress
    | .error e => out.putStrLn (Json.mkObj [("driver_error", .str e)]).compress
  loop h out

def main : IO Unit := do
  loop (← IO.getStdin) (← IO.getStdout)

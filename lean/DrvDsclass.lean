def main : IO Unit := IO.println "stub"

/-
  Driver for C13: reads one JSON case per line on stdin, prints one JSON observation per line.

  {"kind":"pipe", "steps":[[tag, STEPDEF]…], "expr":EXPR, "options":[[key, V]…], "inputs":[V…], "source":BPARAM}
  {"kind":"helper", "name":h, "args":[[param, BINDING]…], "options":[[key, V]…], "input":V}

  STEPDEF  {"k":"dec","prim":n,"params":[[name,BPARAM]…]}    @pipeline_step def f(x, name=BPARAM…): return prim(x, name…)
           {"k":"free","name":n,"params":[…]}                the same with an uninterpreted body
           {"k":"plain","prim":n} | {"k":"plainfree","name":n}   a plain callable
           {"k":"ident"}                                     `_identity` / `Identity`
           {"k":"optfn","key":K,"default":V?}                 Option(K[, default]) holding a callable
           {"k":"helper","name":h,"args":[[param,BINDING]…]}  labrea.functions.h(…)
           {"k":"nested","expr":EXPR}                         PipelineStep(<pipeline>)
  EXPR     ["E"] Pipeline() | ["S",tag] a PipelineStep | ["C",tag] a plain callable / Evaluatable
           | ["+",L,R] | ["K",tag] Pipeline(step) | ["K",tag,R] Pipeline(step, rest)
  BPARAM   {"c":V} | {"o":key} | {"o":key,"d":V}
  BINDING  BPARAM | {"many":[BPARAM…]} | {"dict":[[name,BPARAM]…]}
  V        null | true | false | int | "str" | [V…] | {"t":[…]} tuple | {"s":[…]} set | {"d":[[k,v]…]} dict
           | {"Y":sym-op,"a":[…],"k":[[n,v]…]} symbolic | {"R":f,"a":[…],"k":[…]} record of a free function
           | {"F":name,"a":[…],"k":[…]} named callable | {"M":1} MISSING | {"T":name} class
-/
import Lean.Data.Json
import LabreaModel.PipelineLL
import LabreaModel.Helpers
open Lean
open Labrea.PipelineLL Labrea.Helpers

namespace Drv

/-- the Python functions the harness uses as step bodies / function arguments (same table in
    harness/props/C13.py, `PRIMS`) -/
def v (n : String) : Tm := .var n
def prims : List (String × List String × Tm) := [
  ("add", ["x", "k"], .binop "add" (v "x") (v "k")),
  ("sub", ["x", "k"], .binop "sub" (v "x") (v "k")),
  ("rsub", ["x", "k"], .binop "sub" (v "k") (v "x")),
  ("mul", ["x", "k"], .binop "mult" (v "x") (v "k")),
  ("floordiv", ["x", "k"], .binop "floordiv" (v "x") (v "k")),
  ("neg", ["x"], .unop "usub" (v "x")),
  ("len", ["x"], .call (.glob "builtins.len") (.pos (v "x") .nil)),
  ("wrap", ["x"], .call (.glob "builtins.list") (.pos (.tuple (.pos (v "x") .nil)) .nil)),
  ("eqk", ["x", "k"], .binop "eq" (v "x") (v "k")),
  ("is_pos", ["x"], .binop "gt" (v "x") (.int 0)),
  ("is_even", ["x"], .binop "eq" (.binop "mod" (v "x") (.int 2)) (.int 0)),
  ("inc", ["x"], .binop "add" (v "x") (.int 1)),
  ("dup", ["x"], .call (.glob "builtins.list") (.pos (.tuple (.pos (v "x") (.pos (v "x") .nil))) .nil)),
  ("plus", ["a", "b"], .binop "add" (v "a") (v "b")),
  ("minus", ["a", "b"], .binop "sub" (v "a") (v "b")),
  ("kv_swap", ["k", "v"], .tuple (.pos (v "v") (.pos (v "k") .nil))),
  ("kv_inc", ["k", "v"], .tuple (.pos (v "k") (.pos (.binop "add" (v "v") (.int 1)) .nil))),
  ("v_pos", ["k", "v"], .binop "gt" (v "v") (.int 0)),
  ("kw_pair", ["a", "b"], .tuple (.pos (v "a") (.pos (v "b") .nil)))
]

def cx : Ctx := specCtx prims

/-! ### JSON → values -/

partial def toPV (j : Json) : Except String PV :=
  match j with
  | .null => pure .none
  | .bool b => pure (.bool b)
  | .num _ => do
    let i ← j.getInt?
    pure (.int i)
  | .str s => pure (.str s)
  | .arr a => do
    let xs ← a.toList.mapM toPV
    pure (.list xs)
  | .obj _ =>
    let get (k : String) : Option Json := (j.getObjVal? k).toOption
    let vals (k : String) : Except String (List PV) :=
      match get k with
      | some (.arr a) => a.toList.mapM toPV
      | _ => pure []
    let kws (k : String) : Except String (List (String × PV)) :=
      match get k with
      | some (.arr a) => a.toList.mapM fun e => do
          let n ← (← e.getArrVal? 0).getStr?
          let x ← toPV (← e.getArrVal? 1)
          pure (n, x)
      | _ => pure []
    match get "t", get "s", get "d", get "Y", get "R", get "F", get "M", get "T" with
    | some _, _, _, _, _, _, _, _ => do pure (.tuple (← vals "t"))
    | _, some _, _, _, _, _, _, _ => do pure (.set (← vals "s"))
    | _, _, some (.arr a), _, _, _, _, _ => do
      let kvs ← a.toList.mapM fun e => do
        let k ← toPV (← e.getArrVal? 0)
        let x ← toPV (← e.getArrVal? 1)
        pure (k, x)
      pure (.dict kvs)
    | _, _, _, some (.str op), _, _, _, _ => do pure (.sym op (← vals "a") (← kws "k"))
    | _, _, _, _, some (.str f), _, _, _ => do pure (.record f (← vals "a") (← kws "k"))
    | _, _, _, _, _, some (.str f), _, _ => do pure (.fn f (← vals "a") (← kws "k"))
    | _, _, _, _, _, _, some _, _ => pure .missing
    | _, _, _, _, _, _, _, some (.str n) => pure (.type n)
    | _, _, _, _, _, _, _, _ => throw s!"bad value {j.compress}"

mutual
def ofPV : PV → Json
  | .none => .null
  | .bool b => .bool b
  | .int i => .num (JsonNumber.fromInt i)
  | .str s => .str s
  | .list xs => .arr (ofPVs xs).toArray
  | .tuple xs => Json.mkObj [("t", .arr (ofPVs xs).toArray)]
  | .set xs => Json.mkObj [("s", .arr (ofPVs xs).toArray)]
  | .dict kvs => Json.mkObj [("d", .arr (ofDict kvs).toArray)]
  | .sym op a k => Json.mkObj [("Y", .str op), ("a", .arr (ofPVs a).toArray), ("k", .arr (ofKw k).toArray)]
  | .record f a k => Json.mkObj [("R", .str f), ("a", .arr (ofPVs a).toArray), ("k", .arr (ofKw k).toArray)]
  | .fn f a k => Json.mkObj [("F", .str f), ("a", .arr (ofPVs a).toArray), ("k", .arr (ofKw k).toArray)]
  | .clo _ _ _ => Json.mkObj [("clo", .num 1)]
  | .comp fs => Json.mkObj [("comp", .arr (ofPVs fs).toArray)]
  | .missing => Json.mkObj [("M", .num 1)]
  | .type n => Json.mkObj [("T", .str n)]
  | .exc c => Json.mkObj [("exc", .str c)]
def ofPVs : List PV → List Json
  | [] => []
  | x :: xs => ofPV x :: ofPVs xs
def ofKw : List (String × PV) → List Json
  | [] => []
  | (k, x) :: xs => Json.arr #[.str k, ofPV x] :: ofKw xs
def ofDict : List (PV × PV) → List Json
  | [] => []
  | (k, x) :: xs => Json.arr #[ofPV k, ofPV x] :: ofDict xs
end

def errName : Err → String
  | .evaluation => "EvaluationError"
  | .keyNotFound => "KeyNotFoundError"
  | .insufficient => "InsufficientInformationError"
  | .raised c => c

def ofRes : Except Err PV → Json
  | .ok x => Json.mkObj [("ok", ofPV x)]
  | .error e => Json.mkObj [("err", .str (errName e))]

def ofKeys : Except Err Keys → Json
  | .ok ks => Json.mkObj [("ok", .arr (ks.map Json.str).toArray)]
  | .error e => Json.mkObj [("err", .str (errName e))]

/-! ### JSON → model objects -/

def getOpts (j : Json) : Except String Opts := do
  let a ← (← j.getObjVal? "options").getArr?
  a.toList.mapM fun e => do
    let k ← (← e.getArrVal? 0).getStr?
    let x ← toPV (← e.getArrVal? 1)
    pure (k, x)

def toBParam (j : Json) : Except String BParam :=
  match (j.getObjVal? "c").toOption, (j.getObjVal? "o").toOption with
  | some c, _ => do pure (.const (← toPV c))
  | _, some (.str key) =>
    match (j.getObjVal? "d").toOption with
    | some d => do pure (.opt key (some (← toPV d)))
    | none => pure (.opt key none)
  | _, _ => throw s!"bad parameter {j.compress}"

def toBinding (j : Json) : Except String Binding :=
  match (j.getObjVal? "many").toOption, (j.getObjVal? "dict").toOption with
  | some (.arr a), _ => do pure (.many (← a.toList.mapM toBParam))
  | _, some (.arr a) => do
    let ps ← a.toList.mapM fun e => do
      let n ← (← e.getArrVal? 0).getStr?
      let b ← toBParam (← e.getArrVal? 1)
      pure (n, b)
    pure (.dict ps)
  | _, _ => do pure (.one (← toBParam j))

def namedParams (j : Json) (field : String) : Except String (List (String × Json)) :=
  match (j.getObjVal? field).toOption with
  | some (.arr a) => a.toList.mapM fun e => do
      let n ← (← e.getArrVal? 0).getStr?
      let b ← e.getArrVal? 1
      pure (n, b)
  | _ => pure []

abbrev St := Step Opts PV
abbrev Pl := Pipeline Opts PV

def callFn (f : PV) : List PV → List (String × PV) → Except Err PV :=
  fun pos kw => callV cx FUEL f pos kw

def plainStep (tag : Nat) (f : PV) : St :=
  .opaque tag (fun _ => some (fun x => callFn f [x] [])) (fun _ => .ok []) (fun _ => .ok [])

def optFnStep (tag : Nat) (key : String) (d : Option PV) : St :=
  let p := (BParam.opt key d).toParam
  .opaque tag (fun o => (p.eval o).map fun f => fun x => callFn f [x] []) p.keys p.explain

mutual
partial def toStep (defs : List (Nat × Json)) (tag : Nat) (j : Json) : Except String St := do
  let k ← (← j.getObjVal? "k").getStr?
  match k with
  | "dec" => do
    let prim ← (← j.getObjVal? "prim").getStr?
    let ps ← (← namedParams j "params").mapM fun e => do pure (e.1, (← toBParam e.2).toParam)
    pure (.partialApp tag (callFn (.fn ("prim:" ++ prim) [] [])) [] ps)
  | "free" => do
    let n ← (← j.getObjVal? "name").getStr?
    let ps ← (← namedParams j "params").mapM fun e => do pure (e.1, (← toBParam e.2).toParam)
    pure (.partialApp tag (callFn (.fn ("free:" ++ n) [] [])) [] ps)
  | "plain" => do
    let prim ← (← j.getObjVal? "prim").getStr?
    pure (plainStep tag (.fn ("prim:" ++ prim) [] []))
  | "plainfree" => do
    let n ← (← j.getObjVal? "name").getStr?
    pure (plainStep tag (.fn ("free:" ++ n) [] []))
  | "ident" => pure .identity
  | "optfn" => do
    let key ← (← j.getObjVal? "key").getStr?
    match (j.getObjVal? "default").toOption with
    | some d => do pure (optFnStep tag key (some (← toPV d)))
    | none => pure (optFnStep tag key none)
  | "helper" => do
    let h ← (← j.getObjVal? "name").getStr?
    let bs ← (← namedParams j "args").mapM fun e => do pure (e.1, ← toBinding e.2)
    pure (helperStep cx tag h bs)
  | "nested" => do
    let e ← j.getObjVal? "expr"
    match ← toOperand defs e with
    | .pipeline q => pure (Pipeline.asStep tag q)
    | _ => throw "nested: not a pipeline"
  | _ => throw s!"bad step kind {k}"

partial def stepOfTag (defs : List (Nat × Json)) (tag : Nat) : Except String St :=
  match defs.find? (fun d => d.1 == tag) with
  | some (_, j) => toStep defs tag j
  | none => throw s!"unknown step {tag}"

partial def toOperand (defs : List (Nat × Json)) (e : Json) : Except String (Operand Opts PV) := do
  let a ← e.getArr?
  let hd ← (← e.getArrVal? 0).getStr?
  match hd with
  | "E" => pure (.pipeline Pipeline.new)
  | "S" => do
    let s ← stepOfTag defs (← (← e.getArrVal? 1).getNat?)
    pure (.step s)
  | "C" => do
    let s ← stepOfTag defs (← (← e.getArrVal? 1).getNat?)
    pure (.other s)
  | "K" => do
    let s ← stepOfTag defs (← (← e.getArrVal? 1).getNat?)
    if a.size > 2 then
      match ← toOperand defs (← e.getArrVal? 2) with
      | .pipeline r => pure (.pipeline (Pipeline.init s (some r)))
      | _ => throw "K: rest is not a pipeline"
    else pure (.pipeline (Pipeline.init s none))
  | "+" => do
    let l ← toOperand defs (← e.getArrVal? 1)
    let r ← toOperand defs (← e.getArrVal? 2)
    match l with
    | .pipeline p => pure (.pipeline (p.addOperand r))
    | .step s => pure (.pipeline (s.addOperand r))
    | .other _ => throw "left operand of + is a plain callable"
  | _ => throw s!"bad expr {e.compress}"
end

def iterTag (s : St) : Json :=
  match s.tag? with
  | some t => .num (JsonNumber.fromNat t)
  | none => .str "Id"

def runPipe (j : Json) : Except String Json := do
  let defsJ ← (← j.getObjVal? "steps").getArr?
  let defs ← defsJ.toList.mapM fun e => do
    let t ← (← e.getArrVal? 0).getNat?
    pure (t, ← e.getArrVal? 1)
  let o ← getOpts j
  let inputs ← (← (← j.getObjVal? "inputs").getArr?).toList.mapM toPV
  let op ← toOperand defs (← j.getObjVal? "expr")
  match op with
  | .pipeline p =>
    let base : List (String × Json) := [
      ("iter", .arr (p.iter.map iterTag).toArray),
      ("empty", .bool p.empty),
      ("tf", .arr (inputs.map fun x => ofRes (p.transform x o)).toArray),
      ("keys", ofKeys (p.keys o)),
      ("explain", ofKeys (p.explain o))]
    match (j.getObjVal? "source").toOption with
    | some sj => do
      let e := (← toBParam sj).toParam
      pure (Json.mkObj (base ++ [("apply", ofRes (applyEval e p o)), ("akeys", ofKeys (applyKeys e p o)),
        ("aexplain", ofKeys (applyExplain e p o))]))
    | none => pure (Json.mkObj base)
  | _ => throw "top-level expression is not a pipeline"

def runHelperCase (j : Json) : Except String Json := do
  let h ← (← j.getObjVal? "name").getStr?
  let bs ← (← namedParams j "args").mapM fun e => do pure (e.1, ← toBinding e.2)
  let o ← getOpts j
  let x ← toPV (← j.getObjVal? "input")
  let s := helperStep cx 0 h bs
  pure (Json.mkObj [("tf", ofRes (s.transform x o)), ("keys", ofKeys (s.keys o)), ("explain", ofKeys (s.explain o))])

def runLine (line : String) : String :=
  match Json.parse line with
  | .error e => (Json.mkObj [("driver_error", .str e)]).compress
  | .ok j =>
    let r := do
      let kind ← (← j.getObjVal? "kind").getStr?
      if kind == "pipe" then runPipe j else if kind == "helper" then runHelperCase j else throw "bad kind"
    match r with
    | .ok out => out.compress
    | .error e => (Json.mkObj [("driver_error", .str e)]).compress

end Drv

partial def loop (stdin : IO.FS.Stream) : IO Unit := do
  let line ← stdin.getLine
  if line.isEmpty then return
  let l := String.ofList (line.toList.filter fun c => c != '\n' && c != '\r')
  if !l.isEmpty then IO.println (Drv.runLine l)
  loop stdin

def main : IO Unit := do
  loop (← IO.getStdin)

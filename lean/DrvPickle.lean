/-
  drv_pickle — runs the `PickleSM` model on object graphs extracted from the real labrea objects.

  One case per input line, blank-separated tokens (strings are percent-escaped by the harness and
  never unescaped here: the model only compares them):

      <root> <nobj> obj*  <nns> (name id)*  <nrecv> name*
      obj  := <id> head <nkids> fld*
      head := I <cls> <nattrs> attr*  |  L | T | S | D  |  F <qualname>
      fld  := n | b0 | b1 | i<int> | s<str> | r<id> | l<lockkey>

  Output, one line per case:

      E <ok | error>  [ D <ok | error>  T <tables>  R <tables> ]

  `T` = for every `Overloaded` object of the *decoded* heap, in order of first visit: `L` / `N`
  (holds a lock / does not) and its lookup table as `key>label` pairs; `R` = the same after
  `register("late", <a new Option('LATE')>)` on each of them (`!noLock` where that fails).
-/
import LabreaModel.PickleSM
open Labrea.Pickle

abbrev P := StateT (List String) (Except String)

def tok : P String := do
  match (← get) with
  | [] => throw "unexpected end of line"
  | t :: r => set r; pure t

def pnat : P Nat := do
  let t ← tok
  match t.toNat? with
  | some n => pure n
  | none => throw s!"not a number: {t}"

def rep {α : Type} (p : P α) : Nat → P (List α)
  | 0 => pure []
  | n + 1 => do let x ← p; let xs ← rep p n; pure (x :: xs)

def pfld : P Fld := do
  let t ← tok
  match t.toList with
  | ['n'] => pure (.sc .none)
  | ['b', '0'] => pure (.sc (.bool false))
  | ['b', '1'] => pure (.sc (.bool true))
  | 'i' :: cs => match (String.ofList cs).toInt? with
    | some i => pure (.sc (.int i))
    | none => throw s!"bad int {t}"
  | 's' :: cs => pure (.sc (.str (String.ofList cs)))
  | 'r' :: cs => match (String.ofList cs).toNat? with
    | some i => pure (.ref i)
    | none => throw s!"bad ref {t}"
  | 'l' :: cs => match (String.ofList cs).toNat? with
    | some i => pure (.lock i)
    | none => throw s!"bad lock {t}"
  | _ => throw s!"bad field {t}"

def phead : P Head := do
  let t ← tok
  match t with
  | "I" => do
    let cls ← tok
    let n ← pnat
    let attrs ← rep tok n
    pure (.inst cls attrs)
  | "L" => pure .list
  | "T" => pure .tuple
  | "S" => pure .set
  | "D" => pure .dict
  | "F" => do let q ← tok; pure (.func q)
  | _ => throw s!"bad head {t}"

def pobj : P (Id × Obj) := do
  let i ← pnat
  let hd ← phead
  let n ← pnat
  let kids ← rep pfld n
  pure (i, ⟨hd, kids⟩)

structure Case where
  root : Id
  heap : Heap
  ns : List (Name × Id)
  recv : List Name

def pcase : P Case := do
  let root ← pnat
  let n ← pnat
  let heap ← rep pobj n
  let k ← pnat
  let ns ← rep (do let a ← tok; let i ← pnat; pure (a, i)) k
  let m ← pnat
  let recv ← rep tok m
  pure ⟨root, heap, ns, recv⟩

/-- how a table entry's target is shown: class + its `__qualname__` (datasets) or `key` (options) -/
def label (h : Heap) : Fld → String
  | .sc v => v.show
  | .lock _ => "lock"
  | .ref j =>
    match hget h j with
    | some ⟨.inst cls attrs, kids⟩ =>
      let nm := match getAttr attrs kids "__qualname__" with
        | some (.sc (.str s)) => s
        | _ => match getAttr attrs kids "key" with
          | some (.sc (.str s)) => s
          | _ => ""
      cls ++ "/" ++ nm
    | some ⟨.func n, _⟩ => "F/" ++ n
    | some ⟨.list, _⟩ => "L"
    | some ⟨.tuple, _⟩ => "T"
    | some ⟨.set, _⟩ => "S"
    | some ⟨.dict, _⟩ => "D"
    | none => "?"

def isOverloaded (h : Heap) (i : Id) : Bool :=
  match hget h i with
  | some ⟨.inst "Overloaded" _, _⟩ => true
  | _ => false

def tableStr (h : Heap) (ov : Id) : String :=
  match hget h ov with
  | some ⟨.inst "Overloaded" attrs, kids⟩ =>
    let lk := match getAttr attrs kids "_lock" with
      | some (.lock _) => "L"
      | _ => "N"
    match table h ov with
    | some t => lk ++ "[" ++ ",".intercalate (t.map fun kv => label h kv.1 ++ ">" ++ label h kv.2) ++ "]"
    | none => lk ++ "?"
  | _ => "?"

def runCase (c : Case) : String :=
  let ns := nsOf c.ns
  match encode c.heap ns c.root with
  | .error e => "E " ++ e.show
  | .ok p =>
    match decode (definedOf c.recv) p with
    | .error e => "E ok D " ++ e.show
    | .ok (h', _) =>
      let n := h'.length
      let ovs := (List.range n).filter (isOverloaded h')
      let t := ";".intercalate (ovs.map (tableStr h'))
      -- one new Option('LATE') registered under "late" on every Overloaded
      let late := freshId h'
      let h1 : Heap := (late, ⟨.inst "Option" ["key"], [.sc (.str "LATE")]⟩) :: h'
      let (h2, errs) := ovs.foldl (fun (acc : Heap × List Id) ov =>
        match register acc.1 ov (.sc (.str "late")) (.ref late) with
        | .ok h'' => (h'', acc.2)
        | .error _ => (acc.1, ov :: acc.2)) (h1, [])
      let r := ";".intercalate (ovs.map fun ov =>
        if errs.contains ov then "!noLock" else tableStr h2 ov)
      "E ok D ok T " ++ t ++ " R " ++ r

def handle (line : String) : String :=
  let toks := (line.splitOn " ").filter (· ≠ "")
  match pcase.run toks with
  | .error e => "PARSE-ERROR " ++ e
  | .ok (c, rest) => if rest.isEmpty then runCase c else "PARSE-ERROR trailing tokens"

partial def loop (hin : IO.FS.Stream) (hout : IO.FS.Stream) : IO Unit := do
  let line ← hin.getLine
  if line.isEmpty then pure () else
    let l := String.ofList (line.toList.reverse.dropWhile (fun c => c == '\n' || c == '\r' || c == ' ')).reverse
    if l.isEmpty then hout.putStrLn "" else hout.putStrLn (handle l)
    loop hin hout

def main : IO Unit := do
  let hin ← IO.getStdin
  let hout ← IO.getStdout
  loop hin hout

/-
  C17 — an unreliable cache backend costs recomputation, never a wrong value or failure.

  The scripted backend of the model (`CacheKind.scripted`, `Fault`) follows the Cache contract but may, at any
  call, report a miss, forget the entry, claim an entry exists (`lieExists`) and then fail to retrieve it
  (`failGet`), or fail to read back what was just stored.  The theorems quantify over ALL fault scripts (the
  script is part of the state `s`), not over the first N calls.
-/
import LabreaModel.CacheLemmas
import LabreaModel.DatasetTransparency
namespace Labrea

variable (env : Env) (run : Run) (x : Expr) (c : Nat) (o : V)

/-- whatever the script says, a successful `get` returns an entry that IS stored under the node's fingerprint:
    the backend never fabricates a value -/
theorem faulty_get_is_stored (hk : env.cacheKind c = .scripted) (s s' : St) (v : V)
    (h : backendGet env run x c o s = some (.ok v, s')) :
    ∃ (fp : V) (s1 s2 : St), fingerprintOf run x o s = some (.ok fp, s1) ∧
      entryLookup fp (s2.cacheEntries c) = some v ∧ s2.caches = s1.caches :=
  scripted_get_from_store env run x c o hk s s' v h

/-- a claimed-but-unretrievable entry (lie-exists then fail-get) falls through to recomputation -/
theorem lie_exists_then_fail_get_recomputes (s s1 s2 : St) (he : existsReq env run x c o s = some (.ok true, s1))
    (hg : getReq env run x c o s1 = some (.error cacheGetFailure, s2)) :
    cachedOp env run x c .evaluate o s = (do let v ← run .evaluate x o; setReq env run x c o v) s2 :=
  cached_get_failure_recomputes env run x c o s s1 s2 he hg

/-- a reported miss recomputes -/
theorem reported_miss_recomputes (s s1 : St) (he : existsReq env run x c o s = some (.ok false, s1)) :
    cachedOp env run x c .evaluate o s = (do let v ← run .evaluate x o; setReq env run x c o v) s1 :=
  cached_miss env run x c o s s1 he

/-- the set request returns the computed value or what the backend read back (a stored entry): failing to
    read back what was just stored costs nothing -/
theorem store_then_failed_readback_returns_value (s s' : St) (v w : V)
    (h : setReq env run x c o v s = some (.ok w, s')) :
    w = v ∨ ∃ s1 s2, backendGet env run x c o s1 = some (.ok w, s2) :=
  setReq_value env run x c o s s' v w h

/-- **faulty_backend_correct (value origin).** Every value `Cached.evaluate` returns under ANY fault script is
    either the freshly computed value of the inner expression or an entry stored under the node's fingerprint.
    (That stored entries are the right values for their fingerprints is C01's invariant.) -/
theorem faulty_value_origin (hk : env.cacheKind c = .scripted) (s s' : St) (w : V)
    (h : cachedOp env run x c .evaluate o s = some (.ok w, s')) :
    (∃ s1 s2, run .evaluate x o s1 = some (.ok w, s2)) ∨
    (∃ (fp : V) (t t1 t2 : St), fingerprintOf run x o t = some (.ok fp, t1) ∧
        entryLookup fp (t2.cacheEntries c) = some w ∧ t2.caches = t1.caches) := by
  simp only [cachedOp, bind_run] at h
  -- phase 1: the lookup
  cases hh : cacheLookup env run x c o s with
  | none => simp [hh] at h
  | some p =>
    obtain ⟨r, s1⟩ := p
    cases r with
    | error e => simp [hh] at h
    | ok hit =>
      simp only [hh] at h
      cases hit with
      | some v =>
        -- a hit: the value came out of getReq, i.e. out of backendGet
        simp only [pure_run, Option.some.injEq, Prod.mk.injEq, Except.ok.injEq] at h
        obtain ⟨rfl, rfl⟩ := h
        right
        simp only [cacheLookup, bind_run] at hh
        cases he : existsReq env run x c o s with
        | none => simp [he] at hh
        | some q =>
          obtain ⟨r2, s2⟩ := q
          cases r2 with
          | error e => simp [he] at hh
          | ok b =>
            simp only [he] at hh
            cases b with
            | false => simp at hh
            | true =>
              simp only [if_true, handle, bind_run] at hh
              cases hg : getReq env run x c o s2 with
              | none => simp [hg] at hh
              | some q3 =>
                obtain ⟨r3, s3⟩ := q3
                cases r3 with
                | error e =>
                  simp only [hg] at hh
                  by_cases hc : e = cacheGetFailure <;> simp [hc] at hh
                | ok v' =>
                  simp only [hg, pure_run, Option.some.injEq, Prod.mk.injEq, Except.ok.injEq] at hh
                  obtain ⟨hv, _⟩ := hh
                  cases hv
                  -- getReq = emit; disabled?; backendGet
                  simp only [getReq, bind_run, emit_run] at hg
                  cases hd : cacheDisabled env run o { s2 with events := Event.req "cache_get" x.id :: s2.events } with
                  | none => simp [hd] at hg
                  | some q4 =>
                    obtain ⟨r4, s4⟩ := q4
                    cases r4 with
                    | error e => simp [hd] at hg
                    | ok b4 =>
                      simp only [hd] at hg
                      cases b4 with
                      | true => simp at hg
                      | false =>
                        simp only [Bool.false_eq_true, if_false] at hg
                        obtain ⟨fp, t1, t2, h1, h2, h3⟩ := scripted_get_from_store env run x c o hk s4 s3 v hg
                        exact ⟨fp, s4, t1, t2, h1, h2, h3⟩
      | none =>
        -- a miss: inner evaluation, then setReq
        simp only [bind_run] at h
        cases hx : run .evaluate x o s1 with
        | none => simp [hx] at h
        | some q =>
          obtain ⟨r2, s2⟩ := q
          cases r2 with
          | error e => simp [hx] at h
          | ok v =>
            simp only [hx] at h
            rcases setReq_value env run x c o s2 s' v w h with rfl | ⟨t1, t2, hg⟩
            · exact Or.inl ⟨s1, s2, hx⟩
            · right
              obtain ⟨fp, u1, u2, h1, h2, h3⟩ := scripted_get_from_store env run x c o hk t1 t2 w hg
              exact ⟨fp, t1, u1, u2, h1, h2, h3⟩

/-- a blind fault (`lieBlind`): the backend claims the entry exists without looking at the request — no
    fingerprint is computed, so this happens even for options under which the node's keys cannot be computed -/
theorem blind_exists_claims (hk : env.cacheKind c = .scripted) (s s1 : St) (hb : blindFault c s = some (.ok true, s1)) :
    backendExists env run x c o s =
      some (.ok true, { s1 with events := Event.cacheOp c "exists" .none "blind" :: s1.events }) := by
  simp [backendExists, hk, bind_run, hb, emit_run, pure_run]

/-- … and the retrieval from such a backend fails with `CacheGetFailure`, which `Cached.evaluate` answers by
    recomputing (`lie_exists_then_fail_get_recomputes`) -/
theorem blind_get_fails (hk : env.cacheKind c = .scripted) (s s1 : St) (hb : blindFault c s = some (.ok true, s1)) :
    backendGet env run x c o s =
      some (.error cacheGetFailure, { s1 with events := Event.cacheOp c "get" .none "blind" :: s1.events }) := by
  simp [backendGet, hk, bind_run, hb, emit_run, raise_run]


/-! ### The full statement, for all histories and all fault scripts -/

/-- **faulty_backend_transparent.** A node cached in an UNRELIABLE backend (scripted: at every call it may report a miss,
    claim an entry it then fails to retrieve, forget the entry, fail to store, or answer without looking at the request
    at all), whose sub-computations leave that backend's entries alone and for which equal fingerprints imply equal
    outcomes: after ANY history of evaluations and under ANY fault script — the script is part of the state, nothing is
    assumed about it — every evaluation returns the uncached outcome `den o`.  A faulty backend costs recomputation,
    never a wrong value or a failure. -/
theorem faulty_backend_transparent {env : Env} {run : Run} {x : Expr} {c : Nat} {D : V → Prop}
    {fp : V → V} {den : V → Except Err V} (H : FingerprintSoundF env run x c D fp den)
    (hist : List V) (hD : ∀ o ∈ hist, D o) (s : St) (hempty : s.cacheEntries c = [])
    (o : V) (ho : D o) (s1 : St)
    (hs : (hist.foldl (fun (st : Option St) oi => st.bind fun t =>
        (cachedOp env run x c .evaluate oi t).map Prod.snd) (some s)) = some s1)
    (r : Except Err V) (s2 : St) (h : cachedOp env run x c .evaluate o s1 = some (r, s2)) : r = den o :=
  faulty_history_transparent H hist hD s (storeInv_empty c D fp den s hempty) o ho s1 hs r s2 h

/-- … and the evaluation always terminates with that outcome (total correctness): whatever the script holds -/
theorem faulty_backend_total {env : Env} {run : Run} {x : Expr} {c : Nat} {D : V → Prop}
    {fp : V → V} {den : V → Except Err V} (H : FingerprintSoundF env run x c D fp den)
    (o : V) (ho : D o) (s : St) (hinv : StoreInv c D fp den s) :
    ∃ s', cachedOp env run x c .evaluate o s = some (den o, s') ∧ StoreInv c D fp den s' := by
  obtain ⟨r, s', h1, h2, h3⟩ := (t_cached_evaluate H o ho).run s hinv
  exact ⟨s', h3 ▸ h1, h2⟩

/-- instance: a real dataset (`@dataset def d(p = Option(key)): return body(p=p)`) over a faulty backend, every key /
    body / fuel, every history of dictionaries holding an integer under the key, every fault script -/
theorem dataset_faulty_backend_transparent {env : Env} {ovid cid : Nat} {key pname body : String} {out : Int → V}
    (H : SimpleDataset env ovid cid key pname body out) (hk : env.cacheKind cid = .scripted) (n id : Nat) (msg : String)
    (hist : List V) (hD : ∀ o ∈ hist, DsDict key o) (s : St) (hempty : s.cacheEntries cid = [])
    (o : V) (ho : DsDict key o) (s1 : St)
    (hs : (hist.foldl (fun (st : Option St) oi => st.bind fun t =>
        (cachedOp env (ev env (n + 9)) (dsInner id ovid msg) cid .evaluate oi t).map Prod.snd) (some s)) = some s1)
    (r : Except Err V) (s2 : St)
    (h : cachedOp env (ev env (n + 9)) (dsInner id ovid msg) cid .evaluate o s1 = some (r, s2)) :
    r = .ok (out (intOf key o)) :=
  faulty_backend_transparent (dataset_fingerprint_soundF H hk n id msg) hist hD s hempty o ho s1 hs r s2 h

/-- non-vacuity: an environment of that shape with a faulty backend exists, and the dictionaries `{'A': i}` qualify -/
def c17dEnv : Env :=
  { β := fun f a k => .ok (.app f a k), binds := fun _ _ => .error "x",
    ov := fun _ => { dispatch := .value 20 .missing, table := [], dflt := some (dsBody "A" "n" "load") },
    ds := fun _ => default, cacheKind := fun _ => .scripted }

example : SimpleDataset c17dEnv 1 0 "A" "n" "load" (fun i => .app "load" [] [("n", .int i)]) ∧ c17dEnv.cacheKind 0 = .scripted :=
  ⟨{ subst := rfl, logOn := rfl, cacheOn := rfl, ov := rfl, β := fun _ => rfl }, rfl⟩

/-! non-vacuity: under the script [miss, behave(set), failGet(read-back)] the evaluation still returns the value -/
def c17Env : Env :=
  { β := fun f a k => .ok (.app f a k), binds := fun _ _ => .error "x", ov := fun _ => default, ds := fun _ => default,
    cacheKind := fun _ => .scripted }

/-- two blind faults (claimed existence, failed retrieval), then a faithful store: the value is computed -/
example : (match ev c17Env 20 .evaluate (.cached 2 (.option 1 "A" Option.none Option.none) 0) (.dict [("A", .int 4)])
      { scripts := [(0, [.lieBlind, .lieBlind])] } with
    | some (.ok v, s) => decide (v = .int 4) && s.scripts == [(0, [])]
    | _ => false) = true := by decide +kernel

example : (match ev c17Env 20 .evaluate (.cached 2 (.option 1 "A" Option.none Option.none) 0) (.dict [("A", .int 4)])
      { scripts := [(0, [.miss, .behave, .failGet])] } with
    | some (.ok v, s) => decide (v = .int 4) && s.scripts == [(0, [])]
    | _ => false) = true := by decide +kernel

end Labrea

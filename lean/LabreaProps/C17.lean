import LabreaModel.Eval
namespace Labrea
theorem c17_placeholder : True := trivial
end Labrea

import LabreaModel.Eval
namespace Labrea
theorem c05_placeholder : True := trivial
end Labrea

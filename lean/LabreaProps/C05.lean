/-
  C05 — combinators evaluate to what the equivalent eager Python computation yields.

  The interpreter's `evaluate` IS the eager reference semantics; this file states, for every
  combinator, the equation the property text gives, for ALL sub-expressions, options, states and any
  interpretation `run` of the children (in particular `run = ev env n` for every fuel `n`).
  `s`, `s1`, … are states (cache contents, event log): children are run left to right, each from the
  state the previous one left.
-/
import LabreaModel.MonadLemmas
namespace Labrea

variable (run : Run) (o : V)

/-- `switch`: the branch registered under the dispatch value (Python `==`/hash equality of keys) -/
theorem switch_registered (id : Nat) (d : Expr) (lookup : List (V × Expr)) (dflt : Option Expr) (s s1 : St)
    (key k : V) (br : Expr) (hd : run .evaluate d o s = some (.ok key, s1)) (hh : hashable key = true)
    (hl : lookup.find? (fun p => pyEq p.1 key) = some (k, br)) :
    switchOp run id d lookup dflt .evaluate o s = run .evaluate (.dependsOn (tid id 1) br d) o s1 := by
  simp [switchOp, switchLookup, bind_run, handle, hd, hh, hl]

/-- `switch`: an unregistered dispatch value selects the default -/
theorem switch_unregistered_default (id : Nat) (d : Expr) (lookup : List (V × Expr)) (df : Expr) (s s1 : St)
    (key : V) (hd : run .evaluate d o s = some (.ok key, s1)) (hh : hashable key = true)
    (hl : lookup.find? (fun p => pyEq p.1 key) = Option.none) :
    switchOp run id d lookup (some df) .evaluate o s = run .evaluate (.dependsOn (tid id 1) df d) o s1 := by
  simp [switchOp, switchLookup, bind_run, handle, hd, hh, hl]

/-- `switch`: when the dispatch cannot be evaluated (any `EvaluationError`) the default is taken -/
theorem switch_dispatch_fails_default (id : Nat) (d : Expr) (lookup : List (V × Expr)) (df : Expr) (s s1 : St)
    (err : Err) (hd : run .evaluate d o s = some (.error err, s1)) (he : err.isEvaluationError = true) :
    switchOp run id d lookup (some df) .evaluate o s = run .evaluate df o s1 := by
  simp [switchOp, switchLookup, bind_run, handle, hd, he]

/-- `switch`: no branch applies and there is no default — evaluation fails (it does not return a value) -/
theorem switch_no_default_fails (id : Nat) (d : Expr) (lookup : List (V × Expr)) (s s1 : St)
    (key : V) (hd : run .evaluate d o s = some (.ok key, s1)) (hh : hashable key = true)
    (hl : lookup.find? (fun p => pyEq p.1 key) = Option.none) :
    switchOp run id d lookup Option.none .evaluate o s = some (.error [{ cls := .switchErr, src := d.id }], s1) := by
  simp [switchOp, switchLookup, bind_run, handle, hd, hh, hl]

/-- `switch`: without a default, a dispatch that cannot be evaluated fails with the dispatch's own error -/
theorem switch_dispatch_fails_no_default (id : Nat) (d : Expr) (lookup : List (V × Expr)) (s s1 : St)
    (err : Err) (hd : run .evaluate d o s = some (.error err, s1)) (he : err.isEvaluationError = true) :
    switchOp run id d lookup Option.none .evaluate o s = some (.error err, s1) := by
  simp [switchOp, switchLookup, bind_run, handle, hd, he]

/-- the helper `_DependsOn(result, dispatch)` evaluates to `result` -/
theorem dependsOn_evaluate (env : Env) (n id : Nat) (x d : Expr) :
    nodeOp env run n .evaluate (.dependsOn id x d) o = run .evaluate x o := by
  simp [nodeOp]

/-- `coalesce`: a member that validates and evaluates is the result; members after it are not touched -/
theorem coalesce_first_evaluable (m : Expr) (rest : List Expr) (last : Option Err) (s s1 s2 : St) (u v : V)
    (hv : run .validate m o s = some (.ok u, s1)) (he : run .evaluate m o s1 = some (.ok v, s2)) :
    coalesceDelegate run .evaluate o last (m :: rest) s = some (.ok v, s2) := by
  simp [coalesceDelegate, handle, bind_run, hv, he]

/-- `coalesce`: a member that cannot be validated (any `EvaluationError`, e.g. a missing option) is skipped -/
theorem coalesce_skips_unvalidatable (m : Expr) (rest : List Expr) (last : Option Err) (s s1 : St) (err : Err)
    (hv : run .validate m o s = some (.error err, s1)) (he : err.isEvaluationError = true) :
    coalesceDelegate run .evaluate o last (m :: rest) s = coalesceDelegate run .evaluate o (some err) rest s1 := by
  simp [coalesceDelegate, handle, bind_run, hv, he]

/-- `coalesce`: a member that validates but whose evaluation fails with an `EvaluationError` is skipped too -/
theorem coalesce_skips_unevaluable (m : Expr) (rest : List Expr) (last : Option Err) (s s1 s2 : St) (u : V) (err : Err)
    (hv : run .validate m o s = some (.ok u, s1)) (hx : run .evaluate m o s1 = some (.error err, s2))
    (he : err.isEvaluationError = true) :
    coalesceDelegate run .evaluate o last (m :: rest) s = coalesceDelegate run .evaluate o (some err) rest s2 := by
  simp [coalesceDelegate, handle, bind_run, hv, hx, he]

/-- `coalesce`: when no member can be evaluated the last failure is raised -/
theorem coalesce_none_evaluable (err : Err) (s : St) :
    coalesceDelegate run .evaluate o (some err) [] s = some (.error err, s) := by
  simp [coalesceDelegate]

/-- collections keep order: `Iter(e₁,…,eₙ)` evaluates its members left to right -/
theorem iter_order (env : Env) (n id : Nat) (es : List Expr) :
    nodeOp env run n .evaluate (.iter id es) o =
      (do let vs ← mapM' (fun x => run .evaluate x o) es; pure (V.list vs)) := by
  simp [nodeOp]

theorem mapM'_cons {α β} (f : α → M β) (x : α) (xs : List α) :
    mapM' f (x :: xs) = (do let y ← f x; let ys ← mapM' f xs; pure (y :: ys)) := rfl

/-- `apply` / `>>`: the input is produced first, then the function expression, then the call -/
theorem apply_evaluate (env : Env) (n id : Nat) (x f : Expr) (s s1 s2 : St) (v fn : V)
    (hx : ∀ i es, x ≠ .iter i es) (hm : ∀ i y its, x ≠ .map i y its)
    (h1 : run .evaluate x o s = some (.ok v, s1)) (h2 : run .evaluate f o s1 = some (.ok fn, s2)) :
    nodeOp env run n .evaluate (.apply id x f) o s = call env fn [v] [] s2 := by
  cases x <;> simp_all [nodeOp, bind_run]

/-- `Map`: one `(assignment, result)` pair per element of the cartesian product, in `itertools.product`
    order — the first iterable varies slowest -/
theorem product_order_example :
    product [[V.int 1, V.int 2], [V.str "a", V.str "b"]] =
      [[.int 1, .str "a"], [.int 1, .str "b"], [.int 2, .str "a"], [.int 2, .str "b"]] := by decide

theorem product_cons {α} (xs : List α) (rest : List (List α)) :
    product (xs :: rest) = xs.flatMap fun x => (product rest).map fun r => x :: r := rfl

theorem product_length {α} : ∀ (cols : List (List α)), (product cols).length = (cols.map List.length).foldr (· * ·) 1
  | [] => rfl
  | xs :: rest => by
    simp only [product_cons, List.map_cons, List.foldr_cons, List.length_flatMap, List.length_map, product_length rest]
    induction xs with
    | nil => simp
    | cons a as ih => simp [List.sum_cons, ih, Nat.add_mul, Nat.add_comm]

/-- `Map`: each assignment is overlaid on the caller's options with force (the element is
    `WithOptions(e, assignment)`), and the pair is `(assignment, value)` -/
theorem map_element_overlay (id : Nat) (x : Expr) (a : List (String × V)) (d : List (String × V))
    (h : optionSet a = some d) (s : St) :
    mapElement id x a s = some (.ok (.withOptions (tid id 2) x (.dict d) true), s) := by
  simp [mapElement, h]

/-- `case`: the first case whose condition holds for the dispatch value -/
theorem case_first_match (env : Env) (id : Nat) (d : Expr) (dflt : Option Expr) (v : V) (seen : List Expr)
    (c r : Expr) (rest : List (Expr × Expr)) (s s1 s2 : St) (cf b : V)
    (hc : run .evaluate c o s = some (.ok cf, s1)) (hb : call env cf [v] [] s1 = some (.ok b, s2))
    (ht : b.truthy = true) :
    chooseCase env run id d dflt o v seen ((c, r) :: rest) s = some (.ok (wrapDeps id r (seen ++ [c])), s2) := by
  simp [chooseCase, bind_run, hc, hb, ht]

/-- `case`: a case whose condition does not hold is passed over -/
theorem case_no_match_next (env : Env) (id : Nat) (d : Expr) (dflt : Option Expr) (v : V) (seen : List Expr)
    (c r : Expr) (rest : List (Expr × Expr)) (s s1 s2 : St) (cf b : V)
    (hc : run .evaluate c o s = some (.ok cf, s1)) (hb : call env cf [v] [] s1 = some (.ok b, s2))
    (ht : b.truthy = false) :
    chooseCase env run id d dflt o v seen ((c, r) :: rest) s = chooseCase env run id d dflt o v (seen ++ [c]) rest s2 := by
  simp [chooseCase, bind_run, hc, hb, ht]

/-- `case`: no case matches and there is no default — evaluation fails -/
theorem case_no_match_no_default (env : Env) (id : Nat) (d : Expr) (v : V) (seen : List Expr) (s : St) :
    chooseCase env run id d Option.none o v seen [] s = some (.error [{ cls := .caseWhenErr, src := d.id }], s) := by
  simp [chooseCase]

/-- the wrapper `_DependsOn` around a chosen case result does not change its value -/
theorem wrapDeps_evaluate (env : Env) (n : Nat) (id : Nat) (r : Expr) (c : Expr) (cs : List Expr) :
    ∃ r', wrapDeps id r (c :: cs) = wrapDeps id (.dependsOn (tid id (2 + cs.length)) r c) cs ∧
      nodeOp env run n .evaluate (.dependsOn (tid id (2 + cs.length)) r c) o = run .evaluate r o ∧ r' = r :=
  ⟨r, rfl, by simp [nodeOp], rfl⟩

/-- function application: arguments are produced before the body runs (positional, then keyword) -/
theorem funapp_args (env : Env) (id : Nat) (f : Expr) (args : List Expr) (kw : List (String × Expr)) (s s1 : St) (fv : V)
    (hf : run .evaluate f o s = some (.ok fv, s1)) :
    applicationOp env run id f args kw false .evaluate o s =
      ((do
        let (as, ks) ← pseudo .evaluate (tid id 1) (do
          let as ← pseudo .evaluate (tid id 2) (mapM' (fun x => run .evaluate x o) args)
          let ks ← pseudo .evaluate (tid id 3) (mapM' (fun (p : String × Expr) => do
            let v ← run .evaluate p.2 o
            pure (p.1, v)) kw)
          pure (as, ks))
        call env fv as ks) : M V) s1 := by
  simp [applicationOp, bind_run, hf]

/-- a dataset is its implementation applied through its callback, under the overlaid options
    (`WithDefaultOptions(WithOptions(cached(Logged(Computation(overloads.apply(callback))))))`) -/
theorem dataset_expansion (env : Env) (n id ds : Nat) (op : Op) :
    nodeOp env run n op (.dataset id ds) o =
      let r := env.ds ds
      let calculation := Expr.apply (tid id 1) (.overloaded (tid id 7) r.ov) r.callback
      let base := if r.effectsDisabled then calculation else .computation (tid id 2) calculation r.effects
      run op (.withOptions (tid id 6) (.withOptions (tid id 5)
        (.cached (tid id 4) (.logged (tid id 3) base r.msg) r.cache) r.options true) r.defaultOptions false) o := by
  simp [nodeOp]

/-- an `Overloaded` is a `Switch` over the *current* table (read at every use) -/
theorem overloaded_is_switch (env : Env) (n id ov : Nat) (op : Op) :
    nodeOp env run n op (.overloaded id ov) o =
      run op (.switch (tid id 1) (env.ov ov).dispatch (env.ov ov).table (env.ov ov).dflt) o := by
  simp [nodeOp]

/-! ### non-vacuity: the hypotheses are met by concrete evaluations (kernel-evaluated) -/

def c05Env : Env :=
  { β := fun f a k => .ok (.app f a k), binds := fun _ _ => .error "ValueError",
    ov := fun _ => default, ds := fun _ => default, cacheKind := fun _ => .memory }

def c05Switch : Expr :=
  .switch 5 (.option 1 "K" Option.none Option.none) [(.str "x", .value 2 (.int 10)), (.int 1, .value 3 (.int 20))]
    (some (.value 4 (.str "dflt")))

/-- does `evaluate e o` (from the empty state, fuel 20) yield the value `v`? -/
def evalIs (e : Expr) (o v : V) : Bool :=
  match ev c05Env 20 .evaluate e o {} with
  | some (.ok x, _) => decide (x = v)
  | _ => false

example : evalIs c05Switch (.dict [("K", .str "x")]) (.int 10) = true := by decide +kernel
example : evalIs c05Switch (.dict [("K", .bool true)]) (.int 20) = true := by decide +kernel   -- True == 1
example : evalIs c05Switch (.dict [("K", .str "q")]) (.str "dflt") = true := by decide +kernel
example : evalIs c05Switch (.dict []) (.str "dflt") = true := by decide +kernel
example : evalIs (.coalesce 3 [.option 1 "A" Option.none Option.none, .option 2 "B" Option.none Option.none])
    (.dict [("B", .int 0)]) (.int 0) = true := by decide +kernel

/-! ### The dictionary builder keeps the order written (`labrea.collections.evaluatable_dict`) -/

theorem ainsert_fresh {α} (k : String) (v : α) (d : List (String × α)) (h : k ∉ d.map Prod.fst) :
    ainsert k v d = d ++ [(k, v)] := by
  induction d with
  | nil => rfl
  | cons p rest ih =>
    obtain ⟨k', v'⟩ := p
    simp only [List.map_cons, List.mem_cons, not_or] at h
    have hne : ¬ k' = k := fun e => h.1 e.symm
    simp [ainsert, hne, ih h.2]

/-- the step of `dictOfPairs` -/
def dictStep (acc : List (String × V)) (p : V) : Option (List (String × V)) :=
  match iterElems p with
  | some [.str k, v] => some (ainsert k v acc)
  | _ => Option.none

theorem dictOfPairs_eq (ps : List V) : dictOfPairs ps = ps.foldlM dictStep [] := rfl

theorem dictStep_pair (acc : List (String × V)) (k : String) (v : V) :
    dictStep acc (.list [.str k, v]) = some (ainsert k v acc) := rfl

theorem dictOfPairs_go (kvs acc : List (String × V)) (h : (acc.map Prod.fst ++ kvs.map Prod.fst).Nodup) :
    (kvs.map fun p => V.list [.str p.1, p.2]).foldlM dictStep acc = some (acc ++ kvs) := by
  induction kvs generalizing acc with
  | nil => simp
  | cons p rest ih =>
    obtain ⟨k, v⟩ := p
    have hk : k ∉ acc.map Prod.fst := by
      intro hm
      have := List.nodup_append.mp h
      exact this.2.2 k hm k (by simp) rfl
    have h' : ((acc ++ [(k, v)]).map Prod.fst ++ rest.map Prod.fst).Nodup := by
      simpa [List.append_assoc] using h
    rw [List.map_cons, List.foldlM_cons, dictStep_pair, ainsert_fresh k v acc hk]
    simpa [List.append_assoc] using ih (acc ++ [(k, v)]) h'

/-- **dict_builder_keeps_order.** `dict(pairs)` over pairs with distinct keys — what `evaluatable_dict` applies to its
    evaluated entries — is the dictionary with exactly those entries in the order written. -/
theorem dict_builder_keeps_order (kvs : List (String × V)) (h : (kvs.map Prod.fst).Nodup) :
    builtin "py:dict" [.list (kvs.map fun p => V.list [.str p.1, p.2])] = some (.ok (.dict kvs)) := by
  have := dictOfPairs_go kvs [] (by simpa using h)
  simp only [List.nil_append] at this
  simp only [builtin, iterElems, dictOfPairs_eq, this]

example : builtin "py:dict" [.list [.list [.str "b", .int 2], .list [.str "a", .int 1]]] = some (.ok (.dict [("b", .int 2), ("a", .int 1)])) :=
  dict_builder_keeps_order [("b", .int 2), ("a", .int 1)] (by decide)

end Labrea

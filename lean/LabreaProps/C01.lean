/-
  C01 — caching is transparent: cached graphs return what uncached evaluation returns.

  FULL STATEMENT (kept visible; it is FALSE of the current tree, see the witnesses below):
    for every program e, every finite history o₁ … oₖ evaluated on one long-lived state, and every i,
    the outcome of the i-th evaluation equals the outcome of evaluating e on oᵢ with caching switched off.

  What is proved here, for every environment / expression / options / state / fuel:
    * the cache discipline of `Cached.evaluate`: a hit returns the stored entry without evaluating the inner
      expression; a miss evaluates it and stores the value under the fingerprint; a failure stores nothing;
      a store is found again under the same fingerprint and disturbs no other entry (CacheLemmas);
    * the fingerprint is a function of the reported keys and their values alone (C03);
    * with caching switched off the store is never read or written (C16) — so the reference evaluation the
      property compares with is state-independent;
    What is missing for the full statement is fingerprint soundness of every inner expression ("equal
    fingerprints ⇒ equal outcomes"): it fails at the catch positions of `coalesce` and `switch` (known
    findings F18, F19) and for brace re-substitution (F22) — the negation of the full statement is proved
    below from concrete histories, and `LabreaModel/CacheTransparency.lean` proves the full statement under exactly
    that hypothesis (`cache_transparent_of_fingerprint_sound`, for all histories, by an invariant on the store).
-/
import LabreaModel.CacheLemmas
import LabreaModel.EvalLemmas
import LabreaModel.CacheTransparency
import LabreaModel.DatasetTransparency
namespace Labrea

variable (env : Env) (run : Run) (x : Expr) (c : Nat) (o : V)

/-- **hit.** When the existence request says yes and the get request answers `v`, `Cached.evaluate` returns `v`
    and the inner expression is not evaluated. -/
theorem hit_returns_stored (s s1 s2 : St) (v : V) (he : existsReq env run x c o s = some (.ok true, s1))
    (hg : getReq env run x c o s1 = some (.ok v, s2)) :
    cachedOp env run x c .evaluate o s = some (.ok v, s2) :=
  cached_hit env run x c o s s1 s2 v he hg

/-- **miss.** Otherwise the inner expression is evaluated and its value goes through the set request. -/
theorem miss_computes_and_stores (s s1 : St) (he : existsReq env run x c o s = some (.ok false, s1)) :
    cachedOp env run x c .evaluate o s = (do let v ← run .evaluate x o; setReq env run x c o v) s1 :=
  cached_miss env run x c o s s1 he

/-- a failed evaluation issues no set request: nothing is stored by the failing node -/
theorem failure_stores_nothing (s s1 s2 : St) (err : Err) (he : existsReq env run x c o s = some (.ok false, s1))
    (hx : run .evaluate x o s1 = some (.error err, s2)) :
    cachedOp env run x c .evaluate o s = some (.error err, s2) :=
  cached_failure_stores_nothing env run x c o s s1 s2 err he hx

/-- what a `get` of the memory backend returns was stored under the node's fingerprint (never fabricated) -/
theorem get_returns_stored_entry (hk : env.cacheKind c = .memory) (s s' : St) (v : V)
    (h : backendGet env run x c o s = some (.ok v, s')) :
    ∃ (fp : V) (s1 : St), fingerprintOf run x o s = some (.ok fp, s1) ∧ entryLookup fp (s1.cacheEntries c) = some v :=
  memory_get_from_store env run x c o hk s s' v h

/-- the value stored under a fingerprint is the one found again under it -/
theorem stored_value_is_found (s : St) (fp v : V) :
    entryLookup fp ((s.setCacheEntries c (entryInsert fp v (s.cacheEntries c))).cacheEntries c) = some v :=
  store_then_lookup s c fp v

/-- and a store disturbs no entry under another fingerprint -/
theorem store_frame (s : St) {fp fp' : V} (h : fp' ≠ fp) (v : V) :
    entryLookup fp' ((s.setCacheEntries c (entryInsert fp v (s.cacheEntries c))).cacheEntries c) =
      entryLookup fp' (s.cacheEntries c) :=
  store_keeps_others s c h v

/-- with caching switched off, evaluation never looks at the store: the reference evaluation the property
    compares with is independent of everything evaluated earlier -/
theorem uncached_ignores_store {env : Env} (hoff : env.cacheCtxOff = true) (n : Nat) (op : Op) (e : Expr) (o : V)
    (s : St) (r : Except Err V) (s' : St) (h : ev env n op e o s = some (r, s')) :
    s'.caches = s.caches ∧ s'.scripts = s.scripts :=
  ev_ctxOff_sameStore hoff n op e o s r s' h

/-! ### the full statement is false on the current tree: concrete histories (kernel-evaluated) -/

def c01Env (off : Bool) : Env :=
  { β := fun f a _ => if f = "neg" then (match a with | [.int i] => .ok (.int (-i)) | _ => .error "TypeError")
                      else if f = "mayfail" then (match a with | [.int 1] => .error "ValueError" | _ => .ok (.str "k"))
                      else .error "TypeError",
    binds := fun _ _ => .error "x", ov := fun _ => default, ds := fun _ => default, cacheKind := fun _ => .memory,
    cacheCtxOff := off }

/-- evaluate a history on one long-lived state; return the outcomes -/
def history (env : Env) (e : Expr) : List V → St → List (Option (Except Err V))
  | [], _ => []
  | o :: os, s =>
    match ev env 40 .evaluate e o s with
    | Option.none => [Option.none]
    | some (r, s') => some r :: history env e os s'

/-- `cached(coalesce(switch('D', {1: Option('Q')}, Option('B') >> neg), Option('B')))` -/
def f18Cached : Expr :=
  .cached 10 (.coalesce 9 [ .switch 5 (.option 1 "D" Option.none Option.none) [(.int 1, .option 2 "Q" Option.none Option.none)]
                  (some (.apply 4 (.option 3 "B" Option.none Option.none) (.value 6 (.fn "neg" [] [])))),
                .option 7 "B" Option.none Option.none ]) 0

def isOk (r : Option (Except Err V)) (v : V) : Bool := match r with | some (.ok w) => decide (w = v) | _ => false

/-- **known finding F18.** `{B:5}` then `{D:1,B:5}`: the cached graph returns −5, the uncached one 5. -/
theorem c01_fails_coalesce :
    (match history (c01Env false) f18Cached [.dict [("B", .int 5)], .dict [("D", .int 1), ("B", .int 5)]] {} with
      | [a, b] => isOk a (.int (-5)) && isOk b (.int (-5))
      | _ => false) = true ∧
    (match history (c01Env true) f18Cached [.dict [("B", .int 5)], .dict [("D", .int 1), ("B", .int 5)]] {} with
      | [a, b] => isOk a (.int (-5)) && isOk b (.int 5)
      | _ => false) = true := by
  constructor <;> decide +kernel

/-- `cached(coalesce(Option('K', 'auto', domain=['fast', 'exact']), Option('K2')))` -/
def f31Cached : Expr :=
  .cached 7 (.coalesce 6 [ .option 3 "K" (some (.value 1 (.str "auto"))) (some (.value 2 (.list [.str "fast", .str "exact"]))),
                .option 5 "K2" Option.none Option.none ]) 0

/-- **known finding F31.** `{K2:'fast'}` then `{K2:'exact'}`: the first member validates (a default is not checked
    against the domain) and reports no keys, evaluation rejects the default and reads `K2`: the cached graph returns
    `'fast'` twice, the uncached one `'fast'` then `'exact'`. -/
theorem c01_fails_default_outside_domain_F31 :
    (match history (c01Env false) f31Cached [.dict [("K2", .str "fast")], .dict [("K2", .str "exact")]] {} with
      | [a, b] => isOk a (.str "fast") && isOk b (.str "fast")
      | _ => false) = true ∧
    (match history (c01Env true) f31Cached [.dict [("K2", .str "fast")], .dict [("K2", .str "exact")]] {} with
      | [a, b] => isOk a (.str "fast") && isOk b (.str "exact")
      | _ => false) = true := by
  constructor <;> decide +kernel

/-- `cached(switch(Option('M','x') >> mayfail, {'k': 1}, 2))` -/
def f19Cached : Expr :=
  .cached 8 (.switch 5 (.apply 3 (.option 1 "M" (some (.value 2 (.str "x"))) Option.none) (.value 4 (.fn "mayfail" [] [])))
    [(.str "k", .value 6 (.int 1))] (some (.value 7 (.int 2)))) 0

/-- **known finding F19.** `{M:1}` (dispatch fails → default 2, stored under the empty fingerprint) then `{}`
    (dispatch succeeds → 1 uncached, but the cached graph returns the stored 2). -/
theorem c01_fails_switch_dispatch :
    (match history (c01Env false) f19Cached [.dict [("M", .int 1)], .dict []] {} with
      | [a, b] => isOk a (.int 2) && isOk b (.int 2)
      | _ => false) = true ∧
    (match history (c01Env true) f19Cached [.dict [("M", .int 1)], .dict []] {} with
      | [a, b] => isOk a (.int 2) && isOk b (.int 1)
      | _ => false) = true := by
  constructor <;> decide +kernel

/-- and a history on which transparency does hold: a dispatch value, a templated reference, a sibling inside a
    section (the situations the property names) each change the outcome of the cached graph too -/
def c01Good : Expr :=
  .cached 9 (.switch 5 (.option 1 "K" Option.none Option.none) [(.str "x", .option 2 "P" Option.none Option.none)]
    (some (.option 3 "S" Option.none Option.none))) 0

theorem c01_good_history :
    (history (c01Env false) c01Good
        [.dict [("K", .str "x"), ("P", .str "{A}"), ("A", .int 1)], .dict [("K", .str "x"), ("P", .str "{A}"), ("A", .int 2)],
         .dict [("K", .str "y"), ("S", .dict [("X", .int 1)])], .dict [("K", .str "y"), ("S", .dict [("X", .int 1), ("Y", .int 2)])]] {}).map
      (fun r => match r with | some (.ok v) => some v | _ => Option.none)
    = [some (.int 1), some (.int 2), some (.dict [("X", .int 1)]), some (.dict [("X", .int 1), ("Y", .int 2)])] := by
  decide +kernel


/-! ### The full statement, reduced to fingerprint soundness -/

/-- **cache_transparent_of_fingerprint_sound.** Let `x` be a node cached in a `MemoryCache`, with caching switched on,
    whose `keys()` succeed on the dictionaries `D` of a history with fingerprint `fp o`, whose uncached outcome is
    `den o`, and whose sub-computations leave the entries of its cache alone.  If equal fingerprints imply equal
    outcomes, then after ANY finite history of evaluations on dictionaries of `D` — any order, any repetitions, one
    long-lived store that satisfied the invariant at the start (e.g. was empty) — the next evaluation returns `den o`:
    exactly what evaluation with caching switched off returns.  "Regardless of what was evaluated earlier" is the
    quantification over `hist`. -/
theorem cache_transparent_of_fingerprint_sound {env : Env} {run : Run} {x : Expr} {c : Nat} {D : V → Prop}
    {fp : V → V} {den : V → Except Err V} (H : FingerprintSound env run x c D fp den)
    (hist : List V) (hD : ∀ o ∈ hist, D o) (s : St) (hempty : s.cacheEntries c = [])
    (o : V) (ho : D o) (s1 : St)
    (hs : (hist.foldl (fun (st : Option St) oi => st.bind fun t =>
        (cachedOp env run x c .evaluate oi t).map Prod.snd) (some s)) = some s1)
    (r : Except Err V) (s2 : St) (h : cachedOp env run x c .evaluate o s1 = some (r, s2)) : r = den o :=
  cached_history_transparent H hist hD s (storeInv_empty c D fp den s hempty) o ho s1 hs r s2 h

/-! non-vacuity: the hypotheses hold of a real node under the real interpreter — `cached(Option('A'))` on the
    dictionaries `{'A': i}`, any fuel ≥ 3, every state -/
namespace C01NonVacuity
def c01tEnv : Env :=
  { β := fun f a k => .ok (.app f a k), binds := fun _ _ => .error "x", ov := fun _ => default, ds := fun _ => default,
    cacheKind := fun _ => .memory }
def oA (i : Int) : V := .dict [("A", .int i)]
def xA : Expr := .option 1 "A" Option.none Option.none
theorem sk1 : splitKey "LABREA.CACHE.DISABLED" = ["LABREA", "CACHE", "DISABLED"] := by decide +kernel
theorem sk2 : splitKey "LABREA.CACHE.DISABLE" = ["LABREA", "CACHE", "DISABLE"] := by decide +kernel
theorem sk3 : splitKey "A" = ["A"] := by decide +kernel
theorem si1 : segIndex? "LABREA" = none := by decide +kernel
theorem si2 : segIndex? "A" = none := by decide +kernel
theorem gd1 (i : Int) : getDotted "LABREA.CACHE.DISABLED" (oA i) = .keyErr := by
  simp [getDotted, oA, sk1, walk, step, si1, alookup]
theorem gd2 (i : Int) : getDotted "LABREA.CACHE.DISABLE" (oA i) = .keyErr := by
  simp [getDotted, oA, sk2, walk, step, si1, alookup]
theorem gd3 (i : Int) : getDotted "A" (oA i) = .found (.int i) := by
  simp [getDotted, oA, sk3, walk, step, si2, alookup]

theorem cd1 (i : Int) (n : Nat) (s : St) : ∃ s', cacheDisabled c01tEnv (ev c01tEnv (n + 3)) (oA i) s = some (.ok false, s') ∧ s'.E 0 = s.E 0 := by
  simp only [cacheDisabled, c01tEnv, Bool.false_eq_true]
  simp [ev, cacheDisabledOption, optFalse, nodeOp, optionOp, readKey, bind_run, emit_run, pure_run, gd1, gd2, wrapEvaluate, handle, V.truthy]
  rfl

theorem in1 (i : Int) (n : Nat) (s : St) : ∃ s', ev c01tEnv (n + 3) .evaluate xA (oA i) s = some (.ok (.int i), s') ∧ s'.E 0 = s.E 0 := by
  simp [ev, xA, c01tEnv, nodeOp, optionOp, readKey, bind_run, emit_run, pure_run, gd3, wrapEvaluate, handle, resolveM, resolveR, emitAll]
  rfl

theorem fp1 (i : Int) (n : Nat) (s : St) : ∃ s', fingerprintOf (ev c01tEnv (n + 3)) xA (oA i) s = some (.ok (.list [.dict [("A", .int i)]]), s') ∧ s'.E 0 = s.E 0 := by
  simp [fingerprintOf, ev, xA, c01tEnv, nodeOp, optionOp, existsKey, getKey, readKey, bind_run, emit_run, pure_run, gd3, templatedStrings, mapM',
    unionAll, unionV, unionKeys, keySet, dedup, V.setElems, keyStrings, sortStrings, insertSorted]
  simp [fpItems, getKey, readKey, bind_run, emit_run, pure_run, gd3]
  rfl

def vA (o : V) : V := match getDotted "A" o with | .found v => v | _ => .none

theorem optionA_fingerprint_sound (n : Nat) :
    FingerprintSound c01tEnv (ev c01tEnv (n + 3)) xA 0 (fun o => ∃ i, o = oA i)
      (fun o => .list [.dict [("A", vA o)]]) (fun o => .ok (vA o)) where
  memory := rfl
  enabled := by rintro o ⟨i, rfl⟩ s; exact cd1 i n s
  fingerprint := by
    rintro o ⟨i, rfl⟩ s
    have : vA (oA i) = .int i := by simp [vA, gd3]
    rw [this]; exact fp1 i n s
  inner := by
    rintro o ⟨i, rfl⟩ s
    have : vA (oA i) = .int i := by simp [vA, gd3]
    rw [this]; exact in1 i n s
  sufficient := by
    rintro o o' _ _ h
    simp only [V.list.injEq, List.cons.injEq, V.dict.injEq, Prod.mk.injEq, true_and, and_true] at h
    rw [h]

end C01NonVacuity


/-! ### An unconditional instance: `cached(Option(key))`, every key, every history

  The hypotheses of the reduction hold of `Option(key)` under the real interpreter for EVERY dotted key, every node id,
  every fuel ≥ 3 and every state, on the dictionaries that hold an integer under the key (and do not set the library's
  cache switches).  Hence: for any such key and any finite history of such dictionaries evaluated on one long-lived
  store, `cached(Option(key))` returns exactly what evaluation with caching switched off returns. -/
namespace C01Option

def gEnv : Env :=
  { β := fun f a k => .ok (.app f a k), binds := fun _ _ => .error "x", ov := fun _ => default, ds := fun _ => default,
    cacheKind := fun _ => .memory }

/-- the dictionaries: the option holds an integer, the library's cache switches are not set -/
def DInt (key : String) (o : V) : Prop :=
  (∃ i, getDotted key o = .found (.int i)) ∧ getDotted "LABREA.CACHE.DISABLED" o = .keyErr ∧
    getDotted "LABREA.CACHE.DISABLE" o = .keyErr

def vOf (key : String) (o : V) : V := match getDotted key o with | .found v => v | _ => .none

theorem g_cd (key : String) (o : V) (h : DInt key o) (n : Nat) (s : St) :
    ∃ s', cacheDisabled gEnv (ev gEnv (n + 3)) o s = some (.ok false, s') ∧ s'.E 0 = s.E 0 := by
  obtain ⟨_, h1, h2⟩ := h
  simp only [cacheDisabled, gEnv, Bool.false_eq_true]
  simp [ev, cacheDisabledOption, optFalse, nodeOp, optionOp, readKey, bind_run, emit_run, pure_run, h1, h2, wrapEvaluate, handle, V.truthy]
  rfl

theorem g_in (key : String) (id : Nat) (o : V) (h : DInt key o) (n : Nat) (s : St) :
    ∃ s', ev gEnv (n + 3) .evaluate (.option id key Option.none Option.none) o s = some (.ok (vOf key o), s') ∧ s'.E 0 = s.E 0 := by
  obtain ⟨⟨i, hi⟩, _, _⟩ := h
  simp [ev, gEnv, nodeOp, optionOp, readKey, bind_run, emit_run, pure_run, hi, wrapEvaluate, handle, resolveM, resolveR, emitAll, vOf]
  rfl

theorem g_fp (key : String) (id : Nat) (o : V) (h : DInt key o) (n : Nat) (s : St) :
    ∃ s', fingerprintOf (ev gEnv (n + 3)) (.option id key Option.none Option.none) o s =
      some (.ok (.list [.dict [(key, vOf key o)]]), s') ∧ s'.E 0 = s.E 0 := by
  obtain ⟨⟨i, hi⟩, _, _⟩ := h
  simp [fingerprintOf, ev, gEnv, nodeOp, optionOp, existsKey, getKey, readKey, bind_run, emit_run, pure_run, hi, templatedStrings, mapM',
    unionAll, unionV, unionKeys, keySet, dedup, V.setElems, keyStrings, sortStrings, insertSorted, vOf]
  simp [fpItems, getKey, readKey, bind_run, emit_run, pure_run, hi]
  rfl

theorem option_fingerprint_sound (key : String) (id n : Nat) :
    FingerprintSound gEnv (ev gEnv (n + 3)) (.option id key Option.none Option.none) 0 (DInt key)
      (fun o => .list [.dict [(key, vOf key o)]]) (fun o => .ok (vOf key o)) where
  memory := rfl
  enabled := fun o ho s => g_cd key o ho n s
  fingerprint := fun o ho s => g_fp key id o ho n s
  inner := fun o ho s => g_in key id o ho n s
  sufficient := by
    intro o o' _ _ h
    simp only [V.list.injEq, List.cons.injEq, V.dict.injEq, Prod.mk.injEq, true_and, and_true] at h
    rw [h]

/-- **cached_option_transparent.** For every key, every finite history `hist` of dictionaries holding an integer under
    it, evaluated one after the other on one store that was empty at the start, and every further such dictionary
    `o`: the evaluation of `cached(Option(key))` on `o` returns the option's value in `o` — whatever was evaluated
    before. -/
theorem cached_option_transparent (key : String) (id n : Nat) (hist : List V) (hD : ∀ o ∈ hist, DInt key o)
    (s : St) (hempty : s.cacheEntries 0 = []) (o : V) (ho : DInt key o) (s1 : St)
    (hs : (hist.foldl (fun (st : Option St) oi => st.bind fun t =>
        (cachedOp gEnv (ev gEnv (n + 3)) (.option id key Option.none Option.none) 0 .evaluate oi t).map Prod.snd) (some s)) = some s1)
    (r : Except Err V) (s2 : St)
    (h : cachedOp gEnv (ev gEnv (n + 3)) (.option id key Option.none Option.none) 0 .evaluate o s1 = some (r, s2)) :
    r = .ok (vOf key o) :=
  cache_transparent_of_fingerprint_sound (option_fingerprint_sound key id n) hist hD s hempty o ho s1 hs r s2 h

end C01Option


/-! ### An unconditional instance for a real dataset

  `@dataset def d(p = Option(key)): return body(p=p)` (no dispatch, no effects, identity callback, MemoryCache): the node
  its cache wraps is `dsInner` — `Logged(Computation(Apply(Overloaded, Pipeline()), []))` — and the hypotheses of the
  reduction are PROVED for it (`dataset_fingerprint_sound`, DatasetTransparency.lean) under the real interpreter, for
  every key, parameter name, body, environment of that shape, fuel and state. -/

/-- **dataset_cache_transparent.** For every dataset of that shape and every finite history of dictionaries holding an
    integer under its key (library switches unset), evaluated one after the other on one long-lived store that was
    empty at the start: the next evaluation of the dataset's cached node returns `body(p = o[key])` — exactly the
    uncached outcome — whatever was evaluated before, in whatever order, however often. -/
theorem dataset_cache_transparent {env : Env} {ovid cid : Nat} {key pname body : String} {out : Int → V}
    (H : SimpleDataset env ovid cid key pname body out) (hk : env.cacheKind cid = .memory) (n id : Nat) (msg : String)
    (hist : List V) (hD : ∀ o ∈ hist, DsDict key o) (s : St) (hempty : s.cacheEntries cid = [])
    (o : V) (ho : DsDict key o) (s1 : St)
    (hs : (hist.foldl (fun (st : Option St) oi => st.bind fun t =>
        (cachedOp env (ev env (n + 9)) (dsInner id ovid msg) cid .evaluate oi t).map Prod.snd) (some s)) = some s1)
    (r : Except Err V) (s2 : St)
    (h : cachedOp env (ev env (n + 9)) (dsInner id ovid msg) cid .evaluate o s1 = some (r, s2)) :
    r = .ok (out (intOf key o)) :=
  cache_transparent_of_fingerprint_sound (dataset_fingerprint_sound H hk n id msg) hist hD s hempty o ho s1 hs r s2 h

/-- **total version.** From every store satisfying the invariant (the empty one; any store reached by a history of such
    evaluations) the evaluation TERMINATES, with the uncached outcome, in a store satisfying the invariant again. -/
theorem cache_transparent_total {env : Env} {run : Run} {x : Expr} {c : Nat} {D : V → Prop}
    {fp : V → V} {den : V → Except Err V} (H : FingerprintSound env run x c D fp den) (o : V) (ho : D o) (s : St)
    (hinv : StoreInv c D fp den s) :
    ∃ s', cachedOp env run x c .evaluate o s = some (den o, s') ∧ StoreInv c D fp den s' := by
  obtain ⟨r, s', h1, h2, h3⟩ := (tm_cached_evaluate H o ho).run s hinv
  exact ⟨s', h3 ▸ h1, h2⟩

/-- for the dataset family: every evaluation of the dataset's cached node terminates with `body(p = o[key])` -/
theorem dataset_evaluation_total {env : Env} {ovid cid : Nat} {key pname body : String} {out : Int → V}
    (H : SimpleDataset env ovid cid key pname body out) (hk : env.cacheKind cid = .memory) (n id : Nat) (msg : String)
    (o : V) (ho : DsDict key o) (s : St)
    (hinv : StoreInv cid (DsDict key) (fun o => .list [.dict [(key, .int (intOf key o))]]) (fun o => .ok (out (intOf key o))) s) :
    ∃ s', cachedOp env (ev env (n + 9)) (dsInner id ovid msg) cid .evaluate o s = some (.ok (out (intOf key o)), s') :=
  let ⟨s', h, _⟩ := cache_transparent_total (dataset_fingerprint_sound H hk n id msg) o ho s hinv
  ⟨s', h⟩

namespace C01Dataset
/-- a concrete environment of that shape: the body is the opaque user function `load`, the parameter `n` reads `A` -/
def dEnv : Env :=
  { β := fun f a k => .ok (.app f a k), binds := fun _ _ => .error "x",
    ov := fun _ => { dispatch := .value 20 .missing, table := [], dflt := some (dsBody "A" "n" "load") },
    ds := fun _ => default, cacheKind := fun _ => .memory }

theorem dEnv_simple : SimpleDataset dEnv 1 0 "A" "n" "load" (fun i => .app "load" [] [("n", .int i)]) where
  subst := rfl
  logOn := rfl
  cacheOn := rfl
  ov := rfl
  β := fun _ => rfl

open C01NonVacuity in
theorem dDict (i : Int) : DsDict "A" (oA i) where
  int := ⟨i, gd3 i⟩
  c1 := gd1 i
  c2 := gd2 i
  l := by simp [getDotted, oA, show splitKey "LABREA.LOGGING.DISABLED" = ["LABREA", "LOGGING", "DISABLED"] by decide +kernel,
    walk, step, si1, alookup]
  e := by simp [getDotted, oA, show splitKey "LABREA.EFFECTS.DISABLED" = ["LABREA", "EFFECTS", "DISABLED"] by decide +kernel,
    walk, step, si1, alookup]
end C01Dataset

end Labrea

import LabreaModel.Eval
namespace Labrea
theorem c01_placeholder : True := trivial
end Labrea

/-
  C01 — caching is transparent: cached graphs return what uncached evaluation returns.

  FULL STATEMENT (kept visible; it is FALSE of the current tree, see the witnesses below):
    for every program e, every finite history o₁ … oₖ evaluated on one long-lived state, and every i,
    the outcome of the i-th evaluation equals the outcome of evaluating e on oᵢ with caching switched off.

  What is proved here, for every environment / expression / options / state / fuel:
    * the cache discipline of `Cached.evaluate`: a hit returns the stored entry without evaluating the inner
      expression; a miss evaluates it and stores the value under the fingerprint; a failure stores nothing;
      a store is found again under the same fingerprint and disturbs no other entry (CacheLemmas);
    * the fingerprint is a function of the reported keys and their values alone (C03);
    * with caching switched off the store is never read or written (C16) — so the reference evaluation the
      property compares with is state-independent;
    What is missing for the full statement is fingerprint soundness of every inner expression ("equal
    fingerprints ⇒ equal outcomes"): it fails at the catch positions of `coalesce` and `switch` (known
    findings F18, F19) and for brace re-substitution (F22) — the negation of the full statement is proved
    below from concrete histories, and `CacheTransparency.lean` proves the full statement under exactly that
    hypothesis.
-/
import LabreaModel.CacheLemmas
import LabreaModel.EvalLemmas
namespace Labrea

variable (env : Env) (run : Run) (x : Expr) (c : Nat) (o : V)

/-- **hit.** When the existence request says yes and the get request answers `v`, `Cached.evaluate` returns `v`
    and the inner expression is not evaluated. -/
theorem hit_returns_stored (s s1 s2 : St) (v : V) (he : existsReq env run x c o s = some (.ok true, s1))
    (hg : getReq env run x c o s1 = some (.ok v, s2)) :
    cachedOp env run x c .evaluate o s = some (.ok v, s2) :=
  cached_hit env run x c o s s1 s2 v he hg

/-- **miss.** Otherwise the inner expression is evaluated and its value goes through the set request. -/
theorem miss_computes_and_stores (s s1 : St) (he : existsReq env run x c o s = some (.ok false, s1)) :
    cachedOp env run x c .evaluate o s = (do let v ← run .evaluate x o; setReq env run x c o v) s1 :=
  cached_miss env run x c o s s1 he

/-- a failed evaluation issues no set request: nothing is stored by the failing node -/
theorem failure_stores_nothing (s s1 s2 : St) (err : Err) (he : existsReq env run x c o s = some (.ok false, s1))
    (hx : run .evaluate x o s1 = some (.error err, s2)) :
    cachedOp env run x c .evaluate o s = some (.error err, s2) :=
  cached_failure_stores_nothing env run x c o s s1 s2 err he hx

/-- what a `get` of the memory backend returns was stored under the node's fingerprint (never fabricated) -/
theorem get_returns_stored_entry (hk : env.cacheKind c = .memory) (s s' : St) (v : V)
    (h : backendGet env run x c o s = some (.ok v, s')) :
    ∃ (fp : V) (s1 : St), fingerprintOf run x o s = some (.ok fp, s1) ∧ entryLookup fp (s1.cacheEntries c) = some v :=
  memory_get_from_store env run x c o hk s s' v h

/-- the value stored under a fingerprint is the one found again under it -/
theorem stored_value_is_found (s : St) (fp v : V) :
    entryLookup fp ((s.setCacheEntries c (entryInsert fp v (s.cacheEntries c))).cacheEntries c) = some v :=
  store_then_lookup s c fp v

/-- and a store disturbs no entry under another fingerprint -/
theorem store_frame (s : St) {fp fp' : V} (h : fp' ≠ fp) (v : V) :
    entryLookup fp' ((s.setCacheEntries c (entryInsert fp v (s.cacheEntries c))).cacheEntries c) =
      entryLookup fp' (s.cacheEntries c) :=
  store_keeps_others s c h v

/-- with caching switched off, evaluation never looks at the store: the reference evaluation the property
    compares with is independent of everything evaluated earlier -/
theorem uncached_ignores_store {env : Env} (hoff : env.cacheCtxOff = true) (n : Nat) (op : Op) (e : Expr) (o : V)
    (s : St) (r : Except Err V) (s' : St) (h : ev env n op e o s = some (r, s')) :
    s'.caches = s.caches ∧ s'.scripts = s.scripts :=
  ev_ctxOff_sameStore hoff n op e o s r s' h

/-! ### the full statement is false on the current tree: concrete histories (kernel-evaluated) -/

def c01Env (off : Bool) : Env :=
  { β := fun f a _ => if f = "neg" then (match a with | [.int i] => .ok (.int (-i)) | _ => .error "TypeError")
                      else if f = "mayfail" then (match a with | [.int 1] => .error "ValueError" | _ => .ok (.str "k"))
                      else .error "TypeError",
    binds := fun _ _ => .error "x", ov := fun _ => default, ds := fun _ => default, cacheKind := fun _ => .memory,
    cacheCtxOff := off }

/-- evaluate a history on one long-lived state; return the outcomes -/
def history (env : Env) (e : Expr) : List V → St → List (Option (Except Err V))
  | [], _ => []
  | o :: os, s =>
    match ev env 40 .evaluate e o s with
    | Option.none => [Option.none]
    | some (r, s') => some r :: history env e os s'

/-- `cached(coalesce(switch('D', {1: Option('Q')}, Option('B') >> neg), Option('B')))` -/
def f18Cached : Expr :=
  .cached 10 (.coalesce 9 [ .switch 5 (.option 1 "D" Option.none Option.none) [(.int 1, .option 2 "Q" Option.none Option.none)]
                  (some (.apply 4 (.option 3 "B" Option.none Option.none) (.value 6 (.fn "neg" [] [])))),
                .option 7 "B" Option.none Option.none ]) 0

def isOk (r : Option (Except Err V)) (v : V) : Bool := match r with | some (.ok w) => decide (w = v) | _ => false

/-- **known finding F18.** `{B:5}` then `{D:1,B:5}`: the cached graph returns −5, the uncached one 5. -/
theorem c01_fails_coalesce :
    (match history (c01Env false) f18Cached [.dict [("B", .int 5)], .dict [("D", .int 1), ("B", .int 5)]] {} with
      | [a, b] => isOk a (.int (-5)) && isOk b (.int (-5))
      | _ => false) = true ∧
    (match history (c01Env true) f18Cached [.dict [("B", .int 5)], .dict [("D", .int 1), ("B", .int 5)]] {} with
      | [a, b] => isOk a (.int (-5)) && isOk b (.int 5)
      | _ => false) = true := by
  constructor <;> decide +kernel

/-- `cached(switch(Option('M','x') >> mayfail, {'k': 1}, 2))` -/
def f19Cached : Expr :=
  .cached 8 (.switch 5 (.apply 3 (.option 1 "M" (some (.value 2 (.str "x"))) Option.none) (.value 4 (.fn "mayfail" [] [])))
    [(.str "k", .value 6 (.int 1))] (some (.value 7 (.int 2)))) 0

/-- **known finding F19.** `{M:1}` (dispatch fails → default 2, stored under the empty fingerprint) then `{}`
    (dispatch succeeds → 1 uncached, but the cached graph returns the stored 2). -/
theorem c01_fails_switch_dispatch :
    (match history (c01Env false) f19Cached [.dict [("M", .int 1)], .dict []] {} with
      | [a, b] => isOk a (.int 2) && isOk b (.int 2)
      | _ => false) = true ∧
    (match history (c01Env true) f19Cached [.dict [("M", .int 1)], .dict []] {} with
      | [a, b] => isOk a (.int 2) && isOk b (.int 1)
      | _ => false) = true := by
  constructor <;> decide +kernel

/-- and a history on which transparency does hold: a dispatch value, a templated reference, a sibling inside a
    section (the situations the property names) each change the outcome of the cached graph too -/
def c01Good : Expr :=
  .cached 9 (.switch 5 (.option 1 "K" Option.none Option.none) [(.str "x", .option 2 "P" Option.none Option.none)]
    (some (.option 3 "S" Option.none Option.none))) 0

theorem c01_good_history :
    (history (c01Env false) c01Good
        [.dict [("K", .str "x"), ("P", .str "{A}"), ("A", .int 1)], .dict [("K", .str "x"), ("P", .str "{A}"), ("A", .int 2)],
         .dict [("K", .str "y"), ("S", .dict [("X", .int 1)])], .dict [("K", .str "y"), ("S", .dict [("X", .int 1), ("Y", .int 2)])]] {}).map
      (fun r => match r with | some (.ok v) => some v | _ => Option.none)
    = [some (.int 1), some (.int 2), some (.dict [("X", .int 1)]), some (.dict [("X", .int 1), ("Y", .int 2)])] := by
  decide +kernel

end Labrea

/-
  C16 — feature switches change side behaviour only, never values.
-/
import LabreaModel.EvalLemmas
import LabreaModel.MonadLemmas
namespace Labrea

/-- **cache_off_no_io.** With `labrea.cache.disabled()` active, no operation of any expression on any
    options from any state reads, writes or forgets a cache entry, and no backend call is consumed:
    the store after the run is the store before it.  (All 23 node kinds, all four operations, any fuel.) -/
theorem cache_off_no_io {env : Env} (hoff : env.cacheCtxOff = true) (n : Nat) (op : Op) (e : Expr) (o : V)
    (s : St) (r : Except Err V) (s' : St) (h : ev env n op e o s = some (r, s')) :
    s'.caches = s.caches ∧ s'.scripts = s.scripts :=
  ev_ctxOff_sameStore hoff n op e o s r s' h

/-- with caching disabled `Cached.evaluate` is the inner evaluation (it recomputes) -/
theorem cache_off_recomputes {env : Env} (hoff : env.cacheCtxOff = true) (run : Run) (x : Expr) (c : Nat) (o : V) (s : St) :
    cachedOp env run x c .evaluate o s =
      match run .evaluate x o { s with events := .req "cache_exists" x.id :: s.events } with
      | Option.none => Option.none
      | some (.error e, s') => some (.error e, s')
      | some (.ok v, s') => some (.ok v, { s' with events := .req "cache_set" x.id :: s'.events }) := by
  simp only [cachedOp, cacheLookup, existsReq, setReq, cacheDisabled, hoff, if_true, bind_run, emit_run, pure_run]
  cases hx : run .evaluate x o { s with events := .req "cache_exists" x.id :: s.events } with
  | none => simp [bind_run, hx]
  | some p => obtain ⟨r, s'⟩ := p; cases r <;> simp [bind_run, hx]

/-- a `nocache` backend never answers: `exists` is false, `get` fails, `set` stores nothing -/
theorem nocache_backend {env : Env} (run : Run) (x : Expr) (c : Nat) (o v : V) (hk : env.cacheKind c = .nocache) :
    backendExists env run x c o = pure false ∧ backendGet env run x c o = raise cacheGetFailure ∧
      backendSet env run x c o v = pure () := by
  simp [backendExists, backendGet, backendSet, hk]

/-- **effects_off_none.** When the effects switch evaluates truthy under the options, `Computation.evaluate`
    returns the value and runs no effect (no callback expression is even evaluated). -/
theorem effects_off_none (env : Env) (run : Run) (x : Expr) (effects : List Expr) (o : V) (s s1 s2 : St) (v sw : V)
    (hx : run .evaluate x o s = some (.ok v, s1))
    (hs : run .evaluate effectsDisabledOption o s1 = some (.ok sw, s2)) (ht : sw.truthy = true) :
    computationOp env run x effects .evaluate o s = some (.ok v, s2) := by
  simp [computationOp, bind_run, hx, hs, ht]

/-- the value of a `Computation` is the value of its body, effects on or off -/
theorem effects_preserve_value (env : Env) (run : Run) (x : Expr) (effects : List Expr) (o : V) (s s' : St) (w : V)
    (h : computationOp env run x effects .evaluate o s = some (.ok w, s')) :
    ∃ s1, run .evaluate x o s = some (.ok w, s1) := by
  simp only [computationOp, bind_run] at h
  cases hx : run .evaluate x o s with
  | none => simp [hx] at h
  | some p =>
    obtain ⟨r, s1⟩ := p
    cases r with
    | error e => simp [hx] at h
    | ok v =>
      refine ⟨s1, ?_⟩
      simp only [hx] at h
      cases hs : run .evaluate effectsDisabledOption o s1 with
      | none => simp [hs] at h
      | some q =>
        obtain ⟨r2, s2⟩ := q
        cases r2 with
        | error e => simp [hs] at h
        | ok sw =>
          simp only [hs, pure_run] at h
          by_cases ht : sw.truthy = true
          · simp [ht] at h; rw [h.1]
          · simp only [ht] at h
            cases hf : forM' (fun cb => do
                  let f ← run .evaluate cb o
                  let _ ← call env f [v] []
                  pure ()) effects s2 with
            | none => simp [bind_run, hf] at h
            | some q2 =>
              obtain ⟨r3, s3⟩ := q2
              cases r3 <;> simp [bind_run, hf] at h
              rw [h.1]

/-- **logging_off_none.** Under `labrea.logging.disabled()` a `Logged` node issues its log request and
    emits nothing; otherwise exactly one record per evaluation, unless the option switch is truthy. -/
theorem logging_ctx_off (env : Env) (run : Run) (n id : Nat) (x : Expr) (msg : String) (o : V) (s : St)
    (hoff : env.logCtxOff = true) :
    nodeOp env run n .evaluate (.logged id x msg) o s =
      run .evaluate x o { s with events := .req "log" x.id :: s.events } := by
  simp [nodeOp, bind_run, hoff]

theorem logging_one_request_per_evaluation (env : Env) (run : Run) (n id : Nat) (x : Expr) (msg : String) (o : V) (s s1 : St) (sw : V)
    (hon : env.logCtxOff = false)
    (hs : run .evaluate loggingDisabledOption o { s with events := .req "log" x.id :: s.events } = some (.ok sw, s1)) :
    nodeOp env run n .evaluate (.logged id x msg) o s =
      run .evaluate x o { s1 with events := .log msg (!sw.truthy) :: s1.events } := by
  simp [nodeOp, bind_run, hon, hs]

/-- the run appended events to the log, none of them a log record (emitted or suppressed) -/
def NoNewLog (s s' : St) : Prop := ∃ l, s'.events = l ++ s.events ∧ ∀ e ∈ l, e.isLog = false

theorem noNewLog_rel : CacheRel NoNewLog where
  refl _ := ⟨[], rfl, by simp⟩
  trans := fun ⟨l1, h1, q1⟩ ⟨l2, h2, q2⟩ => ⟨l2 ++ l1, by rw [h2, h1, List.append_assoc], by
    intro e he; rcases List.mem_append.mp he with h | h
    · exact q2 e h
    · exact q1 e h⟩
  emit _ ev hq := ⟨[ev], rfl, by simpa using hq⟩
  setCache s c es := ⟨[], by unfold St.setCacheEntries; split <;> rfl, by simp⟩
  setScripts _ _ := ⟨[], rfl, by simp⟩

/-- **logging_off_silent.** Under `with labrea.logging.disabled():` no operation of any expression (all
    23 node kinds, datasets with any nesting of `Logged` wrappers included), on any options, from any
    state, with caches on or off, produces a log record — not even one suppressed by the option switch:
    the `LABREA.LOGGING.DISABLED` option is not consulted at all. -/
theorem logging_off_silent {env : Env} (hoff : env.logCtxOff = true) (n : Nat) (op : Op) (e : Expr) (o : V)
    (s : St) (r : Except Err V) (s' : St) (h : ev env n op e o s = some (r, s')) :
    ∃ l, s'.events = l ++ s.events ∧ ∀ e ∈ l, e.isLog = false :=
  ((spec_ev noNewLog_rel truePred env (Or.inl hoff) n op e o).run s r s' h).1

/-- validate / keys / explain never log, logging on or off (they are not evaluations) -/
theorem inspection_of_logged_never_logs (env : Env) (run : Run) (n id : Nat) (x : Expr) (msg : String) (o : V) (op : Op)
    (hop : op ≠ .evaluate) : nodeOp env run n op (.logged id x msg) o = run op x o := by
  cases op <;> simp [nodeOp] at hop ⊢

/-! non-vacuity: the cache-off hypothesis is satisfiable and the run terminates -/
def c16Env : Env :=
  { β := fun f a k => .ok (.app f a k), binds := fun _ _ => .error "x", ov := fun _ => default,
    ds := fun _ => default, cacheKind := fun _ => .memory, cacheCtxOff := true }

example : c16Env.cacheCtxOff = true := rfl

/-- non-vacuity of `logging_off_silent`: a logged node under the context manager terminates and its
    event log holds the log *request* only; with the context manager off the same node logs -/
example : (ev { c16Env with logCtxOff := true } 6 .evaluate (.logged 2 (.value 1 (.int 7)) "m") (.dict []) {}).map
    (fun p => p.2.events.any Event.isLog) = some false := by decide +kernel
example : (ev c16Env 6 .evaluate (.logged 2 (.value 1 (.int 7)) "m") (.dict []) {}).map
    (fun p => p.2.events.any Event.isLog) = some true := by decide +kernel
example : (ev c16Env 5 .evaluate (.cached 2 (.value 1 (.int 7)) 0) (.dict []) {}).isSome = true := by decide +kernel

/-! ### The option spellings of the switches are options like any other: references resolve

  `Option("LABREA.CACHE.DISABLED", …)` is evaluated through `Option.evaluate`, which resolves templates: a switch given as
  `"{DEBUG}"` is on exactly when `DEBUG` resolves to a truthy value (a direct dictionary lookup would see the non-empty
  string and switch caching off although the switch is off). -/

theorem resolve_reference_step (n : Nat) (k : String) (o v : V) (r : Except RErr V) (rd : List String)
    (hf : findKeys ("{" ++ k ++ "}") = [k]) (hg : getDotted k o = .found v) (hr : resolveR n v o = some (r, rd)) :
    resolveR (n + 1) (.str ("{" ++ k ++ "}")) o = some (r, k :: rd) := by
  simp [resolveR, hf, hg, hr]

/-- an Option whose value is a whole-string reference `"{K}"` evaluates to what `K` resolves to (here: a value that
    resolves to itself — a boolean, a number, None, a brace-free string), whatever its default -/
theorem option_reference_resolves (env : Env) (hsub : env.subst = Option.none) (n : Nat) (o : V) (id : Nat) (key : String)
    (dflt : Option Expr) (k : String) (d : V)
    (hf : findKeys ("{" ++ k ++ "}") = [k])
    (h1 : getDotted key o = .found (.str ("{" ++ k ++ "}")))
    (h2 : getDotted k o = .found d) (hd : resolveR (n + 1) d o = some (.ok d, [])) (s : St) :
    ∃ s', ev env (n + 3) .evaluate (.option id key dflt Option.none) o s = some (.ok d, s') := by
  have hr := resolve_reference_step (n + 1) k o d (.ok d) [] hf h2 hd
  simp [ev, hsub, nodeOp, optionOp, readKey, bind_run, emit_run, pure_run, h1, wrapEvaluate, handle, resolveM, hr, emitAll]

theorem cache_switch_follows_reference (env : Env) (hoff : env.cacheCtxOff = false) (hsub : env.subst = Option.none)
    (n : Nat) (o : V) (k : String) (d : V)
    (hf : findKeys ("{" ++ k ++ "}") = [k])
    (h1 : getDotted "LABREA.CACHE.DISABLED" o = .found (.str ("{" ++ k ++ "}")))
    (h2 : getDotted k o = .found d) (hd : resolveR (n + 1) d o = some (.ok d, [])) (s : St) :
    ∃ s', cacheDisabled env (ev env (n + 3)) o s = some (.ok d.truthy, s') := by
  obtain ⟨s', hs'⟩ := option_reference_resolves env hsub n o (tid 0 1) "LABREA.CACHE.DISABLED"
    (some (optFalse (tid 0 2) "LABREA.CACHE.DISABLE" (.value (tid 0 3) (.bool false)))) k d hf h1 h2 hd s
  refine ⟨s', ?_⟩
  simp only [cacheDisabled, hoff, Bool.false_eq_true, if_false, cacheDisabledOption, optFalse] at *
  simp [bind_run, hs', pure_run]

/-- the second spelling: `LABREA.CACHE.DISABLED` absent, `LABREA.CACHE.DISABLE` a reference -/
theorem cache_switch_second_spelling_follows_reference (env : Env) (hoff : env.cacheCtxOff = false) (hsub : env.subst = Option.none)
    (n : Nat) (o : V) (k : String) (d : V)
    (hf : findKeys ("{" ++ k ++ "}") = [k])
    (h0 : getDotted "LABREA.CACHE.DISABLED" o = .keyErr)
    (h1 : getDotted "LABREA.CACHE.DISABLE" o = .found (.str ("{" ++ k ++ "}")))
    (h2 : getDotted k o = .found d) (hd : resolveR (n + 1) d o = some (.ok d, [])) (s : St) :
    ∃ s', cacheDisabled env (ev env (n + 4)) o s = some (.ok d.truthy, s') := by
  simp only [cacheDisabled, hoff, Bool.false_eq_true, if_false, cacheDisabledOption, optFalse]
  have hr := resolve_reference_step (n + 1) k o d (.ok d) [] hf h2 hd
  simp [ev, hsub, nodeOp, optionOp, readKey, bind_run, emit_run, pure_run, h0, h1, wrapEvaluate, handle, resolveM, hr, emitAll]

theorem effects_switch_follows_reference (env : Env) (hsub : env.subst = Option.none)
    (n : Nat) (o : V) (k : String) (d : V)
    (hf : findKeys ("{" ++ k ++ "}") = [k])
    (h1 : getDotted "LABREA.EFFECTS.DISABLED" o = .found (.str ("{" ++ k ++ "}")))
    (h2 : getDotted k o = .found d) (hd : resolveR (n + 1) d o = some (.ok d, [])) (s : St) :
    ∃ s', ev env (n + 3) .evaluate effectsDisabledOption o s = some (.ok d, s') :=
  option_reference_resolves env hsub n o _ _ _ k d hf h1 h2 hd s

theorem logging_switch_follows_reference (env : Env) (hsub : env.subst = Option.none)
    (n : Nat) (o : V) (k : String) (d : V)
    (hf : findKeys ("{" ++ k ++ "}") = [k])
    (h1 : getDotted "LABREA.LOGGING.DISABLED" o = .found (.str ("{" ++ k ++ "}")))
    (h2 : getDotted k o = .found d) (hd : resolveR (n + 1) d o = some (.ok d, [])) (s : St) :
    ∃ s', ev env (n + 3) .evaluate loggingDisabledOption o s = some (.ok d, s') :=
  option_reference_resolves env hsub n o _ _ _ k d hf h1 h2 hd s

/-- the hypotheses are satisfiable: `{'LABREA': {'CACHE': {'DISABLED': '{DEBUG}'}}, 'DEBUG': False}` — caching is NOT
    disabled -/
example (env : Env) (hoff : env.cacheCtxOff = false) (hsub : env.subst = Option.none) (s : St) :
    ∃ s', cacheDisabled env (ev env 3)
      (.dict [("DEBUG", .bool false), ("LABREA", .dict [("CACHE", .dict [("DISABLED", .str "{DEBUG}")])])]) s
      = some (.ok false, s') :=
  cache_switch_follows_reference env hoff hsub 0 _ "DEBUG" (.bool false) (by decide) (by decide) (by decide) (by simp [resolveR]) s


/-- an Option whose key is present with a value that resolves to itself (a boolean, a number, None, a brace-free
    string) evaluates to that value, whatever its default -/
theorem option_present_literal (env : Env) (hsub : env.subst = Option.none) (n : Nat) (o : V) (id : Nat) (key : String)
    (dflt : Option Expr) (d : V) (h1 : getDotted key o = .found d) (hd : resolveR (n + 2) d o = some (.ok d, [])) (s : St) :
    ∃ s', ev env (n + 3) .evaluate (.option id key dflt Option.none) o s = some (.ok d, s') := by
  simp [ev, hsub, nodeOp, optionOp, readKey, bind_run, emit_run, pure_run, h1, wrapEvaluate, handle, resolveM, hd, emitAll]

/-- **cache_switch_documented_spelling_decides.** Whenever `LABREA.CACHE.DISABLED` is present, it alone decides —
    also when it is falsy and the other spelling `LABREA.CACHE.DISABLE` is truthy (`a or b` would get this wrong). -/
theorem cache_switch_documented_spelling_decides (env : Env) (hoff : env.cacheCtxOff = false) (hsub : env.subst = Option.none)
    (n : Nat) (o : V) (d : V) (h1 : getDotted "LABREA.CACHE.DISABLED" o = .found d)
    (hd : resolveR (n + 2) d o = some (.ok d, [])) (s : St) :
    ∃ s', cacheDisabled env (ev env (n + 3)) o s = some (.ok d.truthy, s') := by
  obtain ⟨s', hs'⟩ := option_present_literal env hsub n o (tid 0 1) "LABREA.CACHE.DISABLED"
    (some (optFalse (tid 0 2) "LABREA.CACHE.DISABLE" (.value (tid 0 3) (.bool false)))) d h1 hd s
  refine ⟨s', ?_⟩
  simp only [cacheDisabled, hoff, Bool.false_eq_true, if_false, cacheDisabledOption, optFalse] at *
  simp [bind_run, hs', pure_run]

/-- `{'LABREA': {'CACHE': {'DISABLED': False, 'DISABLE': True}}}`: caching is NOT disabled -/
example (env : Env) (hoff : env.cacheCtxOff = false) (hsub : env.subst = Option.none) (s : St) :
    ∃ s', cacheDisabled env (ev env 3)
      (.dict [("LABREA", .dict [("CACHE", .dict [("DISABLED", .bool false), ("DISABLE", .bool true)])])]) s
      = some (.ok false, s') :=
  cache_switch_documented_spelling_decides env hoff hsub 0 _ (.bool false) (by decide) (by simp [resolveR]) s

end Labrea

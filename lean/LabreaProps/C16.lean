import LabreaModel.Eval
namespace Labrea
theorem c16_placeholder : True := trivial
end Labrea

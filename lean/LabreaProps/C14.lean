/-
  C14 — handler scoping.  Theorems over `RuntimeSM` (lean/LabreaModel/RuntimeSM.lean): histories
  are block trees of one thread, of any length and nesting; states, environments and runtime
  objects are arbitrary.  Helper lemmas live in the model file.
-/
import LabreaModel.RuntimeSM

namespace Labrea.C14
open Labrea.RuntimeSM

/-! ## Leaving a block restores the prior runtime -/

/-- `block_restores`.  Executing `with env x { body }` by thread `t` from ANY state `s` — whatever
    the body does (any nesting, re-entering `env x` or any other active object, raising anywhere),
    whether the block is left normally or by exception, whether or not `t` had a runtime — ends in
    a state whose current runtime of `t` is exactly the one in `s` (`none` = "no slot" is restored
    as `none`), and every saved-runtime stack of every object is as it was, so enclosing blocks
    restore correctly as well.  Remark: the body never forces the allocation of `t`'s base runtime,
    because inside the block `t`'s slot holds the entered object (`inside_block_slot_set`). -/
theorem block_restores (t : Thread) (x : Var) (body : Block) (env : Env) (s : State) :
    (execWith t x body env s).cur t = s.cur t ∧
    ∀ (r : Id) (t' : Thread), ((execWith t x body env s).objs r).entered t' = (s.objs r).entered t' :=
  ⟨execWith_cur t x body env s, execWith_entered t x body env s⟩

/-- `execWith` is the state in which the code after the block continues (or through which the
    exception propagates): the block-tree semantics passes through it in both cases. -/
theorem block_restores_in_exec (t : Thread) (x : Var) (body : Block) (env : Env) (s : State) :
    (exec t (.with_ x body .done) env s).st.cur t = s.cur t := by
  rw [exec_with_done]; exact execWith_cur t x body env s

/-- a thread that had no runtime has none after the block (the slot is removed, not set to None) -/
theorem block_restores_unset (t : Thread) (x : Var) (body : Block) (env : Env) (s : State)
    (h : s.cur t = none) : (execWith t x body env s).cur t = none := by
  rw [execWith_cur]; exact h

/-- inside a block the thread's slot is set: `current_runtime()` returns the entered object and
    allocates nothing, at any depth of the body -/
theorem inside_block_slot_set (t : Thread) (x : Var) (body : Block) (env : Env) (s : State) :
    (step s t (.enter (env x))).1.cur t = some (env x) ∧
    ((exec t body env (step s t (.enter (env x))).1).st.cur t).isSome := by
  have h : (step s t (.enter (env x))).1.cur t = some (env x) := by simp [step]
  exact ⟨h, exec_cur_isSome t body env _ (by rw [h]; rfl)⟩

/-! ## Requests are served by the top of the stack -/

/-- `refines_stack`.  The implementation state (saved runtimes scattered over the entered objects,
    one stack per object and thread) refines the specification state (ONE stack of frames per
    thread): from related states a history ends in related states, with the same variable
    bindings, the same observations and the same pending exception. -/
theorem refines_stack (t : Thread) (b : Block) (env : Env) (c0 c : State) (a : AState)
    (h : Refines c0 c a) :
    Refines c0 (exec t b env c).st (aexec t b env a).st ∧
    (aexec t b env a).obs = (exec t b env c).obs ∧
    (aexec t b env a).env = (exec t b env c).env ∧
    (aexec t b env a).raised = (exec t b env c).raised :=
  exec_refines t b env c0 c a h

/-- `served_by_top`.  From any state, the observations of a history (which handler answered each
    request, or TypeError; each probe of the current runtime) are those of the stack
    specification started with an empty stack on that state.  In the specification a request of
    type `ty` is answered by `spec_run`: the handler the innermost entered-and-not-exited runtime
    holds for `ty`, else the live default, else TypeError. -/
theorem served_by_top (t : Thread) (b : Block) (env : Env) (s : State) :
    (exec t b env s).obs = (aexec t b env (absInit s)).obs :=
  ((exec_refines t b env s s (absInit s) (refines_init s)).2.1).symm

/-- what the specification answers: with `top` the innermost runtime entered by `t` and not yet
    exited (the slot value), the handler `top` holds, else the live default, else TypeError -/
theorem spec_run (a : AState) (t : Thread) (ty : Ty) (top : Id) (h : a.cur t = some top) :
    (astep a t (.run ty)).2 = serve a.defaults (a.handlers top) ty ∧ (astep a t (.run ty)).1 = a := by
  simp [astep, acurrent, h]

/-- a thread without runtime gets a base runtime holding a snapshot of the defaults; the request is
    then answered by the live default, else TypeError -/
theorem spec_run_unset (a : AState) (t : Thread) (ty : Ty) (h : a.cur t = none) :
    (astep a t (.run ty)).2 = serve a.defaults a.defaults ty := by
  simp [astep, acurrent, h, aalloc]

/-- in the specification, entering pushes a frame and makes the entered runtime the top;
    exiting pops the frame and makes the runtime saved in it the top -/
theorem spec_enter_exit (a : AState) (t : Thread) (r : Id) :
    (astep a t (.enter r)).1.cur t = some r ∧
    (astep a t (.enter r)).1.frames t = (r, a.cur t) :: a.frames t ∧
    (astep (astep a t (.enter r)).1 t (.exit r)).1.cur t = a.cur t ∧
    (astep (astep a t (.enter r)).1 t (.exit r)).1.frames t = a.frames t := by
  simp [astep]

/-- a derived runtime holds its overrides, else the handlers of the runtime it was derived from,
    else (`Runtime.__init__`) the defaults registered when it was derived -/
theorem derived_handlers (s : State) (t : Thread) (r : Id) (hs : Table) (ty : Ty) :
    ((step s t (.derive r hs)).1.objs (t, s.next t)).handlers.lookup ty =
      (hs.lookup ty).or (((s.objs r).handlers.lookup ty).or (s.defaults.lookup ty)) := by
  simp [step, alloc, List.lookup_append]

/-! ## Deriving is pure -/

/-- `derive_pure`.  `r.handle(hs)` creates one new object and changes nothing else: every existing
    object (the receiver included) — handlers and saved stacks —, every thread's current runtime
    and the defaults are untouched; the result is the new object. -/
theorem derive_pure (s : State) (t : Thread) (r : Id) (hs : Table) :
    (∀ r', Allocated s r' → (step s t (.derive r hs)).1.objs r' = s.objs r') ∧
    (step s t (.derive r hs)).1.cur = s.cur ∧
    (step s t (.derive r hs)).1.defaults = s.defaults ∧
    (step s t (.derive r hs)).2 = .id (t, s.next t) ∧
    ¬ Allocated s (t, s.next t) := by
  refine ⟨fun r' h => alloc_objs_of_allocated s t _ r' h, rfl, rfl, rfl, ?_⟩
  simp [Allocated]

/-- no operation at all, and hence no history, alters the handler table of an existing runtime -/
theorem handlers_never_change (t : Thread) (b : Block) (env : Env) (s : State) (r : Id)
    (h : Allocated s r) : ((exec t b env s).st.objs r).handlers = (s.objs r).handlers :=
  (exec_handlers t b env s r h).1

/-! ## Non-vacuity: concrete histories -/

/-- empty world: no defaults, no objects, no thread has a runtime -/
def s0 : State := ⟨[], fun _ => ⟨[], fun _ => []⟩, fun _ => 0, fun _ => none⟩
def env0 : Env := fun _ => (99, 99)

/-- thread 0 has a base runtime (0,0), default `7 ↦ 70` registered -/
def s1 : State := (step (step s0 0 (.registerDefault 7 70)).1 0 .current).1

/-- `x0 = handle({7: 71}); with x0: with x0: run 7; raise` under try; run 7; probe` — re-entry
    of an active object, left by exception -/
def hist1 : Block :=
  .op (.handleCur 0 [(7, 71)]) <|
  .try_ (.with_ 0 (.with_ 0 (.op (.run 7) .raise) .done) .done) <|
  .op (.run 7) <| .op (.run 8) <| .op .probe .done

example : (exec 0 hist1 env0 s1).obs =
    [.bound 0 (0, 1), .served 71, .served 70, .typeError, .cur (some (0, 0))] := by decide

/-- fresh thread 5 (no runtime): enter a runtime made elsewhere, leave, slot is gone again -/
example : (execWith 5 0 (.op (.run 7) .done) (fun _ => (0, 0)) s1).cur 5 = none := by decide
example : (exec 5 (.with_ 0 (.op (.run 7) .done) (.op .probe .done)) (fun _ => (0, 0)) s1).obs =
    [.served 70, .cur none] := by decide

/-- a default registered after the runtime was created is seen (live defaults) -/
example : (exec 0 (.op (.registerDefault 8 80) (.op (.run 8) .done)) env0 s1).obs = [.served 80] := by decide

/-- the refinement hypothesis is satisfiable: every state refines its own abstraction -/
example : Refines s1 s1 (absInit s1) := refines_init s1

/-- `derive_pure` talks about existing objects: (0,0) exists in `s1` -/
example : Allocated s1 (0, 0) := by unfold Allocated; decide

/-! ## The OLD code (one `previous` field per object) violates `block_restores` -/

def old1 : OldState := ⟨fun t => if t = 0 then .some (0, 0) else .unset, fun _ => none⟩

/-- F1: re-entering an active object: after `with r: with r: pass` the thread's slot holds `None`
    instead of the base runtime (0,0) -/
theorem old_violates_block_restores_reentry :
    (exitOld (exitOld (enterOld (enterOld old1 0 (0, 1)) 0 (0, 1)) 0 (0, 1)) 0 (0, 1)).cur 0 ≠ old1.cur 0 := by
  decide

/-- F2: a thread without runtime: after `with r: pass` the slot holds `None` instead of being absent -/
theorem old_violates_block_restores_fresh_thread :
    (exitOld (enterOld old1 5 (0, 1)) 5 (0, 1)).cur 5 ≠ old1.cur 5 := by
  decide

/-- the repaired machine restores on exactly these histories (instances of `block_restores`) -/
example : (execWith 0 0 (.with_ 0 .done .done) (fun _ => (0, 0)) s1).cur 0 = s1.cur 0 := by decide
example : (execWith 5 0 .done (fun _ => (0, 0)) s1).cur 5 = s1.cur 5 := by decide

end Labrea.C14

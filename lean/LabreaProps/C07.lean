/-
  C07 — overload and interface dispatch select exactly the registered implementation.

  All statements are about the state machine of LabreaModel/InterfaceSM.lean and hold for every
  environment `env` of opaque implementations / dispatch datasets / callbacks, every state and
  every history (lists of operations of any length); the model is tied to labrea by the
  differential check harness/props/C07.py.

  Reading guide (property text -> theorem):
  * "evaluates the implementation registered under the current dispatch value, the default when
     unregistered or undeterminable, fails if abstract"          -> `dispatch_selects`
  * "registrations made at any time apply to every later evaluation that was not already stored"
       -> `late_registration_invariant`, `late_registration_eval`, `late_registration`
  * "the callback applies to every implementation"
       -> `callback_every_impl`, `callback_every_impl_history`
  * "a value stored for one dispatch value is never returned for another"
       -> `no_cross_dispatch_fp`, `no_cross_dispatch`   (+ the two witnesses that the hypotheses
          are needed: `set_dispatch_collision` is known finding F24)
  * "all members of an interface resolve to the same alias, members without an override use the
     interface's default"            -> `interface_consistent`, `interface_default_members`
  * "an implementation that omits an abstract member or names an unknown one is rejected when it
     is defined and registers nothing"
       -> `impl_all_or_nothing`, `impl_unknown_member_rejected`, `impl_missing_abstract_rejected`,
          `old_code_violates_all_or_nothing`
-/
import LabreaModel.InterfaceLemmas
namespace Labrea.Iface.C07
open Labrea Labrea.Iface

/-! ## concrete data for the non-vacuity examples -/

/-- implementation `i` returns `(i, A?)` and reads option `A` when present; callbacks tag -/
def env0 : Env where
  implVal := fun i o => match alookup "A" o with
    | some v => .ok (.tuple [.int i, v])
    | Option.none => .ok (.tuple [.int i])
  implKeys := fun _ o => match alookup "A" o with
    | some _ => .ok ["A"]
    | Option.none => .ok []
  dispVal := fun _ o => match alookup "Q" o with
    | some v => .ok v
    | Option.none => .error (.keyNotFound "Q")
  dispKeys := fun _ o => match alookup "Q" o with
    | some _ => .ok ["Q"]
    | Option.none => .error (.keyNotFound "Q")
  cb := fun f v => .tuple [.str "cb", .int f, v]

def ax : Alias := .atom (.str "x")
def ay : Alias := .atom (.str "y")
def ox : Opts := [("K", .str "x")]
def oy : Opts := [("K", .str "y")]

/-- a dataset with default 0 and callback 9, `x -> 1`, evaluated, `x` re-registered to 2,
    `y -> 3` registered late, evaluated again under x (stored), y (late registration visible),
    z (default) and without K (default, dispatch undetermined) -/
def hist0 : List Op :=
  [ .newDs 0 (.key "K") (some 0) (some 9),
    .register 0 ax 1,
    .evaluate 0 ox,
    .register 0 ax 2,
    .overload [(0, [ay, .atom (.int 1)])] 3,
    .evaluate 0 ox,
    .evaluate 0 oy,
    .evaluate 0 [("K", .bool true)],
    .evaluate 0 [("K", .str "z")],
    .evaluate 0 [] ]

def cbv (i : Int) : V := .tuple [.str "cb", .int 9, .tuple [.int i]]

example : (runObs env0 St.init hist0).drop 2 =
    [ .eval ⟨.ok (cbv 1), false, some [("K", some (.str "x"))]⟩,
      .done, .done,
      .eval ⟨.ok (cbv 1), true, some [("K", some (.str "x"))]⟩,     -- stored before the re-registration
      .eval ⟨.ok (cbv 3), false, some [("K", some (.str "y"))]⟩,    -- late registration visible
      .eval ⟨.ok (cbv 3), false, some [("K", some (.bool true))]⟩,  -- True == 1
      .eval ⟨.ok (cbv 0), false, some [("K", some (.str "z"))]⟩,    -- unregistered: default
      .eval ⟨.ok (cbv 0), false, some []⟩ ] := by decide            -- undetermined: default

/-! ## dispatch_selects -/

/-- **dispatch_selects.**  With nothing stored, evaluating a dataset yields the cold value `den`
    of its current configuration, and `den` is: the callback applied to the implementation
    registered under the current dispatch value; to the default when that value is unregistered;
    `SwitchError` when there is no default; when the dispatch cannot be evaluated, the callback
    applied to the default, or the dispatch's own error when there is none.
    (`hk`: the chosen implementation's `keys()` succeed — when they fail, so does the
    evaluation, with that error.) -/
theorem dispatch_selects (env : Env) (s : St) (d : DsId) (r : DsRec) (o : Opts)
    (hr : s.ds d = some r) (hcold : r.cache = []) :
    ((evalDs env s d o).1.res = den env r.toCfg o ∧ (evalDs env s d o).1.hit = false) ∧
    (∀ v a i, r.dispatch.eval env o = .ok v → aliasOf v = some a → tlookup a r.table = some i →
        (∃ ks, withDispatchKeys env r.toCfg o i = .ok ks) →
        den env r.toCfg o = (env.implVal i o).map (applyCb env r.callback)) ∧
    (∀ v a i, r.dispatch.eval env o = .ok v → aliasOf v = some a →
        tlookup a r.table = Option.none → r.default = some i →
        (∃ ks, withDispatchKeys env r.toCfg o i = .ok ks) →
        den env r.toCfg o = (env.implVal i o).map (applyCb env r.callback)) ∧
    (∀ v a, r.dispatch.eval env o = .ok v → aliasOf v = some a →
        tlookup a r.table = Option.none → r.default = Option.none →
        den env r.toCfg o = .error (.switchError a)) ∧
    (∀ e i, r.dispatch.eval env o = .error e → r.default = some i →
        (∃ ks, env.implKeys i o = .ok ks) →
        den env r.toCfg o = (env.implVal i o).map (applyCb env r.callback)) ∧
    (∀ e, r.dispatch.eval env o = .error e → r.default = Option.none →
        den env r.toCfg o = .error e) := by
  refine ⟨?_, ?_, ?_, ?_, ?_, ?_⟩
  · rcases evalDs_res env s d o r hr with ⟨fp, v, _, hg, _, _⟩ | ⟨_, h1, h2⟩
    · rw [hcold] at hg; simp [aget] at hg
    · exact ⟨h1, h2⟩
  · intro v a i hv ha hl ⟨ks, hk⟩
    have hv' : r.toCfg.dispatch.eval env o = .ok v := hv
    have hl' : tlookup a r.toCfg.table = some i := hl
    simp only [den, select, hv', ha, hl', chosenKeys, hk, Choice.impl]
    cases env.implVal i o <;> rfl
  · intro v a i hv ha hl hd ⟨ks, hk⟩
    have hv' : r.toCfg.dispatch.eval env o = .ok v := hv
    have hl' : tlookup a r.toCfg.table = Option.none := hl
    have hd' : r.toCfg.default = some i := hd
    simp only [den, select, hv', ha, hl', hd', chosenKeys, hk, Choice.impl]
    cases env.implVal i o <;> rfl
  · intro v a hv ha hl hd
    have hv' : r.toCfg.dispatch.eval env o = .ok v := hv
    have hl' : tlookup a r.toCfg.table = Option.none := hl
    have hd' : r.toCfg.default = Option.none := hd
    simp only [den, select, hv', ha, hl', hd']
  · intro e i he hd ⟨ks, hk⟩
    have he' : r.toCfg.dispatch.eval env o = .error e := he
    have hd' : r.toCfg.default = some i := hd
    simp only [den, select, he', hd', chosenKeys, hk, Choice.impl]
    cases env.implVal i o <;> rfl
  · intro e he hd
    have he' : r.toCfg.dispatch.eval env o = .error e := he
    have hd' : r.toCfg.default = Option.none := hd
    simp only [den, select, he', hd']

/-- non-vacuity: a cold dataset whose dispatch value is registered (all hypotheses of the first
    clause hold) -/
example : ∃ (s : St) (r : DsRec), s.ds 0 = some r ∧ r.cache = [] ∧
    r.dispatch.eval env0 ox = .ok (.str "x") ∧ aliasOf (.str "x") = some ax ∧
    tlookup ax r.table = some 1 ∧ (∃ ks, withDispatchKeys env0 r.toCfg ox 1 = .ok ks) ∧
    (evalDs env0 s 0 ox).1.res = .ok (cbv 1) :=
  ⟨run env0 St.init (hist0.take 2), ⟨⟨.key "K", [(ax, 1)], some 0, some 9⟩, []⟩,
    by decide, rfl, by decide, by decide, by decide, ⟨["K"], by decide⟩, by decide⟩

/-- non-vacuity of the abstract clauses: `SwitchError` and the dispatch's own error -/
example : den env0 ⟨.key "K", [], Option.none, Option.none⟩ ox = .error (.switchError ax) ∧
    den env0 ⟨.key "K", [], Option.none, Option.none⟩ [] = .error (.keyNotFound "K") := by decide

/-! ## late_registration -/

/-- **late_registration (invariant).**  In every history, every stored entry of every dataset
    is the cold value — under exactly its fingerprint — of a configuration (dispatch, table,
    default, callback) that the dataset had at some earlier point `h'` of the history. -/
theorem late_registration_invariant (env : Env) (h : List Op) (d : DsId) (r : DsRec)
    (e : Fingerprint × V) (hr : (run env St.init h).ds d = some r) (he : e ∈ r.cache) :
    ∃ h' r' o', h' <+: h ∧ (run env St.init h').ds d = some r' ∧
      fingerprint env r'.toCfg o' = .ok e.1 ∧ den env r'.toCfg o' = .ok e.2 := by
  have h0 : Stored env (fun _ _ => False) St.init := by
    intro d r hr; simp [St.init] at hr
  obtain ⟨c, o', hp, h1, h2⟩ := stored_run h St.init _ h0 d r hr e he
  rcases hp with hp | ⟨h', r', hpre, hr', hc⟩
  · exact absurd hp id
  · subst hc; exact ⟨h', r', o', hpre, hr', h1, h2⟩

/-- **late_registration (evaluation).**  In any state an evaluation returns either the entry
    stored under its fingerprint, or — when nothing is stored under it — the cold value under
    the *current* tables. -/
theorem late_registration_eval (env : Env) (s : St) (d : DsId) (o : Opts) (r : DsRec)
    (hr : s.ds d = some r) :
    (∃ fp v, fingerprint env r.toCfg o = .ok fp ∧ aget fp r.cache = some v ∧
        (evalDs env s d o).1.res = .ok v ∧ (evalDs env s d o).1.hit = true) ∨
    ((∀ fp, fingerprint env r.toCfg o = .ok fp → aget fp r.cache = Option.none) ∧
        (evalDs env s d o).1.res = den env r.toCfg o ∧ (evalDs env s d o).1.hit = false) :=
  evalDs_res env s d o r hr

/-- **late_registration.**  After `register d a i` at any point of a history, and any further
    operations that do not re-register an alias Python-equal to `a` on `d` (nor re-create `d`),
    `a` is still bound to `i`; whenever the dispatch evaluates to a value equal to `a` the
    selection is `i`, and an evaluation whose fingerprint is not stored returns the callback
    applied to `i`'s value. -/
theorem late_registration (env : Env) (s : St) (d : DsId) (a : Alias) (i : ImplId)
    (h : List Op) (o : Opts) (r0 : DsRec) (hex : s.ds d = some r0)
    (hno : NoOverwriteAll d a h) :
    ∃ r', (run env (step env s (.register d a i)).1 h).ds d = some r' ∧
      tlookup a r'.table = some i ∧
      ∀ v a', r'.dispatch.eval env o = .ok v → aliasOf v = some a' → pyEq a' a →
        select env r'.toCfg o = .ok (.hit a' i) ∧
        ((∀ fp, fingerprint env r'.toCfg o = .ok fp → aget fp r'.cache = Option.none) →
          (evalDs env (run env (step env s (.register d a i)).1 h) d o).1.res
              = den env r'.toCfg o ∧
          ((∃ ks, withDispatchKeys env r'.toCfg o i = .ok ks) →
            den env r'.toCfg o = (env.implVal i o).map (applyCb env r'.callback))) := by
  have h1 : (step env s (.register d a i)).1.ds d
      = some { r0 with table := tinsert a i r0.table } := by
    simp [step, regDs, modDs_ds, hex]
  have h2 : tlookup a ({ r0 with table := tinsert a i r0.table } : DsRec).table = some i :=
    tlookup_tinsert_eq rfl i r0.table
  obtain ⟨r', hr', hl'⟩ := run_keeps_registration env h _ d a i _ hno h1 h2
  refine ⟨r', hr', hl', ?_⟩
  intro v a' hv ha hpy
  have hl2 : tlookup a' r'.toCfg.table = some i := by rw [tlookup_pyEq hpy]; exact hl'
  have hv' : r'.toCfg.dispatch.eval env o = .ok v := hv
  have hsel : select env r'.toCfg o = .ok (.hit a' i) := by
    simp only [select, hv', ha, hl2]
  refine ⟨hsel, ?_⟩
  intro hmiss
  constructor
  · rcases evalDs_res env _ d o r' hr' with ⟨fp, w, hfp, hg, _, _⟩ | ⟨_, hres, _⟩
    · rw [hmiss fp hfp] at hg; cases hg
    · exact hres
  · rintro ⟨ks, hk⟩
    simp only [den, hsel, chosenKeys, hk, Choice.impl]
    cases env.implVal i o <;> rfl

/-- non-vacuity: in `hist0`, `y` is registered after the first evaluation and the evaluation
    under `K = y` (not stored) returns the callback applied to implementation 3 -/
example : NoOverwriteAll 0 ay (hist0.drop 5) ∧
    (runObs env0 St.init hist0)[6]? = some (.eval ⟨.ok (cbv 3), false, some [("K", some (.str "y"))]⟩) := by
  constructor
  · intro op hop
    simp [hist0] at hop
    rcases hop with h | h | h | h | h <;> subst h <;> exact True.intro
  · decide

/-- non-vacuity of the invariant: the re-registered alias `x` keeps serving the entry stored
    under the *earlier* table (`x -> 1`), which is the cold value at prefix length 2 -/
example : ∃ r, (run env0 St.init hist0).ds 0 = some r ∧
    ([("K", some (.str "x"))], cbv 1) ∈ r.cache ∧
    den env0 (⟨.key "K", [(ax, 1)], some 0, some 9⟩ : Cfg) ox = .ok (cbv 1) ∧
    den env0 r.toCfg ox = .ok (cbv 2) := by
  refine ⟨_, rfl, ?_, ?_, ?_⟩ <;> decide

/-! ## callback_every_impl -/

/-- **callback_every_impl.**  Whatever way the implementation was selected (registered alias,
    default for an unregistered value, default for an undeterminable dispatch), a successful
    cold value is the dataset's callback applied to that implementation's own value. -/
theorem callback_every_impl (env : Env) (c : Cfg) (o : Opts) (w : V)
    (h : den env c o = .ok w) :
    ∃ ch v, select env c o = .ok ch ∧ env.implVal ch.impl o = .ok v ∧
      w = applyCb env c.callback v := by
  unfold den at h
  cases hs : select env c o with
  | error e => simp [hs] at h
  | ok ch =>
    simp only [hs] at h
    cases hk : chosenKeys env c o ch with
    | error e => simp [hk] at h
    | ok ks =>
      simp only [hk] at h
      cases hv : env.implVal ch.impl o with
      | error e => simp [hv] at h
      | ok v =>
        simp only [hv] at h
        cases h
        exact ⟨ch, v, rfl, hv, rfl⟩

/-- **callback_every_impl (histories).**  Every value an evaluation returns in any history —
    stored or freshly computed — is the callback applied to the value of an implementation that
    was selected under a configuration the dataset has or had. -/
theorem callback_every_impl_history (env : Env) (h : List Op) (d : DsId) (r : DsRec) (o : Opts)
    (w : V) (hr : (run env St.init h).ds d = some r)
    (hw : (evalDs env (run env St.init h) d o).1.res = .ok w) :
    ∃ h' r' o' ch v, h' <+: h ∧ (run env St.init h').ds d = some r' ∧
      select env r'.toCfg o' = .ok ch ∧ env.implVal ch.impl o' = .ok v ∧
      w = applyCb env r'.callback v := by
  rcases evalDs_res env _ d o r hr with ⟨fp, v, _, hg, hres, _⟩ | ⟨_, hres, _⟩
  · rw [hres] at hw; cases hw
    obtain ⟨h', r', o', hpre, hr', _, hden⟩ :=
      late_registration_invariant env h d r (fp, w) hr (aget_some_mem hg)
    obtain ⟨ch, v, h1, h2, h3⟩ := callback_every_impl env r'.toCfg o' w hden
    exact ⟨h', r', o', ch, v, hpre, hr', h1, h2, h3⟩
  · rw [hres] at hw
    obtain ⟨ch, v, h1, h2, h3⟩ := callback_every_impl env r.toCfg o w hw
    exact ⟨h, r, o, ch, v, List.prefix_refl h, hr, h1, h2, h3⟩

/-- non-vacuity: all three kinds of selection occur in `hist0` and all carry the callback tag -/
example :
    select env0 ⟨.key "K", [(ax, 1)], some 0, some 9⟩ ox = .ok (.hit ax 1) ∧
    select env0 ⟨.key "K", [(ax, 1)], some 0, some 9⟩ oy = .ok (.dflt ay 0) ∧
    select env0 ⟨.key "K", [(ax, 1)], some 0, some 9⟩ [] = .ok (.fallback 0) ∧
    den env0 ⟨.key "K", [(ax, 1)], some 0, some 9⟩ ox = .ok (cbv 1) ∧
    den env0 ⟨.key "K", [(ax, 1)], some 0, some 9⟩ oy = .ok (cbv 0) ∧
    den env0 ⟨.key "K", [(ax, 1)], some 0, some 9⟩ [] = .ok (cbv 0) := by decide

/-! ## no_cross_dispatch -/

/-- **no_cross_dispatch (fingerprints).**  For one dispatch expression that is a deterministic
    function of the keys it reports (`DispDet`; proved below for option keys, options with
    default and datasets without dispatch, a hypothesis on `env` for dispatch datasets): if the
    dispatch evaluates differently under `o'` (when an entry is stored, with any table) and
    under `o` (now), the two fingerprints differ — the entry cannot be returned. -/
theorem no_cross_dispatch_fp (env : Env) (c c' : Cfg) (o o' : Opts) (fp fp' : Fingerprint)
    (hd : c'.dispatch = c.dispatch) (hdet : DispDet env c.dispatch)
    (h : fingerprint env c o = .ok fp) (h' : fingerprint env c' o' = .ok fp')
    (hne : c'.dispatch.eval env o' ≠ c.dispatch.eval env o) : fp' ≠ fp := by
  intro e
  subst e
  exact hne (fp_eq_same_dispatch hd hdet h h')

theorem dispDet_builtin (env : Env) (k : String) (v : V) :
    DispDet env .missing ∧ DispDet env (.key k) ∧ DispDet env (.keyDefault k v) :=
  ⟨dispDet_missing env, dispDet_key env k, dispDet_keyDefault env k v⟩

/-- **no_cross_dispatch.**  In any history: if an evaluation of `d` under `o` returns a stored
    entry, that entry was stored (as the cold value) at an earlier point `h'`, under options
    `o'`, and — provided the dataset's dispatch expression then was the one it has now and is
    deterministic in its keys — the dispatch evaluated then exactly as it evaluates now: a
    value stored for one dispatch value is never returned for another. -/
theorem no_cross_dispatch (env : Env) (h : List Op) (d : DsId) (r : DsRec) (o : Opts)
    (fp : Fingerprint) (v : V) (hr : (run env St.init h).ds d = some r)
    (hfp : fingerprint env r.toCfg o = .ok fp) (hhit : aget fp r.cache = some v) :
    (evalDs env (run env St.init h) d o).1.res = .ok v ∧
    ∃ h' r' o', h' <+: h ∧ (run env St.init h').ds d = some r' ∧
      fingerprint env r'.toCfg o' = .ok fp ∧ den env r'.toCfg o' = .ok v ∧
      (r'.dispatch = r.dispatch → DispDet env r.dispatch →
        r'.dispatch.eval env o' = r.dispatch.eval env o ∧
        dispatchAlias env r'.toCfg o' = dispatchAlias env r.toCfg o) := by
  constructor
  · rcases evalDs_res env _ d o r hr with ⟨fp2, v2, hfp2, hg, hres, _⟩ | ⟨hmiss, _, _⟩
    · rw [hfp] at hfp2; cases hfp2
      rw [hhit] at hg; cases hg
      exact hres
    · rw [hmiss fp hfp] at hhit; cases hhit
  · obtain ⟨h', r', o', hpre, hr', h1, h2⟩ :=
      late_registration_invariant env h d r (fp, v) hr (aget_some_mem hhit)
    refine ⟨h', r', o', hpre, hr', h1, h2, ?_⟩
    intro hd hdet
    have : r'.toCfg.dispatch.eval env o' = r.toCfg.dispatch.eval env o :=
      fp_eq_same_dispatch (c := r.toCfg) (c' := r'.toCfg) hd hdet hfp h1
    refine ⟨this, ?_⟩
    unfold dispatchAlias
    rw [this]

/-- non-vacuity: in `hist0` the evaluation under `K = x` after the re-registration hits the
    entry stored at prefix length 2, with the same dispatch expression -/
example : ∃ r, (run env0 St.init (hist0.take 5)).ds 0 = some r ∧
    fingerprint env0 r.toCfg ox = .ok [("K", some (.str "x"))] ∧
    aget [("K", some (.str "x"))] r.cache = some (cbv 1) ∧ DispDet env0 r.dispatch :=
  ⟨_, rfl, by decide, by decide, dispDet_key env0 "K"⟩

/-- The hypothesis "same dispatch expression" is needed — known finding **F24**: after
    `set_dispatch` on a dataset with a stored entry, the entry stored while the old dispatch
    (`Option('K','x')`) evaluated to `x` is returned while the new one (`Option('K','y')`)
    evaluates to `y`.  labrea behaves exactly like this. -/
theorem set_dispatch_collision :
    (runObs env0 St.init
      [ .newDs 0 (.keyDefault "K" (.str "x")) (some 0) Option.none,
        .register 0 ax 1, .register 0 ay 2,
        .evaluate 0 [],
        .setDispatch 0 (.keyDefault "K" (.str "y")),
        .evaluate 0 [] ]).drop 3 =
    [ .eval ⟨.ok (.tuple [.int 1]), false, some []⟩, .done,
      .eval ⟨.ok (.tuple [.int 1]), true, some []⟩ ] ∧
    den env0 ⟨.keyDefault "K" (.str "y"), [(ax, 1), (ay, 2)], some 0, Option.none⟩ []
      = .ok (.tuple [.int 2]) := by decide

/-- a dispatch dataset whose value depends on an option (`Q`) it does not report as a key -/
def envBad : Env := { env0 with dispKeys := fun _ _ => .ok [] }

/-- The hypothesis `DispDet` is needed: with a dispatch whose value is not a function of its
    reported keys, the value stored for dispatch value `x` is returned for `y`. -/
theorem nondeterministic_dispatch_collision :
    (runObs envBad St.init
      [ .newDs 0 (.dataset 0) (some 0) Option.none,
        .register 0 ax 1, .register 0 ay 2,
        .evaluate 0 [("Q", .str "x")],
        .evaluate 0 [("Q", .str "y")] ]).drop 3 =
    [ .eval ⟨.ok (.tuple [.int 1]), false, some []⟩,
      .eval ⟨.ok (.tuple [.int 1]), true, some []⟩ ] ∧
    ¬ DispDet envBad (.dataset 0) := by
  refine ⟨by decide, ?_⟩
  intro h
  have := h.det [("Q", .str "x")] [("Q", .str "y")]
    (by intro ks hk k hm; simp [Dispatch.keys, envBad] at hk; subst hk; cases hm)
    (by intro ks hk k hm; simp [Dispatch.keys, envBad] at hk; subst hk; cases hm)
  revert this
  decide

/-! ## interfaces -/

/-- **interface_consistent.**  In every history that does not take a member's dispatch away
    (`HistOK`: no `set_dispatch`/re-creation of a member dataset, interfaces are defined once
    over existing datasets that are not members of another interface), all members of an
    interface carry the interface's dispatch; hence under one options dictionary they evaluate
    it to the same value and every member's selection reports the same alias. -/
theorem interface_consistent (env : Env) (h : List Op) (hok : HistOK env St.init h)
    (I : IfId) (ir : IfRec) (hI : (run env St.init h).ifs I = some ir)
    (m1 m2 : String × DsId) (h1 : m1 ∈ ir.members) (h2 : m2 ∈ ir.members) :
    ∃ r1 r2, (run env St.init h).ds m1.2 = some r1 ∧ (run env St.init h).ds m2.2 = some r2 ∧
      r1.dispatch = ir.dispatch ∧ r2.dispatch = ir.dispatch ∧
      ∀ o, r1.dispatch.eval env o = r2.dispatch.eval env o ∧
        ∀ ch1 ch2, select env r1.toCfg o = .ok ch1 → select env r2.toCfg o = .ok ch2 →
          ch1.alias? = ch2.alias? := by
  have hinv := ifaceOK_run (env := env) h St.init ifaceOK_init hok
  obtain ⟨r1, hr1, hd1⟩ := hinv I ir hI m1 h1
  obtain ⟨r2, hr2, hd2⟩ := hinv I ir hI m2 h2
  refine ⟨r1, r2, hr1, hr2, hd1, hd2, ?_⟩
  intro o
  have he : r1.dispatch.eval env o = r2.dispatch.eval env o := by rw [hd1, hd2]
  refine ⟨he, ?_⟩
  intro ch1 ch2 hs1 hs2
  rw [select_alias hs1, select_alias hs2]
  unfold dispatchAlias
  have he' : r1.toCfg.dispatch.eval env o = r2.toCfg.dispatch.eval env o := he
  rw [he']

/-- **interface_default_members.**  After an accepted implementation (each member dataset
    belongs to the interfaces under one name), a member the implementation does not override
    is untouched — its table and default are what they were, so under the new aliases it uses
    the interface's default — and an overridden member maps every alias to the override. -/
theorem interface_default_members (s : St) (ifaces : List IfId) (aliases : List Alias)
    (provided : List (String × ImplId))
    (hok : (defineImpl s ifaces aliases provided).2 = Option.none)
    (hfun : ∀ m ∈ flatMembers s ifaces, ∀ m' ∈ flatMembers s ifaces, m.2 = m'.2 → m.1 = m'.1)
    (m : String × DsId) (hm : m ∈ flatMembers s ifaces) :
    (aget m.1 provided = Option.none →
        (defineImpl s ifaces aliases provided).1.ds m.2 = s.ds m.2) ∧
    (∀ i, aget m.1 provided = some i → ∀ r, s.ds m.2 = some r →
        ∃ r', (defineImpl s ifaces aliases provided).1.ds m.2 = some r' ∧
          r'.dispatch = r.dispatch ∧ r'.default = r.default ∧ r'.callback = r.callback ∧
          r'.cache = r.cache ∧ ∀ a ∈ aliases, tlookup a r'.table = some i) := by
  rcases defineImpl_cases s ifaces aliases provided with ⟨e, he⟩ | he
  · rw [he] at hok; cases hok
  · rw [he]
    simp only [applyRegs_ds]
    constructor
    · intro hnone
      have hreg : ∀ t, regsTable m.2 (implRegs (flatMembers s ifaces) aliases provided) t = t := by
        intro t
        apply regsTable_untouched
        intro x hx hxd
        obtain ⟨n, hn, hp, _⟩ := mem_implRegs.mp hx
        have : n = m.1 := hfun (n, x.1) hn m hm hxd
        subst this
        rw [hnone] at hp; cases hp
      simp only [hreg]
      cases s.ds m.2 <;> rfl
    · intro i hi r hr
      rw [hr]
      refine ⟨_, rfl, rfl, rfl, rfl, rfl, ?_⟩
      intro a ha
      simp only
      apply regsTable_set
      · intro x hx hxd _
        obtain ⟨n, hn, hp, _⟩ := mem_implRegs.mp hx
        have : n = m.1 := hfun (n, x.1) hn m hm hxd
        subst this
        rw [hi] at hp; cases hp; rfl
      · exact ⟨(m.2, a, i), mem_implRegs.mpr ⟨m.1, hm, hi, ha⟩, rfl, rfl⟩

/-- interface 0 over `K`: member `a` (dataset 0, abstract), `b` (dataset 1, abstract),
    `c` (dataset 2, default 5); interface 1 over `K2`: member `a` (dataset 3, default 6) -/
def ifaceHist : List Op :=
  [ .newDs 0 .missing Option.none Option.none,
    .newDs 1 .missing Option.none Option.none,
    .newDs 2 .missing (some 5) Option.none,
    .newDs 3 .missing (some 6) Option.none,
    .defineInterface 0 (.key "K") [("a", 0), ("b", 1), ("c", 2)],
    .defineInterface 1 (.key "K2") [("a", 3)] ]

def sIface : St := run env0 St.init ifaceHist

/-- non-vacuity of `interface_consistent` and `interface_default_members`: the history is
    admissible, an accepted two-interface implementation registers `a` on both interfaces and
    `b`, leaves `c` alone (default 5 under the new alias) -/
example : HistOK env0 St.init ifaceHist ∧
    (defineImpl sIface [0, 1] [ax, .atom (.int 1)] [("a", 10), ("b", 11)]).2 = Option.none ∧
    (∀ m ∈ flatMembers sIface [0, 1], ∀ m' ∈ flatMembers sIface [0, 1], m.2 = m'.2 → m.1 = m'.1) ∧
    (runObs env0 sIface
      [ .defineImpl [0, 1] [ax, .atom (.int 1)] [("a", 10), ("b", 11)],
        .evaluate 0 ox, .evaluate 1 ox, .evaluate 2 ox,
        .evaluate 3 [("K2", .bool true)], .evaluate 3 [] ]) =
      [ .done,
        .eval ⟨.ok (.tuple [.int 10]), false, some [("K", some (.str "x"))]⟩,
        .eval ⟨.ok (.tuple [.int 11]), false, some [("K", some (.str "x"))]⟩,
        .eval ⟨.ok (.tuple [.int 5]), false, some [("K", some (.str "x"))]⟩,
        .eval ⟨.ok (.tuple [.int 10]), false, some [("K2", some (.bool true))]⟩,
        .eval ⟨.ok (.tuple [.int 6]), false, some []⟩ ] := by
  refine ⟨?_, by decide, ?_, by decide⟩
  · simp only [HistOK, ifaceHist, OpOK, MemberOf, and_true]
    refine ⟨?_, ?_, ?_, ?_, ?_, ?_⟩
    · rintro ⟨I, ir, n, h, _⟩; simp [St.init] at h
    · rintro ⟨I, ir, n, h, _⟩; simp [step, St.setDs, St.init] at h
    · rintro ⟨I, ir, n, h, _⟩; simp [step, St.setDs, St.init] at h
    · rintro ⟨I, ir, n, h, _⟩; simp [step, St.setDs, St.init] at h
    · refine ⟨by simp [step, St.setDs, St.init], ?_⟩
      intro m hm
      refine ⟨?_, ?_⟩
      · simp at hm
        rcases hm with h | h | h <;> subst h <;> exact ⟨_, rfl⟩
      · rintro ⟨I, ir, n, h, _⟩; simp [step, St.setDs, St.init] at h
    · refine ⟨by decide, ?_⟩
      intro m hm
      simp at hm
      subst hm
      refine ⟨⟨_, rfl⟩, ?_⟩
      rintro ⟨I, ir, n, h, hmem⟩
      simp only [step, defIface_ifs] at h
      by_cases hI : I = 0
      · subst hI
        simp at h
        subst h
        simp at hmem
      · simp [hI, St.setDs, St.init] at h
  · decide

/-- **impl_all_or_nothing.**  An implementation that is rejected (TypeError) leaves the whole
    state — every member's table — exactly as it was. -/
theorem impl_all_or_nothing (env : Env) (s : St) (ifaces : List IfId) (aliases : List Alias)
    (provided : List (String × ImplId)) :
    ((defineImpl s ifaces aliases provided).2 ≠ Option.none →
        (defineImpl s ifaces aliases provided).1 = s) ∧
    (∀ e, (step env s (.defineImpl ifaces aliases provided)).2 = .typeError e →
        (step env s (.defineImpl ifaces aliases provided)).1 = s) := by
  rcases defineImpl_cases s ifaces aliases provided with ⟨e, he⟩ | he
  · constructor
    · intro _; rw [he]
    · intro e' _; simp only [step, he]
  · constructor
    · intro h; rw [he] at h; exact absurd rfl h
    · intro e' h; simp only [step, he] at h; cases h

/-- **impl_unknown_member_rejected.**  An implementation that names a member no interface has
    is rejected with a TypeError naming such a member, and the state is unchanged. -/
theorem impl_unknown_member_rejected (s : St) (ifaces : List IfId) (aliases : List Alias)
    (provided : List (String × ImplId))
    (h : ∃ p ∈ provided, p.1 ∉ (flatMembers s ifaces).map Prod.fst) :
    ∃ n, defineImpl s ifaces aliases provided = (s, some (.unknownMember n)) ∧
      n ∈ provided.map Prod.fst ∧ n ∉ (flatMembers s ifaces).map Prod.fst := by
  unfold defineImpl
  simp only
  cases hu : unknownCheck (flatMembers s ifaces) provided with
  | some p =>
    unfold unknownCheck at hu
    have hp := List.find?_some hu
    have hm := List.mem_of_find?_eq_some hu
    refine ⟨p.1, rfl, List.mem_map.mpr ⟨p, hm, rfl⟩, ?_⟩
    intro hin
    simp only [memberNames, Bool.not_eq_true', List.contains_eq_mem, decide_eq_false_iff_not,
      mem_dedupF] at hp
    exact hp hin
  | none =>
    exfalso
    unfold unknownCheck at hu
    obtain ⟨p, hp, hnot⟩ := h
    have := List.find?_eq_none.mp hu p hp
    simp only [memberNames, Bool.not_eq_true', List.contains_eq_mem, decide_eq_false_iff_not,
      mem_dedupF, Decidable.not_not] at this
    exact hnot this

/-- **impl_missing_abstract_rejected.**  An implementation (naming only known members) that
    omits an abstract member is rejected with a TypeError, and the state is unchanged. -/
theorem impl_missing_abstract_rejected (s : St) (ifaces : List IfId) (aliases : List Alias)
    (provided : List (String × ImplId))
    (hknown : ∀ p ∈ provided, p.1 ∈ (flatMembers s ifaces).map Prod.fst)
    (h : ∃ m ∈ flatMembers s ifaces, isAbstract s m.2 = true ∧ aget m.1 provided = Option.none) :
    ∃ n, defineImpl s ifaces aliases provided = (s, some (.missingAbstract n)) ∧
      aget n provided = Option.none := by
  unfold defineImpl
  simp only
  cases hu : unknownCheck (flatMembers s ifaces) provided with
  | some p =>
    exfalso
    unfold unknownCheck at hu
    have hp := List.find?_some hu
    have hm := List.mem_of_find?_eq_some hu
    simp only [memberNames, Bool.not_eq_true', List.contains_eq_mem, decide_eq_false_iff_not,
      mem_dedupF] at hp
    exact hp (hknown p hm)
  | none =>
    simp only
    cases ha : abstractCheck s (flatMembers s ifaces) provided with
    | some n =>
      refine ⟨n, rfl, ?_⟩
      unfold abstractCheck at ha
      have hp := List.find?_some ha
      simp only [Bool.and_eq_true, Option.isNone_iff_eq_none] at hp
      exact hp.1
    | none =>
      exfalso
      unfold abstractCheck at ha
      obtain ⟨m, hm, habs, hnone⟩ := h
      have hmem : m.1 ∈ memberNames (flatMembers s ifaces) := by
        unfold memberNames; rw [mem_dedupF]; exact List.mem_map.mpr ⟨m, hm, rfl⟩
      have := List.find?_eq_none.mp ha m.1 hmem
      apply this
      simp only [Bool.and_eq_true, Option.isNone_iff_eq_none, List.any_eq_true]
      exact ⟨hnone, m, hm, by simp [habs]⟩

/-- non-vacuity: both rejections occur on `sIface`; and the accepted case is not an error -/
example :
    (∃ p ∈ [("a", 10), ("zz", 12)], p.1 ∉ (flatMembers sIface [0]).map Prod.fst) ∧
    (defineImpl sIface [0] [ax] [("a", 10), ("zz", 12)]).2 = some (.unknownMember "zz") ∧
    (∃ m ∈ flatMembers sIface [0], isAbstract sIface m.2 = true ∧
        aget m.1 [("a", (10 : ImplId))] = Option.none) ∧
    (defineImpl sIface [0] [ax] [("a", 10)]).2 = some (.missingAbstract "b") ∧
    (defineImpl sIface [0] [ax] [("a", 10), ("b", 11)]).2 = Option.none := by
  refine ⟨⟨("zz", 12), by simp, by decide⟩, by decide, ⟨("b", 1), by decide, by decide, by decide⟩,
    by decide, by decide⟩

/-- **The loop before the repair violated `impl_all_or_nothing`** (defect F8, fixed in labrea
    commit dd8a01f): member `a` is registered before the missing abstract member `b` raises. -/
theorem old_code_violates_all_or_nothing :
    (defineImplOld sIface [0] [ax] [("a", 10)]).2 = some (.missingAbstract "b") ∧
    (defineImplOld sIface [0] [ax] [("a", 10)]).1.ds 0 ≠ sIface.ds 0 ∧
    (Option.map (fun r => tlookup ax r.table) ((defineImplOld sIface [0] [ax] [("a", 10)]).1.ds 0))
      = some (some 10) ∧
    (defineImpl sIface [0] [ax] [("a", 10)]).1.ds 0 = sIface.ds 0 := by decide

end Labrea.Iface.C07

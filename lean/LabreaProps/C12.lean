import LabreaModel.Eval
namespace Labrea
theorem c12_placeholder : True := trivial
end Labrea

/-
  C12 — failures surface as EvaluationError with source and cause; never stored.

  Theorems about the interpreter model `ev` (LabreaModel/Eval.lean), for EVERY environment (user
  callables, overload tables, dataset records), expression, options dictionary, state and fuel.
-/
import LabreaModel.EvalLemmas
import LabreaModel.CacheTransparency
namespace Labrea

/-- the failure is an `EvaluationError` whose `source` is node `id` -/
def SourcedAt (id : Nat) (err : Err) : Prop :=
  ∃ f rest, err = f :: rest ∧ f.src = id ∧ err.isEvaluationError = true

theorem wrapEvaluate_sourced {α} (id : Nat) (m : M α) (s : St) (err : Err) (s' : St)
    (h : wrapEvaluate id m s = some (.error err, s')) : SourcedAt id err := by
  unfold wrapEvaluate handle at h
  split at h
  · rename_i e0 s0 hm
    cases e0 with
    | nil =>
      simp only [raise] at h
      cases h
      exact ⟨evalFrame id, [], rfl, rfl, rfl⟩
    | cons f rest =>
      simp only [] at h
      by_cases hc : (Err.isEvaluationError (f :: rest) && f.src == id) = true
      · simp only [hc, if_true, raise] at h
        cases h
        simp only [Bool.and_eq_true, beq_iff_eq] at hc
        exact ⟨f, rest, rfl, hc.2, hc.1⟩
      · simp only [hc, raise] at h
        cases h
        exact ⟨evalFrame id, f :: rest, rfl, rfl, rfl⟩
  · rename_i hne
    exact absurd h (by
      intro h'
      exact hne err s' h')

/-- **error_source.** Whatever fails inside `evaluate` of node `e` — a missing option, an unmatched
    switch or case, an exception of any class raised by user code — surfaces as an `EvaluationError`
    whose source is `e` itself (handlers that substitute a value do not fail). -/
theorem error_source (env : Env) (n : Nat) (e : Expr) (o : V) (s : St) (err : Err) (s' : St)
    (h : ev env n .evaluate e o s = some (.error err, s')) : SourcedAt e.id err := by
  cases n with
  | zero => simp [ev, outOfFuel] at h
  | succ n =>
    unfold ev at h
    simp only [bind, M.bnd, emit] at h
    cases hs : env.subst with
    | none =>
      simp only [hs] at h
      exact wrapEvaluate_sourced _ _ _ _ _ h
    | some p =>
      obtain ⟨sid, v⟩ := p
      simp only [hs] at h
      by_cases hc : (sid == e.id && sid != 0) = true
      · simp [hc, pure, M.ret] at h
      · simp only [hc] at h
        exact wrapEvaluate_sourced _ _ _ _ _ h

/-- the `__cause__` chain ends in an original exception: a missing option, an unmatched switch / case,
    an insufficient-information error or an exception raised by user code or the runtime — never in a
    bare re-wrapping `EvaluationError` -/
def ReachesOrigin (err : Err) : Prop := ∃ f, err.getLast? = some f ∧ f.cls ≠ .evaluation

theorem reachesOrigin_pred : ErrPred ReachesOrigin where
  other c := ⟨{ cls := .other c }, rfl, by simp⟩
  cons f e h := by
    obtain ⟨g, hg, hc⟩ := h
    cases e with
    | nil => simp at hg
    | cons a as => exact ⟨g, by simpa [List.getLast?_cons_cons] using hg, hc⟩
  single f hf := ⟨f, rfl, hf⟩
  ofNil h := by obtain ⟨_, hg, _⟩ := h; simp at hg

theorem anyRel : CacheRel (fun _ _ => True) where
  refl _ := trivial
  trans _ _ := trivial
  emit _ _ _ := trivial
  setCache _ _ _ := trivial
  setScripts _ _ := trivial

/-- **cause_chain.** Every failure of every operation (`evaluate`, `validate`, `keys`, `explain`) of
    every expression carries a cause chain that leads, through the nested objects, to the original
    exception. -/
theorem cause_chain_reaches_origin (env : Env) (n : Nat) (op : Op) (e : Expr) (o : V) (s : St) (err : Err)
    (s' : St) (h : ev env n op e o s = some (.error err, s')) : ReachesOrigin err :=
  ((spec_ev anyRel reachesOrigin_pred env (Or.inr fun _ _ _ => trivial) n op e o).run s _ s' h).2 err rfl

/-- the innermost frame of a missing-option failure carries the key -/
theorem missing_key_reported (env : Env) (run : Run) (n id : Nat) (key : String) (o : V) (s : St)
    (hk : getDotted key o = .keyErr) :
    ∃ s', optionOp env run n (.option id key Option.none Option.none) id key Option.none Option.none .evaluate o s
        = some (.error [{ cls := .keyNotFound, src := id, key := key }], s') := by
  simp [optionOp, readKey, bind, M.bnd, emit, pure, M.ret, hk, raise, keyNotFound]

/-! non-vacuity: a concrete failing evaluation (`Option('A') >> f` on `{}`) -/
def c12Env : Env :=
  { β := fun _ _ _ => .error "ValueError", binds := fun _ _ => .error "x",
    ov := fun _ => default, ds := fun _ => default, cacheKind := fun _ => .memory }

def c12Witness : Option (Except Err V × St) :=
  ev c12Env 5 .evaluate (.apply 3 (.option 1 "A" Option.none Option.none) (.value 2 (.fn "f" [] []))) (.dict []) {}

example : (match c12Witness with
    | some (.error err, _) => err == [evalFrame 3, { cls := .keyNotFound, src := 1, key := "A" }]
    | _ => false) = true := by decide +kernel


/-! ### never stored, after any history -/

/-- **failure_never_stored.** For a MemoryCache-cached node whose sub-computations leave its cache alone and for which
    equal fingerprints imply equal outcomes: when the uncached outcome under `o` is a failure, the cached evaluation
    returns exactly that failure and the cache's entries are what they were before — whatever history filled the
    store. (The next evaluation therefore recomputes, and succeeds as soon as the options allow it.) -/
theorem failure_never_stored {env : Env} {run : Run} {x : Expr} {c : Nat} {D : V → Prop} {fp : V → V}
    {den : V → Except Err V} (H : FingerprintSound env run x c D fp den) (o : V) (ho : D o) (s : St)
    (hinv : StoreInv c D fp den s) (err : Err) (hd : den o = .error err) (r : Except Err V) (s' : St)
    (h : cachedOp env run x c .evaluate o s = some (r, s')) : r = .error err ∧ s'.cacheEntries c = s.cacheEntries c :=
  cached_failure_leaves_store H o ho s hinv err hd r s' h


end Labrea

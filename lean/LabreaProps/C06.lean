import LabreaModel.Eval
namespace Labrea
theorem c06_placeholder : True := trivial
end Labrea

/-
  C06 — laziness: only bodies on the selected path run, and only when evaluated.

  In the model, building an expression is building a value of the inductive type `Expr`: construction has
  no access to the interpretation `β` of user callables at all, so "building, composing or overloading
  never runs a body" holds by typing; the tie to the code for that clause is the `construct` facet (the
  harness builds every graph through the public API with logging callables and requires an empty log).
  What is proved here is the evaluation part: the result (value AND event log, which contains every
  execution of a user callable) of each combinator is a function of the selected path only.
-/
import LabreaProps.C05
import LabreaProps.C04
namespace Labrea

variable (run : Run) (o : V)

/-- unselected switch branches and the default do not matter: two switches that agree on the dispatch and on
    the registered branch for the current dispatch value evaluate identically (same value, same events) -/
theorem switch_runs_only_selected (id : Nat) (d : Expr) (l1 l2 : List (V × Expr)) (df1 df2 : Option Expr) (s s1 : St)
    (key k1 k2 : V) (br : Expr) (hd : run .evaluate d o s = some (.ok key, s1)) (hh : hashable key = true)
    (h1 : l1.find? (fun p => pyEq p.1 key) = some (k1, br)) (h2 : l2.find? (fun p => pyEq p.1 key) = some (k2, br)) :
    switchOp run id d l1 df1 .evaluate o s = switchOp run id d l2 df2 .evaluate o s := by
  rw [switch_registered run o id d l1 df1 s s1 key k1 br hd hh h1, switch_registered run o id d l2 df2 s s1 key k2 br hd hh h2]

/-- coalesce members after the first success are not touched -/
theorem coalesce_runs_until_first_success (m : Expr) (r1 r2 : List Expr) (last : Option Err) (s s1 s2 : St) (u v : V)
    (hv : run .validate m o s = some (.ok u, s1)) (he : run .evaluate m o s1 = some (.ok v, s2)) :
    coalesceDelegate run .evaluate o last (m :: r1) s = coalesceDelegate run .evaluate o last (m :: r2) s := by
  rw [coalesce_first_evaluable run o m r1 last s s1 s2 u v hv he, coalesce_first_evaluable run o m r2 last s s1 s2 u v hv he]

/-- the cases after the first matching one are not evaluated -/
theorem case_runs_until_first_match (env : Env) (id : Nat) (d : Expr) (df1 df2 : Option Expr) (v : V) (seen : List Expr)
    (c r : Expr) (r1 r2 : List (Expr × Expr)) (s s1 s2 : St) (cf b : V)
    (hc : run .evaluate c o s = some (.ok cf, s1)) (hb : call env cf [v] [] s1 = some (.ok b, s2)) (ht : b.truthy = true) :
    chooseCase env run id d df1 o v seen ((c, r) :: r1) s = chooseCase env run id d df2 o v seen ((c, r) :: r2) s := by
  rw [case_first_match run o env id d df1 v seen c r r1 s s1 s2 cf b hc hb ht,
      case_first_match run o env id d df2 v seen c r r2 s s1 s2 cf b hc hb ht]

/-- an Option's default is not evaluated when its key is present -/
theorem default_not_evaluated_when_present (env : Env) (n id : Nat) (key : String) (self : Expr) (d1 d2 dom : Option Expr)
    (raw : V) (s : St) (hk : getDotted key o = .found raw) :
    optionOp env run n self id key d1 dom .evaluate o s = optionOp env run n self id key d2 dom .evaluate o s :=
  option_present_ignores_default env run n id key o self d1 d2 dom raw s hk

/-- a body runs only after all of its own arguments have been produced: `FunctionApplication.evaluate` is
    "function, positional arguments in order, keyword arguments in order, then the call" -/
theorem args_before_body (env : Env) (id : Nat) (f : Expr) (args : List Expr) (kw : List (String × Expr)) (s s1 : St) (fv : V)
    (hf : run .evaluate f o s = some (.ok fv, s1)) :
    applicationOp env run id f args kw false .evaluate o s =
      ((do
        let (as, ks) ← pseudo .evaluate (tid id 1) (do
          let as ← pseudo .evaluate (tid id 2) (mapM' (fun x => run .evaluate x o) args)
          let ks ← pseudo .evaluate (tid id 3) (mapM' (fun (p : String × Expr) => do
            let v ← run .evaluate p.2 o
            pure (p.1, v)) kw)
          pure (as, ks))
        call env fv as ks) : M V) s1 :=
  funapp_args run o env id f args kw s s1 fv hf

/-- the input of `>>` / pipeline application is produced before the step applied to it -/
theorem source_before_step (env : Env) (n id : Nat) (x f : Expr) (s s1 : St) (err : Err)
    (hx : ∀ i es, x ≠ .iter i es) (hm : ∀ i y its, x ≠ .map i y its)
    (h1 : run .evaluate x o s = some (.error err, s1)) :
    nodeOp env run n .evaluate (.apply id x f) o s = some (.error err, s1) := by
  cases x <;> simp_all [nodeOp, bind_run]

end Labrea

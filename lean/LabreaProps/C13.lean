/-
  C13 — pipelines compose associatively; step parameters come from the options and are keyed.

  Only the property theorems and their non-vacuity examples; the model is
  LabreaModel/PipelineLL.lean, helper lemmas are in LabreaModel/PipelineLemmas.lean.
  The part of C13 about the helper steps of `labrea.functions` is in LabreaProps/C13Helpers.lean.

  All theorems are unbounded: any pipelines `p q r` (any length, any bracketing that built
  them), any step bodies, any options, any input value.  `WF` is the invariant that
  `Pipeline.__init__` establishes (`rest` is never an empty pipeline); `wf_*` show that every
  pipeline built with the constructor and `+` satisfies it.
-/
import LabreaModel.PipelineLemmas
namespace Labrea.PipelineLL.C13
open Labrea.PipelineLL Pipeline

variable {Ω α : Type}

/-! ## the invariant is established by the constructor and preserved by `+` -/

theorem wf_constructor (t : Step Ω α) (r : Option (Pipeline Ω α)) (h : ∀ q, r = some q → q.WF) :
    (Pipeline.init t r).WF := wf_init t r h

theorem wf_plus {p : Pipeline Ω α} (hp : p.WF) (x : Operand Ω α) : (p.addOperand x).WF := by
  cases x with
  | step s => exact wf_addStep hp s
  | pipeline q => exact wf_add hp q
  | other s => exact wf_addStep hp s

theorem wf_step_plus (s : Step Ω α) (x : Operand Ω α) : (s.addOperand x).WF :=
  wf_plus (wf_init s none (by intro q h; cases h)) x

/-! ## `+` concatenates the steps -/

/-- `steps (p + q) = steps p ++ steps q`, by induction on the right operand (the code's own
    recursion `(self + other.rest) + other.tail`).  `steps` is what `__iter__` yields, except that
    the empty pipeline — whose `__iter__` yields its placeholder `Identity` — has no steps. -/
theorem steps_add (p : Pipeline Ω α) {q : Pipeline Ω α} (hq : q.WF) :
    (p + q).steps = p.steps ++ q.steps := by
  induction q with
  | single t =>
    show (add p (.single t)).steps = _
    unfold add
    by_cases h : (Pipeline.single t).empty = true
    · simp [h, steps_of_empty h]
    · have h' : (Pipeline.single t).empty = false := by simpa using h
      have ht : t.isIdentity = false := by simpa [empty] using h'
      simp only [h', Bool.false_eq_true, if_false]
      have := steps_addStep p t (Or.inl ht)
      unfold addStep at this
      rw [this, steps_of_not_empty h']
      rfl
  | cons t r ih =>
    obtain ⟨hre, hr⟩ := hq
    have ih' := ih hr
    show (add p (.cons t r)).steps = _
    unfold add
    have hne : (p + r).empty = false := by
      cases hpr : (p + r).empty with
      | false => rfl
      | true =>
        have h1 : (p + r).steps = [] := steps_of_empty hpr
        rw [ih', steps_of_not_empty hre] at h1
        have := iter_ne_nil r
        simp at h1
    have : add p r = p + r := rfl
    rw [this, steps_addStep (p + r) t (Or.inr hne), ih', steps_cons, steps_of_not_empty hre,
      List.append_assoc]

example : ∃ p q : Pipeline Unit Nat, q.WF ∧ (p + q).steps.length = 3 :=
  ⟨.single (.opaque 1 (fun _ => some Except.ok) (fun _ => .ok []) (fun _ => .ok [])),
   .cons (.opaque 3 (fun _ => some Except.ok) (fun _ => .ok []) (fun _ => .ok []))
     (.single (.opaque 2 (fun _ => some Except.ok) (fun _ => .ok []) (fun _ => .ok []))),
   ⟨rfl, trivial⟩, rfl⟩

/-- `p + step` (first and last case of `__add__`) appends the step — unless `p` is empty and
    the step is `== Identity`, in which case the result is again the empty pipeline. -/
theorem steps_add_step (p : Pipeline Ω α) (s : Step Ω α)
    (h : s.isIdentity = false ∨ p.empty = false) : (p.addStep s).steps = p.steps ++ [s] :=
  steps_addStep p s h

example : ((new : Pipeline Unit Nat).addStep .identity).steps = [] := rfl

/-- iterating `p + q` yields the steps of `p`, then the steps of `q` (both non-empty) -/
theorem iter_add {p q : Pipeline Ω α} (hq : q.WF) (hpe : p.empty = false) (hqe : q.empty = false) :
    (p + q).iter = p.iter ++ q.iter := by
  have h := steps_add p hq
  rw [steps_of_not_empty hpe, steps_of_not_empty hqe] at h
  have hne : (p + q).empty = false := by
    cases hpq : (p + q).empty with
    | false => rfl
    | true =>
      rw [steps_of_empty hpq] at h
      have := iter_ne_nil p
      simp at h
  rwa [steps_of_not_empty hne] at h

/-! ## associativity and identity -/

/-- associativity, as equality of step sequences -/
theorem add_assoc_steps (p : Pipeline Ω α) {q r : Pipeline Ω α} (hq : q.WF) (hr : r.WF) :
    ((p + q) + r).steps = (p + (q + r)).steps := by
  rw [steps_add (p + q) hr, steps_add p hq, steps_add p (wf_add hq r), steps_add q hr,
    List.append_assoc]

/-- associativity, as equality of the linked lists themselves (hence of everything observable) -/
theorem add_assoc {p q r : Pipeline Ω α} (hp : p.WF) (hq : q.WF) (hr : r.WF) :
    (p + q) + r = p + (q + r) :=
  steps_injective (wf_add (wf_add hp q) r) (wf_add hp (q + r)) (add_assoc_steps p hq hr)

example : ∃ p q r : Pipeline Unit Nat, p.WF ∧ q.WF ∧ r.WF ∧ ((p + q) + r).steps.length = 3 :=
  let s (n : Nat) : Step Unit Nat := .opaque n (fun _ => some Except.ok) (fun _ => .ok []) (fun _ => .ok [])
  ⟨.single (s 1), .single (s 2), .single (s 3), trivial, trivial, trivial, rfl⟩

/-- the empty pipeline is a right identity (second case of `__add__`, `other.empty`) -/
theorem add_empty_right (p : Pipeline Ω α) : p + (new : Pipeline Ω α) = p := rfl

/-- the empty pipeline is a left identity -/
theorem add_empty_left {q : Pipeline Ω α} (hq : q.WF) : (new : Pipeline Ω α) + q = q := by
  apply steps_injective (wf_add wf_new q) hq
  rw [steps_add new hq]
  rfl

/-- any empty pipeline, wherever it stands in a chain of `+`, contributes no step -/
theorem add_empty_steps (p : Pipeline Ω α) {e q : Pipeline Ω α} (he : e.empty = true) (hq : q.WF) :
    ((p + e) + q).steps = (p + q).steps := by
  have : e.WF := by rw [(empty_iff e).1 he]; trivial
  rw [steps_add (p + e) hq, steps_add p this, steps_of_empty he, steps_add p hq]
  simp

/-! ## `transform` of a sum -/

/-- The parameter phase of `p + q` succeeds iff both do, and the resulting function is the
    composition "`p` first, then `q`". -/
theorem evaluate_add (p q : Pipeline Ω α) (o : Ω) :
    (p + q).evaluate o =
      match p.evaluate o, q.evaluate o with
      | some f, some g => some (fun x => f x >>= g)
      | _, _ => none :=
  Pipeline.evaluate_add p q o

/-- `(p + q).transform(x, o)` in full: all parameters of both operands are evaluated first (a
    failure is an `EvaluationError`), then `q.transform(p.transform(x, o), o)`. -/
theorem transform_add (p q : Pipeline Ω α) (x : α) (o : Ω) :
    (p + q).transform x o =
      match q.evaluate o with
      | none => .error .evaluation
      | some _ => p.transform x o >>= fun y => q.transform y o := by
  unfold transform
  rw [Pipeline.evaluate_add]
  cases hp : p.evaluate o <;> cases hq : q.evaluate o <;> simp [seqFn] <;> rfl

/-- … hence whenever the parameters of `q` can be evaluated under `o`:
    `(p + q).transform(x, o) = q.transform(p.transform(x, o), o)` including which exception escapes -/
theorem transform_add_of_evaluable (p q : Pipeline Ω α) (x : α) (o : Ω)
    (hq : (q.evaluate o).isSome) :
    (p + q).transform x o = p.transform x o >>= fun y => q.transform y o := by
  rw [transform_add]
  cases h : q.evaluate o with
  | none => simp [h] at hq
  | some g => rfl

/-- … and unconditionally on results: `(p + q).transform(x, o)` returns `v` iff
    `q.transform(p.transform(x, o), o)` returns `v`. -/
theorem transform_add_ok (p q : Pipeline Ω α) (x : α) (o : Ω) (v : α) :
    (p + q).transform x o = .ok v ↔ ∃ y, p.transform x o = .ok y ∧ q.transform y o = .ok v := by
  rw [transform_add]
  cases hq : q.evaluate o with
  | none =>
    simp only [transform, hq]
    constructor
    · intro h; cases h
    · rintro ⟨y, _, h⟩; cases h
  | some g =>
    cases hp : p.transform x o with
    | error e =>
      constructor
      · intro h; cases h
      · rintro ⟨y, h, _⟩; cases h
    | ok y =>
      constructor
      · intro h; exact ⟨y, rfl, h⟩
      · rintro ⟨y', h, h2⟩; cases h; exact h2

example : ∃ (p q : Pipeline Unit Nat) (x v : Nat), (p + q).transform x () = .ok v :=
  ⟨.single (.opaque 1 (fun _ => some (fun n => .ok (n + 1))) (fun _ => .ok []) (fun _ => .ok [])),
   .single (.opaque 2 (fun _ => some (fun n => .ok (n * 2))) (fun _ => .ok []) (fun _ => .ok [])),
   3, 8, rfl⟩

/-- associativity as equality of `transform` behaviour, without any well-formedness assumption -/
theorem add_assoc_transform (p q r : Pipeline Ω α) (x : α) (o : Ω) :
    ((p + q) + r).transform x o = (p + (q + r)).transform x o := by
  unfold transform
  rw [Pipeline.evaluate_add, Pipeline.evaluate_add, Pipeline.evaluate_add, Pipeline.evaluate_add,
    seqFn_assoc]

/-- identity as equality of `transform` behaviour -/
theorem add_empty_transform (p e : Pipeline Ω α) (he : e.empty = true) (x : α) (o : Ω) :
    (p + e).transform x o = p.transform x o ∧ (e + p).transform x o = p.transform x o := by
  unfold transform
  rw [Pipeline.evaluate_add, Pipeline.evaluate_add, evaluate_of_empty he, seqFn_ok_left,
    seqFn_ok_right]
  exact ⟨rfl, rfl⟩

/-! ## iteration order is application order -/

/-- The function of a pipeline is the composition of the steps that `__iter__` yields, in the
    order it yields them. -/
theorem iter_order (p : Pipeline Ω α) (o : Ω) : p.evaluate o = composeSteps p.iter o := by
  induction p with
  | single t =>
    rw [evaluate_single]
    simp only [iter, composeSteps]
    cases t.evaluate o with
    | none => rfl
    | some f => simp [fun_bind_ok]
  | cons t r ih =>
    rw [evaluate_cons, ih]
    simp only [iter]
    generalize r.iter = l
    induction l with
    | nil =>
      simp only [composeSteps, List.nil_append]
      cases t.evaluate o with
      | none => rfl
      | some f => simp [seqFn, bind_ok_fun, fun_bind_ok]
    | cons s l ihl =>
      simp only [composeSteps, List.cons_append]
      rw [← ihl]
      cases s.evaluate o <;> cases composeSteps l o <;> cases t.evaluate o <;> simp [seqFn]

/-- the same with the placeholder of the empty pipeline removed -/
theorem steps_order (p : Pipeline Ω α) (o : Ω) : p.evaluate o = composeSteps p.steps o := by
  by_cases h : p.empty = true
  · rw [steps_of_empty h, evaluate_of_empty h]; rfl
  · have h' : p.empty = false := by simpa using h
    rw [steps_of_not_empty h', iter_order]

example : (composeSteps
    [(.opaque 1 (fun _ => some (fun n => .ok (n + 1))) (fun _ => .ok []) (fun _ => .ok []) : Step Unit Nat),
     .opaque 2 (fun _ => some (fun n => .ok (n * 2))) (fun _ => .ok []) (fun _ => .ok [])] ()).map
      (fun f => f 3) = some (.ok 8) := rfl

/-! ## `e >> p` -/

/-- `(e >> p)(o)` is `p.transform(e(o), o)` evaluated inside one request: a failure of `e`, of a
    parameter of `p` or of a step body comes out as `EvaluationError`. -/
theorem apply_pipeline (e : Source Ω α) (p : Pipeline Ω α) (o : Ω) :
    applyEval e p o =
      wrapEval (match e.eval o with
        | none => .error .evaluation
        | some v => p.transform v o) := by
  unfold applyEval transform
  cases e.eval o with
  | none => rfl
  | some v =>
    cases p.evaluate o with
    | none => rfl
    | some f => rfl

/-- on results: `(e >> p)(o)` returns `r` iff `e(o)` returns some `v` and `p.transform(v, o)` returns `r` -/
theorem apply_pipeline_ok (e : Source Ω α) (p : Pipeline Ω α) (o : Ω) (r : α) :
    applyEval e p o = .ok r ↔ ∃ v, e.eval o = some v ∧ p.transform v o = .ok r := by
  rw [apply_pipeline]
  cases he : e.eval o with
  | none => simp [wrapEval]
  | some v =>
    cases hp : p.transform v o with
    | error err => simp [wrapEval, hp]
    | ok r' => simp [wrapEval, hp]

example : ∃ (e : Source Unit Nat) (p : Pipeline Unit Nat) (r : Nat), applyEval e p () = .ok r :=
  ⟨Param.const 3,
   .single (.opaque 1 (fun _ => some (fun n => .ok (n + 1))) (fun _ => .ok []) (fun _ => .ok [])),
   4, rfl⟩

/-- the keys of `e >> p` are those of `e` and those of `p` -/
theorem apply_keys (e : Source Ω α) (p : Pipeline Ω α) (o : Ω) :
    applyKeys e p o = seqUnion [e.keys o, p.keys o] := by
  unfold applyKeys seqUnion seqUnion seqUnion
  cases e.keys o with
  | error _ => rfl
  | ok a =>
    cases p.keys o with
    | error _ => rfl
    | ok b => simp [bind, Except.bind, pure, Except.pure]

/-! ## keys and explain -/

/-- `keys()` of a pipeline is the union of the `keys()` of the steps it iterates over (computed
    tail first; the first failing step's exception escapes). -/
theorem pipeline_keys (p : Pipeline Ω α) (o : Ω) :
    p.keys o = seqUnion (p.iter.reverse.map (fun s => s.keys o)) :=
  keys_eq_seqUnion p o

theorem pipeline_explain (p : Pipeline Ω α) (o : Ω) :
    p.explain o = seqUnion (p.iter.reverse.map (fun s => s.explain o)) :=
  explain_eq_seqUnion p o

/-- as sets: a key is reported by the pipeline iff some step reports it -/
theorem pipeline_keys_mem (p : Pipeline Ω α) (o : Ω) {ks : Keys} (h : p.keys o = .ok ks) (k : String) :
    k ∈ ks ↔ ∃ s ∈ p.iter, ∃ ks', s.keys o = .ok ks' ∧ k ∈ ks' := by
  rw [pipeline_keys] at h
  rw [mem_seqUnion h k]
  constructor
  · rintro ⟨r, hr, ks', he, hk⟩
    simp only [List.mem_map, List.mem_reverse] at hr
    obtain ⟨s, hs, rfl⟩ := hr
    exact ⟨s, hs, ks', he, hk⟩
  · rintro ⟨s, hs, ks', he, hk⟩
    exact ⟨s.keys o, by simp only [List.mem_map, List.mem_reverse]; exact ⟨s, hs, rfl⟩, ks', he, hk⟩

theorem pipeline_explain_mem (p : Pipeline Ω α) (o : Ω) {ks : Keys} (h : p.explain o = .ok ks)
    (k : String) : k ∈ ks ↔ ∃ s ∈ p.iter, ∃ ks', s.explain o = .ok ks' ∧ k ∈ ks' := by
  rw [pipeline_explain] at h
  rw [mem_seqUnion h k]
  constructor
  · rintro ⟨r, hr, ks', he, hk⟩
    simp only [List.mem_map, List.mem_reverse] at hr
    obtain ⟨s, hs, rfl⟩ := hr
    exact ⟨s, hs, ks', he, hk⟩
  · rintro ⟨s, hs, ks', he, hk⟩
    exact ⟨s.explain o, by simp only [List.mem_map, List.mem_reverse]; exact ⟨s, hs, rfl⟩, ks', he, hk⟩

/-- `keys()` succeeds iff it succeeds for every step -/
theorem pipeline_keys_ok (p : Pipeline Ω α) (o : Ω) :
    (∃ ks, p.keys o = .ok ks) ↔ ∀ s ∈ p.iter, ∃ ks', s.keys o = .ok ks' := by
  rw [pipeline_keys, seqUnion_ok_iff]
  constructor
  · intro h s hs
    exact h (s.keys o) (by simp only [List.mem_map, List.mem_reverse]; exact ⟨s, hs, rfl⟩)
  · intro h r hr
    simp only [List.mem_map, List.mem_reverse] at hr
    obtain ⟨s, hs, rfl⟩ := hr
    exact h s hs

example : ∃ (p : Pipeline Unit Nat) (ks : Keys), p.keys () = .ok ks ∧ "A" ∈ ks ∧ "B" ∈ ks :=
  ⟨.cons (.partialApp 2 (fun _ _ => .ok 0) [] [("k", ⟨fun _ => some 1, fun _ => .ok ["B"], fun _ => .ok ["B"]⟩)])
     (.single (.partialApp 1 (fun _ _ => .ok 0) [] [("k", ⟨fun _ => some 1, fun _ => .ok ["A"], fun _ => .ok ["A"]⟩)])),
   ["B", "A"], rfl, by simp, by simp⟩

/-- `keys()` of a sum succeeds exactly when it succeeds for both operands (non-empty operands,
    any lengths, any bracketing that built them). -/
theorem keys_add_ok {p q : Pipeline Ω α} (hq : q.WF) (hpe : p.empty = false) (hqe : q.empty = false)
    (o : Ω) :
    (∃ ks, (p + q).keys o = .ok ks) ↔ (∃ kp, p.keys o = .ok kp) ∧ (∃ kq, q.keys o = .ok kq) := by
  rw [pipeline_keys_ok, pipeline_keys_ok, pipeline_keys_ok, iter_add hq hpe hqe]
  constructor
  · intro h
    exact ⟨fun s hs => h s (List.mem_append_left _ hs), fun s hs => h s (List.mem_append_right _ hs)⟩
  · rintro ⟨h1, h2⟩ s hs
    rcases List.mem_append.1 hs with hs | hs
    · exact h1 s hs
    · exact h2 s hs

/-- as sets, the keys of `p + q` are the union of the keys of `p` and of `q`: composing pipelines
    neither drops a key an operand reports nor invents one. -/
theorem keys_add_mem {p q : Pipeline Ω α} (hq : q.WF) (hpe : p.empty = false) (hqe : q.empty = false)
    (o : Ω) {ks kp kq : Keys} (h : (p + q).keys o = .ok ks) (h1 : p.keys o = .ok kp)
    (h2 : q.keys o = .ok kq) (k : String) : k ∈ ks ↔ k ∈ kp ∨ k ∈ kq := by
  rw [pipeline_keys_mem _ o h k, pipeline_keys_mem _ o h1 k, pipeline_keys_mem _ o h2 k,
    iter_add hq hpe hqe]
  constructor
  · rintro ⟨s, hs, r⟩
    rcases List.mem_append.1 hs with hs | hs
    · exact Or.inl ⟨s, hs, r⟩
    · exact Or.inr ⟨s, hs, r⟩
  · rintro (⟨s, hs, r⟩ | ⟨s, hs, r⟩)
    · exact ⟨s, List.mem_append_left _ hs, r⟩
    · exact ⟨s, List.mem_append_right _ hs, r⟩

/-- `explain()` succeeds iff it succeeds for every step -/
theorem pipeline_explain_ok (p : Pipeline Ω α) (o : Ω) :
    (∃ ks, p.explain o = .ok ks) ↔ ∀ s ∈ p.iter, ∃ ks', s.explain o = .ok ks' := by
  rw [pipeline_explain, seqUnion_ok_iff]
  constructor
  · intro h s hs
    exact h (s.explain o) (by simp only [List.mem_map, List.mem_reverse]; exact ⟨s, hs, rfl⟩)
  · intro h r hr
    simp only [List.mem_map, List.mem_reverse] at hr
    obtain ⟨s, hs, rfl⟩ := hr
    exact h s hs

/-- `explain()` of a sum succeeds exactly when it succeeds for both operands -/
theorem explain_add_ok {p q : Pipeline Ω α} (hq : q.WF) (hpe : p.empty = false)
    (hqe : q.empty = false) (o : Ω) :
    (∃ ks, (p + q).explain o = .ok ks) ↔
      (∃ kp, p.explain o = .ok kp) ∧ (∃ kq, q.explain o = .ok kq) := by
  rw [pipeline_explain_ok, pipeline_explain_ok, pipeline_explain_ok, iter_add hq hpe hqe]
  constructor
  · intro h
    exact ⟨fun s hs => h s (List.mem_append_left _ hs), fun s hs => h s (List.mem_append_right _ hs)⟩
  · rintro ⟨h1, h2⟩ s hs
    rcases List.mem_append.1 hs with hs | hs
    · exact h1 s hs
    · exact h2 s hs

/-- the same for `explain()` -/
theorem explain_add_mem {p q : Pipeline Ω α} (hq : q.WF) (hpe : p.empty = false)
    (hqe : q.empty = false) (o : Ω) {ks kp kq : Keys} (h : (p + q).explain o = .ok ks)
    (h1 : p.explain o = .ok kp) (h2 : q.explain o = .ok kq) (k : String) :
    k ∈ ks ↔ k ∈ kp ∨ k ∈ kq := by
  rw [pipeline_explain_mem _ o h k, pipeline_explain_mem _ o h1 k, pipeline_explain_mem _ o h2 k,
    iter_add hq hpe hqe]
  constructor
  · rintro ⟨s, hs, r⟩
    rcases List.mem_append.1 hs with hs | hs
    · exact Or.inl ⟨s, hs, r⟩
    · exact Or.inr ⟨s, hs, r⟩
  · rintro (⟨s, hs, r⟩ | ⟨s, hs, r⟩)
    · exact ⟨s, List.mem_append_left _ hs, r⟩
    · exact ⟨s, List.mem_append_right _ hs, r⟩

/-! ## a step built from a `PartialApplication` -/

/-- `step_partial`: a step `PipelineStep(PartialApplication(prim, *pos, **kw))` — what
    `@pipeline_step` and the helpers of `labrea.functions` build — evaluates every parameter
    under the options given at evaluation time and computes
    `prim(*evaluated_pos, x, **evaluated_kw)`; a parameter that cannot be evaluated makes the
    whole evaluation fail; its keys (explain) are the union of its parameters' keys (explain). -/
theorem step_partial (tag : Nat) (prim : List α → List (String × α) → Except Err α)
    (pos : List (Param Ω α)) (kw : List (String × Param Ω α)) (x : α) (o : Ω) :
    (Step.partialApp tag prim pos kw).transform x o =
        (match evalPos o pos, evalKw o kw with
         | some ps, some ks => prim (ps ++ [x]) ks
         | _, _ => .error .evaluation)
    ∧ (Step.partialApp tag prim pos kw).keys o =
        seqUnion (pos.map (fun p => p.keys o) ++ kw.map (fun p => p.2.keys o))
    ∧ (Step.partialApp tag prim pos kw).explain o =
        seqUnion (pos.map (fun p => p.explain o) ++ kw.map (fun p => p.2.explain o)) := by
  refine ⟨?_, rfl, rfl⟩
  simp only [Step.transform, Step.evaluate]
  cases evalPos o pos with
  | none => rfl
  | some ps =>
    cases evalKw o kw with
    | none => rfl
    | some ks => rfl

/-- the keyword parameters are evaluated one by one from the *same* options, and bound by name -/
theorem evalKw_spec (o : Ω) (kw : List (String × Param Ω α)) (ks : List (String × α)) :
    evalKw o kw = some ks ↔
      ks.map Prod.fst = kw.map Prod.fst ∧
      ∀ i (h : i < kw.length) (h' : i < ks.length), (kw[i]).2.eval o = some (ks[i]).2 := by
  induction kw generalizing ks with
  | nil =>
    cases ks <;> simp [evalKw]
  | cons kp kw ih =>
    obtain ⟨k, p⟩ := kp
    simp only [evalKw]
    cases hp : p.eval o with
    | none =>
      simp only [Option.bind_eq_bind, Option.bind_none, List.map_cons, List.length_cons]
      constructor
      · intro h; cases h
      · rintro ⟨h1, h2⟩
        cases ks with
        | nil => simp at h1
        | cons a ks =>
          have := h2 0 (by simp) (by simp)
          simp [hp] at this
    | some v =>
      cases hrest : evalKw o kw with
      | none =>
        simp only [Option.bind_eq_bind, Option.bind_some, Option.bind_none, List.map_cons,
          List.length_cons]
        constructor
        · intro h; cases h
        · rintro ⟨h1, h2⟩
          cases ks with
          | nil => simp at h1
          | cons a ks =>
            simp at h1
            have : evalKw o kw = some ks := by
              rw [ih]
              refine ⟨h1.2, ?_⟩
              intro i h h'
              have := h2 (i + 1) (by simp; omega) (by simp; omega)
              simpa using this
            rw [hrest] at this; cases this
      | some vs =>
        simp only [Option.bind_eq_bind, Option.bind_some, List.map_cons, List.length_cons]
        have ihv := (ih vs).1 hrest
        constructor
        · intro h
          have : ks = (k, v) :: vs := by
            simp [pure] at h; exact h.symm
          subst this
          refine ⟨by simp [ihv.1], ?_⟩
          intro i h h'
          cases i with
          | zero => simpa using hp
          | succ i =>
            have := ihv.2 i (by simp at h; omega) (by simp at h'; omega)
            simpa using this
        · rintro ⟨h1, h2⟩
          cases ks with
          | nil => simp at h1
          | cons a ks =>
            simp at h1
            have h0 := h2 0 (by simp) (by simp)
            simp [hp] at h0
            have hks : evalKw o kw = some ks := by
              rw [ih]
              refine ⟨h1.2, ?_⟩
              intro i h h'
              have := h2 (i + 1) (by simp; omega) (by simp; omega)
              simpa using this
            rw [hrest] at hks
            cases hks
            obtain ⟨a1, a2⟩ := a
            simp at h1 h0
            simp [pure, h1.1, h0]

example : ∃ (s : Step (List (String × Nat)) Nat) (o : List (String × Nat)) (ks : Keys),
    s.transform 10 o = .ok 7 ∧ s.keys o = .ok ks ∧ "AMOUNT" ∈ ks :=
  -- `@pipeline_step def sub(x, y=Option('AMOUNT')): return x - y` under {'AMOUNT': 3}
  ⟨.partialApp 1
      (fun pos kw => match pos, kw with
        | [x], [("y", y)] => .ok (x - y)
        | _, _ => .error (.raised "TypeError"))
      [] [("y", ⟨fun o => o.lookup "AMOUNT", fun _ => .ok ["AMOUNT"], fun _ => .ok ["AMOUNT"]⟩)],
   [("AMOUNT", 3)], ["AMOUNT"], rfl, rfl, by simp⟩

/-! ## non-vacuity: concrete pipelines satisfying the hypotheses used above -/

section examples
/-- `@pipeline_step def s(x, k=Option(key)): return x + k` on `Nat` with options as an association list -/
def exStep (tag : Nat) (key : String) : Step (List (String × Nat)) Nat :=
  .partialApp tag
    (fun pos kw => match pos, kw with
      | [x], [(_, k)] => .ok (x + k)
      | _, _ => .error (.raised "TypeError"))
    [] [("k", ⟨fun o => o.lookup key, fun o => if (o.lookup key).isSome then .ok [key] else .error .keyNotFound,
              fun _ => .ok [key]⟩)]

def exP : Pipeline (List (String × Nat)) Nat := .single (exStep 1 "A")
def exQ : Pipeline (List (String × Nat)) Nat := .cons (exStep 3 "C") (.single (exStep 2 "B"))
def exO : List (String × Nat) := [("A", 1), ("B", 10), ("C", 100)]

-- hypotheses of steps_add / iter_add / add_assoc / add_empty_left / add_empty_steps
example : exP.WF ∧ exQ.WF ∧ exP.empty = false ∧ exQ.empty = false := ⟨trivial, ⟨rfl, trivial⟩, rfl, rfl⟩
example : ((exP + exQ).iter.map Step.tag?) = [some 1, some 2, some 3] := rfl
example : (((exP + exQ) + exP).iter.map Step.tag?) = ((exP + (exQ + exP)).iter.map Step.tag?) := rfl
example : (((new : Pipeline (List (String × Nat)) Nat) + exQ).iter.map Step.tag?) = [some 2, some 3] := rfl
example : (new : Pipeline (List (String × Nat)) Nat).empty = true := rfl
-- hypothesis of transform_add_of_evaluable, and both sides of transform_add_ok
example : (exQ.evaluate exO).isSome = true := rfl
example : (exP + exQ).transform 5 exO = .ok 116 := rfl
example : exP.transform 5 exO = .ok 6 ∧ exQ.transform 6 exO = .ok 116 := ⟨rfl, rfl⟩
-- a parameter that cannot be evaluated: the whole evaluation fails, whatever the bracketing
example : (exP + exQ).transform 5 [("A", 1), ("C", 100)] = .error .evaluation := rfl
-- hypotheses of pipeline_keys_mem / pipeline_keys_ok / pipeline_explain_mem
example : (exP + exQ).keys exO = .ok ["C", "B", "A"] := rfl
example : (exP + exQ).explain [] = .ok ["C", "B", "A"] := rfl
example : (exP + exQ).keys [("A", 1)] = .error .keyNotFound := rfl
-- the hypotheses of `keys_add_mem` / `keys_add_ok` are met by concrete non-empty operands
example : ∀ k, k ∈ ["C", "B", "A"] ↔ k ∈ ["A"] ∨ k ∈ ["C", "B"] :=
  keys_add_mem (p := exP) (q := exQ) ⟨rfl, trivial⟩ rfl rfl exO (ks := ["C", "B", "A"]) (kp := ["A"])
    (kq := ["C", "B"]) rfl rfl rfl
example : ¬ ∃ ks, (exP + exQ).keys [("A", 1)] = .ok ks := by
  rw [keys_add_ok (p := exP) (q := exQ) ⟨rfl, trivial⟩ rfl rfl]
  rintro ⟨_, ⟨kq, h⟩⟩; cases h
-- e >> p
example : applyEval (Param.const 5) (exP + exQ) exO = .ok 116 := rfl
example : applyEval ⟨fun _ => none, fun _ => .error .keyNotFound, fun _ => .ok ["S"]⟩ (exP + exQ) exO
    = .error .evaluation := rfl
end examples

end Labrea.PipelineLL.C13

import LabreaModel.Dotted
namespace Labrea
theorem smoke_alookup_ainsert (k : String) (v : V) (d : List (String × V)) :
    alookup k (ainsert k v d) = some v := by simp
end Labrea

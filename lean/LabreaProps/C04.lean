/-
  C04 — Option resolution: present key wins (even falsy), else default, else error; domains;
  namespaces; Option.set.

  `optionOp` is the model of `Option.evaluate/validate/keys/explain` (LabreaModel/Eval.lean); `run` is any
  interpretation of the children (`ev env n` in particular).  Values are arbitrary `V`: `none`, `false`,
  `0`, `""`, `[]`, `{}` are ordinary constructors, so "even falsy" needs no special case in the
  statements — the tie to the code is where it matters (C04's correspondence sweep).
-/
import LabreaModel.MonadLemmas
import LabreaModel.MixLemmas
namespace Labrea

variable (env : Env) (run : Run) (n id : Nat) (key : String) (o : V)

/-- **present_wins.** Whenever the key is present the Option yields the stored value, resolved against the
    same options — whatever the value is (falsy ones included) and whatever the default is. -/
theorem option_present_wins (self : Expr) (dflt : Option Expr) (raw v : V) (rd : List String) (s : St)
    (hk : getDotted key o = .found raw) (hr : resolveR n raw o = some (.ok v, rd)) :
    ∃ s', optionOp env run n self id key dflt Option.none .evaluate o s = some (.ok v, s') := by
  simp [optionOp, readKey, resolveM, bind_run, hk, hr, emitAll_run]

/-- a present value without templates is returned as it is -/
theorem option_present_plain (self : Expr) (dflt : Option Expr) (raw : V) (s : St)
    (hk : getDotted key o = .found raw) (hr : resolveR n raw o = some (.ok raw, [])) :
    ∃ s', optionOp env run n self id key dflt Option.none .evaluate o s = some (.ok raw, s') :=
  option_present_wins env run n id key o self dflt raw raw [] s hk hr

/-- the default is not even looked at when the key is present (laziness of defaults) -/
theorem option_present_ignores_default (self : Expr) (d1 d2 : Option Expr) (dom : Option Expr) (raw : V) (s : St)
    (hk : getDotted key o = .found raw) :
    optionOp env run n self id key d1 dom .evaluate o s = optionOp env run n self id key d2 dom .evaluate o s := by
  simp [optionOp, readKey, bind_run, hk]

/-- **absent_default.** Only when the key is absent is the default evaluated — against the same options. -/
theorem option_absent_default (self d : Expr) (s : St) (hk : getDotted key o = .keyErr) :
    optionOp env run n self id key (some d) Option.none .evaluate o s =
      ((do let v ← run .evaluate d o; emit (.typeCheck id); pure v) : M V) { s with events := .read key :: s.events } := by
  simp [optionOp, readKey, bind_run, hk]

/-- **absent_no_default.** Absent and no default: a missing-key error naming the key, with the Option as source. -/
theorem option_absent_no_default (self : Expr) (dom : Option Expr) (s : St) (hk : getDotted key o = .keyErr) :
    optionOp env run n self id key Option.none dom .evaluate o s =
      some (.error [{ cls := .keyNotFound, src := id, key := key }], { s with events := .read key :: s.events }) := by
  simp [optionOp, readKey, bind_run, hk, keyNotFound]

/-- a present value that references a missing key fails with THAT key (not with the Option's own, and not
    by falling back to the default) -/
theorem option_dangling_reference (self : Expr) (dflt dom : Option Expr) (raw : V) (k : String) (rd : List String) (s : St)
    (hk : getDotted key o = .found raw) (hr : resolveR n raw o = some (.error (.key k), rd)) :
    ∃ s', optionOp env run n self id key dflt dom .evaluate o s =
      some (.error ({ cls := .keyNotFound, src := id, key := k } :: errOther "KeyError"), s') := by
  simp [optionOp, readKey, resolveM, bind_run, hk, hr, keyNotFound, emitAll_run]

/-- **domain_never_violated** (container domains). If an Option with a container domain yields `v`,
    then `v` is a member of the domain as evaluated under the same options. -/
theorem option_domain_container (self de : Expr) (dflt : Option Expr) (s s' : St) (v : V)
    (h : optionOp env run n self id key dflt (some de) .evaluate o s = some (.ok v, s')) :
    ∃ s1 s2 dv, run .evaluate de o s1 = some (.ok dv, s2) ∧
      (isCallable dv = true ∨ isContainer dv = false ∨ pyIn v dv = some true) := by
  simp only [optionOp] at h
  rw [bind_run] at h
  split at h
  · simp at h
  · simp at h
  · rename_i v0 s0 _
    simp only [bind_run, emit_run] at h
    cases hd : run .evaluate de o { s0 with events := Event.typeCheck id :: s0.events } with
    | none => simp [hd] at h
    | some p =>
      obtain ⟨r, s2⟩ := p
      cases r with
      | error e => simp [hd] at h
      | ok dv =>
        refine ⟨_, s2, dv, hd, ?_⟩
        simp only [hd] at h
        by_cases hc : isCallable dv = true
        · exact Or.inl hc
        · by_cases hq : isContainer dv = true
          · right; right
            simp only [hc, hq] at h
            cases hp : pyIn v0 dv with
            | none => simp [hp] at h
            | some b =>
              cases b with
              | false => simp [hp] at h
              | true =>
                simp [hp] at h
                obtain ⟨hv, _⟩ := h
                subst hv; exact hp
          · right; left; simpa using hq

/-- **set_get.** `Option(k).set(o, v)` (= `mix(o, set_dotted_key(k, v, {}))`) yields a dictionary in which the
    key evaluates to `v`, for every non-mapping `v` and every key without index segments. -/
theorem option_set_get (v : V) (hv : v.isDict = false) (p : List String) (hp : p ≠ []) (hn : NoIdx p)
    (d : List (String × V)) :
    ∃ sub, setPath p v [] = some sub ∧ walk p (mix (.dict d) (.dict sub)) = .found v := by
  obtain ⟨sub, h1, h2⟩ := set_get v hv p hp hn d
  exact ⟨sub, h1, by simpa [mix] using h2⟩

/-- all other top-level keys are intact after `Option.set` -/
theorem option_set_frame (v : V) (k k' : String) (rest : List String) (hne : k' ≠ k) (d sub : List (String × V))
    (hs : setPath (k :: rest) v [] = some sub) : alookup k' (mixObj d sub) = alookup k' d :=
  set_frame_top v (k :: rest) k k' rest rfl hne d sub hs

/-- `Option.set` with an index segment does NOT round-trip (known finding F17): the list index becomes a
    section keyed by the digit string -/
theorem option_set_index_segment_breaks :
    (setPath ["L", "0"] (.int 9) []).map (fun sub => walk ["L", "0"] (mix (.dict [("L", .list [.int 1, .int 2])]) (.dict sub)))
      = some Lk.keyErr := by decide +kernel

/-- a namespace's `keys` / `explain` are the unions over its members' (fully-qualified) Options -/
theorem namespace_keys_union (members : List (String × Expr)) (op : Op) (h : op = .keys ∨ op = .explain) :
    namespaceOp run n id key members op o = unionOver run op (members.map Prod.snd) o := by
  rcases h with h | h <;> subst h <;> simp [namespaceOp]

/-! ### non-vacuity -/
example : getDotted "S.X" (.dict [("S", .dict [("X", .int 0)])]) = .found (.int 0) := by decide +kernel
example : resolveR 3 (.int 0) (.dict []) = some (.ok (.int 0), []) := by rfl
example : getDotted "S.X" (.dict [("S", .dict [])]) = .keyErr := by decide +kernel
example : NoIdx ["S", "X"] := by intro seg h; simp at h; rcases h with h | h <;> subst h <;> decide +kernel

/-! ### Segments that read as integer literals (`int(seg)` succeeds): indices, also from the end -/

/-- a segment that reads as an integer literal never names an entry of a section: `get_dotted_key("S.-1", …)` and
    `"S.1"` are missing keys even when the section has the entries `"-1"` / `"1"` -/
theorem step_section_integer_literal (seg : String) (kvs : List (String × V)) (i : Nat) (h : segIndex? seg = some i) :
    step seg (.dict kvs) = .keyErr := by
  simp [step, h]

/-- a negative integer literal indexes a list from its end, within bounds -/
theorem step_list_from_end (seg : String) (xs : List V) (k : Nat) (h : parseIntLit seg.toList = some (true, k))
    (hk : k ≠ 0) (hle : k ≤ xs.length) :
    step seg (.list xs) = match xs[xs.length - k]? with | some v => .found v | Option.none => .keyErr := by
  have hi : segIndex? seg = some k := by simp [segIndex?, h]
  have hf : segFromEnd seg = true := by simp [segFromEnd, h, hk]
  simp only [step, hi, seqAt?, hf, hle, if_true]
  cases xs[xs.length - k]? <;> rfl

/-- … and is a missing key beyond them -/
theorem step_list_from_end_out_of_range (seg : String) (xs : List V) (k : Nat) (h : parseIntLit seg.toList = some (true, k))
    (hk : k ≠ 0) (hgt : xs.length < k) : step seg (.list xs) = .keyErr := by
  have hi : segIndex? seg = some k := by simp [segIndex?, h]
  have hf : segFromEnd seg = true := by simp [segFromEnd, h, hk]
  have : ¬ k ≤ xs.length := by omega
  simp [step, hi, seqAt?, hf, this]

example : parseIntLit "-1".toList = some (true, 1) := by decide +kernel
example : parseIntLit " +1_0 ".toList = some (false, 10) := by decide +kernel
example : parseIntLit "1__0".toList = none := by decide +kernel
example : getDotted "L.-1" (.dict [("L", .list [.int 1, .int 2, .int 3])]) = .found (.int 3) := by decide +kernel
example : getDotted "S.-1" (.dict [("S", .dict [("-1", .int 1)])]) = .keyErr := by decide +kernel

end Labrea

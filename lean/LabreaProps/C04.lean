import LabreaModel.Eval
namespace Labrea
theorem c04_placeholder : True := trivial
end Labrea

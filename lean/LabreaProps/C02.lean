/-
  C02 — memoization is effective: one body run per relevant option assignment.
-/
import LabreaModel.CacheLemmas
import LabreaProps.C03
import LabreaModel.DatasetTransparency
namespace Labrea

variable (env : Env) (run : Run) (x : Expr) (c : Nat) (o : V)

/-- **second_hit.** Once an entry is stored under the fingerprint of `o`, the next `Cached.evaluate` whose
    fingerprint is the same finds it: the memory backend answers `exists` with yes and `get` with the stored
    value, so (`cached_hit`) the body is not evaluated again.  Stated on the backend: after a store under `fp`,
    a lookup under `fp` yields the stored value, in the same or any later state that keeps the entry. -/
theorem second_hit (s : St) (fp v : V) :
    entryLookup fp ((s.setCacheEntries c (entryInsert fp v (s.cacheEntries c))).cacheEntries c) = some v :=
  store_then_lookup s c fp v

/-- a hit runs no user code of the inner expression and no effect: effects sit inside `Cached`
    (`Dataset._composed` = WithDefaultOptions(WithOptions(cached(Logged(Computation(…, effects)))))), and
    the right-hand side of `cached_hit` does not mention the inner expression at all -/
theorem hit_runs_nothing (s s1 s2 : St) (v : V) (he : existsReq env run x c o s = some (.ok true, s1))
    (hg : getReq env run x c o s1 = some (.ok v, s2)) (x' : Expr)
    (he' : existsReq env run x' c o s = some (.ok true, s1)) (hg' : getReq env run x' c o s1 = some (.ok v, s2)) :
    cachedOp env run x c .evaluate o s = cachedOp env run x' c .evaluate o s := by
  rw [cached_hit env run x c o s s1 s2 v he hg, cached_hit env run x' c o s s1 s2 v he' hg']

/-- **irrelevant_key / perm_top.** The fingerprint is computed from the *sorted* reported keys and the values
    under them, so adding or changing options nothing refers to, or permuting the top level of the dictionary
    (which changes no lookup), leaves it unchanged. -/
theorem fingerprint_ignores_irrelevant (o o' : V) (ks : List String) (h : ∀ k ∈ ks, getDotted k o' = getDotted k o) :
    fpPure o' (sortStrings ks) = fpPure o (sortStrings ks) :=
  fingerprint_agree o o' _ (fun k hk => h k ((sortStrings_mem ks k).mp hk))

/-- effects run after the body, with its value, once per body execution: `Computation.evaluate` is
    "value ← body; for each effect: callback ← effect expression; callback(value)" -/
theorem effects_after_body (effects : List Expr) (s s1 s2 : St) (v sw : V)
    (hx : run .evaluate x o s = some (.ok v, s1))
    (hs : run .evaluate effectsDisabledOption o s1 = some (.ok sw, s2)) (ht : sw.truthy = false) :
    computationOp env run x effects .evaluate o s =
      (do forM' (fun cb => do
            let f ← run .evaluate cb o
            let _ ← call env f [v] []
            pure ()) effects
          pure v : M V) s2 := by
  simp [computationOp, bind_run, hx, hs, ht]

/-- if the body fails no effect runs -/
theorem no_effect_when_body_fails (effects : List Expr) (s s1 : St) (err : Err)
    (hx : run .evaluate x o s = some (.error err, s1)) :
    computationOp env run x effects .evaluate o s = some (.error err, s1) := by
  simp [computationOp, bind_run, hx]

/-! non-vacuity: a diamond evaluated once (kernel-evaluated): `f(a = d, b = d)` with `d` cached calls `g` once -/
def c02Env : Env :=
  { β := fun f a k => .ok (.app f a k), binds := fun _ _ => .error "x", ov := fun _ => default, ds := fun _ => default,
    cacheKind := fun _ => .memory }

def diamond : Expr :=
  let d := Expr.cached 3 (.funApp 2 (.value 1 (.fn "g" [] [])) [.option 7 "A" Option.none Option.none] []) 0
  .funApp 5 (.value 4 (.fn "f" [] [])) [d, d] []

def callsOf (name : String) (evs : List Event) : Nat :=
  (evs.filter fun e => match e with | .call f _ _ => f == name | _ => false).length

example : (match ev c02Env 30 .evaluate diamond (.dict [("A", .int 1)]) {} with
    | some (.ok _, s) => callsOf "g" s.events == 1 && callsOf "f" s.events == 1
    | _ => false) = true := by decide +kernel


/-! ### Memoization is effective, for all histories (under fingerprint soundness) -/

/-- **evaluated_once.** After a successful evaluation of a MemoryCache-cached node on `o` (from a store satisfying the
    invariant, e.g. after any history), every later evaluation on ANY dictionary `o'` with the same fingerprint — the
    same dictionary again, one with never-mentioned keys added, one with its keys permuted: anything `keys()` does not
    tell apart — consists of the existence and get requests only: the inner expression is not evaluated, so no body
    and no effect runs; and it returns the stored value. -/
theorem evaluated_once {env : Env} {run : Run} {x : Expr} {c : Nat} {D : V → Prop} {fp : V → V} {den : V → Except Err V}
    (H : FingerprintSound env run x c D fp den) (o : V) (ho : D o) (s : St) (hinv : StoreInv c D fp den s)
    (v : V) (hv : den o = .ok v) (r : Except Err V) (s' : St) (h : cachedOp env run x c .evaluate o s = some (r, s'))
    (o' : V) (ho' : D o') (hfp : fp o' = fp o) :
    cachedOp env run x c .evaluate o' s' = (existsReq env run x c o' >>= fun _ => getReq env run x c o') s' := by
  have hent := cached_evaluate_stores H o ho s hinv v hv r s' h
  exact cached_hit_runs_nothing H o' ho' s' v (hfp ▸ hent)

/-- instance: the dataset family of C01 (`@dataset def d(p = Option(key)): return body(p=p)`): its body runs once per
    value of the option, whatever else the dictionaries contain -/
theorem dataset_evaluated_once {env : Env} {ovid cid : Nat} {key pname body : String} {out : Int → V}
    (H : SimpleDataset env ovid cid key pname body out) (hk : env.cacheKind cid = .memory) (n id : Nat) (msg : String)
    (o : V) (ho : DsDict key o) (s : St) (hinv : StoreInv cid (DsDict key) (fun o => .list [.dict [(key, .int (intOf key o))]])
      (fun o => .ok (out (intOf key o))) s)
    (r : Except Err V) (s' : St) (h : cachedOp env (ev env (n + 9)) (dsInner id ovid msg) cid .evaluate o s = some (r, s'))
    (o' : V) (ho' : DsDict key o') (hsame : intOf key o' = intOf key o) :
    cachedOp env (ev env (n + 9)) (dsInner id ovid msg) cid .evaluate o' s' =
      (existsReq env (ev env (n + 9)) (dsInner id ovid msg) cid o' >>= fun _ =>
        getReq env (ev env (n + 9)) (dsInner id ovid msg) cid o') s' :=
  evaluated_once (dataset_fingerprint_sound H hk n id msg) o ho s hinv _ rfl r s' h o' ho' (by simp [hsame])


end Labrea

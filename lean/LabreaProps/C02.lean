import LabreaModel.Eval
namespace Labrea
theorem c02_placeholder : True := trivial
end Labrea

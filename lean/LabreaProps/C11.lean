/-
  C11 — explain() covers keys() and names every missing option.

  FULL STATEMENT (kept visible): whenever explain(o) succeeds it contains keys(o); the listed keys absent from o
  are exactly the options still to be supplied; explain fails only with an insufficient-information error.
  Decided on all generated graphs by the implementation oracle (every sub-dictionary chain).  Proved here
  (`…_partial`): the leaf and selector cases for every key, default, options and interpretation of the
  children.
-/
import LabreaModel.MonadLemmas
namespace Labrea

variable (env : Env) (run : Run) (n id : Nat) (key : String) (o : V)

/-- an absent Option without default and domain: explain lists exactly its key, and validate fails naming it -/
theorem explain_lists_missing_partial (self : Expr) (s : St) (hk : getDotted key o = .keyErr) :
    (∃ s1, optionOp env run n self id key Option.none Option.none .explain o s = some (.ok (keySet [key]), s1)) ∧
    (∃ s2, optionOp env run n self id key Option.none Option.none .validate o s = some (.error [keyNotFound id key], s2)) := by
  refine ⟨⟨{ s with events := .read key :: s.events }, ?_⟩,
    ⟨{ s with events := .read key :: s.events }, by simp [optionOp, existsKey, readKey, bind_run, hk]⟩⟩
  simp [optionOp, existsKey, readKey, bind_run, hk, unionV, unionKeys, keySet, V.setElems, dedup]

/-- a present Option: `keys` and `explain` are computed by the same expression (own key ∪ domain ∪ templated
    strings), one with the children's `keys`, the other with their `explain` -/
theorem explain_keys_same_shape_partial (self : Expr) (dflt dom : Option Expr) (raw : V) (s : St)
    (hk : getDotted key o = .found raw) (hplain : templatedStrings raw = []) (hd : dom = Option.none) :
    ∃ s1, optionOp env run n self id key dflt dom .keys o s = some (.ok (keySet [key]), s1) ∧
      optionOp env run n self id key dflt dom .explain o s = some (.ok (keySet [key]), s1) := by
  subst hd
  refine ⟨{ s with events := .read key :: .read key :: s.events }, ?_, ?_⟩ <;>
    simp [optionOp, existsKey, getKey, readKey, bind_run, hk, hplain, mapM', unionV, unionKeys, unionAll, keySet, V.setElems, dedup]

/-- when a switch cannot choose its branch (dispatch not evaluable, no default), explain fails with an
    insufficient-information error whose source is the switch — and with nothing else -/
theorem explain_switch_insufficient (d : Expr) (lookup : List (V × Expr)) (s s1 : St) (err : Err)
    (hd : run .evaluate d o s = some (.error err, s1)) (he : err.isEvaluationError = true) :
    switchOp run id d lookup Option.none .explain o s = some (.error ({ cls := .insufficient, src := id } :: err), s1) := by
  simp [switchOp, switchLookup, insufficientFrom, bind_run, handle, hd, he]

/-- with a default, an unevaluable dispatch is not an obstacle: explain explains the default -/
theorem explain_switch_default (d df : Expr) (lookup : List (V × Expr)) (s s1 : St) (err : Err)
    (hd : run .evaluate d o s = some (.error err, s1)) (he : err.isEvaluationError = true) :
    switchOp run id d lookup (some df) .explain o s = run .explain df o s1 := by
  simp [switchOp, switchLookup, insufficientFrom, bind_run, handle, hd, he]

/-- explain of an application is the union of the explanations of its parts -/
theorem explain_apply_structural (i : Nat) (x f : Expr) :
    nodeOp env run n .explain (.apply i x f) o = (do let a ← run .explain x o; let b ← run .explain f o; pure (unionV a b)) := by
  cases x <;> simp [nodeOp]

/-! non-vacuity / iterative use: fill what explain lists until validate passes (kernel-evaluated) -/
def c11Env : Env :=
  { β := fun f a k => .ok (.app f a k), binds := fun _ _ => .error "x", ov := fun _ => default, ds := fun _ => default,
    cacheKind := fun _ => .memory }

def c11Expr : Expr :=
  .switch 5 (.option 1 "K" Option.none Option.none) [(.str "x", .option 2 "A" Option.none Option.none)] (some (.option 3 "B" Option.none Option.none))

def explainOf (o : V) : Option V := match ev c11Env 20 .explain c11Expr o {} with | some (.ok v, _) => some v | _ => Option.none

example : explainOf (.dict []) = some (.set [.str "B"]) := by decide +kernel
example : explainOf (.dict [("K", .str "x")]) = some (.set [.str "A", .str "K"]) := by decide +kernel
example : explainOf (.dict [("K", .str "x"), ("A", .int 1)]) = some (.set [.str "A", .str "K"]) := by decide +kernel

/-! ### the full statement is false on the current tree: known finding F27 (kernel-evaluated)

  `Map(switch(Option('K'), {'z': Option('Q'), 'x': case('x').when(never, None)}, 1), {'K': ['z', 'x']})` on `{}`:
  the second element's explain fails (no case matches, no default), `Map.explain` falls back to the mapped
  expression's explain under the caller's options (the default branch): it lists nothing, although validate fails
  for the missing `Q` of the first element. -/
def f27Env : Env := { c11Env with β := fun _ _ _ => .ok (.bool false) }    -- the predicate `never` is false

def f27Expr : Expr :=
  .map 9
    (.switch 6 (.option 1 "K" Option.none Option.none)
      [(.str "z", .option 2 "Q" Option.none Option.none),
       (.str "x", .caseWhen 5 (.value 3 (.str "x")) [(.value 4 (.fn "never" [] []), .value 7 .none)] Option.none)]
      (some (.value 8 (.int 1))))
    [("K", .value 10 (.list [.str "z", .str "x"]))]

theorem explain_lists_nothing_validate_fails_F27 :
    (match ev f27Env 40 .explain f27Expr (.dict []) {} with | some (.ok v, _) => decide (v = .set []) | _ => false) = true ∧
    (match ev f27Env 40 .validate f27Expr (.dict []) {} with
      | some (.error (f :: _), _) => decide (f.cls = .keyNotFound) && decide (f.key = "Q")
      | _ => false) = true := by
  constructor <;> decide +kernel

end Labrea

import LabreaModel.Eval
namespace Labrea
theorem c11_placeholder : True := trivial
end Labrea

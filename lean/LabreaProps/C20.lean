/-
  C20 — datasets survive a pickle round trip with identical behaviour.   Level: PARTIAL.

  Full statement of the property (not provable as such inside Lean, because CPython's pickle and the
  bodies of user functions are not formalised):

      for every dataset graph g whose callables are importable module-level functions (decorator
      form and explicit `dataset(f)` form), every options dictionary o, every protocol, in the
      same or a fresh interpreter:   observe (loads (dumps g)) o = observe g o
      (values, failures, keys), overloads registered before pickling are kept, and the copy can
      be registered on and evaluated further.

  What is proved here is the *state algebra* behind it, on the model `LabreaModel/PickleSM.lean`
  (object graphs as heaps, functions pickled by qualified name through the module namespace,
  `Overloaded.__getstate__/__setstate__`, memoisation of shared references):

    * `state_roundtrip`  — for EVERY heap (any size, any sharing, cycles allowed) whose function
      references resolve by reference, `decode ns' (encode h ns r)` succeeds and the result is
      isomorphic (explicit renaming `σ`, injective, onto, object-wise equal) to the part of `h`
      reachable from `r`; `state_roundtrip_locks`: with the locks `__init__` creates, the lock
      keys agree too, so the isomorphism is plain renaming of ids.
    * `behaviour_preserved` — hence every observation that is a function of the reachable graph up
      to renaming of ids has the same value on the copy.  (That evaluate/keys/explain of labrea ARE
      such functions — they read nothing but instance attributes and call functions by what the
      name denotes — is the part that is *not* proved; the correspondence check
      `harness/props/C20.py` compares the real observations before / after the real round trip.)
    * `overloads_preserved` — the lookup table of every reachable `Overloaded` is carried over and a
      later `register` on the copy succeeds and extends it.
    * `decorator_form_unpicklable` — if a reachable function's qualified name is bound to another
      object (the decorator form rebinds it to the Dataset), `encode` fails: finding F12.
    * `explicit_form_picklable` — conversely, when every function name still denotes the function
      (`d = dataset(f)`), `encode` cannot fail.
  Proof method: induction on the fuel of the encoding traversal (`PickleLemmas.encFld_spec`,
  `encFld_dec`), pigeonhole for the sufficiency of the fuel (`encFld_total`).
-/
import LabreaModel.PickleLemmas
namespace Labrea.Pickle

/-! ### the round trip -/

/-- **state_roundtrip.**  For every heap whose function references resolve by reference (and
    which is closed and exposes no lock through `getstate`), and every receiving namespace that
    defines the names the sender can import, pickling succeeds, unpickling succeeds, and the
    rebuilt heap is isomorphic to the part reachable from the root: `σ` maps the root to the new
    root, is injective on reachable objects (sharing preserved, nothing merged), every reachable
    object `o` at `i` reappears at `σ i` as `setstate (rename σ (getstate i o))`, and the rebuilt
    heap contains nothing else.  Unbounded: any number of objects, any sharing, cycles. -/
theorem state_roundtrip (h : Heap) (ns : Namespace) (ns' : Defined) (r : Id)
    (wf : Picklable h ns r) (hrecv : ∀ n i, ns n = some i → ns' n = true) :
    ∃ p σ h' r', encode h ns r = .ok p ∧ decode ns' p = .ok (h', r') ∧ Iso σ h r h' r' := by
  obtain ⟨p, memo, e⟩ := encodeM_total wf
  obtain ⟨h', d, iso, _⟩ := encode_sound (ns' := ns') hrecv e
  exact ⟨p, idx memo, h', idx memo r, encode_of_encodeM e, d, iso⟩

/-- non-vacuity: the explicit-form graph satisfies the hypotheses … -/
example : Picklable exHeap nsExplicit 0 := picklableB_sound (by decide)
example : ∀ n i, nsExplicit n = some i → recvDefined n = true := exRecv
example : ∃ p σ h' r', encode exHeap nsExplicit 0 = .ok p ∧ decode recvDefined p = .ok (h', r') ∧
    Iso σ exHeap 0 h' r' :=
  state_roundtrip exHeap nsExplicit recvDefined 0 (picklableB_sound (by decide)) exRecv
/-- … and the conclusion is the expected concrete copy (sharing of the function object between
    `Value.value` and `__wrapped__` kept: both are `ref 6`; cache content carried along) -/
example : roundtrip exHeap nsExplicit recvDefined 0 = .ok (exCopy, 0) := by decide +kernel

/-- **state_roundtrip_locks.**  If moreover every `Overloaded` holds the lock registered under its
    own id (which `Overloaded.__init__` establishes), the copy holds the lock registered under
    the same key: every reachable object reappears as the plain renaming of itself. -/
theorem state_roundtrip_locks (h : Heap) (ns : Namespace) (ns' : Defined) (r : Id)
    (wf : Picklable h ns r) (hrecv : ∀ n i, ns n = some i → ns' n = true)
    (own : ∀ i o, hget h i = some o → OwnLock i o) :
    ∃ p σ h' r', encode h ns r = .ok p ∧ decode ns' p = .ok (h', r') ∧ Iso σ h r h' r' ∧
      ∀ i, Reach h r i → ∃ o, hget h i = some o ∧ hget h' (σ i) = some (renObj σ o) := by
  obtain ⟨p, σ, h', r', e, d, iso⟩ := state_roundtrip h ns ns' r wf hrecv
  refine ⟨p, σ, h', r', e, d, iso, ?_⟩
  intro i hi
  obtain ⟨o, ho, hc⟩ := iso.obj i hi
  exact ⟨o, ho, by rw [hc, viaState_ownLock σ i o (own i o ho)]⟩

example : ∀ i o, hget exHeap i = some o → OwnLock i o := by
  intro i o ho
  have hm := hget_mem ho
  simp [exHeap] at hm
  rcases hm with ⟨rfl, rfl⟩ | ⟨rfl, rfl⟩ | ⟨rfl, rfl⟩ | ⟨rfl, rfl⟩ | ⟨rfl, rfl⟩ | ⟨rfl, rfl⟩ |
    ⟨rfl, rfl⟩ | ⟨rfl, rfl⟩ | ⟨rfl, rfl⟩ | ⟨rfl, rfl⟩ <;> simp [OwnLock, getAttr]

/-- an observation that only depends on the reachable graph up to renaming of object ids -/
def Invariant {β : Type} (B : Heap → Id → β) : Prop :=
  ∀ σ h r h' r', Iso σ h r h' r' → B h r = B h' r'

/-- **behaviour_preserved.**  Any such observation gives the same result on the unpickled copy.
    (Partial: that labrea's evaluate / keys / explain are such observations is checked by the
    correspondence run, not proved.) -/
theorem behaviour_preserved {β : Type} (B : Heap → Id → β) (inv : Invariant B)
    (h : Heap) (ns : Namespace) (ns' : Defined) (r : Id)
    (wf : Picklable h ns r) (hrecv : ∀ n i, ns n = some i → ns' n = true) :
    ∃ p h' r', encode h ns r = .ok p ∧ decode ns' p = .ok (h', r') ∧ B h' r' = B h r := by
  obtain ⟨p, σ, h', r', e, d, iso⟩ := state_roundtrip h ns ns' r wf hrecv
  exact ⟨p, h', r', e, d, (inv σ h r h' r' iso).symm⟩

/-- non-vacuity: "class and attribute names of the root" is such an observation -/
example : Invariant (fun h r => (hget h r).map (·.head)) := by
  intro σ h r h' r' iso
  obtain ⟨o, ho, hc⟩ := iso.obj r (Reach.refl r)
  rw [iso.root] at hc
  simp [ho, hc, viaState_head]

/-! ### overloads -/

/-- **overloads_preserved.**  For every `Overloaded` object reachable from the pickled root (with
    its lock and its lookup dict `items`), after the round trip the copy's table is the original
    table with ids renamed — nothing dropped, nothing added, order kept — and `register` on the
    copy succeeds for every key / value and yields the table extended by that entry. -/
theorem overloads_preserved (h : Heap) (ns : Namespace) (ns' : Defined) (r : Id)
    (wf : Picklable h ns r) (hrecv : ∀ n i, ns n = some i → ns' n = true)
    (ov d : Id) (attrs : List String) (kids items : List Fld)
    (reach : Reach h r ov) (io : IsOverloaded h ov attrs kids d items) :
    ∃ p σ h' r', encode h ns r = .ok p ∧ decode ns' p = .ok (h', r') ∧
      table h ov = some (dictPairs items) ∧
      table h' (σ ov) = some (renPairs σ (dictPairs items)) ∧
      ∀ key val, ∃ h'', register h' (σ ov) key val = .ok h'' ∧
        table h'' (σ ov) = some (pairsInsert key val (renPairs σ (dictPairs items))) := by
  obtain ⟨p, σ, h', r', e, dd, iso⟩ := state_roundtrip h ns ns' r wf hrecv
  have io' := iso_overloaded iso reach io
  have t' := table_of_isOverloaded io'
  rw [dictPairs_map] at t'
  refine ⟨p, σ, h', r', e, dd, table_of_isOverloaded io, t', ?_⟩
  intro key val
  obtain ⟨h'', hr, ht, _⟩ := register_extends io' key val
  rw [dictPairs_map] at ht
  exact ⟨h'', hr, ht⟩

/-- non-vacuity: object 1 of the example graph is such an `Overloaded`, reachable from the root -/
example : IsOverloaded exHeap 1 ["dispatch", "lookup", "default", "_lock"]
    [.sc (.str "K"), .ref 2, .ref 3, .lock 1] 2 [.sc (.str "one"), .ref 6] :=
  ⟨by decide, ⟨1, by decide⟩, by decide, by decide⟩
example : Reach exHeap 0 1 := exReachOv
/-- concretely: the copy's table has the entry registered before pickling, and one more `register`
    (key `late`, value the copied Option) adds to it -/
example : table exCopy 1 = some [(.sc (.str "one"), .ref 3)] := by decide
example : (match register exCopy 1 (.sc (.str "late")) (.ref 3) with
    | .ok h'' => table h'' 1
    | .error _ => none) = some [(.sc (.str "one"), .ref 3), (.sc (.str "late"), .ref 3)] := by decide
/-- and why `__setstate__` must re-obtain the lock: on the bare pickled state (`_lock` = the id)
    `register` fails -/
example : register [(1, ⟨.inst "Overloaded" ["dispatch", "lookup", "default", "_lock"],
      [.sc (.str "K"), .ref 2, .ref 4, .sc (.int 1)]⟩), (2, ⟨.dict, []⟩)] 1
    (.sc (.str "late")) (.sc .none) = .error .noLock := by decide

/-! ### decorator form (finding F12) -/

/-- **decorator_form_unpicklable.**  If some object reachable from the root is a function whose
    qualified name is bound, in the module namespace, to a *different* object — which is what
    `@dataset def f` does: `m.f` becomes the Dataset — then `encode` fails, whatever else the
    graph contains. -/
theorem decorator_form_unpicklable (h : Heap) (ns : Namespace) (r f d : Id) (o : Obj) (n : Name)
    (reach : Reach h r f) (hf : hget h f = some o) (hfn : (getstate f o).head = .func n)
    (hns : ns n = some d) (hne : d ≠ f) : ∀ p, encode h ns r ≠ .ok p := by
  intro p e
  obtain ⟨memo, em⟩ := encodeM_of_encode e
  obtain ⟨_, _, _, reach_iff, _, fn⟩ :=
    encode_sound (ns' := fun n => (ns n).isSome) (fun n i hn => by simp [hn]) em
  have := fn f o n ((reach_iff f).mp reach) hf hfn
  rw [hns] at this
  exact hne (Option.some.inj this)

/-- the concrete witness: same graph, decorator-form namespace — `PicklingError: it's not the
    same object as m.f` -/
example : failsWith (.notSame "m.f") (encode exHeap nsDecorator 0) = true := by decide
/-- the hypotheses of the theorem hold for it (function 5 is reachable through `overloads`) -/
example : Reach exHeap 0 5 := exReachFn
example : ∀ p, encode exHeap nsDecorator 0 ≠ .ok p :=
  decorator_form_unpicklable exHeap nsDecorator 0 5 0 ⟨.func "m.f", []⟩ "m.f" exReachFn
    (by decide) (by decide) (by decide) (by decide)
example : nsDecorator "m.f" = some 0 ∧ (0 : Id) ≠ 5 := by decide

/-- **explicit_form_picklable.**  Conversely, when every function name still denotes the function
    (the explicit form `d = dataset(f)` keeps `m.f` bound to `f`), encoding cannot fail. -/
theorem explicit_form_picklable (h : Heap) (ns : Namespace) (r : Id) (wf : Picklable h ns r) :
    ∃ p, encode h ns r = .ok p := by
  obtain ⟨p, memo, e⟩ := encodeM_total wf
  exact ⟨p, encode_of_encodeM e⟩

/-- the very same graph with the explicit-form namespace pickles (and, above, round-trips to `exCopy`) -/
example : ∃ p, encode exHeap nsExplicit 0 = .ok p :=
  explicit_form_picklable exHeap nsExplicit 0 (picklableB_sound (by decide))
example : (match encode exHeap nsExplicit 0 with | .ok _ => true | .error _ => false) = true := by
  decide

end Labrea.Pickle

/-
  C08 — pre-set options override, defaults yield, sections merge.

  (The clause "inputs are never mutated" is not a theorem about an immutable model: it is decided by
  deep snapshots of every input dictionary around every operation in the correspondence runs.)
-/
import LabreaModel.MonadLemmas
import LabreaModel.MixLemmas
namespace Labrea

variable (run : Run) (o : V)

/-- **with_options_overlay.** Evaluating / validating `X` with pre-set options `P` under `o` IS evaluating /
    validating `X` under `o` overlaid by `P` (`P` wins). -/
theorem with_options_overlay (x : Expr) (p : V) (op : Op) (h : op = .evaluate ∨ op = .validate) :
    withOptionsOp run x p true op o = run op x (mix o p) := by
  rcases h with h | h <;> subst h <;> rfl

/-- **with_default_overlay.** With default options `D`: `X` under `D` overlaid by `o` (`o` wins). -/
theorem with_default_overlay (x : Expr) (d : V) (op : Op) (h : op = .evaluate ∨ op = .validate) :
    withOptionsOp run x d false op o = run op x (mix d o) := by
  rcases h with h | h <;> subst h <;> rfl

/-- nesting composes: the inner wrapper sees the options the outer one produced -/
theorem with_options_nested (env : Env) (n i1 i2 : Nat) (x : Expr) (p1 p2 : V) (f1 f2 : Bool)
    (hrun : ∀ e o', run .evaluate e o' = nodeOp env run n .evaluate e o') :
    nodeOp env run n .evaluate (.withOptions i1 (.withOptions i2 x p2 f2) p1 f1) o =
      run .evaluate x (let o1 := if f1 then mix o p1 else mix p1 o; if f2 then mix o1 p2 else mix p2 o1) := by
  simp only [nodeOp, withOptionsOp]
  rw [hrun]
  simp only [nodeOp, withOptionsOp]

/-- the `options=` / `default_options=` arguments of a dataset, and `with_options` / `with_default_options`
    (which only change those two fields of the record): the cached body runs under
    `mix (mix D o) P` — defaults yield to the caller, pre-set options override both.  Callback, effects,
    dispatch and cache are inside and do not matter. -/
theorem dataset_options_overlay (env : Env) (n id ds : Nat)
    (hrun : ∀ op e o', run op e o' = nodeOp env run n op e o') :
    nodeOp env run n .evaluate (.dataset id ds) o =
      let r := env.ds ds
      let calculation := Expr.apply (tid id 1) (.overloaded (tid id 7) r.ov) r.callback
      let base := if r.effectsDisabled then calculation else .computation (tid id 2) calculation r.effects
      run .evaluate (.cached (tid id 4) (.logged (tid id 3) base r.msg) r.cache) (mix (mix r.defaultOptions o) r.options) := by
  simp only [nodeOp]
  rw [hrun]
  simp only [nodeOp, withOptionsOp]
  rw [hrun]
  simp only [nodeOp, withOptionsOp, Bool.false_eq_true, if_false, if_true]

/-- `mix` on two dictionaries: pre-set scalars / lists win -/
theorem overlay_preset_wins (k : String) (p d : List (String × V)) (v : V) (hnd : (akeys p).Nodup)
    (hv : alookup k p = some v) (hs : v.isDict = false) :
    ∃ m, mix (.dict d) (.dict p) = .dict m ∧ alookup k m = some v :=
  ⟨mixObj d p, rfl, mix_ingredient_scalar_wins k p d v hnd hv hs⟩

/-- sections present on both sides are merged key by key (recursively) -/
theorem overlay_sections_merge (k : String) (p d pv dv : List (String × V)) (hnd : (akeys p).Nodup)
    (hp : alookup k p = some (.dict pv)) (hd : alookup k d = some (.dict dv)) :
    ∃ m, mix (.dict d) (.dict p) = .dict m ∧ alookup k m = some (.dict (mixObj dv pv)) :=
  ⟨mixObj d p, rfl, mix_sections_merge k p d pv dv hnd hp hd⟩

/-- keys the overlay does not mention come from the other side unchanged -/
theorem overlay_keeps_other (k : String) (p d : List (String × V)) (hnd : (akeys p).Nodup)
    (hp : alookup k p = Option.none) :
    ∃ m, mix (.dict d) (.dict p) = .dict m ∧ alookup k m = alookup k d :=
  ⟨mixObj d p, rfl, mix_keeps_other k p d hnd hp⟩

/-- the caller's sibling inside a pre-set section survives the overlay (the F5 situation) -/
example : walk ["S", "Y"] (mix (.dict [("S", .dict [("Y", .int 2)])]) (.dict [("S", .dict [("X", .int 1)])])) = .found (.int 2) := by
  decide +kernel
example : walk ["S", "X"] (mix (.dict [("S", .dict [("Y", .int 2)])]) (.dict [("S", .dict [("X", .int 1)])])) = .found (.int 1) := by
  decide +kernel

end Labrea

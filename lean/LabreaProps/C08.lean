import LabreaModel.Eval
namespace Labrea
theorem c08_placeholder : True := trivial
end Labrea

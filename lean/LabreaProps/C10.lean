/-
  C10 — validate, keys and evaluate agree about whether options suffice.

  FULL STATEMENT (kept visible): for every expression whose bodies are total and whose option values lie in
  their domains, validate(o), keys(o) and evaluate(o) succeed or fail together, cold and warm; and a passing
  validate(o) excludes a missing-option failure of evaluate(o) for arbitrary bodies.
  It is FALSE in general on the current tree (known findings F9 effects reading options, F20 transformed auto
  members, F21 AllOptions on dangling templates, F22 brace re-substitution: witnesses below); the agreement on
  all generated graphs is decided on the implementation by the C10 oracle.  Proved here (`…_partial`): the
  agreement at the leaves and the structural facts that validation / key inspection of the strict combinators
  run no user code.
-/
import LabreaModel.MonadLemmas
namespace Labrea

variable (env : Env) (run : Run) (n id : Nat) (key : String) (o : V)

/-- an absent Option without default: all three operations fail, with the same missing-key error -/
theorem agree_absent_option_partial (self : Expr) (s : St) (hk : getDotted key o = .keyErr) :
    (∃ s1, optionOp env run n self id key Option.none Option.none .evaluate o s = some (.error [keyNotFound id key], s1)) ∧
    (∃ s2, optionOp env run n self id key Option.none Option.none .validate o s = some (.error [keyNotFound id key], s2)) ∧
    (∃ s3, optionOp env run n self id key Option.none Option.none .keys o s = some (.error [keyNotFound id key], s3)) := by
  refine ⟨⟨{ s with events := .read key :: s.events }, by simp [optionOp, readKey, bind_run, hk]⟩,
    ⟨{ s with events := .read key :: s.events }, by simp [optionOp, existsKey, readKey, bind_run, hk]⟩,
    ⟨{ s with events := .read key :: s.events }, by simp [optionOp, existsKey, readKey, bind_run, hk]⟩⟩

/-- a present Option validates by evaluating itself (through its own request): validate succeeds exactly when
    evaluate does, and fails with evaluate's failure -/
theorem validate_present_is_evaluate_partial (self : Expr) (dflt dom : Option Expr) (raw : V) (s : St)
    (hk : getDotted key o = .found raw) :
    optionOp env run n self id key dflt dom .validate o s =
      (do let _ ← run .evaluate self o; pure V.none : M V) { s with events := .read key :: s.events } := by
  simp [optionOp, existsKey, readKey, bind_run, hk]

/-- validating an application validates its parts and runs no user code: the function value is never called -/
theorem validate_apply_structural (i : Nat) (x f : Expr) :
    nodeOp env run n .validate (.apply i x f) o = (do let _ ← run .validate x o; let _ ← run .validate f o; pure V.none) := by
  cases x <;> simp [nodeOp]

/-- keys of an application are the union of the keys of its parts; no user code -/
theorem keys_apply_structural (i : Nat) (x f : Expr) :
    nodeOp env run n .keys (.apply i x f) o = (do let a ← run .keys x o; let b ← run .keys f o; pure (unionV a b)) := by
  cases x <;> simp [nodeOp]

/-- `Cached.validate` skips the inner validation only when the entry exists -/
theorem cached_validate (x : Expr) (c : Nat) (s s1 : St) (b : Bool) (he : existsReq env run x c o s = some (.ok b, s1)) :
    cachedOp env run x c .validate o s = if b then some (.ok .none, s1) else run .validate x o s1 := by
  cases b <;> simp [cachedOp, bind_run, he]

/-! ### witnesses of the known deviations (kernel-evaluated on the model, replayed on the code by the corpus) -/
def c10Env : Env :=
  { β := fun f a k => .ok (.app f a k), binds := fun _ _ => .error "x", ov := fun _ => default, ds := fun _ => default,
    cacheKind := fun _ => .memory }

def okOf (r : Option (Except Err V × St)) : Option Bool := r.map fun p => match p.1 with | .ok _ => true | .error _ => false

/-- F21: `AllOptions` on `{'A': '{Q}'}` — keys succeed, evaluate and validate fail -/
theorem deviation_F21 :
    okOf (ev c10Env 10 .keys (.allOptions 1) (.dict [("A", .str "{Q}")]) {}) = some true ∧
    okOf (ev c10Env 10 .evaluate (.allOptions 1) (.dict [("A", .str "{Q}")]) {}) = some false ∧
    okOf (ev c10Env 10 .validate (.allOptions 1) (.dict [("A", .str "{Q}")]) {}) = some false := by
  refine ⟨?_, ?_, ?_⟩ <;> decide +kernel

/-- F22: `Template('x{S}')` with a section under `S` — validate and keys succeed, evaluate fails -/
theorem deviation_F22 :
    okOf (ev c10Env 10 .validate (.template 1 "x{S}" []) (.dict [("S", .dict [("a", .int 1)])]) {}) = some true ∧
    okOf (ev c10Env 10 .keys (.template 1 "x{S}" []) (.dict [("S", .dict [("a", .int 1)])]) {}) = some true ∧
    okOf (ev c10Env 10 .evaluate (.template 1 "x{S}" []) (.dict [("S", .dict [("a", .int 1)])]) {}) = some false := by
  refine ⟨?_, ?_, ?_⟩ <;> decide +kernel

/-- and an agreeing case: all three succeed / all three fail -/
example : okOf (ev c10Env 10 .validate (.template 1 "x{A}" []) (.dict [("A", .int 1)]) {}) = some true ∧
    okOf (ev c10Env 10 .keys (.template 1 "x{A}" []) (.dict [("A", .int 1)]) {}) = some true ∧
    okOf (ev c10Env 10 .evaluate (.template 1 "x{A}" []) (.dict [("A", .int 1)]) {}) = some true := by
  refine ⟨?_, ?_, ?_⟩ <;> decide +kernel

end Labrea

import LabreaModel.Eval
namespace Labrea
theorem c10_placeholder : True := trivial
end Labrea

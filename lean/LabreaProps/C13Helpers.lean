/-
  C13, second half — the helper steps of `labrea.functions`.

  * `helper_table_matches`: the table GENERATED from the current `labrea/functions.py`
    (LabreaModel/Generated/HelperTable.lean, rewritten by harness/translate_functions.py at the
    start of every check run) equals the hand-written specification `helperSpec`, row by row:
    kind of definition, parameters and defaults, option-capable parameters, and the operand
    expression of the step.  A swapped operand, or a parameter that no longer reaches an
    `Evaluatable.ensure`, changes the generated row and this theorem stops checking.
  * `helper_step`: every helper step is an instance of `step_partial` — its parameters are
    evaluated under the options given at evaluation time, bound by name, and its keys / explain
    are the union of its parameters'.
  * `option_param_*`: a parameter given as `Option(key[, default])` is read from those options
    and reports `key`.
  * `eval_input_op_param`, `eval_param_op_input`, `binop_symbolic`: the operand order of the
    operator rows is a syntactic fact of the value computed.
-/
import LabreaModel.Helpers
import LabreaModel.Generated.HelperTable
import LabreaProps.C13
namespace Labrea.Helpers.C13
open Labrea.PipelineLL Labrea.Helpers

/-- the generated table is the specification (61 rows) -/
theorem helper_table_matches : Labrea.Generated.helperTable = helperSpec := by decide

example : helperSpec.length = 61 := by decide
example : (helperSpec.map (·.name)).Nodup := by decide

/-- a swapped operand is a different row -/
example : Spec.opRight "subtract" "sub" "__x" ≠ Spec.opLeft "subtract" "sub" "__x" := by decide
/-- a parameter that is not option-capable is a different row -/
example : Spec.opRight "add" "add" "__x" ≠ { Spec.opRight "add" "add" "__x" with capable := [] } := by decide

/-- Every helper step is a `PartialApplication` step: all bindings are evaluated under the same
    options `o` at evaluation time (one that cannot be evaluated makes the evaluation fail), the
    documented operation `runHelper` receives them by name together with the input, and the
    keys / explain of the step are the union of those of the bindings. -/
theorem helper_step (cx : Ctx) (tag : Nat) (h : String) (bs : List (String × Binding)) (x : PV) (o : Opts) :
    (helperStep cx tag h bs).transform x o =
        (match evalKw o (bs.map fun b => (b.1, b.2.toParam)) with
         | some ks => runHelper cx FUEL h ks x
         | none => .error .evaluation)
    ∧ (helperStep cx tag h bs).keys o = seqUnion (bs.map fun b => b.2.toParam.keys o)
    ∧ (helperStep cx tag h bs).explain o = seqUnion (bs.map fun b => b.2.toParam.explain o) := by
  have hsp := Labrea.PipelineLL.C13.step_partial tag (helperPrim cx h) []
    (bs.map fun b => (b.1, b.2.toParam)) x o
  unfold helperStep
  refine ⟨?_, ?_, ?_⟩
  · rw [hsp.1]
    simp only [evalPos]
    cases evalKw o (bs.map fun b => (b.1, b.2.toParam)) <;> rfl
  · rw [hsp.2.1]; simp [List.map_map, Function.comp_def]
  · rw [hsp.2.2]; simp [List.map_map, Function.comp_def]

/-- `Option(key[, default])` with `key` present: the value is read from the options and the key is reported -/
theorem option_param_present (key : String) (d : Option PV) (o : Opts) (v : PV)
    (h : lookup? key o = some v) :
    (BParam.opt key d).toParam.eval o = some v
    ∧ (BParam.opt key d).toParam.keys o = .ok [key]
    ∧ (BParam.opt key d).toParam.explain o = .ok [key] := by
  simp [BParam.toParam, h]

/-- `Option(key, default)` with `key` absent: the default, and no key -/
theorem option_param_default (key : String) (dv : PV) (o : Opts) (h : lookup? key o = none) :
    (BParam.opt key (some dv)).toParam.eval o = some dv
    ∧ (BParam.opt key (some dv)).toParam.keys o = .ok []
    ∧ (BParam.opt key (some dv)).toParam.explain o = .ok [] := by
  simp [BParam.toParam, h]

/-- `Option(key)` with `key` absent: evaluation fails, `keys()` raises, `explain()` names the key -/
theorem option_param_missing (key : String) (o : Opts) (h : lookup? key o = none) :
    (BParam.opt key none).toParam.eval o = none
    ∧ (BParam.opt key none).toParam.keys o = .error .keyNotFound
    ∧ (BParam.opt key none).toParam.explain o = .ok [key] := by
  simp [BParam.toParam, h]

example : ∃ (o : Opts) (v : PV), lookup? "K" o = some v := ⟨[("K", .int 1)], .int 1, rfl⟩
example : ∃ (o : Opts), lookup? "K" o = none := ⟨[], rfl⟩

/-- rows `opRight name op x` (add, subtract, multiply, divide_by, modulo, eq … is_in):
    the value is `input op x` — the input is the LEFT operand -/
theorem eval_input_op_param (cx : Ctx) (n : Nat) (env : Env) (op p : String) (a b : PV)
    (ha : lookupE "%in" env = .ok a) (hb : lookupE ("p:" ++ p) env = .ok b) :
    eval cx (n + 2) env (.binop op .input (.param p)) = pyBinop op a b := by
  simp [eval, ha, hb, bind, Except.bind]

/-- rows `opLeft name op x` (left_multiply, divide_into, contains): the value is `x op input` -/
theorem eval_param_op_input (cx : Ctx) (n : Nat) (env : Env) (op p : String) (a b : PV)
    (ha : lookupE "%in" env = .ok a) (hb : lookupE ("p:" ++ p) env = .ok b) :
    eval cx (n + 2) env (.binop op (.param p) .input) = pyBinop op b a := by
  simp [eval, ha, hb, bind, Except.bind]

example : ∃ (env : Env) (a b : PV), lookupE "%in" env = .ok a ∧ lookupE ("p:" ++ "__x") env = .ok b :=
  ⟨[("%in", .int 10), ("p:__x", .int 3)], .int 10, .int 3, rfl, by simp [lookupE]⟩

/-- on a free symbolic operand an operator builds the term `op(left, right)`: the operand order
    is visible in the result (this is what the symbolic runs of the harness compare) -/
theorem binop_symbolic (op : String) (a b : PV)
    (hop : op ≠ "is" ∧ op ≠ "isnot" ∧ op ≠ "in" ∧ op ≠ "notin") (h : a.isSym = true ∨ b.isSym = true) :
    pyBinop op a b = .ok (.sym op [a, b] []) := by
  obtain ⟨h1, h2, h3, h4⟩ := hop
  unfold pyBinop
  have hs : (a.isSym || b.isSym) = true := by
    cases h with
    | inl h => simp [h]
    | inr h => simp [h]
  simp [h1, h2, h3, h4, hs]

example : pyBinop "sub" (.sym "X" [] []) (.sym "P" [] []) = .ok (.sym "sub" [.sym "X" [] [], .sym "P" [] []] []) :=
  binop_symbolic "sub" _ _ (by decide) (Or.inl rfl)

/-! ### the specification computes, by kernel evaluation (non-vacuity of the rows) -/

section examples
def cx0 : Ctx := specCtx []
def X : PV := .sym "X" [] []
def P : PV := .sym "P" [] []

-- subtract(3) on 10 is 10 - 3; on symbols: sub(X, P)
example : runHelper cx0 12 "subtract" [("__x", .int 3)] (.int 10) = .ok (.int 7) := by rfl
example : runHelper cx0 12 "subtract" [("__x", P)] X = .ok (.sym "sub" [X, P] []) := by rfl
-- left_multiply / divide_into reverse the operand order
example : runHelper cx0 12 "multiply" [("__x", P)] X = .ok (.sym "mult" [X, P] []) := by rfl
example : runHelper cx0 12 "left_multiply" [("__x", P)] X = .ok (.sym "mult" [P, X] []) := by rfl
example : runHelper cx0 12 "divide_by" [("__x", P)] X = .ok (.sym "div" [X, P] []) := by rfl
example : runHelper cx0 12 "divide_into" [("__x", P)] X = .ok (.sym "div" [P, X] []) := by rfl
-- get / get_from
example : runHelper cx0 12 "get" [("__x", P)] X = .ok (.sym "getitem" [X, P] []) := by rfl
example : runHelper cx0 12 "get_from" [("__x", P)] X = .ok (.sym "getitem" [P, X] []) := by rfl
example : runHelper cx0 12 "get" [("__x", .int 7), ("default", .str "d")] (.list [.int 1]) = .ok (.str "d") := by rfl
example : runHelper cx0 12 "get" [("__x", .int 7)] (.list [.int 1]) = .error (.raised "IndexError") := by rfl
-- has_remainder(d, r): x % d == r
example : runHelper cx0 12 "has_remainder" [("divisor", .int 3), ("reminder", .int 2)] (.int 8) = .ok (.bool true) := by rfl
-- wrappers, compositions, instances unfold through the table
example : runHelper cx0 30 "is_not_in" [("container", .list [.int 1, .int 2])] (.int 3) = .ok (.bool true) := by rfl
example : runHelper cx0 30 "intersects" [("iterable", .list [.int 1, .int 2])] (.list [.int 2, .int 5]) = .ok (.bool true) := by rfl
example : runHelper cx0 30 "odd" [] (.int (-3)) = .ok (.bool true) := by rfl
example : runHelper cx0 30 "append" [("item", .int 4)] (.list [.int 1]) = .ok (.list [.int 1, .int 4]) := by rfl
-- reduce(g) folds from the left: g(g(1, 2), 3)
example : runHelper cx0 30 "reduce" [("func", .fn "free:g" [] [])] (.list [.int 1, .int 2, .int 3]) =
    .ok (.record "g" [.record "g" [.int 1, .int 2] [], .int 3] []) := by rfl
-- map_keys(f) applies f to the keys only
example : runHelper cx0 60 "map_keys" [("func", .fn "free:f" [] [])] (.dict [(.str "a", .int 1)]) =
    .ok (.dict [(.record "f" [.str "a"] [], .int 1)]) := by rfl
end examples

end Labrea.Helpers.C13

import LabreaModel.Helpers
import LabreaModel.Generated.HelperTable
namespace Labrea.Helpers.C13
open Labrea.Helpers

theorem helper_table_matches : Labrea.Generated.helperTable = helperSpec := by decide

end Labrea.Helpers.C13

/-
  C15 — threads.  Theorems over `Threads` (lean/LabreaModel/Threads.lean): an interleaving is ANY
  list of (thread, atomic step); no bound on threads, lengths or the schedule.
-/
import LabreaModel.Threads

namespace Labrea.C15
open Labrea.RuntimeSM Labrea.Threads

/-! ## Handler contexts are thread-local -/

/-- `thread_local` (non-interference).  For ANY interleaving `sched` from ANY state `s`, the
    observations of thread `t` (and its final slice: slot, saved stacks, allocation counter) are
    those of `t`'s OWN steps run ALONE by the local semantics `lstep` on `t`'s own initial slice.
    The local semantics cannot see any other thread's slot or saved stacks — its only inputs
    besides the slice are the handler tables of existing runtime objects (immutable:
    `handlers_immutable`), the live default table (global by design: `Request.handle`), and, for
    `inherit p`, the parent's current runtime AT THAT STEP (`toLOp` resolves `inherit p` to
    `adopt (cur p)` in the state in which the step executes; `inherit_reads_parent_now`).
    So no enter / exit / current_runtime() / handle() / request of another thread can change which
    handler serves `t`'s requests. -/
theorem thread_local (t : Thread) (sched : Sched) (s : State) :
    obsOf t (runSched sched s).2 = (lrun t (localView t sched s) (slice s t)).2 ∧
    slice (runSched sched s).1 t = (lrun t (localView t sched s) (slice s t)).1 :=
  ⟨(lrun_view t sched s).2, (lrun_view t sched s).1⟩

/-- `thread_local_alone`: the same statement with a literal "run alone".  Delete every step of every
    other thread from the interleaving: what `t` observes does not change.  Hypotheses (each is
    necessary): the other threads do not register default handlers (registration is global by
    design); `t`'s own steps are not `inherit` (whose result is, by design, the parent's runtime at
    that step — covered by `thread_local` and `inherit_reads_parent_now`); and `t` names only objects
    it could name when alone: objects that exist in the start state or that it creates itself
    (`Own`), its start slice mentioning only such objects (`ClosedSlice`).  The other threads are
    completely unconstrained otherwise: they may enter, leave, derive from and request through the
    very objects `t` is using. -/
theorem thread_local_alone (t : Thread) (sched : Sched) (s : State)
    (hclosed : ClosedSlice s t (slice s t))
    (hreg : ∀ t' o, (t', o) ∈ sched → t' ≠ t → ∀ ty hh, o ≠ .registerDefault ty hh)
    (hown : ∀ o, (t, o) ∈ sched → (∀ p, o ≠ .inherit p) ∧ ∀ r ∈ opIds o, Own s t r) :
    obsOf t (runSched sched s).2 = obsOf t (runSched (sched.filter (fun st => st.1 == t)) s).2 :=
  alone_view s t sched s s ⟨rfl, rfl, fun _ _ => rfl, hclosed, fun _ => Nat.le_refl _⟩ hreg hown

/-- the frame lemma behind it: one step of another thread leaves `t`'s slice untouched -/
theorem other_thread_step_frame (s : State) (t t' : Thread) (o : Op) (h : t' ≠ t) :
    slice (step s t o).1 t' = slice s t' :=
  step_slice_other s t t' o h

/-- the shared handler tables are immutable: no step of any thread changes the table of an
    existing runtime object -/
theorem handlers_immutable (s : State) (t : Thread) (o : Op) (r : Id) (h : Allocated s r) :
    ((step s t o).1.objs r).handlers = (s.objs r).handlers ∧ Allocated (step s t o).1 r :=
  ⟨step_handlers s t o r h, step_allocated s t o r h⟩

/-- `inherit` gives the worker the runtime its parent has at that very step: whatever the parent
    entered before is seen, whatever it enters or leaves afterwards is not (by `thread_local`) -/
theorem inherit_reads_parent_now (s : State) (t p : Thread) (r : Id) (h : s.cur p = some r) :
    (step s t (.inherit p)).1.cur t = some r ∧
    ∀ ty, (step (step s t (.inherit p)).1 t (.run ty)).2 = serve s.defaults (s.objs r).handlers ty := by
  have h1 : (step s t (.inherit p)).1.cur t = some r := by simp [step, h]
  refine ⟨h1, fun ty => ?_⟩
  have h2 : (step s t (.inherit p)).1 = { s with cur := upd s.cur t (some r) } := by simp [step, h]
  show (let c := current (step s t (.inherit p)).1 t; (c.1, serve c.1.defaults (c.1.objs c.2).handlers ty)).2 = _
  rw [current_of_some _ t r h1, h2]

/-! ## Concurrent `register` -/

/-- `register_all_present`.  With `register` atomic, after ANY interleaving of registrations by
    any threads the table contains every key that was registered (and every key it had before). -/
theorem register_all_present (sched : List (Thread × Key × Val)) (tb : RTable) :
    (∀ t k v, (t, k, v) ∈ sched → ((runReg sched tb).lookup k).isSome) ∧
    (∀ k, (tb.lookup k).isSome → ((runReg sched tb).lookup k).isSome) := by
  refine ⟨?_, fun k h => runReg_keeps sched tb k h⟩
  induction sched generalizing tb with
  | nil => intro t k v h; cases h
  | cons hd rest ih =>
    intro t k v h
    obtain ⟨t', k', v'⟩ := hd
    cases h with
    | head => exact runReg_keeps rest _ k (by simp [regAtomic])
    | tail _ h' => exact ih (regAtomic tb k' v') t k v h'

/-- `register_needs_atomicity`.  If the body were two steps (read the table; write table + entry),
    the interleaving  A.read B.read A.write B.write  loses A's key. -/
theorem register_needs_atomicity :
    ((runReg2 [(0, .read), (1, .read), (0, .write 10 1), (1, .write 20 2)] ⟨[], fun _ => []⟩).table.lookup 10)
      = none := by
  decide

/-- the same four steps without preemption inside a body keep both keys -/
example : ((runReg2 [(0, .read), (0, .write 10 1), (1, .read), (1, .write 20 2)] ⟨[], fun _ => []⟩).table.lookup 10)
    = some 1 := by decide
example : ((runReg [(0, 10, 1), (1, 20, 2)] []).lookup 10).isSome ∧ ((runReg [(0, 10, 1), (1, 20, 2)] []).lookup 20).isSome := by
  decide

/-! ## Concurrent evaluation of a cached dataset -/

/-- `cache_own_value`.  Threads evaluate one cached dataset, thread `t` with options of
    fingerprint `fp t`; `val f` is the value computed from options with fingerprint `f`.  If the
    store satisfies the invariant "the entry under `f` is `val f`" and every finished thread holds
    its own value, then after ANY interleaving of the atomic dict operations of any threads the
    invariant still holds and every thread that has finished returned `val (fp t)` — the value
    belonging to ITS options. -/
theorem cache_own_value (val : Fp → Val) (fp : Thread → Fp) (sched : List Thread) (s : CState)
    (hI : Inv val s.store) (hD : ∀ t v, s.pc t = .done v → v = val (fp t)) :
    Inv val (runCache val fp sched s).store ∧
    ∀ t v, (runCache val fp sched s).pc t = .done v → v = val (fp t) := by
  induction sched generalizing s with
  | nil => exact ⟨hI, hD⟩
  | cons t rest ih =>
    have h := cstep_inv val fp s t hI hD
    exact ih (cstep val fp s t) h.1 h.2

/-- every atomic step of every thread preserves the store invariant -/
theorem cache_step_preserves_inv (val : Fp → Val) (fp : Thread → Fp) (s : CState) (t : Thread)
    (hI : Inv val s.store) (hD : ∀ t v, s.pc t = .done v → v = val (fp t)) :
    Inv val (cstep val fp s t).store :=
  (cstep_inv val fp s t hI hD).1

/-- non-vacuity: from the empty cache all threads start; two threads with different fingerprints
    interleaved step by step both finish, each with its own value -/
def c0 : CState := ⟨fun _ => none, fun _ => .start⟩
example : Inv (fun f => f * 100) c0.store ∧ ∀ t v, c0.pc t = .done v → v = (fun f => f * 100) (id t) := by
  constructor
  · intro f v h; cases h
  · intro t v h; cases h
example : (runCache (fun f => f * 100) id [1, 2, 1, 2, 1, 2] c0).pc 1 = .done 100 ∧
          (runCache (fun f => f * 100) id [1, 2, 1, 2, 1, 2] c0).pc 2 = .done 200 := by decide
/-- two threads with the SAME fingerprint: the second finds the entry of the first -/
example : (runCache (fun f => f * 100) (fun _ => 7) [1, 1, 2, 1, 2] c0).pc 2 = .done 700 := by decide

/-- `cache_own_value_evicting`.  The same statement when the backend may, between ANY two atomic
    operations of the threads, drop ANY entry (a bounded, expiring or shared backend): every
    interleaving of thread steps and evictions keeps the store invariant, and every finished thread
    returned the value of ITS options — a thread whose entry vanished between its `exists` and its
    `get` falls through to the computation (`Cached.evaluate`: `except CacheGetFailure: pass`). -/
theorem cache_own_value_evicting (val : Fp → Val) (fp : Thread → Fp) (evs : List CEv) (s : CState)
    (hI : Inv val s.store) (hD : ∀ t v, s.pc t = .done v → v = val (fp t)) :
    Inv val (runCacheEv val fp evs s).store ∧
    ∀ t v, (runCacheEv val fp evs s).pc t = .done v → v = val (fp t) := by
  induction evs generalizing s with
  | nil => exact ⟨hI, hD⟩
  | cons e rest ih =>
    cases e with
    | step t =>
      have h := cstep_inv val fp s t hI hD
      exact ih (cstep val fp s t) h.1 h.2
    | evict f => exact ih (evict s f) (evict_inv val s f hI) hD

/-- non-vacuity: thread 2 sees the entry of thread 1, the entry is dropped before thread 2 reads it,
    and thread 2 still finishes with its own value (it recomputes and stores it again) -/
example : (runCacheEv (fun f => f * 100) (fun _ => 7)
            [.step 1, .step 1, .step 1, .step 2, .evict 7, .step 2, .step 2, .step 2] c0).pc 2 = .done 700 := by
  decide

/-- `fall_through_needed`: the fall-through is what the statement rests on.  With a `get` that
    propagates its miss after `exists` said True, the same history fails in thread 2, while every
    history without an eviction runs exactly as before (`strict_agrees_without_eviction`). -/
theorem fall_through_needed :
    (runStrictEv (fun f => f * 100) (fun _ => 7)
      [.step 1, .step 1, .step 1, .step 2, .evict 7, .step 2] c0).isNone = true := by decide

/-- `strict_agrees_without_eviction`: on every history WITHOUT evictions (from any state in which an
    entry a thread has seen is present — the empty cache `c0` in particular) the variant without the
    fall-through runs exactly like the code: the two differ only where the backend loses an entry
    between `exists` and `get`, which is why no history over `MemoryCache` alone tells them apart. -/
theorem strict_agrees_without_eviction (val : Fp → Val) (fp : Thread → Fp) (sched : List Thread) (s : CState)
    (h : Seen fp s) :
    runStrictEv val fp (sched.map CEv.step) s = some (runCache val fp sched s) :=
  runStrict_of_seen val fp sched s h

example (fp : Thread → Fp) : Seen fp c0 := by intro t h; cases h

/-! ## Non-vacuity and the old code for handler contexts -/

def s0 : State := ⟨[], fun _ => ⟨[], fun _ => []⟩, fun _ => 0, fun _ => none⟩
/-- default 7 ↦ 70; thread 0 creates a runtime (0,0) overriding 7 ↦ 71 -/
def s1 : State := (step (step s0 0 (.registerDefault 7 70)).1 0 (.new [(7, 71)])).1

/-- thread 0 enters the shared object, thread 1 enters it too and requests, thread 0 leaves,
    thread 2 requests, thread 3 inherits from 1 (inside its block) and requests -/
def sched1 : Sched :=
  [(0, .enter (0, 0)), (1, .enter (0, 0)), (1, .run 7), (0, .exit (0, 0)), (0, .run 7), (2, .run 7),
   (3, .inherit 1), (1, .exit (0, 0)), (3, .run 7), (1, .run 7)]

example : obsOf 0 (runSched sched1 s1).2 = [.unit, .unit, .served 70] := by decide
example : obsOf 1 (runSched sched1 s1).2 = [.unit, .served 71, .unit, .served 70] := by decide
example : obsOf 2 (runSched sched1 s1).2 = [.served 70] := by decide
example : obsOf 3 (runSched sched1 s1).2 = [.unit, .served 71] := by decide

/-- the hypotheses of `thread_local_alone` are satisfiable: in `s1` no thread has a runtime or a
    saved stack, (0,0) exists, and threads 0, 1, 2 of `sched1` name only (0,0) and never inherit -/
example : ∀ t, ClosedSlice s1 t (slice s1 t) := by
  intro t
  constructor
  · intro r h; simp [slice, s1, s0, step, alloc] at h
  · intro r' r h
    simp only [slice, s1, s0, step, alloc] at h
    by_cases e : r' = (0, 0)
    · subst e; simp at h
    · simp [e] at h
example : Own s1 1 (0, 0) := Or.inr (by decide)
example : obsOf 1 (runSched sched1 s1).2 = obsOf 1 (runSched (sched1.filter (fun st => st.1 == 1)) s1).2 := by
  decide

/-- The OLD code (one `previous` field per object, F4): A enters r, B enters r, A leaves — A's slot
    now holds what B saved, not A's own prior runtime: B's block changed A's handler context. -/
def oldAB : OldState := ⟨fun t => if t = 0 then .some (0, 0) else if t = 1 then .some (1, 0) else .unset, fun _ => none⟩
theorem old_not_thread_local :
    (exitOld (enterOld (enterOld oldAB 0 (0, 5)) 1 (0, 5)) 0 (0, 5)).cur 0 ≠ oldAB.cur 0 := by
  decide
/-- … whereas without B's step A's slot is restored -/
example : (exitOld (enterOld oldAB 0 (0, 5)) 0 (0, 5)).cur 0 = oldAB.cur 0 := by decide

end Labrea.C15

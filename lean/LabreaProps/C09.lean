/-
  C09 — templates substitute options and parameters transitively and report their reads.
-/
import LabreaModel.MonadLemmas
import LabreaModel.ResolveLemmas
import LabreaModel.Eval
namespace Labrea

/-- **template_subst.** A Template evaluates to `str(resolve(text, options overlaid by {":name:": value}))`:
    parameters are evaluated under the same options first, in declaration order. -/
theorem template_evaluate (run : Run) (n id : Nat) (t : String) (params : List (String × Expr)) (o : V)
    (hp : ((findKeys t).filter isParamKey).all (fun k => params.any fun p => ":" ++ p.1 ++ ":" == k) = true) :
    templateOp run n id t params .evaluate o =
      (do
        let ps ← mapM' (fun (p : String × Expr) => do
          let v ← run .evaluate p.2 o
          pure (":" ++ p.1 ++ ":", v)) params
        let v ← resolveM n id (.str t) (mix o (.dict ps)) false
        pure (.str (pyStr v))) := by
  have : ((findKeys t).filter isParamKey).any (fun k => !(params.any fun p => ":" ++ p.1 ++ ":" == k)) = false := by
    rw [List.any_eq_false]
    intro k hk
    have := List.all_eq_true.mp hp k hk
    simp [this]
  simp [templateOp, this]

/-- the resolution of text under options depends on the options only through the keys in its read log
    (transitively resolved references included): any dictionary that answers those lookups alike gives the
    same text -/
theorem resolve_depends_only_on_reads (o o' : V) (n : Nat) (x : V) (r : Except RErr V) (rd : List String)
    (h : resolveR n x o = some (r, rd)) (ha : ∀ k ∈ rd, getDotted k o' = getDotted k o) :
    resolveR n x o' = some (r, rd) :=
  resolveR_congr o o' n x r rd h ha

/-- a text without template keys resolves to itself with escaped braces left literal, and reads nothing -/
theorem resolve_plain_text (n : Nat) (s : String) (o : V) (h : findKeys s = []) :
    resolveR (n + 1) (.str s) o = some (.ok (.str (unescape s)), []) := by
  simp [resolveR, h]

/-- a whole-string reference `{K}` keeps the type of the value it refers to and resolves it transitively;
    its read log starts with `K` -/
theorem resolve_whole_reference (n : Nat) (k : String) (o v : V) (r : Except RErr V) (rd : List String)
    (hf : findKeys ("{" ++ k ++ "}") = [k]) (hg : getDotted k o = .found v) (hr : resolveR n v o = some (r, rd)) :
    resolveR (n + 1) (.str ("{" ++ k ++ "}")) o = some (r, k :: rd) := by
  simp [resolveR, hf, hg, hr]

/-- a reference to a missing key fails with that key -/
theorem resolve_missing_key (n : Nat) (k : String) (o : V)
    (hf : findKeys ("{" ++ k ++ "}") = [k]) (hg : getDotted k o = .keyErr) :
    resolveR (n + 1) (.str ("{" ++ k ++ "}")) o = some (.error (.key k), [k]) := by
  simp [resolveR, hf, hg]

/-- `keys()` / `explain()` of a Template are the union of its parameters' keys and, for every plain `{KEY}`,
    the keys of `Option(KEY)` — which follow the value stored under `KEY` transitively -/
theorem template_keys_structure (run : Run) (n id : Nat) (t : String) (o : V) (op : Op) (h : op = .keys ∨ op = .explain)
    (hp : (findKeys t).filter isParamKey = []) :
    templateOp run n id t [] op o =
      (do
        let ks ← mapM' (fun (p : String × Nat) =>
          handle (run op (.option (tid id (8 + p.2)) p.1 Option.none Option.none) o) fun err =>
            match err with
            | f :: _ => if err.isKeyNotFound then raise (keyNotFound id f.key :: err) else raise err
            | [] => raise err)
          ((findKeys t).filter fun k => !isParamKey k).zipIdx
        pure (unionV (unionAll []) (unionAll ks))) := by
  rcases h with h | h <;> subst h <;> simp [templateOp, hp, mapM'] <;> rfl

/-- an Option whose value is templated at any nesting depth reports the keys of every templated string
    inside it: `keys` of a present Option = its own key ∪ domain keys ∪ ⋃ Template(text).keys over
    `_templated_strings(value)` -/
theorem templatedStrings_nested :
    templatedStrings (.dict [("a", .list [.str "{X}", .dict [("p", .str "{Y}/{Z}")]]), ("b", .int 1)]) = ["{X}", "{Y}/{Z}"] := by
  decide +kernel

/-! ### known finding F26 (kernel-evaluated): an option value that refers to a template parameter is
    substituted by `evaluate` (the parameters are part of the options `resolve` sees) while `keys` raises
    ValueError: the transient Template built from the option's value "requires parameters" -/
def c09Env : Env :=
  { β := fun f a k => .ok (.app f a k), binds := fun _ _ => .error "x", ov := fun _ => default, ds := fun _ => default,
    cacheKind := fun _ => .memory }

def f26Template : Expr := .template 2 "{:n:} -> {PATTERN}" [("n", .option 1 "N" Option.none Option.none)]
def f26Options : V := .dict [("N", .int 7), ("PATTERN", .str "part-{:n:}.csv")]

theorem keys_fail_where_substitution_succeeds_F26 :
    (match ev c09Env 20 .evaluate f26Template f26Options {} with
      | some (.ok v, _) => decide (v = .str "7 -> part-7.csv")
      | _ => false) = true ∧
    (match ev c09Env 20 .keys f26Template f26Options {} with
      | some (.error err, _) => decide (err = errOther "ValueError")
      | _ => false) = true := by
  constructor <;> decide +kernel

/-! ### the scanner agrees with the regex on the documented shapes (kernel-evaluated) -/
example : findKeys "a{A}b{S.X}c" = ["A", "S.X"] := by decide +kernel
example : findKeys "\\{A\\} {:p:} {A}{A}" = [":p:", "A"] := by decide +kernel
example : findKeys "{a{b}" = ["a{b"] := by decide +kernel
example : unescape "\\{A\\}" = "{A}" := by decide +kernel
example : isParamKey ":name_1:" = true ∧ isParamKey "a.b" = false ∧ isParamKey ":a.b:" = false := by decide +kernel

/-- transitive resolution to depth 3 -/
example : (resolveR 10 (.str "x{P}") (.dict [("P", .str "{Q}!"), ("Q", .str "{A}"), ("A", .int 7)])).map Prod.snd
    = some ["P", "Q", "A"] := by decide +kernel

end Labrea

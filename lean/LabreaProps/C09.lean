import LabreaModel.Eval
namespace Labrea
theorem c09_placeholder : True := trivial
end Labrea

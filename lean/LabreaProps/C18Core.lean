import LabreaModel.Eval
namespace Labrea
theorem c18core_placeholder : True := trivial
end Labrea

/-
  C18 (core part) — every operation of every expression is issued as a request; a substituting handler is
  honoured wherever the node is used.  (The class-creation hooks are in C18.lean / Hook.lean.)
-/
import LabreaModel.EvalLemmas
import LabreaModel.MonadLemmas
namespace Labrea

/-- **every_operation_is_a_request.** Every `evaluate`/`validate`/`keys`/`explain` of every node, at any
    depth, begins by issuing the corresponding request (the `req` event a pass-through handler records). -/
theorem every_operation_is_a_request (env : Env) (n : Nat) (op : Op) (e : Expr) (o : V) (s : St) (r : Except Err V) (s' : St)
    (h : ev env (n + 1) op e o s = some (r, s')) :
    ∃ rest, s'.events = rest ++ (Event.req op.name e.id :: s.events) := by
  have hrel : CacheRel (fun a b : St => ∃ l, b.events = l ++ a.events) :=
    { refl := fun _ => ⟨[], rfl⟩
      trans := fun ⟨l1, h1⟩ ⟨l2, h2⟩ => ⟨l2 ++ l1, by rw [h2, h1, List.append_assoc]⟩
      emit := fun _ ev _ => ⟨[ev], rfl⟩
      setCache := fun s c es => ⟨[], by unfold St.setCacheEntries; split <;> rfl⟩
      setScripts := fun _ _ => ⟨[], rfl⟩ }
  unfold ev at h
  simp only [bind_run, emit_run] at h
  have key : ∀ (m : M V), Spec (fun a b : St => ∃ l, b.events = l ++ a.events) (fun _ => True) m →
      m { s with events := Event.req op.name e.id :: s.events } = some (r, s') →
      ∃ rest, s'.events = rest ++ (Event.req op.name e.id :: s.events) := fun m hm hrun => (hm.run _ _ _ hrun).1
  have hlog : LogOk env (fun a b : St => ∃ l, b.events = l ++ a.events) := Or.inr fun _ m b => ⟨[Event.log m b], rfl⟩
  have hn := pres_nodeOp hrel.toStRel truePred (spec_ev hrel truePred env hlog n) env hlog n
    (fun x c op o => pres_cachedOp hrel truePred (spec_ev hrel truePred env hlog n) env x c op o) op e o
  cases op <;> simp only [] at h
  · cases hs : env.subst with
    | none =>
      simp only [hs] at h
      exact key _ (pres_wrapEvaluate hrel.toStRel truePred _ hn) h
    | some p =>
      obtain ⟨sid, v⟩ := p
      simp only [hs] at h
      by_cases hc : (sid == e.id && sid != 0) = true
      · simp only [hc, if_true] at h
        exact key _ (pres_pure hrel.toStRel truePred _) h
      · simp only [hc] at h
        exact key _ (pres_wrapEvaluate hrel.toStRel truePred _ hn) h
  all_goals exact key _ hn h

/-- the request log only grows: nothing a pass-through handler has observed is ever lost -/
theorem request_log_monotone (env : Env) (n : Nat) (op : Op) (e : Expr) (o : V) (s : St) (r : Except Err V) (s' : St)
    (h : ev env n op e o s = some (r, s')) : ∃ l, s'.events = l ++ s.events := by
  have hrel : CacheRel (fun a b : St => ∃ l, b.events = l ++ a.events) :=
    { refl := fun _ => ⟨[], rfl⟩
      trans := fun ⟨l1, h1⟩ ⟨l2, h2⟩ => ⟨l2 ++ l1, by rw [h2, h1, List.append_assoc]⟩
      emit := fun _ ev _ => ⟨[ev], rfl⟩
      setCache := fun s c es => ⟨[], by unfold St.setCacheEntries; split <;> rfl⟩
      setScripts := fun _ _ => ⟨[], rfl⟩ }
  exact ((spec_ev hrel truePred env (Or.inr fun _ m b => ⟨[Event.log m b], rfl⟩) n op e o).run s r s' h).1

/-- **substitute_honoured.** A handler that answers `EvaluateRequest` for node `sid` with `v` makes EVERY
    evaluation of that node — at whatever depth it is reached, under whatever options — yield `v` without
    running anything of the node. -/
theorem substitute_honoured (env : Env) (sid : Nat) (v : V) (hs : env.subst = some (sid, v)) (n : Nat) (e : Expr) (o : V)
    (s : St) (he : e.id = sid) (hne : sid ≠ 0) :
    ev env (n + 1) .evaluate e o s = some (.ok v, { s with events := Event.req "evaluate" e.id :: s.events }) := by
  unfold ev
  simp [bind_run, hs, he, hne, Op.name]

/-- other nodes are unaffected by the substitution handler -/
theorem substitute_only_that_node (env : Env) (sid : Nat) (v : V) (hs : env.subst = some (sid, v)) (n : Nat) (e : Expr) (o : V)
    (he : e.id ≠ sid) :
    ev env (n + 1) .evaluate e o = (do emit (.req "evaluate" e.id); wrapEvaluate e.id (nodeOp env (ev env n) n .evaluate e o)) := by
  unfold ev
  have : (sid == e.id) = false := by simpa using Ne.symm he
  simp [hs, this, Op.name]

/-- cache lookups and stores, and log emissions, are requests too -/
theorem cache_requests_issued (env : Env) (run : Run) (x : Expr) (c : Nat) (o : V) (s : St) :
    existsReq env run x c o s =
      (do if ← cacheDisabled env run o then pure false else backendExists env run x c o : M Bool)
        { s with events := Event.req "cache_exists" x.id :: s.events } := by
  simp [existsReq, bind_run]

/-! non-vacuity -/
def c18Env : Env :=
  { β := fun f a k => .ok (.app f a k), binds := fun _ _ => .error "x", ov := fun _ => default, ds := fun _ => default,
    cacheKind := fun _ => .memory, subst := some (7, .str "SUB") }

example : (match ev c18Env 20 .evaluate
      (.funApp 9 (.value 8 (.fn "f" [] [])) [.cached 7 (.option 1 "A" Option.none Option.none) 0] []) (.dict []) {} with
    | some (.ok v, _) => decide (v = .app "f" [.str "SUB"] [])
    | _ => false) = true := by decide +kernel

end Labrea

/-
  C18 — every core operation is an interceptable request (class-creation part).

  The four `__init_subclass__` hooks of labrea/types.py, abstracted in `LabreaModel.Hook`.

  FULL-STRENGTH STATEMENT (what one would like, and what is FALSE of the code without premises):
    for EVERY chain of class bodies built by successive subclassing from the hook roots, for each of
    the four methods `m`: the attribute `m` found on the class is a wrapper issuing `Request_m`, and
    `__labrea_m__` found on the class is the most-derived user implementation of `m`.
  It fails in exactly three ways (witnesses `premise_*_needed` below, all reproduced on the real
  code by the correspondence check):
    (a) a body binds `m` to a function that carries the marker without being a wrapper for `m`
        (marker set by hand, or the wrapper of another method): the hook skips it;
    (b) a body binds `m` to a genuine wrapper taken from a class whose implementation is not the
        one the new class inherits (`evaluate = Other.evaluate`): the hook skips it, the slot stays
        the inherited one, so the default handler does NOT run `Other`'s code;
    (c) a direct subclass of a root defines `__labrea_m__` but not `m`: the hook overwrites the
        slot with the root's abstract method.
  `hook_total` is the statement under the exact side conditions `ChainOK` (none of (a)–(c));
  `hook_marker_unconditional` is the part that holds with no side condition at all.
-/
import LabreaModel.HookLemmas
import LabreaModel.Generated.ClassTable

namespace Labrea.Hook

/-- For every base MRO `w0` whose ancestors hook `m` and every non-empty chain of class bodies
    (any length, any choice of what each body defines) satisfying the side conditions, on the most
    derived class: the attribute is the request-issuing wrapper for `m` and the slot is the
    most-derived user implementation. -/
theorem hook_total (m : Meth) (w0 : MRO) (r0 : Option Fn) (b : Body) (bs : List Body)
    (hroot : hooked w0 m = true) (hbase : Inv m w0 r0)
    (hok : ChainOK m (wrappedAt m w0) r0 (b :: bs)) :
    lookupAttr m (build w0 (b :: bs)) = some (.wrapper m) ∧
    lookupSlot m (build w0 (b :: bs)) = intended m r0 (b :: bs) :=
  (chain_ok m (b :: bs) w0 r0 hroot hbase hok).2 (by simp)

/-- non-vacuity: `Evaluatable` ← A(def all) ← B(def evaluate) ← C(nothing) ← D(`evaluate = C.evaluate`) -/
example :
    let bs := [defBody 100 Meth.all, defBody 101 [.evaluate], defBody 102 [],
               oneBody 103 .evaluate (.alias (some (.user 101 .evaluate)) .evaluate)]
    hooked stdEvaluatable .evaluate = true ∧
    Inv .evaluate stdEvaluatable (some (.user 4 .evaluate)) ∧
    ChainOK .evaluate (wrappedAt .evaluate stdEvaluatable) (some (.user 4 .evaluate)) bs ∧
    lookupSlot .evaluate (build stdEvaluatable bs) = some (.user 101 .evaluate) ∧
    lookupSlot .keys (build stdEvaluatable bs) = some (.user 100 .keys) := by decide

/-- The marker part needs no side condition: whatever the bodies do, the attribute found on a
    hooked class carries the marker (so a re-run of the hook never wraps twice). -/
theorem hook_marker_unconditional (m : Meth) (w0 : MRO) (b : Body) (bs : List Body)
    (hroot : hooked w0 m = true) (hdef : (lookupAttr m w0).isSome = true) :
    ∃ f, lookupAttr m (build w0 (b :: bs)) = some f ∧ f.marked = true :=
  chain_marked m (b :: bs) w0 hroot hdef (by simp)

example : hooked stdEvaluatable .keys = true ∧ (lookupAttr .keys stdEvaluatable).isSome = true := by decide

/-- Calling `m` on an instance issues exactly one request of type `m`, and its default handler
    runs exactly the code the author designated for that class. -/
theorem default_handler_runs_user_code (m : Meth) (w0 : MRO) (r0 : Option Fn) (b : Body) (bs : List Body)
    (hroot : hooked w0 m = true) (hbase : Inv m w0 r0)
    (hok : ChainOK m (wrappedAt m w0) r0 (b :: bs)) :
    call (build w0 (b :: bs)) m = ⟨[m], intended m r0 (b :: bs)⟩ := by
  obtain ⟨ha, hs⟩ := hook_total m w0 r0 b bs hroot hbase hok
  simp [call, ha, hs]

example : call (build stdEvaluatable [defBody 100 Meth.all, defBody 101 []]) .validate
    = ⟨[.validate], some (.user 100 .validate)⟩ := by decide

/-- Re-running any of the hooks that ran at class creation changes nothing. -/
theorem wrapper_idempotent (b : Body) (anc : MRO) (ms : List Meth)
    (h : ∀ k, k ∈ ms → hooked anc k = true) :
    runHooks ms anc (mkClass b anc) = mkClass b anc := by
  unfold mkClass
  exact runHooks_idem (hookOrder anc) ms anc (rawClass b) (fun k hk => (mem_hookOrder anc k).2 (h k hk))

example : ∀ k, k ∈ Meth.all → hooked stdEvaluatable k = true := by decide

/-- The four hooks write disjoint names: the class does not depend on the order (or multiplicity)
    in which the cooperative `__init_subclass__` bodies run. -/
theorem hook_order_irrelevant (b : Body) (anc : MRO) (ms : List Meth)
    (h : ∀ k, k ∈ ms ↔ hooked anc k = true) :
    runHooks ms anc (rawClass b) = mkClass b anc := by
  unfold mkClass
  exact runHooks_congr ms (hookOrder anc) anc (rawClass b)
    (fun k => (h k).trans (mem_hookOrder anc k).symm)

/-- the order actually taken for a subclass of `Evaluatable` (reverse MRO) -/
example : hookOrder stdEvaluatable = [.validate, .explain, .keys, .evaluate] := by decide

/-- Bases that define none of the eight names and no hook (`Generic`, `ABC`, `Protocol`,
    `Transformation`, `Iterable`, `type`) are invisible wherever they sit in the MRO: this is what
    reduces `Pipeline(Evaluatable, Iterable, Transformation)`, `PipelineStep`,
    `_DatasetClassMeta(type, Evaluatable)` and `Effect(Transformation, Validatable, Explainable, ABC)`
    to the single-inheritance chains of `hook_total`. -/
theorem inert_bases_invisible (m : Meth) (w : MRO) :
    lookupAttr m (w.filter (fun c => !c.inert)) = lookupAttr m w ∧
    lookupSlot m (w.filter (fun c => !c.inert)) = lookupSlot m w ∧
    hooked (w.filter (fun c => !c.inert)) m = hooked w m :=
  ⟨lookupAttr_drop_inert m w, lookupSlot_drop_inert m w, hooked_drop_inert m w⟩

example : (⟨9, fun _ => none, fun _ => none, fun _ => false⟩ : Cls).inert = true := by decide

/-- DECISION on `evaluate = Base.evaluate`: assigning the wrapper the class would inherit anyway
    (no override in between) is harmless — same attribute, same slot as not mentioning `m`. -/
theorem alias_inherited_harmless (m : Meth) (w : MRO) (prev : Option Fn) (b b' : Body)
    (hh : hooked w m = true) (hinv : Inv m w prev) (hw : wrappedAt m w = true)
    (hb : b.meth m = .alias prev m) (hs : b.slot m = false)
    (hb' : b'.meth m = .absent) (hs' : b'.slot m = false) :
    lookupAttr m (extend w b) = lookupAttr m (extend w b') ∧
    lookupSlot m (extend w b) = lookupSlot m (extend w b') := by
  have h1 := step_ok m w prev b hh hinv (by unfold StepOK; rw [hb]; simp [hw])
  have h2 := step_ok m w prev b' hh hinv (by unfold StepOK; rw [hb']; simp [hs'])
  refine ⟨h1.1.trans h2.1.symm, h1.2.trans ?_⟩
  rw [h2.2]
  simp [stepIntended, hb, hb', hs, hs']

example :
    let w := build stdEvaluatable [defBody 100 Meth.all]
    hooked w .evaluate = true ∧ Inv .evaluate w (some (.user 100 .evaluate)) ∧
    wrappedAt .evaluate w = true := by decide

/-- (b) is necessary: A defines evaluate, B overrides it, C says `evaluate = A.evaluate`.
    The attribute is still a wrapper, but the default handler runs B's code, not A's. -/
theorem premise_alias_needed :
    let bs := [defBody 100 Meth.all, defBody 101 [.evaluate],
               oneBody 102 .evaluate (.alias (some (.user 100 .evaluate)) .evaluate)]
    ¬ ChainOK .evaluate true (some (.user 4 .evaluate)) bs ∧
    lookupAttr .evaluate (build stdEvaluatable bs) = some (.wrapper .evaluate) ∧
    intended .evaluate (some (.user 4 .evaluate)) bs = some (.user 100 .evaluate) ∧
    (call (build stdEvaluatable bs) .evaluate).ran = some (.user 101 .evaluate) := by decide

/-- (b') the same from an unrelated class: `class D(Evaluatable): evaluate = Value.evaluate`
    leaves `Evaluatable`'s `raise NotImplementedError` stub in the slot. -/
theorem premise_alias_foreign_needed :
    let bs := [oneBody 100 .evaluate (.alias (some (.user 5 .evaluate)) .evaluate)]
    ¬ ChainOK .evaluate false (some (.user 4 .evaluate)) bs ∧
    intended .evaluate (some (.user 4 .evaluate)) bs = some (.user 5 .evaluate) ∧
    call (build stdEvaluatable bs) .evaluate = ⟨[.evaluate], some (.slotfn 4 .evaluate)⟩ := by decide

/-- (a) is necessary: a function with a hand-set marker is not wrapped — no request is issued. -/
theorem premise_no_fake_needed :
    let bs := [defBody 100 Meth.all, oneBody 101 .evaluate (.fn (.fake 7))]
    ¬ ChainOK .evaluate true (some (.user 4 .evaluate)) bs ∧
    call (build stdEvaluatable bs) .evaluate = ⟨[], some (.fake 7)⟩ := by decide

/-- (a') the wrapper of another method under the wrong name issues the wrong request. -/
theorem premise_same_method_needed :
    let bs := [defBody 100 Meth.all, oneBody 101 .validate (.alias (some (.user 100 .keys)) .keys)]
    ¬ ChainOK .validate true (some (.user 1 .validate)) bs ∧
    call (build stdEvaluatable bs) .validate = ⟨[.keys], some (.user 100 .keys)⟩ := by decide

/-- (c) is necessary: `class X(Validatable): def __labrea_validate__(…)` has its slot overwritten
    by the abstract `Validatable.validate`. -/
theorem premise_slot_needed :
    let bs := [oneBody 100 .validate .absent true]
    ¬ ChainOK .validate (wrappedAt .validate [stdValidatable]) (some (.user 1 .validate)) bs ∧
    intended .validate (some (.user 1 .validate)) bs = some (.slotfn 100 .validate) ∧
    lookupSlot .validate (build [stdValidatable] bs) = some (.user 1 .validate) := by decide

/-! ### Instantiation on the class table generated from the package sources -/

/-- Every class of the package satisfies the premises of `hook_total` (base invariant and side
    conditions, for each method its ancestors hook); re-checked on every run against the table the
    translator regenerates from `labrea/*.py`. -/
theorem classTable_checked : tableCheck classTable = true := by decide

/-- Hence, for every class of the package and every hooked method: the attribute found on the
    class is the wrapper and the slot found on the class is what its body designates. -/
theorem classTable_hook_total (rows : List Row) (h : evalTable classTable [] = some rows)
    (r : Row) (hr : r ∈ rows) (m : Meth) (hh : hooked r.anc m = true) :
    lookupAttr m r.mro = some (.wrapper m) ∧
    lookupSlot m r.mro = stepIntended m (resolved m r.anc) r.body := by
  have hc := classTable_checked
  unfold tableCheck at hc
  rw [h] at hc
  exact checkRow_sound r ((List.all_eq_true.1 hc) r hr) m hh

example : (evalTable classTable []).isSome = true := by decide

/-- Purely syntactic reading of the same fact: on every package class, the slot is the `def` of
    the nearest class (walking the bases upwards) whose body defines the method. -/
theorem classTable_slot_is_most_derived_def : slotIsMostDerivedDef classTable = true := by decide

end Labrea.Hook

import LabreaModel.Eval
namespace Labrea
theorem c03_placeholder : True := trivial
end Labrea

/-
  C03 — keys() is sufficient and present-only; fingerprints depend on nothing else.

  This file proves the second half for every expression: the fingerprint is a function of the reported
  keys and the values stored under them, equal for dictionaries that agree on them and different as soon
  as one of those values differs, and every key it is built from is present.  The first half
  (sufficiency: re-evaluation on the restricted dictionary) is decided on the implementation by the
  restrict-and-re-evaluate oracle; it is FALSE in general on the current tree (known findings F9, F18,
  F19, F22 — witnesses in /verif/corpus and below).
-/
import LabreaModel.MonadLemmas
import LabreaModel.KeysLemmas
namespace Labrea

/-- `[{k: get_dotted_key(k, o)} for k in ks]`, `none` when some key is not present -/
def fpPure (o : V) : List String → Option (List V)
  | [] => some []
  | k :: ks =>
    match getDotted k o, fpPure o ks with
    | .found v, some rest => some (V.dict [(k, v)] :: rest)
    | _, _ => Option.none

/-- what `Cacheable.fingerprint` computes after `keys()`: exactly `fpPure` (plus read events) -/
theorem fpItems_eq_fpPure (o : V) : ∀ (ks : List String) (s : St) (items : List V) (s' : St),
    fpItems o ks s = some (.ok items, s') → fpPure o ks = some items
  | [], s, items, s', h => by
    simp only [fpItems, pure_run] at h
    cases h; rfl
  | k :: ks, s, items, s', h => by
    simp only [fpItems, getKey, readKey, bind_run, emit_run, pure_run] at h
    cases hg : getDotted k o with
    | found v =>
      simp only [hg, pure_run] at h
      cases hr : fpItems o ks { s with events := Event.read k :: s.events } with
      | none => simp [hr] at h
      | some p =>
        obtain ⟨r, s1⟩ := p
        cases r with
        | error e => simp [hr] at h
        | ok rest =>
          simp only [hr] at h
          cases h
          have ih := fpItems_eq_fpPure o ks _ rest _ hr
          simp [fpPure, hg, ih]
    | keyErr => simp [hg] at h
    | typeErr => simp [hg] at h

/-- **keys_present (fingerprint form).** A fingerprint exists only if every key it is built from is present. -/
theorem fpPure_present (o : V) : ∀ (ks : List String) (items : List V), fpPure o ks = some items →
    ∀ k ∈ ks, ∃ v, getDotted k o = .found v
  | [], _, _, k, hk => by simp at hk
  | k0 :: ks, items, h, k, hk => by
    simp only [fpPure] at h
    cases hg : getDotted k0 o with
    | found v =>
      cases hr : fpPure o ks with
      | none => simp [hg, hr] at h
      | some rest =>
        rcases List.mem_cons.mp hk with rfl | hk'
        · exact ⟨v, hg⟩
        · exact fpPure_present o ks rest hr k hk'
    | keyErr => simp [hg] at h
    | typeErr => simp [hg] at h

/-- **fp_function.** Dictionaries that agree on the reported keys have the same fingerprint, whatever else
    they contain. -/
theorem fingerprint_agree (o o' : V) : ∀ (ks : List String), (∀ k ∈ ks, getDotted k o' = getDotted k o) →
    fpPure o' ks = fpPure o ks
  | [], _ => rfl
  | k :: ks, h => by
    simp only [fpPure, h k (by simp), fingerprint_agree o o' ks (fun k' hk' => h k' (by simp [hk']))]

/-- **fp_injective.** Equal fingerprints over the same reported keys force equal values under every one of
    them: the fingerprint differs whenever the value under a reported key differs. -/
theorem fingerprint_injective (o o' : V) : ∀ (ks : List String) (a : List V), fpPure o ks = some a → fpPure o' ks = some a →
    ∀ k ∈ ks, getDotted k o' = getDotted k o
  | [], _, _, _, k, hk => by simp at hk
  | k0 :: ks, a, h, h', k, hk => by
    simp only [fpPure] at h h'
    cases hg : getDotted k0 o with
    | found v =>
      cases hg' : getDotted k0 o' with
      | found v' =>
        cases hr : fpPure o ks with
        | none => simp [hg, hr] at h
        | some rest =>
          cases hr' : fpPure o' ks with
          | none => simp [hg', hr'] at h'
          | some rest' =>
            simp only [hg, hr, Option.some.injEq] at h
            simp only [hg', hr', Option.some.injEq] at h'
            subst h
            simp only [List.cons.injEq, V.dict.injEq, Prod.mk.injEq, true_and, and_true] at h'
            rcases List.mem_cons.mp hk with rfl | hk'
            · rw [hg, hg', h'.1]
            · exact fingerprint_injective o o' ks rest hr (by rw [hr', h'.2]) k hk'
      | keyErr => simp [hg'] at h'
      | typeErr => simp [hg'] at h'
    | keyErr => simp [hg] at h
    | typeErr => simp [hg] at h

/-- the whole fingerprint of a node: `keys`, sorted, then `fpPure` — nothing else of the options enters -/
theorem fingerprintOf_spec (run : Run) (x : Expr) (o : V) (s s' : St) (fp : V)
    (h : fingerprintOf run x o s = some (.ok fp, s')) :
    ∃ ks s1 items, run .keys x o s = some (.ok ks, s1) ∧ fpPure o (sortStrings (keyStrings ks)) = some items ∧
      fp = .list items := by
  simp only [fingerprintOf, bind_run] at h
  cases hk : run .keys x o s with
  | none => simp [hk] at h
  | some p =>
    obtain ⟨r, s1⟩ := p
    cases r with
    | error e => simp [hk] at h
    | ok ks =>
      simp only [hk] at h
      cases hi : fpItems o (sortStrings (keyStrings ks)) s1 with
      | none => simp [hi] at h
      | some q =>
        obtain ⟨r2, s2⟩ := q
        cases r2 with
        | error e => simp [hi] at h
        | ok items =>
          simp only [hi, pure_run, Option.some.injEq, Prod.mk.injEq, Except.ok.injEq] at h
          exact ⟨ks, s1, items, rfl, fpItems_eq_fpPure o _ _ _ _ hi, h.1.symm⟩

/-- sorting makes the fingerprint independent of the order in which `keys()` enumerates its set:
    `insertSorted` keeps a sorted list sorted -/
theorem insertSorted_mem (a : String) : ∀ (l : List String) (x : String), x ∈ insertSorted a l ↔ x = a ∨ x ∈ l
  | [], x => by simp [insertSorted]
  | b :: bs, x => by
    simp only [insertSorted]
    split
    · simp
    · simp only [List.mem_cons, insertSorted_mem a bs x]
      constructor
      · rintro (h | h | h)
        · exact Or.inr (Or.inl h)
        · exact Or.inl h
        · exact Or.inr (Or.inr h)
      · rintro (h | h | h)
        · exact Or.inr (Or.inl h)
        · exact Or.inl h
        · exact Or.inr (Or.inr h)

theorem sortStrings_mem (l : List String) (x : String) : x ∈ sortStrings l ↔ x ∈ l := by
  induction l with
  | nil => simp [sortStrings]
  | cons a as ih =>
    simp only [sortStrings, List.foldr_cons] at ih ⊢
    rw [insertSorted_mem]; simp [ih]

/-! ### the first half is false on the current tree: a witness (known finding F18), kernel-evaluated -/

def c03Env : Env :=
  { β := fun f a _ => if f = "neg" then (match a with | [.int i] => .ok (.int (-i)) | _ => .error "TypeError") else .error "TypeError",
    binds := fun _ _ => .error "x", ov := fun _ => default, ds := fun _ => default, cacheKind := fun _ => .memory }

/-- `coalesce(switch('D', {1: Option('Q')}, Option('B') >> neg), Option('B'))` -/
def f18Expr : Expr :=
  .coalesce 9 [ .switch 5 (.option 1 "D" Option.none Option.none) [(.int 1, .option 2 "Q" Option.none Option.none)]
                  (some (.apply 4 (.option 3 "B" Option.none Option.none) (.value 6 (.fn "neg" [] [])))),
                .option 7 "B" Option.none Option.none ]

def outcome (op : Op) (e : Expr) (o : V) : Option (Except Err V) := (ev c03Env 30 op e o {}).map Prod.fst

/-- equal `keys()` (hence equal fingerprints: both dictionaries agree on `B`), different values -/
theorem keys_not_sufficient_F18 :
    (match outcome .keys f18Expr (.dict [("B", .int 5)]), outcome .keys f18Expr (.dict [("D", .int 1), ("B", .int 5)]) with
      | some (.ok a), some (.ok b) => decide (a = b) && decide (a = .set [.str "B"])
      | _, _ => false) = true ∧
    (match outcome .evaluate f18Expr (.dict [("B", .int 5)]), outcome .evaluate f18Expr (.dict [("D", .int 1), ("B", .int 5)]) with
      | some (.ok a), some (.ok b) => decide (a = .int (-5)) && decide (b = .int 5)
      | _, _ => false) = true := by
  constructor <;> decide +kernel

/-! ### present-only, for the whole interpreter -/

/-- **keys_present_only.** For every expression (all 23 node kinds, any nesting, datasets with overloads, pre-set and
    default options, Map, templates, caches in any state and of any kind), every option dictionary and every
    environment: each key `keys(o)` reports is a string naming an option that IS PRESENT in the caller's dictionary
    `o` — also below `with_options` / dataset `options=` / `default_options=` wrappers and `Map` assignments, where
    the inner expression is inspected under *merged* options: keys the wrapper provides are dropped, what remains
    was found in the caller's own options (`walk_mix_found`).  The one exception is `AllOptions`, which reports
    the dictionary's top-level names whatever they are (`allOptions_keys_top_level`): the hypothesis excludes
    runs that consulted one. -/
theorem keys_present_only (env : Env) (n : Nat) (e : Expr) (o : V) (s s' : St) (ks : V)
    (h : ev env n .keys e o s = some (.ok ks, s'))
    (hq : ∀ evt ∈ s'.events, evt.isReadAll = false) :
    ∀ k ∈ ks.setElems, ∃ key w, k = V.str key ∧ getDotted key o = Lk.found w :=
  (tri_ev env n .keys e o).post s ks s' h hq rfl

/-- consequently the fingerprint of the node can be computed: every reported key has a value -/
theorem reported_keys_have_values (env : Env) (n : Nat) (e : Expr) (o : V) (s s' : St) (ks : V)
    (h : ev env n .keys e o s = some (.ok ks, s')) (hq : ∀ evt ∈ s'.events, evt.isReadAll = false) :
    ∀ key ∈ keyStrings ks, ∃ w, getDotted key o = Lk.found w := by
  intro key hkey
  simp only [keyStrings, List.mem_filterMap] at hkey
  obtain ⟨k, hk, hs⟩ := hkey
  obtain ⟨key', w, rfl, hw⟩ := keys_present_only env n e o s s' ks h hq k hk
  simp only [Option.some.injEq] at hs
  exact ⟨w, hs ▸ hw⟩

/-- when every key of the list has a value the fingerprint items can be computed (no `KeyError`) -/
theorem fpItems_total (o : V) : ∀ (ks : List String), (∀ k ∈ ks, ∃ w, getDotted k o = Lk.found w) →
    ∀ s, ∃ items s', fpItems o ks s = some (.ok items, s')
  | [], _, s => ⟨[], s, by simp [fpItems, pure_run]⟩
  | k :: ks, h, s => by
    obtain ⟨w, hw⟩ := h k (by simp)
    obtain ⟨items, s', hr⟩ := fpItems_total o ks (fun k' hk' => h k' (by simp [hk'])) { s with events := Event.read k :: s.events }
    exact ⟨V.dict [(k, w)] :: items, s', by simp [fpItems, getKey, readKey, bind_run, emit_run, pure_run, hw, hr]⟩

/-- **fingerprint_defined.** Whenever `keys(o)` of an expression succeeds (and no `AllOptions` was consulted), the
    cache key built from it — `[{k: get_dotted_key(k, o)} for k in sorted(keys)]` — can be computed: no reported key
    is missing from `o`, from any state. -/
theorem fingerprint_defined (env : Env) (n : Nat) (e : Expr) (o : V) (s s' : St) (ks : V)
    (h : ev env n .keys e o s = some (.ok ks, s')) (hq : ∀ evt ∈ s'.events, evt.isReadAll = false) (t : St) :
    ∃ items t', fpItems o (sortStrings (keyStrings ks)) t = some (.ok items, t') :=
  fpItems_total o _ (fun k hk => reported_keys_have_values env n e o s s' ks h hq k ((sortStrings_mem _ _).mp hk)) t

/-- `AllOptions.keys(o)` is the set of top-level names of `o` -/
theorem allOptions_keys_top_level (env : Env) (run : Run) (n id : Nat) (kvs : List (String × V)) (s : St) :
    nodeOp env run n .keys (.allOptions id) (.dict kvs) s =
      some (.ok (keySet (akeys kvs)), { s with events := Event.readAll :: s.events }) := by
  simp [nodeOp, bind_run, emit_run, pure_run]

/-- non-vacuity: a key read below pre-set options that merge with the caller's section is reported and present;
    the key the wrapper provides is not reported -/
example : (match ev c03Env 30 .keys
      (.withOptions 4 (.apply 3 (.option 1 "S.X" Option.none Option.none) (.option 2 "S.Y" Option.none Option.none))
        (.dict [("S", .dict [("Y", .int 1)])]) true)
      (.dict [("S", .dict [("X", .int 2)])]) {} with
    | some (.ok ks, s') => decide (ks = .set [.str "S.X"]) && s'.events.all (fun e => !e.isReadAll)
    | _ => false) = true := by decide +kernel

/-! non-vacuity of the fingerprint theorems -/
example : fpPure (.dict [("A", .int 1), ("Z", .int 9)]) ["A"] = some [.dict [("A", .int 1)]] := by decide +kernel
example : fpPure (.dict [("A", .int 1), ("Z", .int 9)]) ["A"] = fpPure (.dict [("A", .int 1)]) ["A"] := by decide +kernel

/-! ### What the function slot of an application reads is part of its keys -/

/-- `keys` / `explain` of an application (`FunctionApplication`, `PartialApplication`) are the union of what the
    expression in the FUNCTION slot reports and what the arguments report -/
theorem application_keys_structure (env : Env) (run : Run) (id : Nat) (f : Expr) (args : List Expr)
    (kw : List (String × Expr)) (p : Bool) (op : Op) (h : op = .keys ∨ op = .explain) (o : V) :
    applicationOp env run id f args kw p op o = (do
      let a ← run op f o
      let b ← pseudo op (tid id 1) (do
        let x ← pseudo op (tid id 2) (unionOver run op args o)
        let y ← pseudo op (tid id 3) (unionOver run op (kw.map Prod.snd) o)
        pure (unionV x y))
      pure (unionV a b)) := by
  rcases h with h | h <;> subst h <;> simp [applicationOp]

/-- every key the function slot reports is a key of the application: if `keys` of the application succeeds with `ks`,
    `keys` of the function expression succeeded (from the same state) with a set contained in `ks` -/
theorem application_keys_cover_function (env : Env) (run : Run) (id : Nat) (f : Expr) (args : List Expr)
    (kw : List (String × Expr)) (p : Bool) (o : V) (s s' : St) (ks : V)
    (h : applicationOp env run id f args kw p .keys o s = some (.ok ks, s')) :
    ∃ kf s1, run .keys f o s = some (.ok kf, s1) ∧ ∀ k ∈ kf.setElems, k ∈ ks.setElems := by
  rw [application_keys_structure env run id f args kw p .keys (Or.inl rfl)] at h
  simp only [bind_run] at h
  cases hf : run .keys f o s with
  | none => simp [hf] at h
  | some q =>
    obtain ⟨r, s1⟩ := q
    cases r with
    | error e => simp [hf] at h
    | ok kf =>
      refine ⟨kf, s1, rfl, ?_⟩
      simp only [hf] at h
      generalize hb : (pseudo Op.keys (tid id 1) (do
        let x ← pseudo Op.keys (tid id 2) (unionOver run Op.keys args o)
        let y ← pseudo Op.keys (tid id 3) (unionOver run Op.keys (kw.map Prod.snd) o)
        pure (unionV x y))) s1 = rb at h
      cases rb with
      | none => simp at h
      | some q2 =>
        obtain ⟨r2, s2⟩ := q2
        cases r2 with
        | error e => simp at h
        | ok b =>
          simp [pure_run] at h
          obtain ⟨hk, _⟩ := h
          subst hk
          intro k hk
          simp only [unionV, V.setElems, unionKeys, List.mem_append]
          exact Or.inl hk

end Labrea

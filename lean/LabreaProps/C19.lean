/-
  C19 — dataset classes: members are evaluations; equality follows the relevant options.

  "Instantiating a dataset class with options sets every evaluatable member to its evaluation
   under those options and every plain member to its constant, and the class's validate, keys and
   explain are the union over its members.  Two instances compare equal exactly when the options
   each was built from, restricted to the keys the class reports for them (including nested dotted
   keys), are equal, and repr shows those keys with their values."

  All theorems are about an arbitrary class: any number of members, each an arbitrary quadruple of
  functions of the options (`Evaluatable`), keys of any nesting depth.  Model:
  `LabreaModel/DatasetClass.lean`; helper lemmas: `LabreaModel/DatasetClassLemmas.lean`.
-/
import LabreaModel.DatasetClassLemmas
namespace Labrea.DatasetClass
open Labrea

/-! ## members -/

/-- after a successful `cls(o)`, attribute by attribute in `dir` order: a plain member holds its
    constant, an evaluatable member holds its evaluation under `o` (a `__`-member is untouched) -/
theorem members_evaluated {c : DsClass} {o : V} {i : Inst} (h : instantiate c o = .ok i) :
    i.cls = c.name ∧ AllPairs (AttrOK o) c.members i.attrs := by
  obtain ⟨attrs, K, R, hm, _, _, rfl⟩ := instantiate_ok h
  exact ⟨rfl, evalMembers_ok hm⟩

example : ∃ i, instantiate cOverlap oXY = .ok i ∧
    i.attrs = [("a", .val (.dict [("X", .int 2), ("Y", .int 3)])), ("ax", .val (.int 2)),
      ("b", .val (.int 3)), ("c", .val (.int 9)), ("d", .val (.list [.int 5]))] :=
  ⟨_, rfl, by decide⟩

/-- the first member (in `dir` order) whose evaluation fails decides the outcome of `cls(o)` -/
theorem members_first_failure {c : DsClass} {o : V} {pre post : List (String × Member)}
    {n : String} {e : Evaluatable} {x : Err} (hm : c.members = pre ++ (n, .ev e) :: post)
    (hpre : ∀ m ∈ pre, ∃ a, evalMember o m = .ok a) (hn : hidden n = false)
    (he : e.evaluate o = .error x) : instantiate c o = .error x := by
  simp [instantiate, hm, evalMembers_first_failure hpre hn he]

example : errOf (instantiate cOverlap (.dict [("A", .dict [])])) = some (.keyNotFound ["A", "X"]) := by
  decide

/-! ## metaclass operations -/

/-- `keys` and `explain` of the class succeed exactly when those of every (non-`__`) evaluatable
    member do, and then report exactly the union; `validate` of the class passes exactly when every
    member's does; the members looked at are the evaluatable attributes whose name does not start
    with `__` -/
theorem class_ops_union (c : DsClass) (o : V) :
    ((∃ K, classKeys c o = .ok K) ↔ ∀ e ∈ evs c.members, ∃ Ke, e.keys o = .ok Ke) ∧
    (∀ K, classKeys c o = .ok K →
      ∀ k, k ∈ K ↔ ∃ e ∈ evs c.members, ∃ Ke, e.keys o = .ok Ke ∧ k ∈ Ke) ∧
    ((∃ K, classExplain c o = .ok K) ↔ ∀ e ∈ evs c.members, ∃ Ke, e.explain o = .ok Ke) ∧
    (∀ K, classExplain c o = .ok K →
      ∀ k, k ∈ K ↔ ∃ e ∈ evs c.members, ∃ Ke, e.explain o = .ok Ke ∧ k ∈ Ke) ∧
    (classValidate c o = .ok () ↔ ∀ e ∈ evs c.members, e.validate o = .ok ()) ∧
    (∀ e, e ∈ evs c.members ↔ ∃ n, (n, Member.ev e) ∈ c.members ∧ hidden n = false) :=
  ⟨collect_ok_iff _ _, fun _ h k => collect_mem h k, collect_ok_iff _ _,
   fun _ h k => collect_mem h k, validateAll_ok_iff o _, fun _ => mem_evs⟩

/-- …and when a member fails, the first failing one (in `dir` order) decides the exception -/
theorem class_ops_first_failure {c : DsClass} {o : V} {pre post : List Evaluatable}
    {e : Evaluatable} {x : Err} (hm : evs c.members = pre ++ e :: post) :
    ((∀ e' ∈ pre, ∃ Ke, e'.keys o = .ok Ke) → e.keys o = .error x → classKeys c o = .error x) ∧
    ((∀ e' ∈ pre, ∃ Ke, e'.explain o = .ok Ke) → e.explain o = .error x →
      classExplain c o = .error x) ∧
    ((∀ e' ∈ pre, e'.validate o = .ok ()) → e.validate o = .error x →
      classValidate c o = .error x) := by
  refine ⟨fun h1 h2 => ?_, fun h1 h2 => ?_, fun h1 h2 => ?_⟩
  · simp only [classKeys, hm]; exact collect_first_failure h1 h2
  · simp only [classExplain, hm]; exact collect_first_failure h1 h2
  · simp only [classValidate, hm]; exact validateAll_first_failure h1 h2

example : (classKeys cOverlap oXY).toOption = some [["A"], ["A", "X"]] ∧
    (classExplain cOverlap (.dict [])).toOption = some [["A"], ["A", "X"]] ∧
    errOf (classValidate cOverlap (.dict [])) = some (.keyNotFound ["A"]) ∧
    errOf (classValidate cOverlap oXY) = Option.none := by decide

/-! ## the restriction lemma -/

/-- **core lemma.**  Let every key of `K` be non-empty, free of index segments and present in `o`
    (`Present`; `K` in any order, with any prefix overlap such as `A` together with `A.X`).  Then
    the fold `set_dotted_key(k, get_dotted_key(k, o), acc)` over `K` succeeds and the dictionary
    `R` it builds is `o` restricted to `K`:
    (1) `get_dotted_key(k, R) = get_dotted_key(k, o)` for every `k ∈ K`, and (2) likewise for every
    key under a key of `K`; (3) `R` holds nothing else: every entry of `R`, at any depth, lies on the
    way to, at, or under a key of `K`; so (4) an index-free key that is unrelated to every key of
    `K` is not found in `R`. -/
theorem repr_options_lookup {o : V} {K : List Path} (hK : Present o K) :
    ∃ R, reprOptions o K [] = .ok R ∧ IsRestrict o K R ∧
      (∀ k ∈ K, walk k (.dict R) = walk k o) ∧
      (∀ k ∈ K, ∀ s, walk (k ++ s) (.dict R) = walk (k ++ s) o) ∧
      (∀ p v, p ≠ [] → dget p (.dict R) = some v →
        (∃ k ∈ K, k <+: p) ∨ (∃ k ∈ K, p <+: k)) ∧
      (∀ p, p ≠ [] → NoIdx p → (∀ k ∈ K, ¬ k <+: p ∧ ¬ p <+: k) →
        ∀ v, walk p (.dict R) ≠ .found v) := by
  obtain ⟨R, hR, spec⟩ := reprOptions_isRestrict hK
  refine ⟨R, hR, spec, spec.lookup, fun k hk s => spec.lookup_under hk s, spec.exact, ?_⟩
  intro p hp hn hun v hv
  rcases spec.exact p v hp ((walk_found_iff_dget hn _ v).1 hv) with ⟨k, hk, h⟩ | ⟨k, hk, h⟩
  · exact (hun k hk).1 h
  · exact (hun k hk).2 h

example : Present oXY [["A"], ["A", "X"]] := concrete_present (name := "C") cOverlap_keysOK (o := oXY) rfl

/-- the side condition is needed, clause by clause.  *Index segments*: with `L = [1, 2]` the key
    `L.0` is present, the fold builds `{'L': {'0': 1}}`, and `L.0` is **not** found in it; together
    with the key `L` the fold itself fails (the real code raises `TypeError` from
    `set_dotted_key`).  *Presence*: a reported key that is absent makes the fold fail (`KeyError`). -/
theorem repr_options_side_conditions_needed :
    (walk ["L", "0"] (.dict [("L", .list [.int 1, .int 2])]) = .found (.int 1) ∧
     (reprOptions (.dict [("L", .list [.int 1, .int 2])]) [["L", "0"]] []).toOption
        = some [("L", .dict [("0", .int 1)])] ∧
     walk ["L", "0"] (.dict [("L", .dict [("0", .int 1)])]) = .keyErr) ∧
    errOf (reprOptions (.dict [("L", .list [.int 1, .int 2])]) [["L"], ["L", "0"]] [])
      = some .rawType ∧
    errOf (reprOptions (.dict []) [["A"]] []) = some (.rawKey ["A"]) := by decide

/-! ## equality of instances -/

/-- **equality, in terms of lookups.**  For two instances of one class built from `o₁` and `o₂`, whose
    reported keys `K₁`, `K₂` satisfy the side condition: each `_repr_options` is the restriction of
    its options to its keys, and the instances compare equal exactly when each restricted
    dictionary holds, at every key reported for the *other* instance, a value Python-equal to (here:
    including, in both directions) the other options' value. -/
theorem eq_iff_restricted_lookups {c : DsClass} {o₁ o₂ : V} {i₁ i₂ : Inst} {K₁ K₂ : List Path}
    (h₁ : instantiate c o₁ = .ok i₁) (h₂ : instantiate c o₂ = .ok i₂)
    (hK₁ : classKeys c o₁ = .ok K₁) (hK₂ : classKeys c o₂ = .ok K₂)
    (hP₁ : Present o₁ K₁) (hP₂ : Present o₂ K₂) :
    IsRestrict o₁ K₁ i₁.reprOpts ∧ IsRestrict o₂ K₂ i₂.reprOpts ∧
    (instEq i₁ i₂ = true ↔
      (∀ k ∈ K₁, LookLe (walk k o₁) (walk k (.dict i₂.reprOpts))) ∧
      (∀ k ∈ K₂, LookLe (walk k o₂) (walk k (.dict i₁.reprOpts)))) := by
  obtain ⟨a₁, K₁', R₁, _, hk1, hR₁, rfl⟩ := instantiate_ok h₁
  obtain ⟨a₂, K₂', R₂, _, hk2, hR₂, rfl⟩ := instantiate_ok h₂
  rw [hK₁] at hk1; cases hk1
  rw [hK₂] at hk2; cases hk2
  obtain ⟨R₁', hR₁', spec₁⟩ := reprOptions_isRestrict hP₁.sortKeys
  rw [hR₁] at hR₁'; cases hR₁'
  obtain ⟨R₂', hR₂', spec₂⟩ := reprOptions_isRestrict hP₂.sortKeys
  rw [hR₂] at hR₂'; cases hR₂'
  refine ⟨spec₁.of_sortKeys, spec₂.of_sortKeys, ?_⟩
  simp only [instEq, dictEqv, beq_self_eq_true, Bool.true_and, Bool.and_eq_true]
  rw [le_restricted_iff hP₁ hR₁ spec₁.of_sortKeys, le_restricted_iff hP₂ hR₂ spec₂.of_sortKeys]

/-- **equality.**  Two instances of one class compare equal exactly when the options each was
    built from, restricted to the keys the class reports for them, are equal as Python
    dictionaries — for *any* dictionaries `R₁`, `R₂` that are those restrictions (`IsRestrict`: the
    keys with their values and nothing else; such a dictionary exists by `repr_options_lookup` and
    is unique up to Python equality by `restrict_unique`). -/
theorem eq_iff_restricted {c : DsClass} {o₁ o₂ : V} {i₁ i₂ : Inst} {K₁ K₂ : List Path}
    (h₁ : instantiate c o₁ = .ok i₁) (h₂ : instantiate c o₂ = .ok i₂)
    (hK₁ : classKeys c o₁ = .ok K₁) (hK₂ : classKeys c o₂ = .ok K₂)
    (hP₁ : Present o₁ K₁) (hP₂ : Present o₂ K₂) {R₁ R₂ : List (String × V)}
    (r₁ : IsRestrict o₁ K₁ R₁) (r₂ : IsRestrict o₂ K₂ R₂) :
    instEq i₁ i₂ = true ↔ dictEqv (.dict R₁) (.dict R₂) = true := by
  obtain ⟨s₁, s₂, _⟩ := eq_iff_restricted_lookups h₁ h₂ hK₁ hK₂ hP₁ hP₂
  have u₁ := restrict_unique hP₁ s₁ r₁
  have u₂ := restrict_unique hP₂ s₂ r₂
  obtain ⟨_, _, _, _, _, _, rfl⟩ := instantiate_ok h₁
  obtain ⟨_, _, _, _, _, _, rfl⟩ := instantiate_ok h₂
  simp only [instEq, beq_self_eq_true, Bool.true_and]
  constructor
  · intro h; exact dictEqv_trans (dictEqv_trans (dictEqv_symm u₁) h) u₂
  · intro h; exact dictEqv_trans (dictEqv_trans u₁ h) (dictEqv_symm u₂)

/-- the restriction of the options to the reported keys is well defined: it exists (the fold
    builds one) and any two are equal as Python dictionaries -/
theorem restricted_exists_unique {o : V} {K : List Path} (hK : Present o K) :
    (∃ R, IsRestrict o K R) ∧
    ∀ R R', IsRestrict o K R → IsRestrict o K R' → dictEqv (.dict R) (.dict R') = true := by
  obtain ⟨R, _, spec⟩ := reprOptions_isRestrict hK
  exact ⟨⟨R, spec⟩, fun _ _ a b => restrict_unique hK a b⟩

example : (∃ R, IsRestrict oXY [["A"], ["A", "X"]] R) ∧ (∃ R, IsRestrict oYX [["A"], ["A", "X"]] R) :=
  ⟨(restricted_exists_unique (concrete_present (name := "C") cOverlap_keysOK (o := oXY) rfl)).1,
   (restricted_exists_unique (concrete_present (name := "C") cOverlap_keysOK (o := oYX) rfl)).1⟩

/-- **equality, when each key set lies on or under the other** (in particular when the two key
    sets coincide, and in the prefix-overlap case `K₁ = {A, A.X}`, `K₂ = {A}`): the instances
    compare equal exactly when the two option dictionaries agree (Python `==`) at every reported
    key. -/
theorem eq_iff_restricted_covering {c : DsClass} {o₁ o₂ : V} {i₁ i₂ : Inst} {K₁ K₂ : List Path}
    (h₁ : instantiate c o₁ = .ok i₁) (h₂ : instantiate c o₂ = .ok i₂)
    (hK₁ : classKeys c o₁ = .ok K₁) (hK₂ : classKeys c o₂ = .ok K₂)
    (hP₁ : Present o₁ K₁) (hP₂ : Present o₂ K₂) (hc₁ : Covers K₂ K₁) (hc₂ : Covers K₁ K₂) :
    instEq i₁ i₂ = true ↔
      (∀ k ∈ K₁, LookLe (walk k o₁) (walk k o₂)) ∧ (∀ k ∈ K₂, LookLe (walk k o₂) (walk k o₁)) := by
  obtain ⟨s₁, s₂, h⟩ := eq_iff_restricted_lookups h₁ h₂ hK₁ hK₂ hP₁ hP₂
  rw [h]
  have e₁ : ∀ k ∈ K₁, walk k (.dict i₂.reprOpts) = walk k o₂ := by
    intro k hk
    obtain ⟨k', hk', t, rfl⟩ := hc₁ k hk
    exact s₂.lookup_under hk' t
  have e₂ : ∀ k ∈ K₂, walk k (.dict i₁.reprOpts) = walk k o₁ := by
    intro k hk
    obtain ⟨k', hk', t, rfl⟩ := hc₂ k hk
    exact s₁.lookup_under hk' t
  constructor
  · rintro ⟨a, b⟩
    exact ⟨fun k hk => e₁ k hk ▸ a k hk, fun k hk => e₂ k hk ▸ b k hk⟩
  · rintro ⟨a, b⟩
    exact ⟨fun k hk => (e₁ k hk).symm ▸ a k hk, fun k hk => (e₂ k hk).symm ▸ b k hk⟩

/-- **equality, same reported keys**: the instances compare equal exactly when the options agree
    at every reported key — whatever else the dictionaries contain, in whatever order. -/
theorem eq_iff_restricted_same_keys {c : DsClass} {o₁ o₂ : V} {i₁ i₂ : Inst} {K₁ K₂ : List Path}
    (h₁ : instantiate c o₁ = .ok i₁) (h₂ : instantiate c o₂ = .ok i₂)
    (hK₁ : classKeys c o₁ = .ok K₁) (hK₂ : classKeys c o₂ = .ok K₂)
    (hP₁ : Present o₁ K₁) (hP₂ : Present o₂ K₂) (hsame : ∀ k, k ∈ K₁ ↔ k ∈ K₂) :
    instEq i₁ i₂ = true ↔ ∀ k ∈ K₁, LookEqv (walk k o₁) (walk k o₂) := by
  rw [eq_iff_restricted_covering h₁ h₂ hK₁ hK₂ hP₁ hP₂
    (fun k hk => ⟨k, (hsame k).1 hk, List.prefix_refl k⟩)
    (fun k hk => ⟨k, (hsame k).2 hk, List.prefix_refl k⟩)]
  constructor
  · rintro ⟨a, b⟩ k hk
    exact ⟨a k hk, b k ((hsame k).1 hk)⟩
  · intro h
    exact ⟨fun k hk => (h k hk).1, fun k hk => (h k ((hsame k).2 hk)).2⟩

/-- for classes made of concrete members (options with or without constant defaults, constants,
    datasets over options) whose keys are index-free, the side condition holds by itself -/
theorem eq_iff_restricted_concrete {name : String} {ms : List (String × MemberSpec)}
    (hms : ∀ m ∈ ms, m.2.KeysOK) {o₁ o₂ : V} {i₁ i₂ : Inst} {K₁ K₂ : List Path}
    (h₁ : instantiate (concreteClass name ms) o₁ = .ok i₁)
    (h₂ : instantiate (concreteClass name ms) o₂ = .ok i₂)
    (hK₁ : classKeys (concreteClass name ms) o₁ = .ok K₁)
    (hK₂ : classKeys (concreteClass name ms) o₂ = .ok K₂) (hsame : ∀ k, k ∈ K₁ ↔ k ∈ K₂) :
    instEq i₁ i₂ = true ↔ ∀ k ∈ K₁, LookEqv (walk k o₁) (walk k o₂) :=
  eq_iff_restricted_same_keys h₁ h₂ hK₁ hK₂ (concrete_present hms hK₁) (concrete_present hms hK₂)
    hsame

/-- non-vacuity: all hypotheses hold for the overlap class on `oXY` / `oYX` (same relevant
    values, other key order, other irrelevant key) and the instances are equal … -/
example : ∃ i₁ i₂ K, instantiate cOverlap oXY = .ok i₁ ∧ instantiate cOverlap oYX = .ok i₂ ∧
    classKeys cOverlap oXY = .ok K ∧ classKeys cOverlap oYX = .ok K ∧
    Present oXY K ∧ Present oYX K ∧ instEq i₁ i₂ = true := by
  refine ⟨_, _, _, rfl, rfl, rfl, rfl, ?_, ?_, ?_⟩
  · exact concrete_present (name := "C") cOverlap_keysOK (o := oXY) rfl
  · exact concrete_present (name := "C") cOverlap_keysOK (o := oYX) rfl
  · decide

/-- … and differ when only the nested relevant key `A.X` differs -/
example : ∃ i₁ i₂, instantiate cOverlap oXY = .ok i₁ ∧ instantiate cOverlap oX9 = .ok i₂ ∧
    instEq i₁ i₂ = false := ⟨_, _, rfl, rfl, by decide⟩

/-- prefix overlap with *different* key sets: members `Option('A')` and `Option('A.X', 7)`; from
    `{A: {X: 2}}` the class reports `{A, A.X}`, from `{A: {}}` it reports `{A}`; each set lies on or
    under the other, so `eq_iff_restricted_covering` applies (and the instances differ) -/
example : (classKeys cPre (.dict [("A", .dict [("X", .int 2)])])).toOption = some [["A"], ["A", "X"]] ∧
    (classKeys cPre (.dict [("A", .dict [])])).toOption = some [["A"]] ∧
    Covers [["A"]] [["A"], ["A", "X"]] ∧ Covers [["A"], ["A", "X"]] [["A"]] ∧
    (∃ i₁ i₂, instantiate cPre (.dict [("A", .dict [("X", .int 2)])]) = .ok i₁ ∧
      instantiate cPre (.dict [("A", .dict [])]) = .ok i₂ ∧ instEq i₁ i₂ = false) := by
  refine ⟨by decide, by decide, ?_, ?_, ⟨_, _, rfl, rfl, by decide⟩⟩
  · intro k hk
    simp at hk
    rcases hk with rfl | rfl
    · exact ⟨["A"], by simp, List.prefix_refl _⟩
    · exact ⟨["A"], by simp, ⟨["X"], rfl⟩⟩
  · intro k hk
    simp at hk
    subst hk
    exact ⟨["A"], by simp, List.prefix_refl _⟩

/-! ## repr -/

/-- `repr(inst)` is the class name applied to the restricted dictionary, built over the keys in
    sorted (dotted-string) order -/
theorem repr_shows_restricted {c : DsClass} {o : V} {i : Inst} {K : List Path}
    (h : instantiate c o = .ok i) (hK : classKeys c o = .ok K) (hP : Present o K) :
    reprInst i = c.name ++ "(" ++ pyRepr (.dict i.reprOpts) ++ ")" ∧
    reprOptions o (sortKeys K) [] = .ok i.reprOpts ∧ IsRestrict o K i.reprOpts := by
  obtain ⟨a, K', R, _, hk, hR, rfl⟩ := instantiate_ok h
  rw [hK] at hk; cases hk
  obtain ⟨R', hR', spec⟩ := reprOptions_isRestrict hP.sortKeys
  rw [hR] at hR'; cases hR'
  exact ⟨rfl, hR, spec.of_sortKeys⟩

example : (instantiate cOverlap oYX).toOption.map reprInst
    = some "C({'A': {'Y': 3, 'X': 2}})" := by decide

/-! ## the code before the repair -/

/-- `options.get(dotted_key)` violated the equality theorem: with one member on `A.X`, options
    with `A.X = 1` and `A.X = 2` gave equal instances (both `_repr_options = {'A': {'X': None}}`),
    although the reported key `A.X` is present in both with different values — while the repaired
    fold tells them apart -/
theorem old_code_violates :
    ((instantiateOld cAX (.dict [("A", .dict [("X", .int 1)])])).toOption.map (·.reprOpts)
        = some [("A", .dict [("X", .none)])] ∧
     (instantiateOld cAX (.dict [("A", .dict [("X", .int 2)])])).toOption.map (·.reprOpts)
        = some [("A", .dict [("X", .none)])]) ∧
    (∃ i₁ i₂, instantiateOld cAX (.dict [("A", .dict [("X", .int 1)])]) = .ok i₁ ∧
      instantiateOld cAX (.dict [("A", .dict [("X", .int 2)])]) = .ok i₂ ∧ instEq i₁ i₂ = true) ∧
    (walk ["A", "X"] (.dict [("A", .dict [("X", .int 1)])]) = .found (.int 1) ∧
     walk ["A", "X"] (.dict [("A", .dict [("X", .int 2)])]) = .found (.int 2) ∧
     V.le (.int 1) (.int 2) = false) ∧
    (∃ i₁ i₂, instantiate cAX (.dict [("A", .dict [("X", .int 1)])]) = .ok i₁ ∧
      instantiate cAX (.dict [("A", .dict [("X", .int 2)])]) = .ok i₂ ∧ instEq i₁ i₂ = false) :=
  ⟨by decide, ⟨_, _, rfl, rfl, by decide⟩, by decide, ⟨_, _, rfl, rfl, by decide⟩⟩

end Labrea.DatasetClass

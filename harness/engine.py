"""Engine shared by the property checks that rest on the core model (C01–C06, C08–C12, C16, C17).

A property supplies
  * `programs(rng, tier)`   → list of (program, meta) — corpus first, then generated;
  * `facets`                → which observation facets its theorems consume (correspondence);
  * `oracle(prog, meta, impl_obs)` → list of (what, op-index, detail): violations of the property's
                               own statement observed on the IMPLEMENTATION alone;
  * optionally `phase2(...)` → follow-up programs built from phase-1 observations.

The engine runs implementation and model, diffs the facets (→ correspondence findings), applies
the oracle (→ failing-input findings), shrinks what it reports, classifies listed known findings
and measures coverage.
"""
from __future__ import annotations

import copy
import json
import random
import time
from dataclasses import dataclass, field
from typing import Any, Callable, Dict, List, Optional, Sequence, Tuple

from common import Ctx, Exploration, Finding, known_findings, run_driver
from core import diff_program, run_impl, run_model
from pylib import dumps

Program = Dict[str, Any]


@dataclass
class CoreProp:
    pid: str
    facets: Sequence[str]
    programs: Callable[[random.Random, str], List[Tuple[Program, Dict[str, Any]]]]
    oracle: Callable[[Program, Dict[str, Any], Any, Any], List[Tuple[str, int, Any]]]
    phase2: Optional[Callable[[List[Tuple[Program, Dict[str, Any]]], List[Any], List[Any], random.Random, str],
                              List[Tuple[Program, Dict[str, Any]]]]] = None
    classify: Optional[Callable[[Program, Dict[str, Any], str], Optional[str]]] = None
    nontrivial: Optional[Callable[[Program, Any], bool]] = None
    rule: str = ""
    hashseeds: Sequence[str] = ("0",)
    layer0: Sequence[str] = ()      # layer-0 functions of the model tied to their Python twins in this check (layer0.py)


def _ops_slice(prog: Program, keep: Sequence[int]) -> Program:
    p = dict(prog)
    p["ops"] = [prog["ops"][i] for i in keep]
    return p


def shrink(prog: Program, meta: Dict[str, Any], still_fails: Callable[[Program], bool], budget: int = 40) -> Program:
    """greedy delta-debugging on the operation history, then on dictionary keys"""
    best = prog
    tries = 0
    # 1. drop operations (mutators included), last to first, in halves then singly
    n = len(best["ops"])
    chunk = max(n // 2, 1)
    while chunk >= 1 and tries < budget:
        i = 0
        changed = False
        while i < len(best["ops"]) and tries < budget:
            keep = [j for j in range(len(best["ops"])) if not (i <= j < i + chunk)]
            if not keep:
                i += chunk
                continue
            cand = _ops_slice(best, keep)
            tries += 1
            if still_fails(cand):
                best = cand
                changed = True
            else:
                i += chunk
        if chunk == 1 and not changed:
            break
        chunk = max(chunk // 2, 1) if chunk > 1 else (1 if changed else 0)
        if chunk == 0:
            break
    # 2. drop top-level dictionary keys of every op
    for oi, op in enumerate(list(best["ops"])):
        if "o" not in op or not isinstance(op["o"], dict):
            continue
        for k in list(op["o"].keys()):
            if tries >= budget:
                break
            cand = copy.deepcopy(best)
            cand["ops"][oi]["o"].pop(k, None)
            tries += 1
            if still_fails(cand):
                best = cand
    return best


def _meta_for(cand: Program, meta: Dict[str, Any]) -> Dict[str, Any]:
    """metadata refers to operations by index: shrinking is only valid when indices are preserved,
    so candidates carry their own remapped metadata in `cand['_meta']` when the shrinker made one"""
    return cand.get("_meta", meta)


def _witness_holds(kw: Dict[str, Any], impl: List[Any]) -> bool:
    """conditions: {"op": i, "status": "ok"|"err", "innermost": cls?, "value": json?} — all must hold"""
    for c in kw.get("conds", []):
        o = impl[c["op"]] if c["op"] < len(impl) else None
        if not isinstance(o, dict) or "r" not in o:
            return False
        if o["r"][0] != c["status"]:
            return False
        if "innermost" in c and (o["r"][0] != "err" or not o["r"][1] or o["r"][1][-1][0] != c["innermost"]):
            return False
        if "outermost" in c and (o["r"][0] != "err" or not o["r"][1] or o["r"][1][0][0] != c["outermost"]):
            return False
        if "raises" in c and (o["r"][0] != "err" or not any(fr[0] == c["raises"] for fr in o["r"][1])):
            return False
        if "value" in c and dumps(o["r"][1]) != dumps(c["value"]):
            return False
    return True


def explore_core(ctx: Ctx, prop: CoreProp) -> Exploration:
    rng = random.Random(ctx.seed * 7919 + 17)
    exp = Exploration()
    # a known finding excuses a failure of THIS property only if the committed file lists it for this property
    listed = {k["id"] for k in known_findings().get("known", []) if prop.pid in k.get("properties", [])}
    items = prop.programs(rng, ctx.tier)
    stats = {"programs": 0, "ops": 0, "disagreements": 0, "oracle_failures": 0, "known_seen": {},
             "errors_hit": {}, "kinds": {}, "fuel_skipped": 0}
    if prop.layer0:
        import layer0
        bad, counts = layer0.tie(random.Random(ctx.seed * 31 + 5), ctx.tier, prop.layer0)
        stats["layer0_cases"] = counts
        for b in bad[:5]:
            exp.findings.append(Finding("correspondence", f"layer-0 function `{b['function']}` of the model disagrees with its Python twin",
                                        {"layer0": b, "engine": "core"}))
    nontrivial = set()
    samples: List[Any] = []

    def process(batch: List[Tuple[Program, Dict[str, Any]]], hashseed: str):
        progs = [p for p, _ in batch]
        impl = run_impl(progs, hashseed=hashseed)
        model = run_model(progs)
        for (prog, meta), a, b in zip(batch, impl, model):
            stats["programs"] += 1
            stats["ops"] += len(prog.get("ops", []))
            for n in prog.get("nodes", []):
                stats["kinds"][n["k"]] = stats["kinds"].get(n["k"], 0) + 1
            if isinstance(a, list):
                for o in a:
                    if isinstance(o, dict) and isinstance(o.get("r"), list):
                        if o["r"][0] == "err" and o["r"][1]:
                            inner = o["r"][1][-1][0]
                            stats["errors_hit"][inner] = stats["errors_hit"].get(inner, 0) + 1
                        elif o["r"][0] == "fuel":
                            stats["fuel_skipped"] += 1
            # correspondence
            if not meta.get("no_model"):
                ds = diff_program(prog, a, b, meta.get("facets") or prop.facets)
                if ds:
                    stats["disagreements"] += 1
                    d0 = ds[0]

                    def fails_corr(cand, _f=d0["facet"]):
                        ia = run_impl([cand], hashseed=hashseed)[0]
                        ib = run_model([cand])[0]
                        return any(x["facet"] == _f for x in diff_program(cand, ia, ib, meta.get("facets") or prop.facets))

                    small = shrink(prog, meta, fails_corr) if len(exp.findings) < 3 else prog
                    ia = run_impl([small], hashseed=hashseed)[0]
                    ib = run_model([small])[0]
                    dd = diff_program(small, ia, ib, meta.get("facets") or prop.facets)
                    exp.findings.append(Finding(
                        "correspondence",
                        f"model and implementation disagree on facet '{d0['facet']}' (op {d0['op']})",
                        {"program": small, "meta": meta, "diff": (dd or ds)[:3], "hashseed": hashseed,
                         "engine": "core"}))
            # replay of a listed known finding: does its witness still fail the way the finding says?
            kw = meta.get("known_witness")
            if kw is not None and isinstance(a, list):
                if kw["id"] in listed and _witness_holds(kw, a):
                    stats["known_seen"][kw["id"]] = stats["known_seen"].get(kw["id"], 0) + 1
                    exp.findings.append(Finding("failing-input", kw["what"], {"program": prog, "meta": meta, "engine": "core"},
                                                known_id=kw["id"]))
                continue
            # property oracle on the implementation
            if isinstance(a, list):
                vs = prop.oracle(prog, meta, a, b)
                expected = meta.get("expect_known")
                if vs:
                    stats["oracle_failures"] += 1
                    match = meta.get("expect_known_match")
                    new_vs = []
                    for what, opi, detail in vs:
                        kid = None
                        if expected in listed and (not match or any(m in what for m in match)):
                            kid = expected
                        if kid is None and prop.classify is not None and not meta.get("classify_off"):
                            # every trigger predicate that matches is a candidate; only findings the committed file
                            # lists for THIS property excuse the failure
                            c = prop.classify(prog, meta, what)
                            cands = c if isinstance(c, (list, tuple)) else [c]
                            kid = next((x for x in cands if x in listed), None)
                        if kid:
                            if stats["known_seen"].get(kid, 0) == 0:
                                exp.findings.append(Finding("failing-input", what, {"program": prog, "meta": meta,
                                                                                    "detail": detail, "engine": "core"}, known_id=kid))
                            stats["known_seen"][kid] = stats["known_seen"].get(kid, 0) + 1
                        else:
                            new_vs.append((what, opi, detail))
                    if new_vs:
                        # relations are indexed by operation, so the history is reported as generated
                        exp.findings.append(Finding(
                            "failing-input", new_vs[0][0],
                            {"program": prog, "meta": meta, "detail": new_vs[0][2], "impl": a,
                             "all": [w for w, _, _ in new_vs][:10], "hashseed": hashseed, "engine": "core"}))
                if prop.nontrivial is not None and prop.nontrivial(prog, a):
                    nontrivial.add(dumps({"n": prog.get("nodes"), "o": prog.get("ops")}))
            if len(samples) < 4 and not meta.get("corpus"):
                samples.append({"nodes": prog.get("nodes", [])[:12], "ops": prog.get("ops", [])[:3]})
        return impl, model

    B = 250
    all_impl: List[Any] = []
    all_model: List[Any] = []
    for i in range(0, len(items), B):
        im, mo = process(items[i:i + B], prop.hashseeds[0])
        all_impl += im
        all_model += mo
    if prop.phase2 is not None:
        items2 = prop.phase2(items, all_impl, all_model, rng, ctx.tier)
        for i in range(0, len(items2), B):
            process(items2[i:i + B], prop.hashseeds[0])
    for hs in prop.hashseeds[1:]:
        # (the first quarter — corpus and random programs — plus the directed programs that ask for it)
        q = max(len(items) // 4, 20)
        sub = items[:q] + [it for it in items[q:] if it[1].get("hs")]
        for i in range(0, len(sub), B):
            process(sub[i:i + B], hs)
    exp.coverage = {
        "programs": stats["programs"],
        "evaluations": stats["ops"],
        "disagreements_checked": stats["programs"],
        "disagreements_found": stats["disagreements"],
        "oracle_failures": stats["oracle_failures"],
        "known_findings_replayed": stats["known_seen"],
        "distinct_nontrivial": len(nontrivial),
        "rule": prop.rule,
        "distribution": {"node_kinds": stats["kinds"], "innermost_error_classes": stats["errors_hit"],
                         "fuel_skipped": stats["fuel_skipped"]},
        "samples": samples or [{"note": "corpus only"}],
    }
    if stats.get("layer0_cases"):
        exp.coverage["layer0_tie_cases"] = stats["layer0_cases"]
    return exp


def replay_core(prop: CoreProp, payload: Dict[str, Any]) -> int:
    """re-execute a stored program on the current tree and the model; print the comparison"""
    prog = payload.get("program")
    meta = payload.get("meta", {})
    if prog is None and payload.get("layer0"):
        import layer0
        c = [payload["layer0"]["function"], payload["layer0"]["args"]]
        m = layer0._norm_model(c[0], json.loads(run_driver("driver", [dumps(c)], args=["prim"])[0]))
        t = layer0.run_twin([c])[0]
        print("case  :", dumps(c)[:2000])
        print("model :", dumps(m)[:2000])
        print("python:", dumps(t)[:2000])
        return 1 if dumps(m) != dumps(t) else 0
    if prog is None:
        print("replay file has no program (theorem / audit failure): rebuild with ./check", prop.pid)
        print(json.dumps({k: payload.get(k) for k in ("kind", "what", "modules", "all_broken")}, indent=1)[:3000])
        return 1
    hs = payload.get("hashseed", "0")
    ia = run_impl([prog], hashseed=hs)[0]
    ib = run_model([prog])[0]
    ds = diff_program(prog, ia, ib, meta.get("facets") or prop.facets)
    vs = prop.oracle(prog, meta, ia, ib) if isinstance(ia, list) else [("runner error", -1, ia)]
    print("implementation:", dumps(ia)[:3000])
    print("model         :", dumps(ib)[:3000])
    print("correspondence diffs:", dumps(ds)[:2000])
    print("property oracle     :", dumps(vs)[:2000])
    return 1 if (ds or vs) else 0
